import Got.Drv.Common
import Got.Model.Ants
import Std.Data.HashSet
/-
drv_ants (properties C07, C08): monitor for virtual-time scenarios of the ants pool.

script line:   <head> | <task> ; <task> ; ...
  head      =  words:  n <N>  (= pool option WithSize(N))  |  popts <o>,<o>,…  pool option list, o = s<int> WithSize,
               c0/c1 WithContextBuilder(nil / a builder returning one cancellable context)  |  basecancel <X>  that
               context is cancelled at instant X  |  old  |  park <site>:<ordinal>:<until>
  task      =  <g> <time> <opts> <beh>,<beh>,...        opts = "-" or a comma separated TaskOption LIST applied left to
               right: t<int> WithTimeout, r<int> WithRetry, d0/d1 WithDiscardOnBusy, e0/e1 WithError(nil / callback)
            |  <g> <time> <T> <R> <discard 0/1> <cb 0/1> <beh>,...   legacy form = t<T>,r<R>,d<discard>[,e1]
  beh       =  <dur>:<hon 0/1>:<val>:<errcode>     behaviour of the j-th handler invocation of that task
                (runs `dur` ns then returns (val, errcode); errcode 0 = nil; a handler with hon=1 returns
                (nil, E999) as soon as its ctx is done)
  task i is sent by client goroutine g at virtual instant `time` (or as soon as g's previous Send returned).
  park s:o:u = the o-th call of ants.VerifHook(site s), s ∈ 1..4, blocks until instant u.
monitor input:  <script line> TAB <observation of the real code>
output:         ok | ok overflow | ok por-miss | ok unchecked <why> | reject model-allows: <outcome> || <outcome> ...
                (a reject is issued only after a COMPLETE exploration, repeated without the partial-order / slot
                reductions; every cut-off by the state cap gives `ok overflow`)
                (after 40 rejected lines the rest is answered `ok unchecked`; `stress …` lines are oracle-only)
The monitor explores EVERY interleaving of the model (Got.Model.Ants.step) under maximal progress
for the scripted environment and accepts iff the observation is one of the possible final outcomes.
`drv_ants outcomes` prints the set of model outcomes for each script line instead.
-/
namespace Got.Drv.Ants
open Got.Model.Ants Got.Drv

structure Beh where
  dur : Nat
  hon : Bool
  v : Nat
  e : Nat
  deriving Inhabited

structure TaskSpec where
  g : Nat
  time : Nat
  opts : Opts
  behs : Array Beh
  deriving Inhabited

structure Park where
  site : Nat
  ord : Nat
  until_ : Nat

structure Scen where
  cfg : Cfg
  parks : List Park
  tasks : Array TaskSpec
  nopor : Bool := false

structure DState where
  s : State
  c1 : Nat := 0
  c2 : Nat := 0
  c3 : Nat := 0
  c4 : Nat := 0
  arrived : List (Nat × Nat × Nat × Nat) := []    -- (site, task, attempt, release time)

def errOf (c : Nat) : Err := if c = 0 then .nil else .h c
def cancelledErr : Err := .h 999

/-! parsing -/
def parseBeh (s : String) : Option Beh :=
  match s.splitOn ":" with
  | [d, h, v, e] =>
    match d.toNat?, h.toNat?, v.toNat?, e.toNat? with
    | some d, some h, some v, some e => some { dur := d, hon := h != 0, v := v, e := e }
    | _, _, _, _ => none
  | _ => none

def parseTOpt (s : String) : Option TOpt :=
  let v := (s.drop 1).toString
  if s.startsWith "t" then v.toInt?.map TOpt.timeout
  else if s.startsWith "r" then v.toInt?.map TOpt.retry
  else if s.startsWith "d" then v.toNat?.map (fun n => TOpt.discard (n != 0))
  else if s.startsWith "e" then v.toNat?.map (fun n => TOpt.onError (n != 0))
  else none

def parseTOpts (s : String) : Option (List TOpt) :=
  if s = "-" then some [] else (s.splitOn ",").mapM parseTOpt

def parsePOpt (s : String) : Option POpt :=
  let v := (s.drop 1).toString
  if s.startsWith "s" then v.toInt?.map POpt.size
  else if s.startsWith "c" then v.toNat?.map (fun n => POpt.ctxBuilder (n != 0))
  else none

def parseTask (s : String) : Option TaskSpec :=
  match words s with
  | [g, tm, opts, behs] =>
    match g.toNat?, tm.toNat?, parseTOpts opts, (behs.splitOn ",").mapM parseBeh with
    | some g, some tm, some os, some bs => some { g := g, time := tm, opts := applyOptions os, behs := bs.toArray }
    | _, _, _, _ => none
  | [g, tm, T, R, d, cb, behs] =>
    match g.toNat?, tm.toNat?, T.toInt?, R.toInt?, d.toNat?, cb.toNat? with
    | some g, some tm, some T, some R, some d, some cb =>
      match (behs.splitOn ",").mapM parseBeh with
      | some bs =>
        -- legacy form: each option applied once
        some { g := g, time := tm,
               opts := applyOptions ([.timeout T, .retry R, .discard (d != 0)] ++ (if cb != 0 then [.onError true] else [])),
               behs := bs.toArray }
      | none => none
    | _, _, _, _, _, _ => none
  | _ => none

structure Head where
  popts : List POpt := []
  old : Bool := false
  parks : List Park := []
  baseCancel : Option Nat := none

def parseHeadWords : List String → Head → Option Head
  | [], h => some { h with parks := h.parks.reverse }
  | "n" :: n :: r, h =>
    match n.toInt? with
    | some n => parseHeadWords r { h with popts := h.popts ++ [.size n] }
    | none => none
  | "popts" :: p :: r, h =>
    match (p.splitOn ",").mapM parsePOpt with
    | some ps => parseHeadWords r { h with popts := h.popts ++ ps }
    | none => none
  | "basecancel" :: x :: r, h =>
    match x.toNat? with
    | some x => parseHeadWords r { h with baseCancel := some x }
    | none => none
  | "old" :: r, h => parseHeadWords r { h with old := true }
  | "park" :: p :: r, h =>
    match p.splitOn ":" with
    | [s, o, u] =>
      match s.toNat?, o.toNat?, u.toNat? with
      | some s, some o, some u => parseHeadWords r { h with parks := { site := s, ord := o, until_ := u } :: h.parks }
      | _, _, _ => none
    | _ => none
  | _, _ => none

/-- the pool's options are folded by the model's `applyPoolOptions`; a scripted cancellation of the base context only
    matters if a caller-supplied context builder is in effect -/
def parseHead (ws : List String) : Option (Cfg × List Park) :=
  match parseHeadWords ws {} with
  | none => none
  | some h =>
    let po := applyPoolOptions h.popts
    some ({ N := po.size, old := h.old, baseCancelAt := if po.customCtx then h.baseCancel else none }, h.parks)

def parseScen (line : String) : Option Scen :=
  match line.splitOn " | " with
  | [h, b] =>
    match parseHead (words h) with
    | none => none
    | some (c, ps) =>
      let ts := (b.splitOn " ; ").filter (fun x => (words x) ≠ [])
      match ts.mapM parseTask with
      | some ts => some { cfg := c, parks := ps, tasks := ts.toArray }
      | none => none
  | [h] =>
    match parseHead (words h) with
    | some (c, ps) => some { cfg := c, parks := ps, tasks := #[] }
    | none => none
  | _ => none

/-! rendering (must agree character by character with harness/cmd/c07) -/
/-- handler error kinds of the harness (harness/cmd/c07: errLabel); the model treats every handler error as opaque -/
def showErr : Err → String
  | .nil => "nil" | .de => "DE" | .discard => "DISC"
  | .h 101 => "W101(DE)" | .h 102 => "CANCELED" | .h 103 => "DE" | .h 104 => "W104(CANCELED)" | .h 105 => "ISDE105"
  | .h c => s!"E{c}"

/-- value code 900001 = a typed nil inside the interface -/
def showVal (v : Val) : String := if v = 900001 then "TN" else toString v

def showPair (p : Val × Err) : String := s!"{showVal p.1}:{showErr p.2}"

def insertBy {α : Type} (key : α → Nat) (x : α) : List α → List α
  | [] => [x]
  | y :: ys => if key x < key y then x :: y :: ys else y :: insertBy key x ys

def sortBy {α : Type} (key : α → Nat) (xs : List α) : List α := xs.foldl (fun acc x => insertBy key x acc) []

def renderTask (t : Task) : String :=
  let atts := (List.range t.att).map t.at_
  let invs := sortBy (fun x : Att => x.invIdx) (atts.filter (fun x => x.starts > 0))
  let invS := "|".intercalate (invs.map fun x =>
    match x.ret with
    | some p => s!"{x.beginAt}:{x.hStart}:{x.hEnd}:{showPair p}"
    | none => s!"{x.beginAt}:{x.hStart}:-:-")
  let onS := ",".intercalate (t.onErr.map fun p => s!"{showErr p.1}@{p.2}")
  match t.pc with
  | .none => "unsent"
  | .discarded => s!"len={t.lenAtSend} dis ret={t.sendRet} inv=[{invS}] onerr=[{onS}] get=0:DISC@{t.sendRet} get2=0:DISC err=DISC"
  | .done =>
    let g1 := match t.got with | some p => showPair p | none => "-"
    s!"len={t.lenAtSend} acc ret={t.sendRet} inv=[{invS}] onerr=[{onS}] get={g1}@{t.doneAt} get2={showPair (t.result, t.err)} err={showErr t.err}"
  | .sendTest | .discardCb | .enq => s!"len={t.lenAtSend} blocked inv=[{invS}] onerr=[{onS}]"
  | _ => s!"len={t.lenAtSend} acc ret={t.sendRet} inv=[{invS}] onerr=[{onS}] get=- get2=- err=-"

/-- closures handed to `sendInnerCallback` so far (= passages of hook site 3, counted by the harness): attempts begun
    whose closure is past stage `none` -/
def submitted (sc : Scen) (s : State) : Nat :=
  ((List.range sc.tasks.size).map fun k =>
    let t := s.task k
    ((List.range t.att).filter fun a => (t.at_ a).pc != CPc.none).length).foldl (· + ·) 0

def render (sc : Scen) (d : DState) : String :=
  let ts := (List.range sc.tasks.size).map fun k => renderTask (d.s.task k)
  " ; ".intercalate ts ++ s!" # att={submitted sc d.s} # max={d.s.maxRunning}"


/-! the observation, parsed, is used to prune executions that already contradict it (the final
    acceptance test is still the equality of the complete rendering) -/
structure ObsTask where
  kind : String := "unsent"
  len : String := ""
  ret : String := ""
  invs : Array (List String) := #[]
  onerr : List String := []
  get : String := ""
  deriving Inhabited

structure Obs where
  tasks : Array ObsTask
  max : Nat

def bracket (s : String) : String := ((s.splitOn "[").getD 1 "").dropEnd 1 |>.toString

def parseObsTask (s : String) : ObsTask := Id.run do
  let mut o : ObsTask := {}
  for w in words s do
    if w = "acc" || w = "dis" || w = "blocked" || w = "unsent" then o := { o with kind := w }
    else if w.startsWith "len=" then o := { o with len := (w.drop 4).toString }
    else if w.startsWith "ret=" then o := { o with ret := (w.drop 4).toString }
    else if w.startsWith "inv=" then
      let b := bracket w
      o := { o with invs := if b.isEmpty then #[] else ((b.splitOn "|").map (fun x => x.splitOn ":")).toArray }
    else if w.startsWith "onerr=" then
      let b := bracket w
      o := { o with onerr := if b.isEmpty then [] else b.splitOn "," }
    else if w.startsWith "get=" then o := { o with get := (w.drop 4).toString }
  return o

def parseObs (impl : String) : Obs :=
  match impl.splitOn " # max=" with
  | [a, m] => { tasks := ((a.splitOn " ; ").map parseObsTask).toArray, max := m.toNat?.getD 0 }
  | _ => { tasks := #[], max := 0 }

def taskConsistent (t : Task) (o : ObsTask) : Bool :=
  if t.pc = .none then true else
  toString t.lenAtSend == o.len &&
  (match t.pc with
   | .sendTest | .discardCb | .enq => o.kind != "unsent"
   | .discarded => o.kind == "dis" && toString t.sendRet == o.ret
   | _ => o.kind == "acc" && toString t.sendRet == o.ret) &&
  decide (t.inv ≤ o.invs.size) &&
  ((List.range t.att).all fun a =>
    let x := t.at_ a
    if x.starts = 0 then true else
    match o.invs[x.invIdx]? with
    | none => false
    | some f =>
      f.getD 0 "" == toString x.beginAt && f.getD 1 "" == toString x.hStart &&
      (match x.ret with
       | none => true
       | some p => f.getD 2 "" == toString x.hEnd && (f.getD 3 "" ++ ":" ++ f.getD 4 "") == showPair p)) &&
  (t.onErr.map fun p => s!"{showErr p.1}@{p.2}").isPrefixOf o.onerr &&
  (match t.pc, t.got with
   | .done, some p => o.get == s!"{showPair p}@{t.doneAt}"
   | _, _ => true)

def consistent (sc : Scen) (ob : Obs) (d : DState) : Bool :=
  decide (d.s.maxRunning ≤ ob.max) && decide (ob.tasks.size = sc.tasks.size) &&
  (List.range sc.tasks.size).all fun k => taskConsistent (d.s.task k) (ob.tasks[k]!)

/-! canonical key of a state (finite support: tasks of the scenario, attempts < att, slots < N) -/
def encErr : Err → Nat
  | .nil => 0 | .de => 1 | .discard => 2 | .h c => 3 + c

def encTPc : TPc → Nat
  | .none => 0 | .sendTest => 1 | .discardCb => 2 | .discarded => 3 | .enq => 4 | .queued => 5
  | .loopTest => 6 | .sendCl => 7 | .hook3 => 8 | .select => 9 | .hook2 => 10 | .decide => 11
  | .writeDE => 12 | .waitDone => 13 | .cancel => 14 | .errTest => 15 | .onError => 16 | .wgDone => 17 | .done => 18

/-- inner workers are interchangeable (`step` is equivariant under permutations of slot ids), so the
    key forgets which slot a closure occupies -/
def encCPc : CPc → List Nat
  | .none => [0] | .queued => [1] | .taken _ => [2] | .running _ h => [3, h.toNat]
  | .returned _ v e => [4, v, encErr e] | .hook1 _ v e => [5, v, encErr e] | .cas _ v e => [6, v, encErr e]
  | .hook4 _ v e => [10, v, encErr e]
  | .write _ v e => [7, v, encErr e] | .closing _ => [8] | .closed => [9]

def encOpt : Option (Val × Err) → List Nat
  | none => [0] | some (v, e) => [1, v, encErr e]

def encAtt (x : Att) : List Nat :=
  encCPc x.pc ++ [x.decided, x.closedCh.toNat, x.ctxDone.toNat, x.deadline, x.beginAt] ++ encOpt x.ret ++
    [x.sawLive.toNat, x.starts, x.hStart, x.hEnd, x.invIdx]

def encTask (t : Task) : List Nat :=
  [encTPc t.pc, t.att, t.result, encErr t.err, t.inv, t.lenAtSend, t.lenAtTest, t.sendAt, t.sendRet, t.pickAt, t.doneAt]
    ++ encOpt t.got ++ [t.onErr.length] ++ t.onErr.flatMap (fun p => [encErr p.1, p.2])
    ++ (List.range t.att).flatMap (fun a => encAtt (t.at_ a))

def keyOf (sc : Scen) (d : DState) : List Nat :=
  let s := d.s
  [s.now, s.running, s.maxRunning, d.c1, d.c2, d.c3, d.c4, s.taskQ.length] ++ s.taskQ ++ [s.innerQ.length]
    ++ s.innerQ.flatMap (fun p => [p.1, p.2])
    ++ [d.arrived.length] ++ d.arrived.flatMap (fun (a, b, c, e) => [a, b, c, e])
    ++ (List.range sc.tasks.size).flatMap (fun k => encTask (s.task k))

/-! scripted environment -/
def behOf (sc : Scen) (k j : Nat) : Beh :=
  let bs := (sc.tasks[k]!).behs
  if h : j < bs.size then bs[j] else if h2 : 0 < bs.size then bs[bs.size - 1] else { dur := 0, hon := true, v := 1, e := 0 }

def sendReturned (p : TPc) : Bool :=
  match p with
  | .none | .sendTest | .discardCb | .enq => false
  | _ => true

def sendReady (sc : Scen) (s : State) (k : Nat) : Bool :=
  let ts := sc.tasks[k]!
  (s.task k).pc = .none && decide (ts.time ≤ s.now) &&
    (List.range k).all fun j => (sc.tasks[j]!).g != ts.g || sendReturned (s.task j).pc

def tryStep (sc : Scen) (d : DState) (a : Act) : List DState :=
  match step sc.cfg d.s a with
  | some s' => [{ d with s := s' }]
  | none => []

def hookGate (sc : Scen) (d : DState) (site k a : Nat) (act : Act) : List DState :=
  if sc.parks.isEmpty then tryStep sc d act
  else
    match d.arrived.find? (fun (x : Nat × Nat × Nat × Nat) => x.1 = site ∧ x.2.1 = k ∧ x.2.2.1 = a) with
    | none =>
      let ord := (match site with | 1 => d.c1 | 2 => d.c2 | 3 => d.c3 | _ => d.c4) + 1
      let rel := match sc.parks.find? (fun p => p.site = site ∧ p.ord = ord) with
        | some p => p.until_ | none => 0
      let d' := match site with
        | 1 => { d with c1 := ord } | 2 => { d with c2 := ord } | 3 => { d with c3 := ord } | _ => { d with c4 := ord }
      [{ d' with arrived := d.arrived ++ [(site, k, a, rel)] }]
    | some (_, _, _, rel) =>
      if rel ≤ d.s.now then
        (tryStep sc d act).map fun d' =>
          { d' with arrived := d.arrived.filter (fun x => !(x.1 = site ∧ x.2.1 = k ∧ x.2.2.1 = a)) }
      else []


/-! partial-order reduction: a transition that is independent of every transition of every other
    goroutine that can still happen at this instant (checked on the current state, not assumed from
    invariants) is taken alone. Used only for the current code without parks. -/
def noWriter (t : Task) : Bool :=
  (List.range t.att).all fun a =>
    let x := t.at_ a
    (match x.pc with | .write _ _ _ | .hook4 _ _ _ => false | _ => true) &&
    (x.decided != 0 || (match x.pc with | .closing _ | .closed => true | _ => false))

def safeAct (s : State) (k : Nat) : Option Act :=
  let t := s.task k
  let c := t.at_ t.cur
  let own : Option Act := match t.pc with
    | .hook3 => some (.hook3 k) | .hook2 => some (.hook2 k) | .loopTest => some (.loopTest k)
    | .select => if c.closedCh then some (.selDone k) else if c.ctxDone then some (.selCtx k) else none
    | .waitDone => if c.closedCh then some (.waitDone k) else none
    | .decide =>
      if c.decided != 0 || (match c.pc with | .closing _ | .closed => true | _ => false) then some (.decide k) else none
    | .writeDE => if noWriter t then some (.writeDE k) else none
    | .cancel => if c.ctxDone || (match c.pc with | .closed => true | _ => false) then some (.cancel k) else none
    | .errTest => if noWriter t then some (.errTest k) else none
    | .onError => if noWriter t then some (.onError k) else none
    | .wgDone => if noWriter t then some (.wgDone k) else none
    | _ => none
  match own with
  | some a => some a
  | none =>
    (List.range t.att).findSome? fun a =>
      let x := t.at_ a
      match x.pc with
      | .hook1 _ _ _ => some (Act.hook1 k a)
      | .hook4 _ _ _ => some (Act.hook4 k a)
      | .cas _ _ _ => if x.decided != 0 then some (.wCas k a) else none
      | .returned _ _ _ => if x.ctxDone then some (.wCheck k a) else none
      | .write _ _ _ =>
        (match t.pc with
         | .hook3 | .select | .hook2 | .decide | .waitDone => some (Act.wWrite k a)
         | _ => none)
      | .closing _ => some (.wClose k a)
      | _ => none

/-- all successor states by non-clock transitions at the current instant -/
def succsAll (sc : Scen) (d : DState) : List DState :=
  let s := d.s
  (List.range sc.tasks.size).flatMap fun k =>
    let t := s.task k
    if t.pc = .none then
      if sendReady sc s k then tryStep sc d (.send k (sc.tasks[k]!).opts) else []
    else
      let internal := (taskActs sc.cfg s k).flatMap fun a =>
        match a with
        | .wTake k a w =>
          -- inner workers are interchangeable: only the lowest free slot is tried (every slot in the unreduced mode; the
          -- state key forgets slot ids, so permuted states merge anyway)
          if sc.nopor || (List.range w).all (fun w' => (s.slot w').isSome) then tryStep sc d (.wTake k a w) else []
        | .wStart k a _ => tryStep sc d (.wStart k a (behOf sc k t.inv).hon)
        | .hook1 k a => hookGate sc d 1 k a (.hook1 k a)
        | .hook4 k a => hookGate sc d 4 k a (.hook4 k a)
        | .hook2 k => hookGate sc d 2 k t.cur (.hook2 k)
        | .hook3 k => hookGate sc d 3 k t.cur (.hook3 k)
        | a => tryStep sc d a
      let ends := (List.range t.att).flatMap fun a =>
        let x := t.at_ a
        match x.pc with
        | .running _ hon =>
          let b := behOf sc k x.invIdx
          (if x.hStart + b.dur ≤ s.now then tryStep sc d (.wEnd k a b.v (errOf b.e)) else []) ++
          (if hon && x.ctxDone then tryStep sc d (.wEnd k a 0 cancelledErr) else [])
        | _ => []
      internal ++ ends

def succs (sc : Scen) (d : DState) : List DState :=
  if sc.cfg.old || sc.nopor || !sc.parks.isEmpty then succsAll sc d
  else
    match (List.range sc.tasks.size).findSome? (fun k => (safeAct d.s k).bind fun a => (tryStep sc d a).head?) with
    | some d' => [d']
    | none => succsAll sc d

/-- the next instant at which something is scheduled -/
def nextTime (sc : Scen) (d : DState) : Option Nat :=
  let s := d.s
  let cands : List Nat := (List.range sc.tasks.size).flatMap fun k =>
    let t := s.task k
    (if t.pc = .none then [(sc.tasks[k]!).time] else []) ++
    (List.range t.att).flatMap fun a =>
      let x := t.at_ a
      (if x.ctxDone then [] else [x.deadline]) ++
      (match x.pc with
       | .running _ _ => [x.hStart + (behOf sc k x.invIdx).dur]
       | _ => [])
  let cands := cands ++ d.arrived.map (fun x => x.2.2.2)
  (cands.filter (fun t => s.now < t)).foldl (fun acc t => match acc with | none => some t | some m => some (min m t)) none

/-- explore all executions; returns (final outcomes, overflow) -/
def exploreN (sc : Scen) (limit : Nat) (ob : Option Obs := none) : List String × Bool × Nat := Id.run do
  let d0 : DState := { s := init }
  let mut stack : List (List Nat × DState) := [(keyOf sc d0, d0)]
  let mut seen : Std.HashSet (List Nat) := {}
  let mut finals : Std.HashSet String := {}
  let mut n := 0
  for _ in [0:limit] do
    match stack with
    | [] => break
    | (key, d) :: rest =>
      stack := rest
      if seen.contains key then continue
      seen := seen.insert key
      n := n + 1
      if let some o := ob then
        if !consistent sc o d then continue
      let nx := succs sc d
      if !nx.isEmpty then
        for x in nx do
          let k := keyOf sc x
          if !seen.contains k then stack := (k, x) :: stack
      else
        match nextTime sc d with
        | some t =>
          match step sc.cfg d.s (.advance t) with
          | some s' =>
            let x := { d with s := s' }
            stack := (keyOf sc x, x) :: stack
          | none => finals := finals.insert ("stuck-clock " ++ render sc d)
        | none => finals := finals.insert (render sc d)
  return (finals.toList, !stack.isEmpty, n)

def explore (sc : Scen) (limit : Nat) (ob : Option Obs := none) : List String × Bool :=
  let (a, b, _) := exploreN sc limit ob
  (a, b)

def exploreLimit : Nat := 400000

/-- once this many lines were rejected the tree evidently differs from the model; the remaining lines are not explored
    (`ok unchecked`: judged by the property oracle only) so that a check of a broken tree stays within minutes -/
def rejectBudget : Nat := 40

/-- monitor state = number of rejected lines so far -/
def monitorLine (rejects : Nat) (line : String) : Nat × String :=
  match line.splitOn "\t" with
  | [script, impl] =>
    if script.startsWith "stress " then (rejects, "ok unchecked oracle-only")
    else if rejects ≥ rejectBudget then (rejects, "ok unchecked reject-budget-exhausted")
    else
    match parseScen script with
    | none => (rejects + 1, "reject bad-script")
    | some sc =>
      let (fin, ovf) := explore sc exploreLimit (some (parseObs impl))
      if fin.contains impl then (rejects, "ok")
      else if ovf then (rejects, "ok overflow")
      else
        -- A reject must rest on a COMPLETE exploration that does not depend on the reductions: repeat the search without
        -- the partial-order reduction and without the lowest-free-slot restriction (still pruned by the observation,
        -- which only discards states that already contradict it). Any cut-off is `ok overflow`, never a reject.
        let (fin2, ovf2) := explore { sc with nopor := true } exploreLimit (some (parseObs impl))
        if fin2.contains impl then (rejects, "ok por-miss")
        else if ovf2 then (rejects, "ok overflow")
        else if rejects < 3 then
          -- display only (may be truncated); the verdict above does not depend on it
          let (all, cut) := explore sc 20000
          (rejects + 1, "reject model-allows" ++ (if cut then " (partial list)" else "") ++ ": " ++ " || ".intercalate (all.take 3))
        else (rejects + 1, "reject (model outcomes shown for the first rejected lines only)")
  | _ => (rejects + 1, "reject bad-line")

def outcomesLine (nopor : Bool) (line : String) : String :=
  match parseScen ((line.splitOn "\t").headD "") with
  | none => "bad-script"
  | some sc =>
    let sc := { sc with nopor := nopor }
    let (fin, ovf, n) := exploreN sc exploreLimit
    let fin := sortBy (fun (x : String) => (hash x).toNat) fin
    s!"{fin.length}{if ovf then " overflow" else ""} states={n}: " ++ " || ".intercalate fin

def main (args : List String) : IO Unit := do
  if args.contains "outcomes" then
    lineLoop (← IO.getStdin) (← IO.getStdout)
      (fun (_ : Unit) l => ((), if l.isEmpty then "" else outcomesLine (args.contains "nopor") l)) ()
  else
    lineLoop (← IO.getStdin) (← IO.getStdout) (fun (n : Nat) l => if l.isEmpty then (n, "") else monitorLine n l) 0

end Got.Drv.Ants
