import Got.Drv.Common
/- driver for the aes model family (properties C19): to be written -/
namespace Got.Drv.Aes

def main (_args : List String) : IO Unit := do
  IO.eprintln "drv_aes: not implemented"

end Got.Drv.Aes
