import Got.Drv.Common
import Got.Spec.Aes
import Got.Model.Aes
/-
drv_aes: script lines (all byte strings in hex, "-" = empty)

  enc <opts> <key> <pre> <pt> <spare> <tail>
      backing array = pre ++ pt ++ spare ++ tail ; input = arr[|pre| : |pre|+|pt| : |pre|+|pt|+|spare|]
      c := NewCipher(key, opts...) ; ct := c.Encrypt(input) ; then the same layout with ct in place of
      pt is given to c.Decrypt.
      output:  ct <hex> in <same|changed> arr <same|hex> rt <hex> darr <same|hex> conc ok
           or  panic <iv|blocks|key>
  dec <opts> <key> <ct>
      output:  pt <hex>   or  panic <...>

  big <opts> <key> <prelen> <ptlen> <ptseed> <spare> <tail>
      LARGE inputs without megabytes of hex: pre = prelen bytes 0xA5, pt[i] = byte(i*167 + seed*13 + (i>>8)*31);
      same layout and calls as `enc`.
      output:  ct <len> <fnv1a-64 of ct, hex> in <same|changed> arr <same|changed@idx:hex..> rt <ok|len hash>
               darr <same|changed@..> conc ok

  seq | new <id> <opts> <key> ; use <id> <pt> ; ...
      several cipher objects alive at once in one process (key / IV / mode FAMILIES): `new` creates a cipher and
      keeps it under <id>, `use` encrypts <pt> with that (possibly older) cipher and decrypts the result.
      output, one token per op:  n:ok | n:panic-key | u:<ct hex>:<same|rt hex> | u:panic-iv | u:noid
      (the model is stateless: every `use` is answered from the (key, options) of its own `new`)

  <opts> = "-" or comma separated list of  cbc | cfb | iv:<hex>   (applied in order, as NewCipher does)

The block functions are the Lean FIPS-197 AES of Got.Spec.Aes (independent of crypto/aes).
"conc ok" is constant: in the model Encrypt/Decrypt are pure functions of (key, iv, input).
At start-up the driver runs known-answer TESTS (FIPS-197 App. B, C.1–C.3; SP 800-38A F.2.1, F.3.13);
a failing vector makes it exit with status 2 before reading any input.
-/
namespace Got.Drv.Aes
open Got.Drv Got.Model.Aes

def toBytes (l : List Nat) : List UInt8 := l.map UInt8.ofNat
def hexOf (l : List UInt8) : String := toHex (l.map UInt8.toNat)
def bytes? (s : String) : Option (List UInt8) := (parseHex? s).map toBytes

def parseOpt (s : String) : Option Opt :=
  if s = "cbc" then some .withCBC
  else if s = "cfb" then some .withCFB
  else if s.startsWith "iv:" then
    let h := (s.drop 3).toString
    if h.isEmpty then some (.withInitialVector []) else (bytes? h).map .withInitialVector
  else none

def parseOpts (s : String) : Option (List Opt) :=
  if s = "-" then some [] else (s.splitOn ",").mapM parseOpt

def showPanic : Panic → String
  | .ivLength => "panic iv"
  | .notFullBlocks => "panic blocks"
  | .keySize => "panic key"

def sameOr (a b : List UInt8) : String := if a = b then "same" else hexOf b

def runEnc (opts : List Opt) (key pre pt spare tail : List UInt8) : String :=
  match newCipher key opts, Got.Spec.Aes.mkKey key with
  | .error p, _ => showPanic p
  | .ok _, none => showPanic .keySize
  | .ok c, some k =>
    let E := Got.Spec.Aes.encryptBlock k
    let D := Got.Spec.Aes.decryptBlock k
    let arr := pre ++ pt ++ spare ++ tail
    let st : Store := [arr]
    let input : Slice := { id := 0, off := pre.length, len := pt.length, cap := pt.length + spare.length }
    match c.encrypt E st input with
    | .error p => showPanic p
    | .ok (st1, out) =>
      let ct := out.bytes st1
      let inSame := if input.bytes st1 = pt then "same" else "changed"
      let darr := pre ++ ct ++ spare ++ tail
      let dst : Store := [darr]
      let dinput : Slice := { id := 0, off := pre.length, len := ct.length, cap := ct.length + spare.length }
      match c.decrypt E D dst dinput with
      | .error p => showPanic p
      | .ok (st2, out2) =>
        joinSp ["ct", hexOf ct, "in", inSame, "arr", sameOr arr (st1.arr 0),
                "rt", hexOf (out2.bytes st2), "darr", sameOr darr (st2.arr 0), "conc", "ok"]

/-- deterministic plaintext of the `big` lines (the harness and the oracle use the same formula) -/
def genPt (n seed : Nat) : List UInt8 :=
  (List.range n).map fun i => UInt8.ofNat (i * 167 + seed * 13 + (i >>> 8) * 31)

def fnv64 (l : List UInt8) : UInt64 :=
  l.foldl (fun h b => (h ^^^ b.toUInt64) * 0x100000001b3) 0xcbf29ce484222325

def hex64 (h : UInt64) : String :=
  String.ofList ((List.range 16).map fun i => hexChar ((h >>> (UInt64.ofNat (4 * (15 - i)))).toNat % 16))

def firstDiff : List UInt8 → List UInt8 → Nat → Option Nat
  | [], [], _ => none
  | a :: as, b :: bs, i => if a = b then firstDiff as bs (i + 1) else some i
  | _, _, i => some i

def changedOr (a b : List UInt8) : String :=
  match firstDiff a b 0 with
  | none => "same"
  | some i => s!"changed@{i}:{hexOf ((b.drop i).take 32)}"

def runBig (opts : List Opt) (key : List UInt8) (prelen ptlen seed : Nat) (spare tail : List UInt8) : String :=
  match newCipher key opts, Got.Spec.Aes.mkKey key with
  | .error p, _ => showPanic p
  | .ok _, none => showPanic .keySize
  | .ok c, some k =>
    let E := Got.Spec.Aes.encryptBlock k
    let D := Got.Spec.Aes.decryptBlock k
    let pre := List.replicate prelen (0xA5 : UInt8)
    let pt := genPt ptlen seed
    let arr := pre ++ pt ++ spare ++ tail
    let st : Store := [arr]
    let input : Slice := { id := 0, off := pre.length, len := pt.length, cap := pt.length + spare.length }
    match c.encrypt E st input with
    | .error p => showPanic p
    | .ok (st1, out) =>
      let ct := out.bytes st1
      let inSame := if input.bytes st1 = pt then "same" else "changed"
      let darr := pre ++ ct ++ spare ++ tail
      let dst : Store := [darr]
      let dinput : Slice := { id := 0, off := pre.length, len := ct.length, cap := ct.length + spare.length }
      match c.decrypt E D dst dinput with
      | .error p => showPanic p
      | .ok (st2, out2) =>
        let rt := out2.bytes st2
        let rtS := if rt = pt then "ok" else s!"{rt.length} {hex64 (fnv64 rt)}"
        joinSp ["ct", toString ct.length, hex64 (fnv64 ct), "in", inSame, "arr", changedOr arr (st1.arr 0),
                "rt", rtS, "darr", changedOr darr (st2.arr 0), "conc", "ok"]

def runDec (opts : List Opt) (key ct : List UInt8) : String :=
  match newCipher key opts, Got.Spec.Aes.mkKey key with
  | .error p, _ => showPanic p
  | .ok _, none => showPanic .keySize
  | .ok c, some k =>
    let st : Store := [ct]
    let input : Slice := { id := 0, off := 0, len := ct.length, cap := ct.length }
    match c.decrypt (Got.Spec.Aes.encryptBlock k) (Got.Spec.Aes.decryptBlock k) st input with
    | .error p => showPanic p
    | .ok (st1, out) => joinSp ["pt", hexOf (out.bytes st1)]

abbrev SeqEnv := List (String × Option (Cipher × Got.Spec.Aes.Key))

def seqOp (env : SeqEnv) (op : String) : SeqEnv × String :=
  match words op with
  | ["new", id, o, key] =>
    match parseOpts o, bytes? key with
    | some o, some key =>
      match newCipher key o, Got.Spec.Aes.mkKey key with
      | .ok c, some k => ((id, some (c, k)) :: env, "n:ok")
      | _, _ => ((id, none) :: env, "n:panic-key")
    | _, _ => (env, "bad-op")
  | ["use", id, pt] =>
    match bytes? pt, env.lookup id with
    | some pt, some (some (c, k)) =>
      let E := Got.Spec.Aes.encryptBlock k
      let D := Got.Spec.Aes.decryptBlock k
      let st : Store := [pt]
      let input : Slice := { id := 0, off := 0, len := pt.length, cap := pt.length }
      match c.encrypt E st input with
      | .error _ => (env, "u:panic-iv")
      | .ok (st1, out) =>
        match c.decrypt E D st1 out with
        | .error _ => (env, "u:panic-iv")
        | .ok (st2, out2) =>
          let rt := out2.bytes st2
          (env, s!"u:{hexOf (out.bytes st1)}:{if rt = pt then "same" else hexOf rt}")
    | some _, _ => (env, "u:noid")
    | none, _ => (env, "bad-op")
  | _ => (env, "bad-op")

def runSeq (body : String) : String :=
  let ops := body.splitOn " ; "
  let (_, outs) := ops.foldl (fun (acc : SeqEnv × List String) op =>
    let (env, o) := seqOp acc.1 op
    (env, o :: acc.2)) ([], [])
  joinSp outs.reverse

def step (_ : Unit) (line : String) : Unit × String :=
  if line.startsWith "seq | " then ((), runSeq (line.drop 6).toString) else
  match words line with
  | ["enc", o, key, pre, pt, spare, tail] =>
    match parseOpts o, bytes? key, bytes? pre, bytes? pt, bytes? spare, bytes? tail with
    | some o, some key, some pre, some pt, some spare, some tail => ((), runEnc o key pre pt spare tail)
    | _, _, _, _, _, _ => ((), "bad-op")
  | ["big", o, key, prelen, ptlen, seed, spare, tail] =>
    match parseOpts o, bytes? key, parseNat? prelen, parseNat? ptlen, parseNat? seed, bytes? spare, bytes? tail with
    | some o, some key, some prelen, some ptlen, some seed, some spare, some tail =>
      ((), runBig o key prelen ptlen seed spare tail)
    | _, _, _, _, _, _, _ => ((), "bad-op")
  | ["dec", o, key, ct] =>
    match parseOpts o, bytes? key, bytes? ct with
    | some o, some key, some ct => ((), runDec o key ct)
    | _, _, _ => ((), "bad-op")
  | [] => ((), "")
  | _ => ((), "bad-op")

/-! known-answer tests -/

def katBlock (key pt ct : String) : Bool :=
  match bytes? key, bytes? pt, bytes? ct with
  | some key, some pt, some ct =>
    match Got.Spec.Aes.mkKey key with
    | some k => Got.Spec.Aes.encryptBlock k pt == ct && Got.Spec.Aes.decryptBlock k ct == pt
    | none => false
  | _, _, _ => false

def katMode (cfb : Bool) (key iv pt ct : String) : Bool :=
  match bytes? key, bytes? iv, bytes? pt, bytes? ct with
  | some key, some iv, some pt, some ct =>
    match Got.Spec.Aes.mkKey key with
    | some k =>
      let E := Got.Spec.Aes.encryptBlock k
      let D := Got.Spec.Aes.decryptBlock k
      if cfb then Got.Spec.Aes.cfbEncrypt E iv pt == ct && Got.Spec.Aes.cfbDecrypt E iv ct == pt
      else Got.Spec.Aes.cbcEncrypt E iv pt == ct && Got.Spec.Aes.cbcDecrypt D iv ct == pt
    | none => false
  | _, _, _, _ => false

def selfTest : List (String × Bool) :=
  let k128 := "2b7e151628aed2a6abf7158809cf4f3c"
  let iv := "000102030405060708090a0b0c0d0e0f"
  let pt2 := "6bc1bee22e409f96e93d7e117393172aae2d8a571e03ac9c9eb76fac45af8e51"
  [ ("FIPS-197 App.B", katBlock k128 "3243f6a8885a308d313198a2e0370734" "3925841d02dc09fbdc118597196a0b32"),
    ("FIPS-197 C.1", katBlock "000102030405060708090a0b0c0d0e0f" "00112233445566778899aabbccddeeff"
        "69c4e0d86a7b0430d8cdb78070b4c55a"),
    ("FIPS-197 C.2", katBlock "000102030405060708090a0b0c0d0e0f1011121314151617" "00112233445566778899aabbccddeeff"
        "dda97ca4864cdfe06eaf70a0ec0d7191"),
    ("FIPS-197 C.3", katBlock "000102030405060708090a0b0c0d0e0f101112131415161718191a1b1c1d1e1f"
        "00112233445566778899aabbccddeeff" "8ea2b7ca516745bfeafc49904b496089"),
    ("SP800-38A F.2.1 CBC-AES128", katMode false k128 iv pt2
        "7649abac8119b246cee98e9b12e9197d5086cb9b507219ee95db113a917678b2"),
    ("SP800-38A F.3.13 CFB128-AES128", katMode true k128 iv pt2
        "3b3fd92eb72dad20333449f8e83cfb4ac8a64537a0b3a93fcde3cdad9f1ce58b"),
    ("SP800-38A F.2.5 CBC-AES256", katMode false "603deb1015ca71be2b73aef0857d77811f352c073b6108d72d9810a30914dff4" iv
        "6bc1bee22e409f96e93d7e117393172a" "f58c4c04d6e5f1ba779eabfb5f7bfbd6") ]

def main (_args : List String) : IO Unit := do
  let bad := selfTest.filter (fun t => !t.2)
  if !bad.isEmpty then
    IO.eprintln s!"drv_aes: known-answer test failed: {bad.map (·.1)}"
    IO.Process.exit 2
  lineLoop (← IO.getStdin) (← IO.getStdout) step ()

end Got.Drv.Aes
