import Got.Drv.Common
import Got.Model.Codec
import Got.Spec.Codec
import Got.Model.MiniGoBytes
import Got.Generated.AstIox
/-
drv_codec c11 : script lines
    seq | <t>:<payload> ; <t>:<payload> ; ...
  t = b bool (0|1), y byte (2 hex digits), h int16, i int32, l int64, v 7-bit int32 (signed decimal),
      B bytes, S string, R raw Write/Read (hex, "-" = empty)
  output:  bytes=<hex> | <t>:<value>@<pos> ... | len=<n> pos=<p> | alias=ok
  (all writes in order with the model writers; then the matching read calls in order)
  second form:  range32 <block>  →  crc=<8 hex>   CRC-32 over the model's observations of the 2^16 int32 patterns
  block*65536 .. block*65536+65535 (fixed + 7-bit write, read back); see harness/cmd/c11/range.go
  third form:   conc <R> | body || body ...  →  obs || obs ... || conc=ok   (each body as a seq line, without the alias part)
  fourth form:  giant <B|S> <n> <seed>  →  expected prefix / lengths / CRC of a record of n ≥ 2^28 bytes, computed from the
  specification (leb128 n) and the payload formula without materialising the list (justified by C11_wire_bytes and
  C11_roundtrip_bytes); see harness/cmd/c11/conc.go

drv_codec c12 : script lines
    <hex input> | [@k ]<op> ; [@k ]<op> ; ...
  op = bool byte i16 i32 i64 v7 bytes str raw<n>;  `@k` = the call is made on a fresh stream positioned at k
  output:  <out> p=<pos> l=<len> a=<0|1> ; ... | alias=-
  out = ok:<value> | err:<Enum> | panic ; a=1 iff the ghost allocation exceeds 2*(remaining input) + 4096

drv_codec ast11 / ast12 : the SAME script lines and the SAME output text as c11 / c12, but every call is made by
  interpreting (Got/Model/MiniGoBytes.lean, fuel 1000) the terms that tools/srcfacts regenerated from /repo's source for
  this run (Got/Generated/AstIox.lean): validates translator + interpreter semantics against the real code on the very
  cases of the correspondence.  Extra outcomes that the hand-written model cannot have: `stuck` (out of fuel / ill-typed
  term), `bytes=panic`, `bytes=write-error-<Enum>`, `ok:oversize<n>` (as the c12 harness prints).
  `range32` and `giant` lines are answered by the c11 functions (65536 interpreted round trips per line / records of
  2^28 bytes are far too slow for the interpreter).

drv_codec spec : script lines `leb <nat>` / `le <w> <nat>`  → hex of the specification encoders (used by tests only)
-/
namespace Got.Drv.Codec
open Got.Model.Codec Got.Drv

def toBytes (ns : List Nat) : List Byte := ns.map (BitVec.ofNat 8)
def hexOf (bs : List Byte) : String := toHex (bs.map BitVec.toNat)

def parseBytes? (s : String) : Option (List Byte) := (parseHex? s).map toBytes

def parseVal? (tok : String) : Option Val :=
  match tok.splitOn ":" with
  | [t, p] =>
    match t with
    | "b" => if p = "1" then some (.bool true) else if p = "0" then some (.bool false) else none
    | "y" => match parseBytes? p with
      | some [x] => some (.byte x)
      | _ => none
    | "h" => (parseInt? p).map (fun z => .i16 (BitVec.ofInt 16 z))
    | "i" => (parseInt? p).map (fun z => .i32 (BitVec.ofInt 32 z))
    | "l" => (parseInt? p).map (fun z => .i64 (BitVec.ofInt 64 z))
    | "v" => (parseInt? p).map (fun z => .v7 (BitVec.ofInt 32 z))
    | "B" => (parseBytes? p).map .bytes
    | "S" => (parseBytes? p).map .str
    | "R" => (parseBytes? p).map .raw
    | _ => none
  | _ => none

def tagOf : Op → String
  | .bool => "b" | .byte => "y" | .i16 => "h" | .i32 => "i" | .i64 => "l" | .v7 => "v"
  | .bytes => "B" | .str => "S" | .raw _ => "R"

def showVal : Val → String
  | .bool b => if b then "1" else "0"
  | .byte b => hexOf [b]
  | .i16 d => toString d.toInt
  | .i32 d => toString d.toInt
  | .i64 d => toString d.toInt
  | .v7 d => toString d.toInt
  | .bytes l => hexOf l
  | .str l => hexOf l
  | .raw l => hexOf l

def showErr : Err → String
  | .NotEnoughData => "NotEnoughData"
  | .Bad7BitInt => "Bad7BitInt"
  | .NegativeSize => "NegativeSize"
  | .InvalidArgument => "InvalidArgument"

def showOut : Out Val → String
  | .ok v => "ok:" ++ showVal v
  | .err e => "err:" ++ showErr e
  | .crash => "panic"

def parseAll? {α β : Type} (f : α → Option β) : List α → Option (List β)
  | [] => some []
  | x :: xs =>
    match f x, parseAll? f xs with
    | some y, some ys => some (y :: ys)
    | _, _ => none

/-! range protocol (see harness/cmd/c11/range.go): CRC-32 (IEEE, reflected, poly 0xEDB88320) over the observations of
    the 2^16 values of one block -/

def crcTable : Array UInt32 :=
  (Array.range 256).map fun i => Id.run do
    let mut c : UInt32 := i.toUInt32
    for _ in [0:8] do
      c := if c &&& 1 == 1 then (0xEDB88320 : UInt32) ^^^ (c >>> 1) else c >>> 1
    return c

@[inline] def crcByte (t : Array UInt32) (crc : UInt32) (b : Nat) : UInt32 :=
  t[((crc ^^^ b.toUInt32) &&& 0xff).toNat]! ^^^ (crc >>> 8)

def crcBytes (t : Array UInt32) (crc : UInt32) (bs : List Byte) : UInt32 :=
  bs.foldl (fun c b => crcByte t c b.toNat) crc

def errCode : Err → Nat
  | .NotEnoughData => 1 | .Bad7BitInt => 2 | .NegativeSize => 3 | .InvalidArgument => 4

def crcRes (t : Array UInt32) (crc : UInt32) (r : Res (BitVec 32)) : UInt32 :=
  let crc := match r.out with
    | .ok v =>
      let n := v.toNat
      crcByte t (crcByte t (crcByte t (crcByte t crc (n % 256)) (n / 256 % 256)) (n / 65536 % 256)) (n / 16777216 % 256)
    | .err e => crcByte t (crcByte t crc 0xEE) (errCode e)
    | .crash => crcByte t (crcByte t crc 0xEE) 0xFF
  crcByte t crc (r.pos % 256)

def rangeBlock (t : Array UInt32) (block : Nat) : UInt32 := Id.run do
  let mut crc : UInt32 := 0xFFFFFFFF
  for k in [0:65536] do
    let v := BitVec.ofNat 32 (block * 65536 + k)
    let bs := writeInt32 v ++ (match write7 v with
      | some l => l
      | none => [])
    crc := crcBytes t crc bs
    let r1 := readInt32 bs 0
    crc := crcRes t crc r1
    let r2 := read7 bs r1.pos
    crc := crcRes t crc r2
  return crc ^^^ 0xFFFFFFFF

def hex8 (n : Nat) : String :=
  String.ofList ((List.range 8).reverse.map fun i => hexChar (n / 16 ^ i % 16))


/-- c11 -/
def renderC11 (vals : List Val) : String :=
  match encode vals with
  | none => "bytes=diverge"
  | some bs =>
    let rs := readSeq bs 0 (vals.map Val.op)
    let items := (vals.zip rs).map (fun (v, r) =>
      tagOf v.op ++ ":" ++ (match r.out with
        | .ok x => showVal x
        | .err e => "err-" ++ showErr e
        | .crash => "panic") ++ "@" ++ toString r.pos)
    let final := match rs.getLast? with
      | some r => r.pos
      | none => 0
    -- the model has value semantics: values kept by the caller cannot change, inputs cannot be captured
    joinSp (["bytes=" ++ hexOf bs, "|"] ++ items ++ ["|", s!"len={bs.length}", s!"pos={final}", "|", "alias=ok"])

/-- observation of one sequence without the alias part (also one body of a `conc` line) -/
def renderObs (vals : List Val) : String :=
  let r := renderC11 vals
  if r.endsWith " | alias=ok" then (r.dropEnd 11).toString else r

/-- `conc <R> | body || body || ...`: the model is sequential and has no shared state between streams: every body gives
    its own observation, and running the bodies at the same time cannot change any of them -/
def renderConc (rest : String) : String :=
  let bodies := (rest.splitOn "||").map (fun b => (b.splitOn ";").map (fun s => s.trimAscii.toString) |>.filter (· ≠ ""))
    |>.filter (fun b => !b.isEmpty)
  match parseAll? (fun b => parseAll? parseVal? b) bodies with
  | none => "bad-op"
  | some vss => " || ".intercalate (vss.map renderObs ++ ["conc=ok"])

/-! giant records (`giant <B|S> <n> <seed>`, see harness/cmd/c11/conc.go). The list of n ≥ 2^28 bytes is NOT materialised:
    by `C11_wire_bytes` the writer's output is `leb128 n ++ data`, by `C11_roundtrip_bytes` the read-back is `data` and the
    position right behind it (n < 2^31), so the expected observation is computed from the specification's `leb128 n`, the
    lengths, and a CRC-32 streamed over the payload formula. -/
@[inline] def payByte (j seed : UInt64) : UInt8 := ((j * 0x9E3779B1 + seed) >>> 16).toUInt8

@[inline] def crcU8 (t : Array UInt32) (crc : UInt32) (b : UInt8) : UInt32 :=
  t[((crc ^^^ b.toUInt32) &&& 0xff).toNat]! ^^^ (crc >>> 8)

def giantCrc (t : Array UInt32) (n : Nat) (seed : UInt64) : UInt32 := Id.run do
  let block : ByteArray := ByteArray.mk ((Array.range 65536).map fun j => payByte j.toUInt64 seed)
  let mut crc : UInt32 := 0xFFFFFFFF
  for i in [0:n] do
    crc := crcU8 t crc (block.get! (i % 65536))
  return crc ^^^ 0xFFFFFFFF

def renderGiant (n : Nat) (seed : UInt64) : String :=
  let pre := Got.Spec.Codec.leb128 n
  let k := pre.length
  let head := (pre ++ (List.range 5).map (fun j => BitVec.ofNat 8 (payByte j.toUInt64 seed).toNat)).take 5
  let crc := hex8 (giantCrc crcTable n seed).toNat
  let total := 1 + k + n + 2
  s!"head={hexOf head} len={total} crc={crc} | y:a5@1 rlen={n} rcrc={crc} pos={1 + k + n} next=-2@{total}"

def stepC11 (_ : Unit) (line : String) : Unit × String :=
  if line.trimAscii.isEmpty then ((), "") else
  if line.startsWith "conc " then
    match line.splitOn " | " with
    | _ :: rest => ((), renderConc (" | ".intercalate rest))
    | [] => ((), "bad-op")
  else if line.startsWith "giant " then
    match words line with
    | ["giant", _, n, seed] =>
      match parseNat? n, parseNat? seed with
      | some n, some seed => if n < 2 ^ 31 ∧ 16 ≤ n then ((), renderGiant n seed.toUInt64) else ((), "bad-op")
      | _, _ => ((), "bad-op")
    | _ => ((), "bad-op")
  else if line.startsWith "range32 " then
    match parseNat? (line.drop 8).trimAscii.toString with
    | some b => if b < 65536 then ((), "crc=" ++ hex8 (rangeBlock crcTable b).toNat) else ((), "bad-op")
    | none => ((), "bad-op")
  else
  match line.splitOn "|" with
  | [h, body] =>
    if h.trimAscii.toString ≠ "seq" then ((), "bad-op") else
    let toks := (body.splitOn ";").map (fun s => s.trimAscii.toString) |>.filter (· ≠ "")
    match parseAll? parseVal? toks with
    | none => ((), "bad-op")
    | some vals => ((), renderC11 vals)
  | _ => ((), "bad-op")

def parseOp? (s : String) : Option Op :=
  match s with
  | "bool" => some .bool
  | "byte" => some .byte
  | "i16" => some .i16
  | "i32" => some .i32
  | "i64" => some .i64
  | "v7" => some .v7
  | "bytes" => some .bytes
  | "str" => some .str
  | _ =>
    if s.startsWith "raw" then (parseNat? (s.drop 3).toString).map .raw else none

/-- an op with an optional `@k` prefix -/
def parseStep? (ws : List String) : Option (Option Nat × Op) :=
  match ws with
  | [o] => (parseOp? o).map (fun x => (none, x))
  | [k, o] =>
    if k.startsWith "@" then
      match parseNat? (k.drop 1).toString, parseOp? o with
      | some k, some o => some (some k, o)
      | _, _ => none
    else none
  | _ => none

def showC12 (buf : List Byte) (pos0 : Nat) (o : Op) (r : Res Val) : String :=
  let out := match o, r.out with
    | .raw _, .ok (.raw l) => s!"ok:{l.length}:" ++ hexOf l
    | _, x => showOut x
  let remaining := buf.length - pos0
  let a := if r.alloc > 2 * remaining + 4096 then "1" else "0"
  s!"{out} p={r.pos} l={buf.length} a={a}"

def runC12 (buf : List Byte) : Nat → List (Option Nat × Op) → List String
  | _, [] => []
  | pos, (k, o) :: rest =>
    let pos0 := match k with
      | some k => k
      | none => pos
    let r := read1 buf pos0 o
    showC12 buf pos0 o r :: runC12 buf r.pos rest

def stepC12 (_ : Unit) (line : String) : Unit × String :=
  if line.trimAscii.isEmpty then ((), "") else
  match line.splitOn " | " with
  | [h, body] =>
    match parseBytes? h.trimAscii.toString with
    | none => ((), "bad-op")
    | some buf =>
      match parseAll? (fun (s : String) => parseStep? (words s)) (body.splitOn " ; ") with
      | none => ((), "bad-op")
      -- the model's values are immutable: a returned string cannot change afterwards
      | some steps => ((), " ; ".intercalate (runC12 buf 0 steps) ++ " | alias=-")
  | _ => ((), "bad-op")

/-! ## translator tie: the same protocols answered by the MiniGoBytes interpreter on the generated terms -/
namespace Ast

abbrev BVal := Got.Model.MiniGoBytes.Val
abbrev BErr := Got.Model.MiniGoBytes.Err
abbrev BOut := Got.Model.MiniGoBytes.Out
abbrev BSt := Got.Model.MiniGoBytes.St

/-- one unit per statement at one nesting level; the longest path (ReadBytes → Read7BitEncodedInt, 5 loop rounds) needs
    well under 100 -/
def astFuel : Nat := 1000

def call (name : String) (args : List BVal) (st : BSt) : Option BOut :=
  Got.Model.MiniGoBytes.run Got.Generated.AstIox.table name astFuel args st

def errOf : BErr → Err
  | .NotEnoughData => .NotEnoughData
  | .Bad7BitInt => .Bad7BitInt
  | .NegativeSize => .NegativeSize
  | .InvalidArgument => .InvalidArgument

/-- the writer method (as the harness calls it) and its argument for a typed value -/
def writeCall : Val → String × List BVal
  | .bool b => ("OctetsWriter.WriteBool", [.bool b])
  | .byte x => ("OctetsWriter.WriteByte", [.bv 8 false x])
  | .i16 d => ("OctetsWriter.WriteInt16", [.bv 16 true d])
  | .i32 d => ("OctetsWriter.WriteInt32", [.bv 32 true d])
  | .i64 d => ("OctetsWriter.WriteInt64", [.bv 64 true d])
  | .v7 d => ("OctetsWriter.Write7BitEncodedInt", [.bv 32 true d])
  | .bytes l => ("OctetsWriter.WriteBytes", [.bytes l])
  | .str l => ("OctetsWriter.WriteString", [.bytes l])
  | .raw l => ("OctetsStream.Write", [.bytes l])

/-- the reader method and its argument for a read call (`raw n`: a zero-filled buffer of n bytes) -/
def readCall : Op → String × List BVal
  | .bool => ("OctetsReader.ReadBool", [])
  | .byte => ("OctetsReader.ReadByte", [])
  | .i16 => ("OctetsReader.ReadInt16", [])
  | .i32 => ("OctetsReader.ReadInt32", [])
  | .i64 => ("OctetsReader.ReadInt64", [])
  | .v7 => ("OctetsReader.Read7BitEncodedInt", [])
  | .bytes => ("OctetsReader.ReadBytes", [])
  | .str => ("OctetsReader.ReadString", [])
  | .raw n => ("OctetsStream.Read", [.bytes (List.replicate n 0)])

/-- the interpreter's result value of a read call as the model's typed value (`none` = not of the method's result type) -/
def fromVal : Op → BVal → Option Val
  | .bool, .bool b => some (.bool b)
  | .byte, .bv w sg x => if w = 8 ∧ sg = false then some (.byte (x.setWidth 8)) else none
  | .i16, .bv w sg x => if w = 16 ∧ sg = true then some (.i16 (x.setWidth 16)) else none
  | .i32, .bv w sg x => if w = 32 ∧ sg = true then some (.i32 (x.setWidth 32)) else none
  | .i64, .bv w sg x => if w = 64 ∧ sg = true then some (.i64 (x.setWidth 64)) else none
  | .v7, .bv w sg x => if w = 32 ∧ sg = true then some (.v7 (x.setWidth 32)) else none
  | .bytes, .bytes l => some (.bytes l)
  | .str, .bytes l => some (.str l)
  | _, _ => none

/-- outcome of one interpreted call -/
inductive AOut where
  | ok (v : Val)
  | err (e : Err)
  | panic
  | stuck

/-- one read call on the stream object `st`: outcome and the stream afterwards (unchanged on panic / stuck).
    `raw n`: value = the first `count` bytes of the caller's buffer after the call, as `read1 … (.raw n)` -/
def astRead (st : BSt) (o : Op) : AOut × BSt :=
  let na := readCall o
  match call na.1 na.2 st with
  | none => (.stuck, st)
  | some .panic => (.panic, st)
  | some (.ret vs outs st') =>
    match vs with
    | [_, .err (some e)] => (.err (errOf e), st')
    | [v, .err none] =>
      match o with
      | .raw _ =>
        match v, outs with
        | .int cnt, [some filled] => (.ok (.raw (filled.take cnt.toNat)), st')
        | _, _ => (.stuck, st')
      | _ =>
        match fromVal o v with
        | some x => (.ok x, st')
        | none => (.stuck, st')
    | _ => (.stuck, st')

/-- `Position()` / `Len()` of the stream through the interpreter -/
def obsInt (name : String) (st : BSt) : String :=
  match call name [] st with
  | some (.ret [.int k] _ _) => toString k
  | some .panic => "panic"
  | _ => "stuck"

/-- all writes in order on one stream object -/
def astWrites : BSt → List Val → Except String BSt
  | st, [] => .ok st
  | st, v :: vs =>
    let na := writeCall v
    match call na.1 na.2 st with
    | some (.ret [.err none] _ st') => astWrites st' vs
    | some (.ret [.err (some e)] _ _) => .error ("write-error-" ++ showErr (errOf e))
    | some (.ret _ _ _) => .error "stuck"
    | some .panic => .error "panic"
    | none => .error "stuck"

/-- the read calls in order on one stream object: text of each item `<t>:<value>@<Position()>`, final stream -/
def astReads : BSt → List Op → List String × BSt
  | st, [] => ([], st)
  | st, o :: os =>
    let r := astRead st o
    let item := tagOf o ++ ":" ++ (match r.1 with
      | .ok x => showVal x
      | .err e => "err-" ++ showErr e
      | .panic => "panic"
      | .stuck => "stuck") ++ "@" ++ obsInt "OctetsStream.Position" r.2
    let rest := astReads r.2 os
    (item :: rest.1, rest.2)

/-- ast11, one `seq` line (format of `renderC11`) -/
def renderAst11 (vals : List Val) : String :=
  match astWrites ⟨[], 0, 0⟩ vals with
  | .error what => "bytes=" ++ what
  | .ok st =>
    let wire := match call "OctetsStream.Bytes" [] st with
      | some (.ret [.bytes l] _ _) => "bytes=" ++ hexOf l
      | some .panic => "bytes=panic"
      | _ => "bytes=stuck"
    let rs := astReads st (vals.map Val.op)
    joinSp ([wire, "|"] ++ rs.1 ++
      ["|", "len=" ++ obsInt "OctetsStream.Len" rs.2, "pos=" ++ obsInt "OctetsStream.Position" rs.2, "|", "alias=ok"])

def renderAstObs (vals : List Val) : String :=
  let r := renderAst11 vals
  if r.endsWith " | alias=ok" then (r.dropEnd 11).toString else r

def renderAstConc (rest : String) : String :=
  let bodies := (rest.splitOn "||").map (fun b => (b.splitOn ";").map (fun s => s.trimAscii.toString) |>.filter (· ≠ ""))
    |>.filter (fun b => !b.isEmpty)
  match parseAll? (fun b => parseAll? parseVal? b) bodies with
  | none => "bad-op"
  | some vss => " || ".intercalate (vss.map renderAstObs ++ ["conc=ok"])

/-- one interpreted call of ast12 on the stream object `st` (alloc counted from 0): text and the stream afterwards -/
def showAst12 (st : BSt) (o : Op) : String × BSt :=
  let st0 : BSt := { st with alloc := 0 }
  let r := astRead st0 o
  let out := match r.1 with
    | .ok (.raw l) => s!"ok:{l.length}:" ++ hexOf l
    | .ok (.bytes l) => if l.length > st0.buffer.length then s!"ok:oversize{l.length}" else "ok:" ++ hexOf l
    | .ok (.str l) => if l.length > st0.buffer.length then s!"ok:oversize{l.length}" else "ok:" ++ hexOf l
    | .ok v => "ok:" ++ showVal v
    | .err e => "err:" ++ showErr e
    | .panic => "panic"
    | .stuck => "stuck"
  let remaining := st0.buffer.length - st0.position.toNat
  let a := if r.2.alloc > 2 * remaining + 4096 then "1" else "0"
  (out ++ " p=" ++ obsInt "OctetsStream.Position" r.2 ++ " l=" ++ obsInt "OctetsStream.Len" r.2 ++ " a=" ++ a, r.2)

/-- `@k` = a fresh stream object over the input, positioned at k; otherwise the object left by the previous call -/
def runAst12 (buf : List Byte) : BSt → List (Option Nat × Op) → List String
  | _, [] => []
  | st, (k, o) :: rest =>
    let st0 : BSt := match k with
      | some k => ⟨buf, (k : Int), 0⟩
      | none => st
    let r := showAst12 st0 o
    r.1 :: runAst12 buf r.2 rest

end Ast

def stepAst11 (_ : Unit) (line : String) : Unit × String :=
  if line.trimAscii.isEmpty then ((), "") else
  if line.startsWith "conc " then
    match line.splitOn " | " with
    | _ :: rest => ((), Ast.renderAstConc (" | ".intercalate rest))
    | [] => ((), "bad-op")
  -- 65536 interpreted round trips per `range32` line and records of ≥ 2^28 bytes are too slow for the interpreter:
  -- these two line kinds are answered by the hand-written model's functions (exactly what mode c11 prints)
  else if line.startsWith "giant " ∨ line.startsWith "range32 " then stepC11 () line
  else
  match line.splitOn "|" with
  | [h, body] =>
    if h.trimAscii.toString ≠ "seq" then ((), "bad-op") else
    let toks := (body.splitOn ";").map (fun s => s.trimAscii.toString) |>.filter (· ≠ "")
    match parseAll? parseVal? toks with
    | none => ((), "bad-op")
    | some vals => ((), Ast.renderAst11 vals)
  | _ => ((), "bad-op")

def stepAst12 (_ : Unit) (line : String) : Unit × String :=
  if line.trimAscii.isEmpty then ((), "") else
  match line.splitOn " | " with
  | [h, body] =>
    match parseBytes? h.trimAscii.toString with
    | none => ((), "bad-op")
    | some buf =>
      match parseAll? (fun (s : String) => parseStep? (words s)) (body.splitOn " ; ") with
      | none => ((), "bad-op")
      | some steps => ((), " ; ".intercalate (Ast.runAst12 buf ⟨buf, 0, 0⟩ steps) ++ " | alias=-")
  | _ => ((), "bad-op")

def stepSpec (_ : Unit) (line : String) : Unit × String :=
  match words line with
  | ["leb", n] => match parseNat? n with
    | some n => ((), hexOf (Got.Spec.Codec.leb128 n))
    | none => ((), "bad-op")
  | ["le", w, n] => match parseNat? w, parseNat? n with
    | some w, some n => ((), hexOf (Got.Spec.Codec.leBytes w n))
    | _, _ => ((), "bad-op")
  | [] => ((), "")
  | _ => ((), "bad-op")

def main (args : List String) : IO Unit := do
  match args with
  | ["c11"] => lineLoop (← IO.getStdin) (← IO.getStdout) stepC11 ()
  | ["c12"] => lineLoop (← IO.getStdin) (← IO.getStdout) stepC12 ()
  | ["ast11"] => lineLoop (← IO.getStdin) (← IO.getStdout) stepAst11 ()
  | ["ast12"] => lineLoop (← IO.getStdin) (← IO.getStdout) stepAst12 ()
  | ["spec"] => lineLoop (← IO.getStdin) (← IO.getStdout) stepSpec ()
  | _ => IO.eprintln "usage: drv_codec c11|c12|ast11|ast12|spec < script"

end Got.Drv.Codec
