import Got.Drv.Common
/- driver for the codec model family (properties C11, C12): to be written -/
namespace Got.Drv.Codec

def main (_args : List String) : IO Unit := do
  IO.eprintln "drv_codec: not implemented"

end Got.Drv.Codec
