import Got.Drv.Common
/- driver for the taskq model family (properties C09): to be written -/
namespace Got.Drv.TaskQ

def main (_args : List String) : IO Unit := do
  IO.eprintln "drv_taskq: not implemented"

end Got.Drv.TaskQ
