import Got.Drv.Common
import Got.Model.TaskQ
/-
drv_taskq (monitor mode): input line = `<script>\t<impl observation>`; answer `ok` or `reject <model line>`.

script:  c09 K <k> close <t|-> cstop <n|-> [opts <tok> ...] cons <start> <d0> <d1> ... | <p> <kind> <t> ; <p> <kind> <t> ; ...
  opts: the queue is NewQueue(options...) with the listed option calls in that order (sz<n>, cc0/cc1/cc2, lg0/lg1/lg2);
        capacity, close channel and logger are then computed by Got.Model.TaskQ.createOptions (K is ignored);
        without opts: NewQueue(WithSize(k), WithCloseChan(chan 1), WithErrorLogger(logger 1)).
  kinds: cb<code> (SendCallback, handler returns the pair of that code: 0..3 = (nil|int)×(nil|err), 4s+{0,2} = result
         shape s+1 — typed nils, pointer, struct, array, string, error-typed, slice, map — without/with err),
         cd<code> (same, consumer calls Do twice),
         nil (SendCallback(nil)), tk (SendTask(user task)), tn (SendTask(nil)),
         rs<j> (SendTask(the task this producer's send #j returned): a re-sent, possibly already executed task),
         re<j> (SendTask(the taskEmpty its nil send #j returned)).
  Times are virtual ns relative to the scenario start.  The consumer works at instants ≡ 8 (mod 16);
  the j-th received task keeps it busy until alignUp(now + d_(j mod n)).

The driver executes a *timed* run of Got.Model.TaskQ: every transition goes through `TaskQ.step`
(a disabled step is an error, reported as `E model-step-disabled`), scheduling = earliest instant first
(maximal progress, as the Go runtime's faketime clock).  Where the model is nondeterministic – a select
with both branches ready – the branch is taken from the implementation's observation (`out` field of the
send), so that acceptance = the observation is a trace of the model.  The order in which goroutines that are ready at the
SAME virtual instant run (several producers, the closer) is up to the Go runtime: the driver searches over these orders
(`solve`) and accepts if some order reproduces the observation; if the search budget runs out the line is answered
`ok unchecked …` (judged by the oracle only) — a truncated search never rejects.
-/
namespace Got.Drv.TaskQ
open Got.Model.TaskQ Got.Drv

structure SendSpec where
  g : Nat        -- global index in the script
  p : Nat
  i : Nat        -- index within the producer
  kind : String
  at_ : Nat
  deriving Inhabited

structure Scn where
  K : Nat
  close : Option Nat
  cstop : Option Nat
  cstart : Nat
  cdel : Array Nat
  sends : Array SendSpec
  byProd : Array (Array SendSpec)
  logger : Nat := 1          -- effective error logger: 1 / 2 = the scenario's counting loggers, 0 = the default stderr logger
  obsArr : Option (Array String) := none   -- observed channel order (labels of R then L), used to prune the search
  obsF : Option Nat := none                -- observed number of "queue is full" log lines (all loggers)
  putLast : Bool := false                  -- search heuristic: at a tie prefer the goroutines whose sends never arrive

inductive Cons where
  | notStarted (t : Nat)
  | waiting
  | busy (fin : Nat) (g : Nat) (delay : Nat)   -- g = original send of the task; g = number of sends: a taskEmpty
  | stopped

structure SRec where
  tb : Option Nat := none
  tr : Option Nat := none
  out : String := "-"
  id : Nat := 0        -- taskCallback id in the model
  deriving Inhabited

structure Sim where
  s : State
  err : Bool := false
  dead : Bool := false               -- this order of same-instant events contradicts the observation (pruned)
  nput : Nat := 0                    -- number of channel sends so far
  now : Nat := 0
  cursor : Array Nat
  wake : Array (Option Nat)
  blockedQ : List (Nat × Nat) := []   -- (producer, g) in the order they blocked
  cons : Cons
  ncons : Nat := 0
  closeDone : Bool := false
  srec : Array SRec
  R : Array String := #[]
  X : Array String := #[]
  executed : Array Bool
  execN : Array Nat                   -- executions of the task first sent by g
  recvN : Array Nat                   -- receptions of the task first sent by g
  G : Array (Option String)
  waiting : List Nat := []            -- g of getters blocked in Get2

def alignUp (x : Nat) : Nat :=
  let r := x % 16
  if r ≤ 8 then x - r + 8 else x - r + 24

def showOpt : Option Nat → String
  | none => "nil"
  | some v => toString v

/-- result shape of a kind code: codes 0..3 = (nil|int) × (nil|err); code ≥ 4: shape code/4+1, err bit = bit 1 -/
def resShape (code : Nat) : Nat := if code < 4 then code % 2 else code / 4 + 1

/-- the model treats results as opaque tokens: `v * 64 + shape`; rendered exactly as the harness renders the Go value
    (dynamic type + value / pointer identity) -/
def showRes : Option Nat → String
  | none => "nil"
  | some tok =>
    let v := tok / 64
    match tok % 64 with
    | 1 => s!"int={v}"
    | 2 => "*main.box(nil)"
    | 3 => "map[string]int(nil)"
    | 4 => "[]string(nil)"
    | 5 => "chan_int(nil)"
    | 6 => "func()_int(nil)"
    | 7 => "*main.box#id={" ++ toString v ++ "}"
    | 8 => "main.box={" ++ toString v ++ "}"
    | 9 => s!"[2]int=[{v}_{v + 1}]"
    | 10 => s!"string=s{v}"
    | 11 => s!"main.resErr=E{v}"
    | 12 => s!"[]int=[{v}]"
    | 13 => s!"map[string]int=map[k:{v}]"
    | 14 => "*main.perr(nil)"
    | _ => s!"int={v}"

def showErr : Option Nat → String
  | none => "nil"
  | some v => s!"*errors.errorString={v}"

def showPair (r : Pair) : String := showRes r.1 ++ "/" ++ showErr r.2

def showT : Option Nat → String
  | none => "-"
  | some v => toString v

def pairOf (code v : Nat) : Pair :=
  (if resShape code = 0 then none else some (v * 64 + (if resShape code > 14 then 1 else resShape code)),
   if code / 2 % 2 = 1 then some v else none)

def kindCode (kind : String) : Nat := ((kind.drop 2).toString.toNat?).getD 0

def isCb (kind : String) : Bool := kind.startsWith "cb" || kind.startsWith "cd"

/-- rs<j> = SendTask(task returned by this producer's send #j), re<j> = SendTask(taskEmpty returned by its nil send #j) -/
def isRs (kind : String) : Bool := kind.startsWith "rs"
def isRe (kind : String) : Bool := kind.startsWith "re"

def tag (sp : SendSpec) : String := s!"{sp.p}.{sp.i}"

/-- the send that created the task this send carries -/
def origOf (sc : Scn) (sp : SendSpec) : SendSpec :=
  if isRs sp.kind then ((sc.byProd[sp.p]!)[kindCode sp.kind]?).getD sp else sp

def doStep (sim : Sim) (a : Act) : Sim :=
  match step sim.s a with
  | some s' => { sim with s := s' }
  | none => { sim with err := true }

def hintOf (hints : List (String × String)) (t : String) : String :=
  match hints.find? (fun h => h.1 = t) with
  | some h => h.2
  | none => "put"

mutual

/-- consumer receives the head of the channel at `now` -/
partial def consRecv (sc : Scn) (hints : List (String × String)) (sim : Sim) : Sim :=
  match sim.s.chan with
  | [] => { sim with cons := .waiting }
  | m :: _ =>
    let sim := doStep sim .recv
    let sp := (sc.byProd[m.prod]!)[m.seq]!
    let osp := origOf sc sp
    let isEmpty := match m.task with | .empty => true | _ => false
    let n := sim.recvN[osp.g]! + 1
    let label := if isEmpty then "E" else if n = 1 then tag osp else s!"{tag osp}^{n}"
    let sim := { sim with R := sim.R.push s!"{label}@{sim.now}",
                          recvN := if isEmpty then sim.recvN else sim.recvN.set! osp.g n }
    let delay := sc.cdel[sim.ncons % sc.cdel.size]!
    let sim := { sim with cons := .busy (alignUp (sim.now + delay)) (if isEmpty then sc.sends.size else osp.g) delay,
                          ncons := sim.ncons + 1 }
    -- a sender blocked on the full channel is handed the free slot (sendq is FIFO)
    match sim.blockedQ with
    | (p, g) :: rest =>
      if sim.s.chan.length < sim.s.cap then
        let sim := { sim with blockedQ := rest }
        let sim := doPut sc hints sim p g
        -- the released sender goes on at this instant, in any order with the other goroutines ready now
        { sim with wake := sim.wake.set! p (some sim.now) }
      else sim
    | [] => sim

partial def doPut (sc : Scn) (hints : List (String × String)) (sim : Sim) (p g : Nat) : Sim :=
  let sim := doStep sim (.put p)
  let sp := sc.sends[g]!
  let label := if isRe sp.kind then "E" else tag (origOf sc sp)
  let sim := match sc.obsArr with
    | some arr => match arr[sim.nput]? with
      | some l => if l = label then sim else { sim with dead := true }
      | none => { sim with dead := true }
    | none => sim
  let sim := { sim with nput := sim.nput + 1 }
  let sim := { sim with srec := sim.srec.modify g (fun r => { r with tr := some sim.now, out := if isRe sp.kind then "ret" else "put" }),
                        cursor := sim.cursor.modify p (· + 1),
                        waiting := if isCb sp.kind then sim.waiting ++ [g] else sim.waiting }
  match sim.cons with
  | .waiting => consRecv sc hints sim
  | _ => sim

partial def doAbort (sc : Scn) (sim : Sim) (p g : Nat) : Sim :=
  let sim := doStep sim (.abort p)
  let sp := sc.sends[g]!
  { sim with srec := sim.srec.modify g (fun r => { r with tr := some sim.now, out := if isRe sp.kind then "ret" else "abort" }),
             cursor := sim.cursor.modify p (· + 1),
             waiting := if isCb sp.kind then sim.waiting ++ [g] else sim.waiting }

/-- producer p runs at `now` until it sleeps, blocks or is finished -/
partial def procProducer (sc : Scn) (hints : List (String × String)) (p : Nat) (sim : Sim) : Sim :=
  match (sc.byProd[p]!)[sim.cursor[p]!]? with
  | none => { sim with wake := sim.wake.set! p none }
  | some sp =>
    if sp.at_ > sim.now then { sim with wake := sim.wake.set! p (some sp.at_) }
    else
      let g := sp.g
      if sp.kind = "nil" then
        let sim := doStep sim (.sendCallback p false)
        let v := match get2 sim.s .empty with | some r => showPair r | none => "blocked"
        let sim := { sim with srec := sim.srec.set! g { tb := some sim.now, tr := some sim.now, out := "imm" },
                              cursor := sim.cursor.modify p (· + 1),
                              G := sim.G.set! g (some s!"{sim.now}={v}") }
        procProducer sc hints p sim
      else if sp.kind = "tn" then
        let sim := doStep sim (.sendTask p none)
        let sim := { sim with srec := sim.srec.set! g { tb := some sim.now, tr := some sim.now, out := "imm" },
                              cursor := sim.cursor.modify p (· + 1) }
        procProducer sc hints p sim
      else
        let osp := origOf sc sp
        let id := if isRs sp.kind then sim.srec[osp.g]!.id else sim.s.nextTask
        let sim :=
          if sp.kind = "tk" then doStep sim (.sendTask p (some (.user g)))
          else if isRs sp.kind then doStep sim (.sendTask p (some (.cb id)))
          else if isRe sp.kind then doStep sim (.sendTask p (some .empty))
          else doStep sim (.sendCallback p true)
        let sim := { sim with srec := sim.srec.set! g { tb := some sim.now, id := id } }
        let canPut := sim.s.chan.length < sim.s.cap
        let canAbort := sim.s.closed
        let choice :=
          if canPut && canAbort then (if hintOf hints (tag sp) = "abort" then "abort" else "put")
          else if canPut then "put" else if canAbort then "abort" else "block"
        let h := if sc.obsArr.isSome then hintOf hints (tag sp) else "-"
        let sim := if (h = "put" && choice = "abort") || (h = "abort" && choice = "put") || (h = "blocked" && choice != "block")
          then { sim with dead := true } else sim
        if choice = "put" then procProducer sc hints p (doPut sc hints sim p g)
        else if choice = "abort" then procProducer sc hints p (doAbort sc sim p g)
        else { sim with blockedQ := sim.blockedQ ++ [(p, g)], wake := sim.wake.set! p none }

end

/-- getters waiting on task g are released: they read result/err through the model's `get2` -/
def wakeGetters (sim : Sim) (g : Nat) : Sim :=
  if sim.waiting.contains g then
    let id := sim.srec[g]!.id
    let v := match get2 sim.s (.cb id) with | some r => showPair r | none => "blocked"
    { sim with waiting := sim.waiting.filter (· ≠ g), G := sim.G.set! g (some s!"{sim.now}={v}") }
  else sim

partial def consWake (sc : Scn) (hints : List (String × String)) (sim : Sim) (g delay : Nat) : Sim :=
  let afterDo (sim : Sim) : Sim :=
    match sc.cstop with
    | some n => if sim.ncons ≥ n then { sim with cons := .stopped } else consRecv sc hints { sim with cons := .waiting }
    | none => consRecv sc hints { sim with cons := .waiting }
  if g ≥ sc.sends.size then
    -- a taskEmpty came through the channel: Do returns nil at once
    let sim := doStep sim .doOther
    afterDo { sim with X := sim.X.push s!"E@{sim.now}=empty" }
  else
  let sp := sc.sends[g]!
  if sp.kind = "tk" then
    let sim := doStep sim .doOther
    let sim := { sim with X := sim.X.push s!"{tag sp}@{sim.now}=user", executed := sim.executed.set! g true }
    afterDo sim
  else
    let id := sim.srec[g]!.id
    let v := 1000 * sp.p + sp.i + 1
    let first := sim.execN[g]! = 0
    let r := if first then pairOf (kindCode sp.kind) v else pairOf ((kindCode sp.kind % 4 + 1) % 4) (v + 500000)
    let sim := doStep sim (.call r)
    let sim := doStep sim .store
    let sim := doStep sim .finish
    let sim := { sim with X := sim.X.push s!"{tag sp}@{sim.now}={showPair r}", executed := sim.executed.set! g true,
                          execN := sim.execN.modify g (· + 1) }
    let sim := wakeGetters sim g
    if sp.kind.startsWith "cd" && first then
      let sim := doStep sim (.redo id)
      { sim with cons := .busy (alignUp (sim.now + delay)) g delay }
    else afterDo sim

def minOpt (a : Option Nat) (b : Option Nat) : Option Nat :=
  match a, b with
  | none, b => b
  | a, none => a
  | some x, some y => some (min x y)

inductive Ev where
  | close
  | cons
  | prod (p : Nat)

/-- the earliest instant at which something is scheduled and the goroutines ready at that instant -/
def eventsAt (sc : Scn) (sim : Sim) : Option (Nat × List Ev) :=
  let tClose := if sim.closeDone then none else sc.close
  let tCons := match sim.cons with
    | .notStarted t => some t
    | .busy fin _ _ => some fin
    | _ => none
  let tProd := sim.wake.foldl minOpt none
  match minOpt tClose (minOpt tCons tProd) with
  | none => none
  | some t =>
    some (t, (if tClose = some t then [Ev.close] else []) ++ (if tCons = some t then [Ev.cons] else []) ++
      ((List.range sim.wake.size).filter (fun p => sim.wake[p]! = some t)).map Ev.prod)

/-- one goroutine runs (at sim.now) until it blocks, sleeps or ends -/
def process (sc : Scn) (hints : List (String × String)) (sim : Sim) : Ev → Sim
  | .close =>
    let sim := doStep sim .close
    let bq := sim.blockedQ
    let sim := { sim with closeDone := true, blockedQ := [] }
    -- every parked sender leaves through the closeChan branch; each goes on at this instant (in any order)
    let sim := bq.foldl (fun sim pg => doAbort sc sim pg.1 pg.2) sim
    bq.foldl (fun sim pg => { sim with wake := sim.wake.set! pg.1 (some sim.now) }) sim
  | .cons =>
    match sim.cons with
    | .notStarted _ => consRecv sc hints { sim with cons := .waiting }
    | .busy _ g delay => consWake sc hints sim g delay
    | _ => sim
  | .prod p => procProducer sc hints p sim

/-- result of the search over the orders of same-instant goroutines -/
structure Search where
  found : Bool := false
  budget : Nat
  exhausted : Bool := false
  cand : Option String := none     -- some complete model line (shown on reject)

def render (sc : Scn) (sim : Sim) : String :=
  let sPart := sc.sends.toList.map (fun sp =>
    let r := sim.srec[sp.g]!
    let out := if r.tb.isSome && r.tr.isNone then "blocked" else r.out
    s!"{tag sp}:{sp.kind}:{showT r.tb}:{showT r.tr}:{out}")
  let gPart := sc.sends.toList.filterMap (fun sp =>
    match sim.G[sp.g]! with
    | some v => some s!"{tag sp}@{v}"
    | none => if isCb sp.kind && sim.srec[sp.g]!.tr.isSome then some s!"{tag sp}@-" else none)
  let hPart := sc.sends.toList.filterMap (fun sp =>
    if isCb sp.kind && sim.srec[sp.g]!.tb.isSome then
      if sim.executed[sp.g]! then
        match get2 sim.s (.cb sim.srec[sp.g]!.id) with
        | some r => some s!"{tag sp}={showPair r}"
        | none => some s!"{tag sp}=blocked"
      else some s!"{tag sp}=-"
    else none)
  let lPart := sim.s.chan.map (fun m =>
    match m.task with
    | .empty => "E"
    | _ => tag (origOf sc ((sc.byProd[m.prod]!)[m.seq]!)))
  let fPart := if sc.logger = 1 then [toString sim.s.fullLogs, "0", "0"] else if sc.logger = 2 then ["0", toString sim.s.fullLogs, "0"]
    else ["0", "0", toString sim.s.fullLogs]
  joinSp (["S"] ++ sPart ++ ["|", "R"] ++ sim.R.toList ++ ["|", "X"] ++ sim.X.toList ++ ["|", "G"] ++ gPart
    ++ ["|", "H"] ++ hPart ++ ["|", "F"] ++ fPart ++ ["|", "L"] ++ lPart
    ++ ["|", "E", if sim.err then "model-step-disabled" else "ok"])

def parseOptNat (s : String) : Option Nat := if s = "-" then none else s.toNat?

/-- option tokens: sz<n> = WithSize(n) (n may be ≤ 0), cc0 = WithCloseChan(nil), cc1/cc2 = the scenario's channels (the
    closer closes channel 1), lg0 = WithErrorLogger(nil), lg1/lg2 = the scenario's counting loggers -/
def parseOpt? (w : String) : Option Opt :=
  if w.startsWith "sz" then ((w.drop 2).toString.toInt?).map Opt.withSize
  else if w.startsWith "cc" then ((w.drop 2).toString.toNat?).map (fun n => Opt.withCloseChan (if n = 0 then none else some n))
  else if w.startsWith "lg" then ((w.drop 2).toString.toNat?).map (fun n => Opt.withErrorLogger (if n = 0 then none else some n))
  else none

def parseScript (line : String) : Option Scn :=
  match line.splitOn " | " with
  | [head, body] =>
    match words head with
    | "c09" :: "K" :: k :: "close" :: cl :: "cstop" :: cs :: rest =>
      -- rest = ["opts", tok, ...,] "cons", start, d0, d1, ...
      let optToks := (rest.takeWhile (· ≠ "cons"))
      let consPart := (rest.dropWhile (· ≠ "cons")).drop 1
      let opts : Option (List Opt) :=
        match optToks with
        | "opts" :: toks => some (toks.filterMap parseOpt?)
        | _ => none
      match consPart with
      | [] => none
      | cstart :: dels =>
      let ops := (body.splitOn " ; ").map words
      let rec build (ops : List (List String)) (g : Nat) (cnt : Array Nat) (acc : Array SendSpec) : Option (Array SendSpec) :=
        match ops with
        | [] => some acc
        | [p, kind, t] :: rest =>
          match p.toNat?, t.toNat? with
          | some p, some t =>
            let cnt := if p < cnt.size then cnt else cnt ++ Array.replicate (p + 1 - cnt.size) 0
            build rest (g + 1) (cnt.modify p (· + 1)) (acc.push { g := g, p := p, i := cnt[p]!, kind := kind, at_ := t })
          | _, _ => none
        | [] :: rest => build rest g cnt acc
        | _ => none
      match k.toNat?, cstart.toNat?, build ops 0 #[] #[] with
      | some k, some cstart, some sends =>
        let nP := sends.foldl (fun n sp => max n (sp.p + 1)) 0
        let byProd := (Array.range nP).map (fun p => sends.filter (fun sp => sp.p = p))
        let cdel := (dels.filterMap String.toNat?).toArray
        -- the queue is built by NewQueue(options...): capacity, close channel and logger come from the option model
        let (kEff, closeEff, logger) :=
          match opts with
          | none => (k, parseOptNat cl, 1)
          | some l =>
            let o := createOptions l
            (effCap l, (if o.closeChan = some 1 then parseOptNat cl else none), o.errLogger.getD 0)
        some { K := kEff, close := closeEff, cstop := parseOptNat cs, cstart := cstart,
               cdel := if cdel.isEmpty then #[16] else cdel, sends := sends, byProd := byProd, logger := logger }
      | _, _, _ => none
    | _ => none
  | _ => none

/-- hints: (tag, out) for every send of the implementation's S section -/
def parseHints (impl : String) : List (String × String) :=
  match impl.splitOn " | " with
  | sPart :: _ =>
    (words sPart).filterMap (fun w =>
      match w.splitOn ":" with
      | [t, _, _, _, out] => some (t, out)
      | _ => none)
  | [] => []

/-- label under which the next send of producer p would appear in the channel order -/
def nextLabel (sc : Scn) (sim : Sim) (p : Nat) : Option String :=
  match (sc.byProd[p]!)[sim.cursor[p]!]? with
  | some sp => if sp.kind = "nil" || sp.kind = "tn" then none else some (if isRe sp.kind then "E" else tag (origOf sc sp))
  | none => none

/-- number of sends that can still write a "queue is full" line -/
def sendsLeft (sc : Scn) (sim : Sim) : Nat :=
  (List.range sc.byProd.size).foldl (fun n p => n + ((sc.byProd[p]!).size - sim.cursor[p]!)) 0

/-- Depth-first search over the orders in which the goroutines that are ready at the same virtual instant run (the Go
    runtime decides that order; the harness cannot).  Every branch is a timed execution of Got.Model.TaskQ; a branch is
    abandoned as soon as it contradicts the observation (forced select branch ≠ observed, channel order ≠ observed).
    `found` = some order reproduces the observation exactly.  When the node budget runs out the line is NOT judged
    (`exhausted`): a truncated search never rejects. -/
partial def solve (sc : Scn) (hints : List (String × String)) (impl : String) (disc : Option Nat) (sim : Sim)
    (lastPure : Option (Nat × Nat)) (st : Search) : Search :=
  if st.found || st.exhausted then st
  else if st.budget = 0 then { st with exhausted := true }
  else if sim.dead then st
  else
    -- the log-line count is monotone: too many already, or too few even if every remaining send logged
    let fBad := match sc.obsF with
      | some f => decide (sim.s.fullLogs > f) || decide (sim.s.fullLogs + sendsLeft sc sim + sim.blockedQ.length < f)
      | none => false
    if fBad then st else
    match eventsAt sc sim with
    | none =>
      let line := render sc sim
      { st with found := impl.isEmpty || line = impl, budget := st.budget - 1, cand := match st.cand with
                                                                                 | some c => some c
                                                                                 | none => some line }
    | some (t, evs) =>
      -- preferred order at a tie: the producer whose send is the next one in the observed channel order; then the closer and
      -- the consumer; then the producers in the order in which their next sends appear in the observed channel order
      -- (that is the order in which they got their slot or parked in the send queue); those that never arrive last
      let evs : List Ev := match sc.obsArr with
        | some arr =>
          let keyOf (p : Nat) : Nat :=
            match nextLabel sc sim p with
            | some l =>
              match (List.range (arr.size - sim.nput)).find? (fun i => arr[sim.nput + i]! = l) with
              | some i => i
              | none => arr.size + 1 + p
            | none => arr.size + 1 + p
          let prods := evs.filterMap (fun e => match e with
            | Ev.prod p => some (keyOf p, p)
            | _ => none)
          let others := evs.filter (fun e => match e with
            | Ev.prod _ => false
            | _ => true)
          let sorted : List (Nat × Nat) := (prods.toArray.qsort (fun a b => a.1 < b.1 || (a.1 = b.1 && a.2 < b.2))).toList
          if sc.putLast then
            others ++ (sorted.filter (fun x => x.1 > arr.size) ++ sorted.filter (fun x => x.1 ≤ arr.size)).map
              (fun (x : Nat × Nat) => Ev.prod x.2)
          else
          match sorted with
          | (0, p) :: rest =>
            if hintOf hints (match (sc.byProd[p]!)[sim.cursor[p]!]? with
                | some sp => tag sp
                | none => "") = "put"
            then Ev.prod p :: others ++ rest.map (fun (x : Nat × Nat) => Ev.prod x.2)
            else others ++ sorted.map (fun (x : Nat × Nat) => Ev.prod x.2)
          | _ => others ++ sorted.map (fun (x : Nat × Nat) => Ev.prod x.2)
        | none => evs
      -- limited-discrepancy search: `disc` = how often a path may still deviate from the preferred goroutine at a tie
      evs.zipIdx.foldl (fun (st : Search) (ei : Ev × Nat) =>
        let e := ei.1
        let disc' : Option (Option Nat) :=
          if ei.2 = 0 then some disc
          else match disc with
            | none => some none
            | some 0 => none
            | some (d + 1) => some (some d)
        if st.found || st.exhausted then st
        else match disc' with
        | none => st
        | some disc' =>
          let sim1 := process sc hints { sim with now := t } e
          -- partial-order reduction: a producer whose run changed nothing shared but the log counter (all its sends left through
          -- closeChan at once) commutes with the previous such producer at this instant; only the ascending order is explored
          let pure := match e with
            | Ev.prod _ => sim1.s.chan.length = sim.s.chan.length && sim1.s.closed = sim.s.closed &&
                         sim1.blockedQ.length = sim.blockedQ.length && sim1.nput = sim.nput && sim1.ncons = sim.ncons
            | _ => false
          let skip := match e, lastPure with
            | Ev.prod q, some (t', p) => pure && t' = t && decide (q < p)
            | _, _ => false
          if skip then st
          else
            let lp := match e with
              | Ev.prod q => if pure then some (t, q) else none
              | _ => none
            solve sc hints impl disc' sim1 lp { st with budget := st.budget - 1 }) st

def initSim (sc : Scn) (hints : List (String × String)) : Sim :=
  let nP := sc.byProd.size
  let n := sc.sends.size
  let sim : Sim := { s := init sc.K, cursor := Array.replicate nP 0, wake := Array.replicate nP none,
                     cons := .notStarted (alignUp sc.cstart), srec := Array.replicate n {},
                     executed := Array.replicate n false, execN := Array.replicate n 0, recvN := Array.replicate n 0,
                     G := Array.replicate n none }
  -- every producer starts at instant 0
  (List.range nP).foldl (fun sim p => procProducer sc hints p sim) sim

/-- observed channel order: labels of the R section (without `^n` / `@t`) followed by the L section -/
def parseArrivals (impl : String) : Array String :=
  let secs := impl.splitOn " | "
  let sec (name : String) : List String :=
    match secs.find? (fun x => (words x).head? = some name) with
    | some x => (words x).drop 1
    | none => []
  let strip (w : String) : String := (((w.splitOn "@").headD w).splitOn "^").headD w
  ((sec "R").map strip ++ (sec "L")).toArray

/-- State = number of lines rejected so far. Once `rejectCap` lines have been rejected after a complete search the
    verdict of the run is settled (the correspondence is broken), so later lines only get the cheap restricted passes
    and are answered `ok unchecked reject-cap-reached` when those do not reproduce the observation: the run stays
    bounded on a tree where most lines differ. -/
def rejectCap : Nat := 300

def stepLine (rejects : Nat) (line : String) : Nat × String :=
  let keep (p : Unit × String) : Nat × String := (rejects, p.2)
  if line.isEmpty then (rejects, "") else keep <|
  let (script, impl) := match line.splitOn "\t" with
    | [s, i] => (s, i)
    | [s] => (s, "")
    | _ => (line, "")
  -- stress lines (real goroutines racing on several Ps) are judged by the property oracle only: the model allows
  -- every outcome of the race
  if script.startsWith "stress " then ((), "ok oracle-only") else
  match parseScript script with
  | none => ((), "reject bad-script")
  | some sc =>
    let wellFormed := impl.startsWith "S "
    let obsF : Option Nat :=
      match (impl.splitOn " | ").find? (fun x => (words x).head? = some "F") with
      | some x => some (((words x).drop 1).foldl (fun n w => n + (w.toNat?.getD 0)) 0)
      | none => none
    let sc := if wellFormed then { sc with obsArr := some (parseArrivals impl), obsF := obsF } else sc
    let hints := parseHints impl
    let budget := 60000 + 400 * sc.sends.size
    -- passes with 0, 1, 2, 3, 4 deviations from the preferred order, then the unrestricted search (only that one can reject)
    let sim0 := initSim sc hints
    -- (each restricted pass with both tie heuristics: arriving sends first / arriving sends last)
    let capped := rejects ≥ rejectCap && !impl.isEmpty
    let passes : List (Option Nat) := if capped then [some 0, some 1] else [some 0, some 1, some 2, some 3, some 4, none]
    let r := passes.foldl (fun (r : Search) d =>
      let r := if r.found || r.exhausted then r else solve sc hints impl d sim0 none r
      if r.found || r.exhausted || d.isNone then r else solve { sc with putLast := true } hints impl d sim0 none r)
      { budget := budget }
    if impl.isEmpty then ((), r.cand.getD "<no outcome>")            -- run mode: print a model line
    else if r.found then ((), "ok")
    else if r.exhausted then ((), "ok unchecked search-budget-exhausted")   -- never reject on a truncated search
    else if capped then ((), "ok unchecked reject-cap-reached")
    else ((), "reject " ++ r.cand.getD "<every order contradicts the observation>")

def main (_args : List String) : IO Unit := do
  lineLoop (← IO.getStdin) (← IO.getStdout)
    (fun (n : Nat) l => let (n', o) := stepLine n l; ((if o.startsWith "reject" then n' + 1 else n'), o)) 0

end Got.Drv.TaskQ
