import Got.Drv.Common
/- driver for the bytes model family (properties C13): to be written -/
namespace Got.Drv.Bytes

def main (_args : List String) : IO Unit := do
  IO.eprintln "drv_bytes: not implemented"

end Got.Drv.Bytes
