import Got.Drv.Common
import Got.Model.BytesBuffer
import Got.Model.BytesStream
import Got.Model.BytesStreamAst
/-
drv_bytes: one script line = one op sequence on a fresh object

  buffer | write <payload> ; read <k> ; next <n> ; seek <off> <whence> ; tidy ; reset ; grow <n>
  stream | write <payload> ; wbyte <b> ; wbool <0|1> ; wi16 <d> ; wi32 <d> ; wi64 <d> ; read <k> ; rbyte ;
           tidy ; reset ; seek <off> <whence>

  item = op | `rep <k> ( op , op , ... )` (k rounds of the body; `$` in the body = round number mod 251)
  op   = [<letter>:] <operation>  (object selector, default `a`: independent model instances in one case)
  <payload> = hex string | `-` (empty) | `#<n>:<s>` (n bytes, byte j = (s+j) mod 256)
            | `@<n>:<s>` (n bytes, byte j = byte (j mod 4) of the little-endian uint32 (s<<22)+j/4; large chunks)

With the argument `ast` the `stream` lines are answered by INTERPRETING the MiniGoBytes terms tools/srcfacts regenerates
from /repo/iox/octets_stream.go (`Got.Generated.AstIox`, through `Got.Model.BytesStreamAst.astCall` — the function the
theorems `C13_translated_source_*` are about): every op is one `run table "OctetsStream.<Method>"`, every observation is
the interpreted `Bytes()`, `Len()`, `Position()`.  `buffer` lines are answered by the model in both modes.

output: per-op observations joined by ` ; `
  buffer:  <result> / <Bytes> <Len> <String> <Seek(0,Current)> <Cap>
  stream:  <result> / <Bytes> <Len> <Position>
  byte strings longer than 16 bytes are rendered as `<len>:<crc32>`
-/
namespace Got.Drv.Bytes
open Got.Model.Bytes Got.Drv

/-- CRC-32 (IEEE): table entry for one byte value -/
def crcEntry (b : Nat) : UInt32 :=
  let rec go : Nat → UInt32 → UInt32
    | 0, c => c
    | k + 1, c => go k (if c &&& 1 = 1 then (c >>> 1) ^^^ 0xEDB88320 else c >>> 1)
  go 8 (UInt32.ofNat (b % 256))

def crcTable : Array UInt32 := Array.ofFn (n := 256) (fun i => crcEntry i.val)

def crcByte (crc : UInt32) (b : Nat) : UInt32 :=
  crcTable[((crc ^^^ UInt32.ofNat (b % 256)) &&& 0xFF).toNat]! ^^^ (crc >>> 8)

def crc32 (bs : List Nat) : UInt32 := (bs.foldl crcByte 0xFFFFFFFF) ^^^ 0xFFFFFFFF

/-- CRC-32 and length in one pass -/
def crcLen (bs : List Nat) : UInt32 × Nat :=
  let rec go : List Nat → UInt32 → Nat → UInt32 × Nat
    | [], c, n => (c ^^^ 0xFFFFFFFF, n)
    | b :: rest, c, n => go rest (crcByte c b) (n + 1)
  go bs 0xFFFFFFFF 0

def hex8 (x : UInt32) : String :=
  let n := x.toNat
  String.ofList ((List.range 8).map (fun i => hexChar (n / 16 ^ (7 - i) % 16)))

/-- byte string rendering: hex up to 16 bytes, else length and CRC-32 -/
def rd (bs : List Nat) : String :=
  if (bs.drop 16).isEmpty then toHex bs
  else
    let r := crcLen bs
    s!"{r.2}:{hex8 r.1}"

def rdOpt : Option (List Nat) → String
  | some bs => rd bs
  | none => "panic"

def bigPayload (n st : Nat) : List Nat :=
  (List.range n).map (fun j => ((st * 4194304 + j / 4) >>> (8 * (j % 4))) % 256)

def parsePayload? (s : String) : Option (List Nat) :=
  if s.startsWith "@" then
    match (s.drop 1).toString.splitOn ":" with
    | [n, st] =>
      match n.toNat?, st.toNat? with
      | some n, some st => some (bigPayload n st)
      | _, _ => none
    | _ => none
  else if s.startsWith "#" then
    match (s.drop 1).toString.splitOn ":" with
    | [n, st] =>
      match n.toNat?, st.toNat? with
      | some n, some st => some ((List.range n).map (fun j => (st + j) % 256))
      | _, _ => none
    | _ => none
  else parseHex? s

/- ---------------- Buffer ---------------- -/

def bErr : Buffer.Err → String
  | .nil => "nil" | .eof => "eof" | .invalidSeek => "bad"

def bOut (op : String) : Buffer.Out → String
  | .wrote n => s!"w {n}"
  | .read d e => s!"r {rd d} {bErr e}"
  | .next d => s!"x {rd d}"
  | .seek r e => s!"s {r} {bErr e}"
  | .unit => op
  | .panic _ => "panic"

def bParse (ws : List String) : Option (Buffer.Op × String) :=
  match ws with
  | ["write", p] => (parsePayload? p).map (fun p => (.write p, "w"))
  | ["read", k] => (parseNat? k).map (fun k => (.read k, "r"))
  | ["next", n] => (parseInt? n).map (fun n => (.next n, "x"))
  | ["seek", o, w] =>
    match parseInt? o, parseInt? w with
    | some o, some w => some (.seek o w, "s")
    | _, _ => none
  | ["tidy"] => some (.tidy, "t")
  | ["reset"] => some (.reset, "z")
  | ["grow", n] => (parseInt? n).map (fun n => (.grow n, "g"))
  | _ => none

def bObserve (b : Buffer) : Buffer × String :=
  -- Seek(0, io.SeekCurrent) is itself a (state-preserving) call of the model
  let r := b.seek 0 1
  let pos := match r.2 with
    | .seek ret .nil => toString ret
    | _ => "bad"
  -- String() of the model is by definition the same value as Bytes() (the `example` below): rendered once
  let sby := rdOpt b.bytes?
  (r.1, joinSp [sby, toString b.len, sby, pos, toString b.capacity])

example (b : Buffer) : b.string? = b.bytes? := rfl

/-- object selector `<letter>:` in front of an op (default object `a`) -/
def selector (ws : List String) : Char × List String :=
  match ws with
  | w :: rest =>
    match w.toList with
    | [c, ':'] => if 'a' ≤ c ∧ c ≤ 'z' then (c, rest) else ('a', ws)
    | _ => ('a', ws)
  | [] => ('a', ws)

def lookupD {α : Type} (d : α) (k : Char) : List (Char × α) → α
  | [] => d
  | (k', v) :: rest => if k' = k then v else lookupD d k rest

def update {α : Type} (k : Char) (v : α) : List (Char × α) → List (Char × α)
  | [] => [(k, v)]
  | (k', v') :: rest => if k' = k then (k, v) :: rest else (k', v') :: update k v rest

def bRun (ops : List String) : String :=
  let rec go (objs : List (Char × Buffer)) : List String → List String → List String
    | [], acc => acc.reverse
    | o :: rest, acc =>
      let (sel, ws) := selector (words o)
      match bParse ws with
      | none => (("bad-op") :: acc).reverse
      | some (op, tag) =>
        let r := (lookupD Buffer.init sel objs).step op
        let ob := bObserve r.1
        go (update sel ob.1 objs) rest ((bOut tag r.2 ++ " / " ++ ob.2) :: acc)
  " ; ".intercalate (go [] ops [])

/- ---------------- Stream ---------------- -/

def sErr : Stream.Err → String
  | .nil => "nil" | .invalidArgument => "inval" | .notEnoughData => "nodata"

def hex2 (b : Nat) : String := String.ofList [hexChar (b / 16 % 16), hexChar (b % 16)]

def sOut (op : String) : Stream.Out → String
  | .err e => s!"w {sErr e}"
  | .read d e => s!"r {rd d} {sErr e}"
  | .byte b e => s!"b {hex2 b} {sErr e}"
  | .seek r e => s!"s {r} {sErr e}"
  | .unit => op
  | .panic _ => "panic"

def sParse (ws : List String) : Option (Stream.Op × String) :=
  match ws with
  | ["write", p] => (parsePayload? p).map (fun p => (.write p, "w"))
  | ["wbyte", b] => (parseNat? b).map (fun b => (.writeByte (b % 256), "w"))
  | ["wbool", b] => (parseNat? b).map (fun b => (.writeBool (b != 0), "w"))
  | ["wi16", d] => (parseInt? d).map (fun d => (.writeInt16 d, "w"))
  | ["wi32", d] => (parseInt? d).map (fun d => (.writeInt32 d, "w"))
  | ["wi64", d] => (parseInt? d).map (fun d => (.writeInt64 d, "w"))
  | ["read", k] => (parseNat? k).map (fun k => (.read k, "r"))
  | ["rbyte"] => some (.readByte, "b")
  | ["tidy"] => some (.tidy, "t")
  | ["reset"] => some (.reset, "z")
  | ["seek", o, w] =>
    match parseInt? o, parseInt? w with
    | some o, some w => some (.seek o w, "s")
    | _, _ => none
  | _ => none

def sObserve (s : Stream) : String :=
  joinSp [rdOpt s.bytes?, toString s.len, toString s.position]

def sRun (ops : List String) : String :=
  let rec go (objs : List (Char × Stream)) : List String → List String → List String
    | [], acc => acc.reverse
    | o :: rest, acc =>
      let (sel, ws) := selector (words o)
      match sParse ws with
      | none => (("bad-op") :: acc).reverse
      | some (op, tag) =>
        let r := (lookupD Stream.init sel objs).step op
        go (update sel r.1 objs) rest ((sOut tag r.2 ++ " / " ++ sObserve r.1) :: acc)
  " ; ".intercalate (go [] ops [])


/- ---------------- Stream, `ast` mode: the interpreted generated terms ---------------- -/
section ast
open Got.Model.MiniGoBytes (St Val Out run)
open Got.Generated.AstIox (table)

def astFuel : Nat := 64

def aErr : Option Got.Model.MiniGoBytes.Err → String
  | none => "nil"
  | some .InvalidArgument => "inval"
  | some .NotEnoughData => "nodata"
  | some .Bad7BitInt => "bad7bit"
  | some .NegativeSize => "negsize"

/-- the observation line of one call, from the Go-level results of the interpreted method -/
def aOut (tag : String) (op : Stream.Op) : Option Out → String
  | none => "stuck"
  | some .panic => "panic"
  | some (.ret vs outs _) =>
    match op, vs, outs with
    | .read _, [.int n, .err e], [some dst] => s!"r {rd ((dst.take n.toNat).map BitVec.toNat)} {aErr e}"
    | .readByte, [.bv _ _ b, .err e], _ => s!"b {hex2 b.toNat} {aErr e}"
    | .seek _ _, [.bv _ _ r, .err e], _ => s!"s {r.toInt} {aErr e}"
    | .tidy, [], _ => tag
    | .reset, [], _ => tag
    | .read _, _, _ => "ill-typed"
    | .readByte, _, _ => "ill-typed"
    | .seek _ _, _, _ => "ill-typed"
    | .tidy, _, _ => "ill-typed"
    | .reset, _, _ => "ill-typed"
    | _, [.err e], _ => s!"w {aErr e}"
    | _, _, _ => "ill-typed"

def aObserve (st : St) : String :=
  let by_ := match run table "OctetsStream.Bytes" astFuel [] st with
    | some (.ret [.bytes bs] _ _) => rd (bs.map BitVec.toNat)
    | some .panic => "panic"
    | _ => "stuck"
  let ln := match run table "OctetsStream.Len" astFuel [] st with
    | some (.ret [.int n] _ _) => toString n
    | some .panic => "panic"
    | _ => "stuck"
  let ps := match run table "OctetsStream.Position" astFuel [] st with
    | some (.ret [.int n] _ _) => toString n
    | some .panic => "panic"
    | _ => "stuck"
  joinSp [by_, ln, ps]

def aRun (ops : List String) : String :=
  let rec go (objs : List (Char × St)) : List String → List String → List String
    | [], acc => acc.reverse
    | o :: rest, acc =>
      let (sel, ws) := selector (words o)
      match sParse ws with
      | none => (("bad-op") :: acc).reverse
      | some (op, tag) =>
        let st := lookupD (⟨[], 0, 0⟩ : St) sel objs
        let r := Got.Model.BytesStreamAst.astCall astFuel st op
        let st' := match r with
          | some (.ret _ _ st') => st'
          | _ => st
        go (update sel st' objs) rest ((aOut tag op r ++ " / " ++ aObserve st') :: acc)
  " ; ".intercalate (go [] ops [])

end ast

def maxExpandedOps : Nat := 50000

/-- `rep <k> ( op , op , ... )` ↦ k copies of the body, `$` replaced by the round number mod 251 -/
def expand (items : List String) : Option (List String) :=
  let rec go : List String → List String → Option (List String)
    | [], acc => some acc.reverse
    | it :: rest, acc =>
      match words it with
      | "rep" :: k :: "(" :: more =>
        match k.toNat?, more.reverse with
        | some k, ")" :: revBody =>
          let body := ((" ".intercalate revBody.reverse).splitOn ",").map (fun s => s.trimAscii.toString)
            |>.filter (· ≠ "")
          if k > maxExpandedOps ∨ acc.length + k * body.length > maxExpandedOps then none
          else
            let rounds := (List.range k).foldl
              (fun a i => body.foldl (fun a part => part.replace "$" (toString (i % 251)) :: a) a) acc
            go rest rounds
        | _, _ => none
      | "rep" :: _ => none
      | _ => go rest (it :: acc)
  go items []

def stepWith (ast : Bool) (_ : Unit) (line : String) : Unit × String :=
  match line.splitOn " | " with
  | [head, body] =>
    let items := (body.splitOn ";").map (fun s => s.trimAscii.toString) |>.filter (· ≠ "")
    let h := head.trimAscii.toString
    if h ≠ "buffer" ∧ h ≠ "stream" then ((), "bad-op")
    else
      match expand items with
      | none => ((), "bad-op")
      | some ops =>
        if ops.isEmpty then ((), "noop")
        else if h = "buffer" then ((), bRun ops)
        else if ast then ((), aRun ops)
        else ((), sRun ops)
  | [""] => ((), "")
  | _ => ((), "bad-op")

def step : Unit → String → Unit × String := stepWith false

def main (args : List String) : IO Unit := do
  lineLoop (← IO.getStdin) (← IO.getStdout) (stepWith (args = ["ast"])) ()

end Got.Drv.Bytes
