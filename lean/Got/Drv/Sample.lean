import Got.Drv.Common
import Got.Model.Sample
import Got.Model.SampleAst
/-
drv_sample: script lines
  ws <seed> <m> w=<..> u=<..> r=<r0,r1,...> [more fields]
      only `m` and the `r=` field are used: r_i is the order rank of key i (integer; equal = tie)
      or `nan`.  output:  r <i0> <i1> ...   |   panic <invalid|makecap|index>
  wseq | <call> ; <call> ; ...     several calls in ONE process, one after the other (state carried across calls):
      v <seed> <m> w=.. u=.. r=..   a valid call, answered as `ws`
      pw <seed> <m> <n> <k>         getWeight panics at index k (recovered by the caller): `panic callback`
      nil <m> <n>                   nil getWeight:  `panic nil`
      pa <m> <n>                    invalid arguments: `panic invalid` / `panic makecap` / `panic index`
      output: the answers joined by " ; ".  The model is stateless: an earlier panic cannot influence a later call.
  stat ...      statistical phase of the harness: the model has nothing to say; output `freq ok`

With the argument `ast` every valid call (`ws`, `v`) is answered by `Got.Model.SampleAst.weightedSamplingFullA` (= `weightedSamplingFull`, keys in an array): the body of
WeightedSampling as re-described from /repo/randx/sample.go for this run (Got/Generated/AstRandxSampling.lean; the float keys
are inputs), where
heap.Push / heap.Pop are the terms regenerated from $GOROOT/src/container/heap/heap.go for this run
(Got/Generated/AstContainerHeap.lean) run by the MiniGoHeap interpreter (`diverge` = out of fuel) over the heap.Interface world
built from the methods of randx.sampleHeap as regenerated from /repo/randx/sample.go (Got/Generated/AstRandxSampleHeap.lean).
-/
namespace Got.Drv.Sample
open Got.Drv Got.Model.Sample

def parseRank (s : String) : Option RankKey :=
  if s = "nan" then some none else (parseInt? s).map some

def parseRanks (s : String) : Option (List RankKey) :=
  if s.isEmpty then some [] else (s.splitOn ",").mapM parseRank

def render : Result → String
  | .ok l => joinSp ("r" :: l.map toString)
  | .error .invalidInputs => "panic invalid"
  | .error .makeCap => "panic makecap"
  | .error .indexRange => "panic index"

def findField (pre : String) (ws : List String) : Option String :=
  (ws.find? (·.startsWith pre)).map (fun s => (s.drop pre.length).toString)

/-- which panic comes first when the callback misbehaves at index `k` (`k = 0` for a nil callback) -/
def panicCall (m n : Int) (k : Nat) (what : String) : String :=
  if n < m ∨ n ≤ 0 then "panic invalid"
  else if m < 0 then "panic makecap"
  else if m = 0 then (if k = 0 then what else "panic index")
  else if (k : Int) < n then what
  else "bad-op"

/-- a valid call: model, or (ast) the loop over the interpreted container/heap terms -/
def runWs (ast : Bool) (m : Int) (ranks : List RankKey) : String :=
  if ast then
    match Got.Model.SampleAst.weightedSamplingFullA (Got.Model.SampleAst.driverFuel ranks.length) rankLess rankGt m ranks.toArray with
    | some r => render r
    | none => "diverge"
  else render (weightedSampling rankLess rankGt m ranks)

def call (ast : Bool) (ws : List String) : String :=
  match ws with
  | "v" :: _seed :: m :: rest =>
    match parseInt? m, (findField "r=" rest).bind parseRanks with
    | some m, some ranks => runWs ast m ranks
    | _, _ => "bad-op"
  | ["pw", _seed, m, n, k] =>
    match parseInt? m, parseInt? n, parseNat? k with
    | some m, some n, some k => panicCall m n k "panic callback"
    | _, _, _ => "bad-op"
  | ["nil", m, n] =>
    match parseInt? m, parseInt? n with
    | some m, some n => panicCall m n 0 "panic nil"
    | _, _ => "bad-op"
  | ["pa", m, n] =>
    match parseInt? m, parseInt? n with
    | some m, some n =>
      if n < m ∨ n ≤ 0 then "panic invalid" else if m < 0 then "panic makecap"
      else if m = 0 then "panic index" else "bad-op"
    | _, _ => "bad-op"
  | _ => "bad-op"

def step (ast : Bool) (_ : Unit) (line : String) : Unit × String :=
  if line.startsWith "wseq | " then
    ((), " ; ".intercalate (((line.drop 7).toString.splitOn " ; ").map (fun c => call ast (words c)))) else
  match words line with
  | "ws" :: _seed :: m :: rest =>
    match parseInt? m, (findField "r=" rest).bind parseRanks with
    | some m, some ranks => ((), runWs ast m ranks)
    | _, _ => ((), "bad-op")
  | "stat" :: _ => ((), "freq ok")
  | [] => ((), "")
  | _ => ((), "bad-op")

def main (args : List String) : IO Unit := do
  lineLoop (← IO.getStdin) (← IO.getStdout) (step (args = ["ast"])) ()

end Got.Drv.Sample
