import Got.Drv.Common
/- driver for the sample model family (properties C20): to be written -/
namespace Got.Drv.Sample

def main (_args : List String) : IO Unit := do
  IO.eprintln "drv_sample: not implemented"

end Got.Drv.Sample
