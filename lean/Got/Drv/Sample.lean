import Got.Drv.Common
import Got.Model.Sample
/-
drv_sample: script lines
  ws <seed> <m> w=<..> u=<..> r=<r0,r1,...> [more fields]
      only `m` and the `r=` field are used: r_i is the order rank of key i (integer; equal = tie)
      or `nan`.  output:  r <i0> <i1> ...   |   panic <invalid|makecap|index>
  stat ...      statistical phase of the harness: the model has nothing to say; output `freq ok`
-/
namespace Got.Drv.Sample
open Got.Drv Got.Model.Sample

def parseRank (s : String) : Option RankKey :=
  if s = "nan" then some none else (parseInt? s).map some

def parseRanks (s : String) : Option (List RankKey) :=
  if s.isEmpty then some [] else (s.splitOn ",").mapM parseRank

def render : Result → String
  | .ok l => joinSp ("r" :: l.map toString)
  | .error .invalidInputs => "panic invalid"
  | .error .makeCap => "panic makecap"
  | .error .indexRange => "panic index"

def findField (pre : String) (ws : List String) : Option String :=
  (ws.find? (·.startsWith pre)).map (fun s => (s.drop pre.length).toString)

def step (_ : Unit) (line : String) : Unit × String :=
  match words line with
  | "ws" :: _seed :: m :: rest =>
    match parseInt? m, (findField "r=" rest).bind parseRanks with
    | some m, some ranks => ((), render (weightedSampling rankLess rankGt m ranks))
    | _, _ => ((), "bad-op")
  | "stat" :: _ => ((), "freq ok")
  | [] => ((), "")
  | _ => ((), "bad-op")

def main (_args : List String) : IO Unit := do
  lineLoop (← IO.getStdin) (← IO.getStdout) step ()

end Got.Drv.Sample
