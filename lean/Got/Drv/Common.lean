/-
Line-protocol plumbing shared by all driver commands (core Lean only).
-/
namespace Got.Drv

def words (s : String) : List String :=
  (s.splitOn " ").filter (· ≠ "")

def parseInt? (s : String) : Option Int := s.toInt?

def parseNat? (s : String) : Option Nat := s.toNat?

def hexDigit (c : Char) : Option Nat :=
  if '0' ≤ c ∧ c ≤ '9' then some (c.toNat - '0'.toNat)
  else if 'a' ≤ c ∧ c ≤ 'f' then some (c.toNat - 'a'.toNat + 10)
  else if 'A' ≤ c ∧ c ≤ 'F' then some (c.toNat - 'A'.toNat + 10)
  else none

/-- "0a1b" ↦ [0x0a, 0x1b]; "-" ↦ []. -/
def parseHex? (s : String) : Option (List Nat) :=
  if s = "-" then some [] else
  let rec go : List Char → List Nat → Option (List Nat)
    | [], acc => some acc.reverse
    | [_], _ => none
    | a :: b :: rest, acc =>
      match hexDigit a, hexDigit b with
      | some x, some y => go rest ((x * 16 + y) :: acc)
      | _, _ => none
  go s.toList []

def hexChar (n : Nat) : Char :=
  if n < 10 then Char.ofNat ('0'.toNat + n) else Char.ofNat ('a'.toNat + n - 10)

def toHex (bs : List Nat) : String :=
  if bs.isEmpty then "-" else
  String.ofList (bs.foldr (fun b acc => hexChar (b / 16 % 16) :: hexChar (b % 16) :: acc) [])

def joinSp (xs : List String) : String := " ".intercalate xs

/-- stateful line loop: one input line → one output line (possibly empty = no output). -/
partial def lineLoop {σ : Type} (inp out : IO.FS.Stream) (f : σ → String → σ × String) (s : σ) : IO Unit := do
  let line ← inp.getLine
  if line.isEmpty then
    out.flush
    return ()
  let l := (line.dropEndWhile (fun c => c = '\n' || c = '\r')).toString
  let (s', o) := f s l
  if !o.isEmpty then out.putStrLn o
  lineLoop inp out f s'

end Got.Drv
