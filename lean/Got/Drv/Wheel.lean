import Got.Drv.Common
import Got.Model.Wheel
import Got.Model.WheelGen
/-
drv_wheel — driver of the wheel model (property C03).  Monitor protocol: every input line is
`<script>\t<impl observation>`; the answer is `ok` or `reject <why>`.   (`drv_wheel run`: input = script
lines only, output = the model's own line.)

race lines  (controlled scheduler; deterministic: the model's line must equal the implementation's)
    race <n> <step> <ops of T1> <ops of T2> … | <schedule: thread ids, 0 = ticker>
      ops (comma separated): n<d> NewTimer(d) · a<d> AfterFunc(d,·) · r Reset() · r<x> Reset(x)
    observation:  <step log> / <tail log> | T<t>.<i>=i<cls>/<adv>,r<cls>/<adv>,c<chan>,f<tick>  …   (or  T<t>.<i>=P)
      step log entry  <tid>.<site>.<obj>   obj: p = position, s<i> = slot i, c<id> = channel id;  <tid>.start
    tail (fixed policy, mirrored here): start/finish every requester in tid order, then ticker steps until
    every returned channel is closed (at most 4·(2n+4) steps).

time lines  (real ticker under virtual time; tick j at j·step)
    time <step> <n> | <id>,<t|a>,<at>,<d>[,<delay>/<arg|->]…   …
    observation:  <id>=<fire>,<fire>,…   fire in ns since creation, P = panicked, N = never
    stage i+1 is a Reset(arg) issued `delay` ns after the fire of stage i.  A request at instant τ sees
    L = ⌊τ/step⌋ ticks; if τ is a tick instant (and the request is not a zero-delay Reset out of the
    fire itself, which is ordered after the tick) it may also be ordered before that tick (L = τ/step − 1).
-/
namespace Got.Drv.Wheel
open Got.Drv Got.Model.Wheel

/-! ### race mode -/

inductive Op where
  | new (d : Int) | after (d : Int) | reset (arg : Option Int)
  deriving Repr, Inhabited

def parseOp (w : String) : Option Op :=
  match w.toList with
  | 'n' :: rest => (parseInt? (String.ofList rest)).map Op.new
  | 'a' :: rest => (parseInt? (String.ofList rest)).map Op.after
  | ['r'] => some (Op.reset none)
  | 'r' :: rest => (parseInt? (String.ofList rest)).map (fun x => Op.reset (some x))
  | _ => none

def parseOps (w : String) : Option (List Op) := (w.splitOn ",").mapM parseOp

structure Thr where
  ops : Array Op
  started : Bool := false
  next : Nat := 0          -- index of the op in progress (or to be invoked)
  finished : Bool := false
  base : Int := 0          -- interval of the timer created by the first op
  results : Array String := #[]
  deriving Inhabited

structure Sim where
  s : State
  thr : Array Thr          -- index 0 unused (ticker)
  log : Array String := #[]
  chans : Array ChanId := #[]   -- channels returned so far

def site (l : List Int) (i : Nat) : String := toString (l.getD i 0)

/-- log entry of the ticker's pending access -/
def tickerEntry (s : State) : String :=
  match s.tpc with
  | .loadPos => s!"0.{site tickerSites 0}.p"
  | .storePos => s!"0.{site tickerSites 1}.p"
  | .swapSlot => s!"0.{site tickerSites 2}.s{s.tpos}"
  | .close => s!"0.{site tickerSites 3}.c{s.tlast}"

def reqEntry (s : State) (t : Nat) : String :=
  match s.rpc t with
  | .idle => s!"{t}.idle"
  | .loadPos => s!"{t}.{site requestSites 0}.p"
  | .loadSlot => s!"{t}.{site requestSites 1}.s{(s.rpos t + s.rk t) % s.n}"
  | .reloadPos => s!"{t}.{site requestSites 2}.p"

def opAct (t : Nat) (base : Int) : Op → Act
  | .new d => .invoke t d
  | .after d => .invoke t d
  | .reset arg => .reset t base arg

/-- invoke ops of thread t starting at its `next` until one is pending or the thread is finished -/
def invokeNext (sim : Sim) (t : Nat) : Sim :=
  match sim.thr[t]? with
  | none => sim
  | some th =>
    if th.next ≥ th.ops.size then
      { sim with thr := sim.thr.set! t { th with finished := true } }
    else
      let op := th.ops[th.next]!
      let base := match op with | .new d => d | .after d => d | .reset _ => th.base
      let np := sim.s.panics.length
      let s' := step fixed sim.s (opAct t base op)
      if s'.panics.length > np then
        -- the call panicked: the thread ends
        { sim with s := s',
                   thr := sim.thr.set! t { th with base := base, finished := true,
                                                    results := th.results.push s!"T{t}.{th.next}=P" } }
      else
        { sim with s := s', thr := sim.thr.set! t { th with base := base } }

def showChan (op : Op) (c : ChanId) : String :=
  match op with
  | .after _ => "c-"
  | _ => s!"c{c}"

/-- one schedule token -/
def token (sim : Sim) (t : Nat) : Sim :=
  if t = 0 then
    { sim with log := sim.log.push (tickerEntry sim.s), s := step fixed sim.s .tick }
  else
    match sim.thr[t]? with
    | none => sim
    | some th =>
      if th.finished then sim
      else if !th.started then
        let sim := { sim with log := sim.log.push s!"{t}.start", thr := sim.thr.set! t { th with started := true } }
        invokeNext sim t
      else
        let nd := sim.s.done.length
        let e := reqEntry sim.s t
        let s' := step fixed sim.s (.req t)
        let sim := { sim with log := sim.log.push e, s := s' }
        if s'.done.length > nd then
          match s'.done with
          | [] => sim
          | r :: _ =>
            let op := th.ops[th.next]!
            let res := s!"T{t}.{th.next}=i{r.invCls}/{r.invAdv},r{r.retCls}/{r.retAdv},{showChan op r.chan},f"
            let th := { th with next := th.next + 1, results := th.results.push res }
            invokeNext { sim with thr := sim.thr.set! t th, chans := sim.chans.push r.chan } t
        else sim

def threadFinished (sim : Sim) (t : Nat) : Bool :=
  match sim.thr[t]? with
  | none => true
  | some th => th.finished

def finishThread (sim : Sim) (t : Nat) : Nat → Sim
  | 0 => sim
  | fuel + 1 => if threadFinished sim t then sim else finishThread (token sim t) t fuel

def allClosed (sim : Sim) : Bool := sim.chans.all (fun c => (sim.s.closedBy c).isSome)

def tickUntilClosed (sim : Sim) : Nat → Sim
  | 0 => sim
  | fuel + 1 => if allClosed sim then sim else tickUntilClosed (token sim 0) fuel

/-- observed readiness: the tick that closes the channel; an AfterFunc callback whose channel was already
    closed when the request returned is observed at the return (ticks completed then) -/
def fireStr (s : State) (r : Req) (isAfter : Bool) : String :=
  match s.closedBy r.chan with
  | some j => toString (if isAfter then max j r.retCls else j)
  | none => "never"

/-- results carry the channel implicitly: re-attach the fire tick of the i-th returned channel -/
def renderResults (sim : Sim) : List String := Id.run do
  let mut out : List String := []
  let mut ci := 0
  -- results were pushed in completion order per thread; the fire tick needs the channel: recompute from `done`
  let recs := sim.s.done.reverse
  for t in [1:sim.thr.size] do
    let th := sim.thr[t]!
    let mine := recs.filter (fun r => r.tid = t)
    let mut j := 0
    for res in th.results do
      if res.endsWith ",f" then
        match mine[j]? with
        | some r => out := out ++ [res ++ fireStr sim.s r ((res.splitOn ",c-,").length > 1)]
        | none => out := out ++ [res ++ "?"]
        j := j + 1
      else
        out := out ++ [res]
    ci := ci + 1
  return out

def runRace (n step : Nat) (opss : List (List Op)) (sched : List Nat) : String :=
  let thr : Array Thr := #[{ ops := #[] }] ++ (opss.map (fun o => ({ ops := o.toArray } : Thr))).toArray
  let sim : Sim := { s := init n step, thr := thr }
  let sim := sched.foldl token sim
  let sim := { sim with log := sim.log.push "/" }
  let sim := (List.range thr.size).foldl (fun sim t => if t = 0 then sim else finishThread sim t 100000) sim
  let sim := tickUntilClosed sim (4 * (2 * n + 4))
  joinSp (sim.log.toList ++ ["|"] ++ renderResults sim)

def splitBar (ws : List String) : List String × List String :=
  (ws.takeWhile (· ≠ "|"), (ws.dropWhile (· ≠ "|")).drop 1)

def raceLine (ws : List String) : Option String :=
  let (head, sched) := splitBar ws
  match head with
  | n :: st :: ops =>
    match parseNat? n, parseNat? st, ops.mapM parseOps, sched.mapM parseNat? with
    | some n, some st, some opss, some sched =>
      if n = 0 ∨ st = 0 then none else some (runRace n st opss sched)
    | _, _, _, _ => none
  | _ => none


/-! ### `ast` mode: race lines replayed on the LTS GENERATED from the source (Got/Model/WheelGen.lean)

States are `AtomicIR.GState`s, steps are `WheelGen.tickG` / `invokeG` / `reqG`; the log entry of a step is derived from the
access `AtomicIR.exec` reports.  The hook site of an access kind is a convention of loom/verif_on.go (3 load position,
4 load slot, 5 swap slot, 6 store position, 7 close).  The tick counters (`adv` = position stores, `cls` = closes seen) and
the tick that closed each channel are bookkeeping of this observer, like in the harness. -/
namespace Ast
open Got.Model.AtomicIR Got.Model.WheelGen

structure GRec where
  tid : Nat
  invCls : Nat
  invAdv : Nat
  retCls : Nat
  retAdv : Nat
  chan : Nat

structure GSim where
  g : GState
  n : Nat
  step : Nat
  thr : Array Thr
  log : Array String := #[]
  chans : Array Nat := #[]
  adv : Nat := 0
  cls : Nat := 0
  closedAt : List (Nat × Nat) := []       -- channel, tick
  inv : Array (Nat × Nat) := #[]          -- per thread: (cls, adv) at the invocation of its pending request
  recs : Array GRec := #[]                -- completed requests, oldest first

def entryOf (t : Nat) : Option Tok → String
  | some ⟨false, .pos, _⟩ => s!"{t}.3.p"
  | some ⟨true, .pos, _⟩ => s!"{t}.6.p"
  | some ⟨false, .slot i, _⟩ => s!"{t}.4.s{i}"
  | some ⟨true, .slot i, _⟩ => s!"{t}.5.s{i}"
  | some ⟨_, .chan c, _⟩ => s!"{t}.7.c{c}"
  | _ => s!"{t}.?"

def tokOf (g : GState) (t : Nat) : Option Tok := (stepThread noPred g.mem (g.conf t)).bind (·.tok)

def gIdle (c : Config) : Bool := Got.Model.AtomicIR.isIdle c

def gInvokeNext (sim : GSim) (t : Nat) : GSim :=
  match sim.thr[t]? with
  | none => sim
  | some th =>
    if th.next ≥ th.ops.size then
      { sim with thr := sim.thr.set! t { th with finished := true } }
    else
      let op := th.ops[th.next]!
      let base := match op with | .new d => d | .after d => d | .reset _ => th.base
      let d := match op with | .new d => d | .after d => d | .reset arg => Got.Model.Wheel.resetInterval sim.step base arg
      let g' := invokeG sim.n sim.step sim.g t d
      if gIdle (g'.conf (t + 1)) then
        -- the call returned in its local prefix: it panicked (range check); the thread ends
        { sim with g := g',
                   thr := sim.thr.set! t { th with base := base, finished := true,
                                                    results := th.results.push s!"T{t}.{th.next}=P" } }
      else
        { sim with g := g', thr := sim.thr.set! t { th with base := base }, inv := sim.inv.set! t (sim.cls, sim.adv) }

def gToken (sim : GSim) (t : Nat) : GSim :=
  if t = 0 then
    let g1 := if gIdle (sim.g.conf 0) then Got.Model.AtomicIR.step prog noPred sim.g (.inv 0 1 [.int sim.n]) else sim.g
    let tk := tokOf g1 0
    let sim := { sim with log := sim.log.push (entryOf 0 tk), g := tickG sim.n sim.g }
    match tk with
    | some ⟨true, .pos, _⟩ => { sim with adv := sim.adv + 1 }
    | some ⟨_, .chan c, _⟩ => { sim with cls := sim.cls + 1, closedAt := (c, sim.cls + 1) :: sim.closedAt }
    | _ => sim
  else
    match sim.thr[t]? with
    | none => sim
    | some th =>
      if th.finished then sim
      else if !th.started then
        let sim := { sim with log := sim.log.push s!"{t}.start", thr := sim.thr.set! t { th with started := true } }
        gInvokeNext sim t
      else
        let e := if gIdle (sim.g.conf (t + 1)) then s!"{t}.idle" else entryOf t (tokOf sim.g (t + 1))
        let g' := reqG sim.g t
        let sim := { sim with log := sim.log.push e, g := g' }
        if gIdle (g'.conf (t + 1)) then
          match g'.hist.getLast? with
          | some (_, .ret (some (.ptr (some c)))) =>
            let op := th.ops[th.next]!
            let (ic, ia) := sim.inv[t]!
            let res := s!"T{t}.{th.next}=i{ic}/{ia},r{sim.cls}/{sim.adv},{showChan op c},f"
            let th := { th with next := th.next + 1, results := th.results.push res }
            gInvokeNext { sim with thr := sim.thr.set! t th, chans := sim.chans.push c,
                                   recs := sim.recs.push ⟨t, ic, ia, sim.cls, sim.adv, c⟩ } t
          | _ => sim
        else sim

def gThreadFinished (sim : GSim) (t : Nat) : Bool :=
  match sim.thr[t]? with
  | none => true
  | some th => th.finished

def gFinishThread (sim : GSim) (t : Nat) : Nat → GSim
  | 0 => sim
  | fuel + 1 => if gThreadFinished sim t then sim else gFinishThread (gToken sim t) t fuel

def gAllClosed (sim : GSim) : Bool := sim.chans.all (fun c => sim.g.mem.closed c)

def gTickUntilClosed (sim : GSim) : Nat → GSim
  | 0 => sim
  | fuel + 1 => if gAllClosed sim then sim else gTickUntilClosed (gToken sim 0) fuel

def gFireStr (sim : GSim) (r : GRec) (isAfter : Bool) : String :=
  match sim.closedAt.lookup r.chan with
  | some j => toString (if isAfter then max j r.retCls else j)
  | none => "never"

def gRenderResults (sim : GSim) : List String := Id.run do
  let mut out : List String := []
  for t in [1:sim.thr.size] do
    let th := sim.thr[t]!
    let mine := sim.recs.toList.filter (fun r => r.tid = t)
    let mut j := 0
    for res in th.results do
      if res.endsWith ",f" then
        match mine[j]? with
        | some r => out := out ++ [res ++ gFireStr sim r ((res.splitOn ",c-,").length > 1)]
        | none => out := out ++ [res ++ "?"]
        j := j + 1
      else
        out := out ++ [res]
  return out

def runRace (n step : Nat) (opss : List (List Op)) (sched : List Nat) : String :=
  let thr : Array Thr := #[{ ops := #[] }] ++ (opss.map (fun o => ({ ops := o.toArray } : Thr))).toArray
  let sim : GSim := { g := genInit n, n := n, step := step, thr := thr, inv := Array.replicate thr.size (0, 0) }
  let sim := sched.foldl gToken sim
  let sim := { sim with log := sim.log.push "/" }
  let sim := (List.range thr.size).foldl (fun sim t => if t = 0 then sim else gFinishThread sim t 100000) sim
  let sim := gTickUntilClosed sim (4 * (2 * n + 4))
  joinSp (sim.log.toList ++ ["|"] ++ gRenderResults sim)

def raceLine (ws : List String) : Option String :=
  let (head, sched) := splitBar ws
  match head with
  | n :: st :: ops =>
    match parseNat? n, parseNat? st, ops.mapM parseOps, sched.mapM parseNat? with
    | some n, some st, some opss, some sched =>
      if n = 0 ∨ st = 0 then none else some (runRace n st opss sched)
    | _, _, _, _ => none
  | _ => none

/-- `drv_wheel ast`: script lines in, for race lines the generated LTS's own line out; other lines `not-translated` -/
def runLine (line : String) : String :=
  match words line with
  | "race" :: ws => (raceLine ws).getD "bad-line"
  | _ => "not-translated"

end Ast

/-! ### timing mode -/

structure Prog where
  id : String
  after : Bool
  at_ : Nat
  d : Int
  resets : List (Nat × Option Int)

def parseReset (w : String) : Option (Nat × Option Int) :=
  match w.splitOn "/" with
  | [dl, "-"] => (parseNat? dl).map (fun x => (x, none))
  | [dl, a] => match parseNat? dl, parseInt? a with
    | some x, some y => some (x, some y)
    | _, _ => none
  | _ => none

def parseProg (w : String) : Option Prog :=
  match w.splitOn "," with
  | id :: kind :: at_ :: d :: rs =>
    match parseNat? at_, parseInt? d, rs.mapM parseReset with
    | some at_, some d, some rs =>
      if kind = "t" then some { id := id, after := false, at_ := at_, d := d, resets := rs }
      else if kind = "a" then some { id := id, after := true, at_ := at_, d := d, resets := rs }
      else none
    | _, _, _ => none
  | _ => none

/-- cross-check of the closed form against the transition system for small cases -/
def seqFire (n step L : Nat) (d : Int) : Option Nat :=
  let k := bucketIndex step d
  let acts := (List.replicate L fullTick).flatten ++ fullReq 1 d ++ (List.replicate (k + 2) fullTick).flatten
  lastFire (run fixed (init n step) acts)

/-- allowed fire instants of a request issued at instant τ for interval d -/
def allowed (step _n : Nat) (τ : Nat) (d : Int) (exact : Bool) : List Nat :=
  let k := bucketIndex step d
  let L := τ / step
  let ls := if τ % step = 0 ∧ τ > 0 ∧ !exact then [L - 1, L] else [L]
  ls.map (fun L => fireTime step L k)

def ltsAgrees (step n : Nat) (τ : Nat) (d : Int) : Bool :=
  let L := τ / step
  if n ≤ 8 ∧ L ≤ 24 then seqFire n step L d == some (L + bucketIndex step d + 1) else true

/-- walk the stages of one program against the observed fires; returns an error or none -/
def checkProg (step n : Nat) (p : Prog) (obs : List String) : Option String :=
  let rec go (τ : Nat) (d : Int) (exact : Bool) (rs : List (Nat × Option Int)) (obs : List String) (i : Nat) : Option String :=
    if rangePanics step n d then
      match obs with
      | ["P"] => none
      | _ => some s!"prog {p.id} stage {i}: interval {d} is out of range, the model panics; observed {obs}"
    else if !ltsAgrees step n τ d then some s!"prog {p.id} stage {i}: model-internal: closed form and transition system disagree"
    else
      let al := allowed step n τ d exact
      match obs with
      | [] => some s!"prog {p.id} stage {i}: no observation, model fires at {al}"
      | o :: obs' =>
        match parseNat? o with
        | none => some s!"prog {p.id} stage {i}: observed {o}, model fires at {al}"
        | some f =>
          if !al.contains f then some s!"prog {p.id} stage {i}: request at {τ} for {d}: observed fire {f}, model fires at {al}"
          else match rs with
            | [] => if obs'.isEmpty then none else some s!"prog {p.id}: surplus observations {obs'}"
            | (dl, arg) :: rs' => go (f + dl) (resetInterval step p.d arg) (dl == 0) rs' obs' (i + 1)
  go p.at_ p.d false p.resets obs 0

def timeLine (ws : List String) (impl : List String) : String :=
  let (head, progs) := splitBar ws
  match head with
  | [st, n] =>
    match parseNat? st, parseNat? n, progs.mapM parseProg with
    | some st, some n, some progs =>
      if st = 0 ∨ n = 0 then "reject bad-config" else
      if progs.length ≠ impl.length then s!"reject {progs.length} programs, {impl.length} observations" else
      let errs := (progs.zip impl).filterMap (fun (p, o) =>
        match o.splitOn "=" with
        | [id, fs] => if id ≠ p.id then some s!"prog {p.id}: observation is for {id}" else checkProg st n p (fs.splitOn ",")
        | _ => some s!"prog {p.id}: malformed observation {o}")
      match errs with
      | [] => "ok"
      | e :: _ => "reject " ++ e
    | _, _, _ => "reject bad-script"
  | _ => "reject bad-script"

def timeRun (ws : List String) : String :=
  let (head, progs) := splitBar ws
  match head with
  | [st, n] =>
    match parseNat? st, parseNat? n, progs.mapM parseProg with
    | some st, some n, some progs =>
      joinSp (progs.map (fun p => if rangePanics st n p.d then s!"{p.id}=P" else s!"{p.id}={allowed st n p.at_ p.d false}"))
    | _, _, _ => "bad-script"
  | _ => "bad-script"

/-! ### pure part (differential):  `pure <step> <n> <base> <arg|->`  = NewTimer(base) then Reset(arg…) on a wheel
that never ticks;  observation  `new=<P|k<index>> reset=<P|k<index>|->`  (index = slot read at position 0) -/
def pureLine (ws : List String) : Option String :=
  match ws with
  | [st, n, base, arg] =>
    match parseNat? st, parseNat? n, parseInt? base with
    | some st, some n, some base =>
      if st = 0 ∨ n = 0 then none else
      let a := if arg = "-" then none else parseInt? arg
      let one (d : Int) : String := if rangePanics st n d then "P" else s!"k{bucketIndex st d}"
      if rangePanics st n base then some "new=P reset=-"
      else some s!"new={one base} reset={one (resetInterval st base a)}"
    | _, _, _ => none
  | _ => none

/-! ### huge wheels, sequential:  `huge <n> <step> <pre> <ops>`  = `pre` whole ticks, then every op (n<d> NewTimer,
r / r<x> Reset) followed by ticks until the timer's channel is closed;  observation `<i>=L<ticks at the call>,f<closing tick>`
or `<i>=P`.  Closed form `fire = L + k + 1` (C03_fire_tick_sequential), cross-checked against the LTS for small cases. -/
def hugeLine (ws : List String) : Option String :=
  match ws with
  | [n, st, pre, ops] =>
    match parseNat? n, parseNat? st, parseNat? pre, parseOps ops with
    | some n, some st, some pre, some ops =>
      if n = 0 ∨ st = 0 then none else
      let rec go (ops : List Op) (i : Nat) (L : Nat) (base : Int) (acc : List String) : List String :=
        match ops with
        | [] => acc.reverse
        | op :: rest =>
          let (d, base') := match op with
            | .new d => (d, d)
            | .after d => (d, d)
            | .reset arg => (resetInterval st base arg, base)
          if rangePanics st n d then (s!"{i}=P" :: acc).reverse
          else
            let k := bucketIndex st d
            let fire := L + k + 1
            let ok := if n ≤ 8 ∧ L ≤ 24 then seqFire n st L d == some fire else true
            if ok then go rest (i + 1) fire base' (s!"{i}=L{L},f{fire}" :: acc)
            else (s!"{i}=model-internal-mismatch" :: acc).reverse
      some (joinSp (go ops 0 pre 0 []))
    | _, _, _, _ => none
  | _ => none

/-! ### constructor:  `ctor <step> <n>`  = NewWheel(step, n);  observation `P` (panic) or `ok` -/
def ctorLine (ws : List String) : Option String :=
  match ws with
  | [st, n] =>
    match parseInt? st, parseInt? n with
    | some st, some n => some (if newWheelPanics st n then "P" else "ok")
    | _, _ => none
  | _ => none

def monitor (_ : Unit) (line : String) : Unit × String :=
  if line.isEmpty then ((), "") else
  let (script, impl) := match line.splitOn "\t" with
    | [a, b] => (a, b)
    | a :: _ => (a, "<none>")
    | [] => ("", "<none>")
  match words script with
  | "race" :: ws =>
    match raceLine ws with
    | some m => ((), if m = impl then "ok" else "reject expected " ++ m)
    | none => ((), "reject bad-script")
  | "time" :: ws => ((), timeLine ws (words impl))
  | "pure" :: ws =>
    match pureLine ws with
    | some m => ((), if m = impl then "ok" else "reject expected " ++ m)
    | none => ((), "reject bad-script")
  | "huge" :: ws =>
    match hugeLine ws with
    | some m => ((), if m = impl then "ok" else "reject expected " ++ m)
    | none => ((), "reject bad-script")
  | "ctor" :: ws =>
    match ctorLine ws with
    | some m => ((), if m = impl then "ok" else "reject expected " ++ m)
    | none => ((), "reject bad-script")
  | _ => ((), "reject bad-script")

def runOnly (_ : Unit) (line : String) : Unit × String :=
  match words line with
  | "race" :: ws => ((), (raceLine ws).getD "bad-script")
  | "time" :: ws => ((), timeRun ws)
  | "pure" :: ws => ((), (pureLine ws).getD "bad-script")
  | "huge" :: ws => ((), (hugeLine ws).getD "bad-script")
  | "ctor" :: ws => ((), (ctorLine ws).getD "bad-script")
  | [] => ((), "")
  | _ => ((), "bad-script")

def main (args : List String) : IO Unit := do
  if args = ["run"] then
    lineLoop (← IO.getStdin) (← IO.getStdout) runOnly ()
  else if args = ["ast"] then
    lineLoop (← IO.getStdin) (← IO.getStdout) (fun (_ : Unit) l => ((), Ast.runLine l)) ()
  else
    lineLoop (← IO.getStdin) (← IO.getStdout) monitor ()

end Got.Drv.Wheel
