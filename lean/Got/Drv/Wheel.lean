import Got.Drv.Common
/- driver for the wheel model family (properties C03): to be written -/
namespace Got.Drv.Wheel

def main (_args : List String) : IO Unit := do
  IO.eprintln "drv_wheel: not implemented"

end Got.Drv.Wheel
