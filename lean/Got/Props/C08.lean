/- property theorems of C08 (only theorems + non-vacuity examples live here) -/
