import Got.Model.Ants
import Got.Lemmas.AntsHonour
import Got.Lemmas.AntsOptions
/-
C08 — ants: at most `size` handlers run at once and timeouts bound the wait; busy only if the queue was full.
Model: Got.Model.Ants. `State.running` is a ghost counter incremented when a handler is entered (wStart) and
decremented when it returns (wEnd) — exactly the counter the harness's handlers keep; `maxRunning` is its
high-water mark. Handlers are entered only by closures occupying one of the N inner-worker slots (tie to the source:
srcfacts tables "call sites of handler" = {closure in runTaskOnce}, "go statements in package ants" = {2 in NewPool},
checked by checklib/c08.py).
-/
open Got.Model.Ants

/-- in every reachable state at most N handler calls are in progress, including handlers of attempts that already timed
    out; the counter equals the number of inner-worker slots that are inside a handler. -/
theorem C08_max_concurrency (c : Cfg) (hc : c.old = false) (s : State) (hr : Reachable c s) :
    s.running ≤ c.N ∧ s.maxRunning ≤ c.N ∧ s.running = cnt (inH s) c.N := by
  have hi := slotInv_reachable hc hr
  obtain ⟨acts, ha⟩ := hr
  exact ⟨by rw [hi.run]; exact cnt_le _ _, max_run hc inv_init (slotInv_init c) (Nat.zero_le _) ha, hi.run⟩

/-- a task enters the discard path only by a busy test that read `len(taskChan) = cap(taskChan) = N` with the
    discardOnBusy option set, and becomes `discarded` only through that path (old and new code alike). -/
theorem C08_busy_only_if_full (c : Cfg) (s s2 : State) (act : Act) (k : Nat) (h : step c s act = some s2) :
    ((s.task k).pc ≠ .discardCb → (s2.task k).pc = .discardCb →
        act = .busyTest k ∧ s.taskQ.length = c.N ∧ (s.task k).discard = true) ∧
    ((s.task k).pc ≠ .discarded → (s2.task k).pc = .discarded → act = .discardCb k ∧ (s.task k).pc = .discardCb) :=
  discard_origin k h

/-! non-vacuity: two handlers in progress on a pool of size 2, and a discard on a full queue of size 1 -/
example : ∃ s, Reachable { N := 2 } s ∧ s.running = 2 := by
  let acts : List Act :=
    [.send 0 { timeout := 1000, retry := 1, discard := true, hasCb := false }, .busyTest 0, .enq 0, .take 0, .loopTest 0,
     .sendCl 0, .wTake 0 0 0, .wStart 0 0 true,
     .send 1 { timeout := 1000, retry := 1, discard := true, hasCb := false }, .busyTest 1, .enq 1, .take 1, .loopTest 1,
     .sendCl 1, .wTake 1 0 1, .wStart 1 0 true]
  exact ⟨(run { N := 2 } init acts).getD init, ⟨acts, run_eq_some_getD (by decide)⟩, by decide⟩

example : ∃ s s2, step { N := 1 } s (.busyTest 2) = some s2 ∧ (s2.task 2).pc = .discardCb ∧ s.taskQ.length = 1 := by
  let acts : List Act :=
    [.send 0 { timeout := 1000, retry := 1, discard := true, hasCb := false }, .busyTest 0, .enq 0, .take 0,
     .send 1 { timeout := 1000, retry := 1, discard := true, hasCb := false }, .busyTest 1, .enq 1,
     .send 2 { timeout := 1000, retry := 1, discard := true, hasCb := false }]
  refine ⟨(run { N := 1 } init acts).getD init, (step { N := 1 } ((run { N := 1 } init acts).getD init) (.busyTest 2)).getD init,
    ?_, by decide, by decide⟩
  have : (step { N := 1 } ((run { N := 1 } init acts).getD init) (.busyTest 2)).isSome = true := by decide
  cases hs : step { N := 1 } ((run { N := 1 } init acts).getD init) (.busyTest 2) with
  | none => simp [hs] at this
  | some x => simp

/-
Timing clause. `runMP c k` = executions under maximal progress (the clock moves only when no goroutine can take a
step and no cancellation-honouring handler is overdue: `quiescent`) in which, in addition, the clock never moves while
the dispatcher of task k is blocked in `sendInnerCallback` (pc = sendCl).

`C08_bound_partial` carries that no-stall condition as a hypothesis and needs nothing about the handlers.
`C08_bound_honour` (below) discharges it from the originally planned hypothesis: N ≥ 1 and every handler in the execution
honours cancellation (returns no later than the instant its ctx is done; `runH`). The lemma in between
(`Got.Model.Ants.no_stall`) is a pigeonhole over the N dispatchers and the N inner-worker slots: in a quiescent state
every occupied slot runs the live current attempt of a distinct dispatching task, so a dispatcher blocked in the closure
send would be an (N+1)-st dispatching task. Without any hypothesis on the handlers the bound is false:
C08_bound_full_false (there task A's handler ignores ctx).
-/
/-- under maximal progress, if the closure-send of task k never waits across a clock step, then task k is done no
    later than R·T after a dispatcher picked it, whatever its own and all other handlers do (they may ignore ctx);
    while it is being dispatched the clock never exceeds that bound either. -/
theorem C08_bound_partial (c : Cfg) (hc : c.old = false) (k : Nat) (acts : List Act) (s : State)
    (h : runMP c k init acts = some s) :
    ((s.task k).pc = .done → (s.task k).doneAt ≤ (s.task k).pickAt + (s.task k).R * (s.task k).T) ∧
    ((s.task k).pc.dispatching = true → s.now ≤ (s.task k).pickAt + (s.task k).R * (s.task k).T) := by
  obtain ⟨hinv, _, tk⟩ := time_runMP hc k inv_init supp_init (timeOK_default _) h
  have ok := hinv k
  have hmul : (s.task k).att * (s.task k).T ≤ (s.task k).R * (s.task k).T := Nat.mul_le_mul_right _ ok.att_le
  constructor
  · intro hd; have := tk.done hd; omega
  · intro hd
    by_cases hin : (s.task k).pc.inAttempt = true
    · have hatt : 1 ≤ (s.task k).att :=
        ok.att_pos (by cases hp : (s.task k).pc <;> simp_all [TPc.inAttempt, TPc.pre])
          (by intro hp; simp [hp, TPc.inAttempt] at hin)
      have h1 := tk.inAtt hin
      have h2 := tk.dlc hatt
      omega
    · have : (s.task k).pc = .loopTest ∨ (s.task k).pc = .onError ∨ (s.task k).pc = .wgDone := by
        cases hp : (s.task k).pc <;> simp_all [TPc.inAttempt, TPc.dispatching]
      have := tk.loop this
      omega

/-- the timing clause under the planned hypothesis: pool size N ≥ 1, maximal progress, and every handler honours
    cancellation. Then EVERY task is done no later than R·T after a dispatcher picked it, and the clock never exceeds
    that bound while the task is being dispatched. -/
theorem C08_bound_honour (c : Cfg) (hc : c.old = false) (hN : 1 ≤ c.N) (acts : List Act) (s : State)
    (h : runH c init acts = some s) (k : Nat) :
    ((s.task k).pc = .done → (s.task k).doneAt ≤ (s.task k).pickAt + (s.task k).R * (s.task k).T) ∧
    ((s.task k).pc.dispatching = true → s.now ≤ (s.task k).pickAt + (s.task k).R * (s.task k).T) :=
  C08_bound_partial c hc k acts s (runH_runMP hc hN k (allInv_init c) h)

/-- the option functions are applied left to right (createTaskOptions = a fold); a non-positive WithTimeout / WithRetry
    anywhere in the list is as if it were absent, in particular it never resets an earlier positive value; the folded
    record always has a positive timeout and retry count, which are the T and R of the bound above; the pool size (fold of
    the pool options) is ≥ 1, the hypothesis of C08_bound_honour. -/
theorem C08_options_fold (l1 l2 : List TOpt) (x : TOpt)
    (hx : (∃ d, x = .timeout d ∧ d ≤ 0) ∨ (∃ n, x = .retry n ∧ n ≤ 0)) (pl : List POpt) :
    applyOptions (l1 ++ x :: l2) = applyOptions (l1 ++ l2) ∧
    effT (applyOptions (l1 ++ l2)) = (applyOptions (l1 ++ l2)).timeout.toNat ∧ 0 < (applyOptions (l1 ++ l2)).timeout ∧
    effR (applyOptions (l1 ++ l2)) = (applyOptions (l1 ++ l2)).retry.toNat ∧ 0 < (applyOptions (l1 ++ l2)).retry ∧
    1 ≤ (applyPoolOptions pl).size :=
  ⟨applyOptions_drop_nonpos l1 l2 x hx, effT_applyOptions _, (applyOptions_pos _).1, effR_applyOptions _,
    (applyOptions_pos _).2, applyPoolOptions_size_pos pl⟩

example : (applyOptions [.timeout 1000, .retry 2, .onError true, .timeout 0, .retry 0]).timeout = 1000 ∧
    (applyOptions [.timeout 1000, .retry 2, .onError true, .timeout 0, .retry 0]).retry = 2 := by decide

/-- executions under maximal progress are executions of the model -/
theorem C08_runMP_is_run (c : Cfg) (k : Nat) (acts : List Act) (s : State) (h : runMP c k init acts = some s) :
    Reachable c s := ⟨acts, runMP_run h⟩

/-! non-vacuity of C08_bound_partial / C08_bound_honour: a maximal-progress run with honouring handlers in which task 0 times out once, then succeeds -/
def c08DemoActs : List Act :=
  [.send 0 { timeout := 1000, retry := 2, discard := true, hasCb := true }, .busyTest 0, .enq 0, .take 0,
   .loopTest 0, .sendCl 0, .wTake 0 0 0, .wStart 0 0 true, .hook3 0,
   .advance 1000, .fire 0 0, .selCtx 0, .hook2 0, .decide 0, .writeDE 0, .cancel 0, .errTest 0,
   .wEnd 0 0 0 (.h 999), .wCheck 0 0, .wClose 0 0,
   .loopTest 0, .sendCl 0, .wTake 0 1 0, .wStart 0 1 true, .hook3 0, .advance 1500, .wEnd 0 1 8 .nil, .wCheck 0 1,
   .hook1 0 1, .wCas 0 1, .hook4 0 1, .wWrite 0 1, .wClose 0 1, .selDone 0, .decide 0, .waitDone 0, .cancel 0, .errTest 0, .wgDone 0]

example : ∃ s, runMP { N := 1 } 0 init c08DemoActs = some s ∧ (s.task 0).pc = .done ∧ (s.task 0).doneAt = 1500 ∧
    (s.task 0).pickAt = 0 ∧ (s.task 0).R * (s.task 0).T = 2000 := by
  have h : (runMP { N := 1 } 0 init c08DemoActs).isSome = true := by decide
  refine ⟨(runMP { N := 1 } 0 init c08DemoActs).getD init, ?_, by decide, by decide, by decide, by decide⟩
  cases hr : runMP { N := 1 } 0 init c08DemoActs with
  | none => simp [hr] at h
  | some x => simp

example : (runH { N := 1 } init c08DemoActs).isSome = true := by decide

def sec : Nat := 1000000000

/-- N = 1. Task 0 (A): T = 1 s, R = 1, handler ignores ctx for 100 s. Task 1 (B): T = 1 s, R = 3, every handler
    honours ctx. B is picked at 1 s; its second closure-send blocks on the full inner channel until A's handler
    returns at 100 s; B is done at 101 s. Every clock step is taken in a quiescent state (maximal progress). -/
def c08ClogActs : List Act :=
  [.send 0 { timeout := 1000000000, retry := 1, discard := false, hasCb := true }, .busyTest 0, .enq 0, .take 0,
   .loopTest 0, .sendCl 0, .wTake 0 0 0, .wStart 0 0 false, .hook3 0,
   .send 1 { timeout := 1000000000, retry := 3, discard := false, hasCb := true }, .busyTest 1, .enq 1,
   .advance sec, .fire 0 0, .selCtx 0, .hook2 0, .decide 0, .writeDE 0, .cancel 0, .errTest 0, .loopTest 0, .onError 0, .wgDone 0,
   .take 1, .loopTest 1, .sendCl 1, .hook3 1,                         -- B picked at 1 s, closure 0 waits in the channel
   .advance (2 * sec), .fire 1 0, .selCtx 1, .hook2 1, .decide 1, .writeDE 1, .cancel 1, .errTest 1, .loopTest 1,
   -- attempt 2 of B: `sendCl 1` is NOT enabled (inner channel full, the only worker runs A's handler)
   .advance (3 * sec), .fire 1 1,
   .advance (100 * sec), .wEnd 0 0 5 .nil, .wCheck 0 0, .wClose 0 0,
   .wTake 1 0 0, .sendCl 1, .hook3 1, .selCtx 1, .hook2 1, .decide 1, .writeDE 1, .cancel 1, .errTest 1, .loopTest 1,
   .wStart 1 0 true, .wEnd 1 0 0 (.h 999), .wCheck 1 0, .wClose 1 0,
   .wTake 1 1 0, .sendCl 1, .hook3 1, .wStart 1 1 true, .wEnd 1 1 0 (.h 999), .wCheck 1 1, .wClose 1 1,
   .wTake 1 2 0, .wStart 1 2 true,
   .advance (101 * sec), .fire 1 2, .wEnd 1 2 0 (.h 999), .wCheck 1 2, .wClose 1 2,
   .selDone 1, .decide 1, .writeDE 1, .cancel 1, .errTest 1, .loopTest 1, .onError 1, .wgDone 1]

/-
Full-strength statement of the property's timing clause (FALSE, see below):
  for every execution under maximal progress and every accepted task k whose own handlers honour cancellation,
      doneAt k ≤ pickAt k + R k * T k.
-/
/-- the full-strength R·T bound is false: B's own handlers honour ctx, B is picked at 1 s, R·T = 3 s, done at 101 s. -/
theorem C08_bound_full_false :
    ∃ s, run { N := 1 } init c08ClogActs = some s ∧
      -- the run respects maximal progress (the clock guard is evaluated for an unused task id, i.e. without the
      -- extra no-stall condition, which this run violates for task 1 at the clock steps to 3 s and 100 s)
      runMP { N := 1 } 99 init c08ClogActs = some s ∧
      (s.task 1).pc = .done ∧ (s.task 1).pickAt = sec ∧ (s.task 1).R * (s.task 1).T = 3 * sec ∧
      (s.task 1).doneAt = 101 * sec ∧ ¬ (s.task 1).doneAt ≤ (s.task 1).pickAt + (s.task 1).R * (s.task 1).T := by
  have hmp : runMP { N := 1 } 99 init c08ClogActs = run { N := 1 } init c08ClogActs := by
    have h1 : (runMP { N := 1 } 99 init c08ClogActs).isSome = true := by decide
    cases hr : runMP { N := 1 } 99 init c08ClogActs with
    | none => simp [hr] at h1
    | some x => exact (runMP_run hr).symm
  refine ⟨(run { N := 1 } init c08ClogActs).getD init, run_eq_some_getD (by decide), ?_, ?_, ?_, ?_, ?_, ?_⟩
  · rw [hmp]; exact run_eq_some_getD (by decide)
  all_goals decide
