import Got.Model.Ants
import Got.Lemmas.Ants
/- property theorems of C08 (only theorems + non-vacuity examples live here) -/
open Got.Model.Ants

def sec : Nat := 1000000000

/-- N = 1. Task 0 (A): T = 1 s, R = 1, handler ignores ctx for 100 s. Task 1 (B): T = 1 s, R = 3, every handler
    honours ctx. B is picked at 1 s; its second closure-send blocks on the full inner channel until A's handler
    returns at 100 s; B is done at 101 s. Every clock step is taken in a quiescent state (maximal progress). -/
def c08ClogActs : List Act :=
  [.send 0 { timeout := 1000000000, retry := 1, discard := false, hasCb := true }, .busyTest 0, .enq 0, .take 0,
   .loopTest 0, .sendCl 0, .wTake 0 0 0, .wStart 0 0 false, .hook3 0,
   .send 1 { timeout := 1000000000, retry := 3, discard := false, hasCb := true }, .busyTest 1, .enq 1,
   .advance sec, .fire 0 0, .selCtx 0, .hook2 0, .decide 0, .writeDE 0, .cancel 0, .errTest 0, .loopTest 0, .onError 0, .wgDone 0,
   .take 1, .loopTest 1, .sendCl 1, .hook3 1,                         -- B picked at 1 s, closure 0 waits in the channel
   .advance (2 * sec), .fire 1 0, .selCtx 1, .hook2 1, .decide 1, .writeDE 1, .cancel 1, .errTest 1, .loopTest 1,
   -- attempt 2 of B: `sendCl 1` is NOT enabled (inner channel full, the only worker runs A's handler)
   .advance (3 * sec), .fire 1 1,
   .advance (100 * sec), .wEnd 0 0 5 .nil, .wCheck 0 0, .wClose 0 0,
   .wTake 1 0 0, .sendCl 1, .hook3 1, .selCtx 1, .hook2 1, .decide 1, .writeDE 1, .cancel 1, .errTest 1, .loopTest 1,
   .wStart 1 0 true, .wEnd 1 0 0 (.h 999), .wCheck 1 0, .wClose 1 0,
   .wTake 1 1 0, .sendCl 1, .hook3 1, .wStart 1 1 true, .wEnd 1 1 0 (.h 999), .wCheck 1 1, .wClose 1 1,
   .wTake 1 2 0, .wStart 1 2 true,
   .advance (101 * sec), .fire 1 2, .wEnd 1 2 0 (.h 999), .wCheck 1 2, .wClose 1 2,
   .selDone 1, .decide 1, .writeDE 1, .cancel 1, .errTest 1, .loopTest 1, .onError 1, .wgDone 1]

/-
Full-strength statement of the property's timing clause (FALSE, see below):
  for every execution under maximal progress and every accepted task k whose own handlers honour cancellation,
      doneAt k ≤ pickAt k + R k * T k.
-/
/-- the full-strength R·T bound is false: B's own handlers honour ctx, B is picked at 1 s, R·T = 3 s, done at 101 s. -/
theorem C08_bound_full_false :
    ∃ s, run { N := 1 } init c08ClogActs = some s ∧
      (s.task 1).pc = .done ∧ (s.task 1).pickAt = sec ∧ (s.task 1).R * (s.task 1).T = 3 * sec ∧
      (s.task 1).doneAt = 101 * sec ∧ ¬ (s.task 1).doneAt ≤ (s.task 1).pickAt + (s.task 1).R * (s.task 1).T := by
  refine ⟨(run { N := 1 } init c08ClogActs).getD init, run_eq_some_getD (by decide), ?_, ?_, ?_, ?_, ?_⟩ <;> decide
