import Got.Model.WaitClose
/- property theorems of C16 (only theorems + non-vacuity examples live here) -/
open Got.Model.WaitClose

/-- placeholder while the proofs are being written: the initial state is not closed -/
theorem C16_init_not_closed : init.state ≠ wcClosed := by decide
