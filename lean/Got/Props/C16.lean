/- property theorems of C16 (only theorems + non-vacuity examples live here) -/
