import Got.Model.WaitClose
import Got.Spec.WaitClose
import Got.Lemmas.WaitClose
/- property theorems of C16 (only theorems + non-vacuity examples live here).

All theorems quantify over every finite action list `acts` from `init` (a zero-value WaitClose): every number of
goroutines, every program of C / WaitUtil / IsClosed / Close calls, every interleaving of their single shared accesses,
every callback behaviour (duration, nil / error / panic) and every passage of time.  Because they hold in *every*
reachable state, a statement "X holds once event E is in the log" covers the state right after E and all later ones. -/
open Got.Model.WaitClose

/-- At most one callback start in any execution (and at most one close/assignment), and a callback is started only by
    the goroutine that performed the close/assignment. -/
theorem C16_one_callback (acts : List Act) :
    let s := run init acts
    cbStarts s.log ≤ 1 ∧ closeDos s.log ≤ 1 ∧
    ∀ t n, Ev.cbStart t n ∈ s.log → ∃ c m, Ev.closeDo t c m ∈ s.log := by
  intro s
  obtain ⟨hA, hB, _⟩ := reach_inv acts
  refine ⟨cbStarts_le_one hA hB, hB.dos, ?_⟩
  intro t n h
  exact hB.evs _ h

/-- No Close-return event precedes the end of the callback: whenever some Close call has returned, the state word is
    `closed`, every started callback has ended, and no goroutine is about to start or is running a callback (and, the
    state being closed for ever, none will). -/
theorem C16_return_after_callback (acts : List Act) :
    let s := run init acts
    (∃ t r n, Ev.closeRet t r n ∈ s.log) →
      s.state = wcClosed ∧ cbStarts s.log = cbEnds s.log ∧ ∀ u, s.pc u ≠ .clCbStart ∧ s.pc u ≠ .clCbRun := by
  intro s ⟨t, r, n, h⟩
  obtain ⟨hA, hB, _⟩ := reach_inv acts
  have hc : s.state = wcClosed := hB.evs _ h
  refine ⟨hc, (hB.cl hc).1, ?_⟩
  intro u
  have hf := (hA.2 u).facts
  constructor <;> intro hpc <;> rw [hpc] at hf <;> exact hf.1 hc

/-- A Close call returns only in state `closed` (its own return step), in particular after the deferred store. -/
theorem C16_close_returns_closed (acts : List Act) (t : Nat) (r : Option CbRes) :
    let s := run init acts
    s.pc t = .clRet r → s.state = wcClosed := by
  intro s hpc
  obtain ⟨hA, _, _⟩ := reach_inv acts
  have hf := (hA.2 t).facts
  rw [hpc] at hf
  exact hf

/-- A panicking callback still leaves the object closed: from any reachable state in which goroutine t runs the
    callback, the panic followed by t's three deferred/return steps gives state `closed`, a released mutex, a closed
    channel, a Close return (with nil, after recover), and no run-time fault of the Go code itself. -/
theorem C16_panic_closes (acts : List Act) (t : Nat) :
    let s := run init acts
    s.pc t = .clCbRun →
      let s' := run s [.cbEnd t .panic, .step t, .step t, .step t]
      s'.state = wcClosed ∧ s'.mu = none ∧ chanClosed s' s'.closeChan = true ∧ s'.fault = false ∧
      s'.log = s.log ++ [.cbEnd t .panic s.now, .closeRet t (some .panic) s.now] ∧ s'.pc t = .idle := by
  intro s hpc s'
  have hs' : s' = run init (acts ++ [.cbEnd t .panic, .step t, .step t, .step t]) := by
    rw [run_append]
  obtain ⟨hA', _, _⟩ := reach_inv (acts ++ [.cbEnd t .panic, .step t, .step t, .step t])
  rw [← hs'] at hA'
  have e1 : s'.state = wcClosed := by
    simp [s', run, step, stepT, hpc, upd_same]
  refine ⟨e1, ?_, ?_, hA'.1.fault, ?_, ?_⟩
  · simp [s', run, step, stepT, hpc, upd_same]
  · exact (closed_iff_done hA').mpr (hA'.1.cld e1)
  · simp [s', run, step, stepT, hpc, upd_same]
  · simp [s', run, step, stepT, hpc, upd_same]

/-- C() never returns nil. -/
theorem C16_C_not_nil (acts : List Act) :
    ∀ t ch n, Ev.cRet t ch n ∈ (run init acts).log → ch ≠ none := by
  intro t ch n h
  obtain ⟨_, hB, _⟩ := reach_inv acts
  have := hB.evs _ h
  simp only [evFacts] at this
  intro e; rw [e] at this; cases this.1

/-- At most one channel is ever created; every channel ever returned by C, used by a finished or by a still waiting
    WaitUtil is the object's one channel, and it is closed in every state in which some Close call has returned.
    The Go code itself never faults (no close of a nil or of a closed channel). -/
theorem C16_returned_channels_closed (acts : List Act) :
    let s := run init acts
    s.nchan ≤ 1 ∧ s.fault = false ∧
    (∀ t ch n, Ev.cRet t ch n ∈ s.log → ch = s.closeChan) ∧
    (∀ t b ch st T n, Ev.wuRet t b ch st T n ∈ s.log → ch = s.closeChan) ∧
    (∀ u ch st T, s.pc u = .wSel ch st T → ch = s.closeChan) ∧
    ((∃ t r n, Ev.closeRet t r n ∈ s.log) → chanClosed s s.closeChan = true) := by
  intro s
  obtain ⟨hA, hB, _⟩ := reach_inv acts
  refine ⟨hA.1.nch.1, hA.1.fault, ?_, ?_, ?_, ?_⟩
  · intro t ch n h; exact (hB.evs _ h).2
  · intro t b ch st T n h; exact (hB.evs _ h).2
  · intro u ch st T h
    have := hB.pcs u; rw [h] at this; exact this.2
  · intro ⟨t, r, n, h⟩
    have hc : s.state = wcClosed := hB.evs _ h
    exact (closed_iff_done hA).mpr (hA.1.cld hc)

/-- IsClosed is stable: once it has returned true, or once any Close call has returned, the state word is `closed`;
    it stays `closed` under every further action; and IsClosed reports exactly that word. -/
theorem C16_isclosed_stable (acts : List Act) :
    let s := run init acts
    (((∃ t r n, Ev.closeRet t r n ∈ s.log) ∨ (∃ t n, Ev.iscRet t true n ∈ s.log)) → s.state = wcClosed) ∧
    (s.state = wcClosed → ∀ more, (run s more).state = wcClosed) ∧
    (∀ t, s.pc t = .isc →
      (step s (.step t)).log = s.log ++ [.iscRet t (decide (s.state = wcClosed)) s.now]) := by
  intro s
  obtain ⟨hA, hB, _⟩ := reach_inv acts
  refine ⟨?_, ?_, ?_⟩
  · rintro (⟨t, r, n, h⟩ | ⟨t, n, h⟩)
    · exact hB.evs _ h
    · exact hB.evs _ h
  · intro hc more; exact run_closed_stable hA more hc
  · intro t hpc; simp [step, stepT, hpc]

/-- WaitUtil(T) whose timer was started at `st` and which returned at `n`:
    * true  ⇒ the close happened at some `tc ≤ n`, and (for T > 0) no later than the deadline `st + T`;
    * false ⇒ the deadline has been reached, and (for T > 0) the object was not closed strictly before the deadline —
      it is not closed yet, or the close happened at `tc ≥ st + T`.
    Hence: closed strictly before the deadline ⇒ the result is true; not closed by the deadline ⇒ false; either at
    equality.  (T ≤ 0: the whole call happens at its deadline, so either result is possible once closed.)
    `closeTime` is the instant of the close/assignment event. -/
theorem C16_waitutil (acts : List Act) :
    let s := run init acts
    (∀ t ch st T n, Ev.wuRet t true ch st T n ∈ s.log →
        ∃ tc, s.closeTime = some tc ∧ tc ≤ n ∧ (0 < T → (tc : Int) ≤ st + T)) ∧
    (∀ t ch st T n, Ev.wuRet t false ch st T n ∈ s.log →
        (st : Int) + T ≤ n ∧ (0 < T → s.closeTime = none ∨ ∃ tc, s.closeTime = some tc ∧ (st : Int) + T ≤ tc)) ∧
    (∀ tc, s.closeTime = some tc → ∃ t c, Ev.closeDo t c tc ∈ s.log) := by
  intro s
  obtain ⟨_, _, hC⟩ := reach_inv acts
  refine ⟨?_, ?_, hC.ctl⟩
  · intro t ch st T n h
    have := hC.ev _ h
    simp only [evC] at this
    exact this.2
  · intro t ch st T n h
    have := hC.ev _ h
    simp only [evC] at this
    exact this.2

/-! ### non-vacuity: concrete executions -/

/-- two goroutines Close an initialised object; goroutine 1 wins the mutex and runs its callback; goroutine 2 has passed
    the first check, blocks on the mutex, re-checks under it and returns without running its callback, after the end
    of goroutine 1's callback -/
example :
    let s := run init [.invoke 0 .c, .step 0, .step 0, .step 0, .step 0, .step 0, .step 0, .step 0,
      .invoke 1 (.close true), .invoke 2 (.close true), .step 1, .step 2, .step 1, .step 2, .step 1, .step 1, .step 1,
      .tick 5, .cbEnd 1 .ok, .step 1, .step 1, .step 2, .step 2, .step 1, .step 2, .step 2]
    s.log = [.cRet 0 (some 1) 0, .closeDo 1 1 0, .cbStart 1 0, .cbEnd 1 .ok 5, .closeRet 1 (some .ok) 5,
             .closeRet 2 none 5] ∧ s.state = wcClosed ∧ s.closed = [1, 0] := by decide

/-- closed before first use: C() returns the shared pre-closed channel (id 0); a panicking callback still closes -/
example :
    let s := run init [.invoke 1 (.close true), .step 1, .step 1, .step 1, .step 1, .step 1, .cbEnd 1 .panic,
      .step 1, .step 1, .step 1, .invoke 2 .c, .step 2, .step 2, .invoke 3 .isClosed, .step 3]
    s.log = [.closeDo 1 0 0, .cbStart 1 0, .cbEnd 1 .panic 0, .closeRet 1 (some .panic) 0, .cRet 2 (some 0) 0,
             .iscRet 3 true 0] ∧ s.nchan = 0 := by decide

/-- WaitUtil(10) started at 0: closed at 4 ⇒ true at 4; time cannot pass while the select is ready -/
example :
    let s := run init [.invoke 0 (.waitUtil 10), .step 0, .step 0, .step 0, .step 0, .step 0, .step 0, .step 0,
      .tick 4, .invoke 1 (.close false), .step 1, .step 1, .step 1, .step 1, .tick 3, .step 0]
    s.log = [.closeDo 1 1 4, .wuRet 0 true (some 1) 0 10 4] ∧ s.now = 4 := by decide

/-- WaitUtil(3) started at 0, nobody closes: time cannot jump over the deadline; false at 3 -/
example :
    let s := run init [.invoke 0 (.waitUtil 3), .step 0, .step 0, .step 0, .step 0, .step 0, .step 0, .step 0,
      .tick 7, .tick 3, .timeout 0]
    s.log = [.wuRet 0 false (some 1) 0 3 3] ∧ s.now = 3 := by decide
