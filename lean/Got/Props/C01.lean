import Got.Lemmas.MSQueueInv
import Got.Lemmas.MSQueueWitness
import Got.Lemmas.MSQueueValues
import Got.Lemmas.MSQueueLin
import Got.Lemmas.MSQueueLinSanity
import Got.Lemmas.MSQueueErase
import Got.Lemmas.MSQueueAst
/-
C01 — loom.Queue (Michael–Scott lock-free queue) is a linearizable FIFO under any interleaving of
Push and Pop.

Model: `Got.Model.MSQueue` — a labelled transition system whose `tau t` transition is one
shared-memory access of loom/queue.go (one `queueLoad`/`queueCas`), with `invPush t v`/`invPop t` as
environment actions, so `∀ acts` covers every number of goroutines, every client program and every
interleaving.  Assumption (by typing): clients never push nil — a pushed value is a `Nat`, Pop's
empty answer is `Res.val none`.
-/
open Got.Model.MSQueue Got.Spec.Lin

/-- the structural invariant (list shape, head/tail positions, tail lags by at most one node,
    thread-local snapshots, private nodes, abstract queue = replay of the log) holds in every
    reachable state. -/
theorem C01_inv : ∀ acts : List Act, Inv (run init acts) := inv_reachable

/-- no execution reaches the nil dereference `next.value` in Pop (nor any other impossible branch). -/
theorem C01_no_crash : ∀ (acts : List Act) (t : Nat), (run init acts).pc t ≠ .crash := by
  intro acts t h
  have := (inv_reachable acts).loc t
  rw [h] at this
  exact this

/-- **LP witness.** In every execution the log — history events plus the linearisation markers
    appended by the very steps that are the linearisation points — replays legally on the
    sequential FIFO (see `LinWitness`). -/
theorem C01_lp_witness : ∀ acts : List Act, LinWitness (run init acts).log := by
  intro acts
  obtain ⟨w, hw, _, _⟩ := (inv_reachable acts).logi.ex
  unfold LinWitness
  rw [hw]; rfl

/-- non-vacuity: two overlapping Pushes (thread 1 links first, thread 0's CAS fails and it helps),
    then a Pop; the log carries the markers in linearisation order. -/
example :
    (run init [.invPush 0 1, .tau 0, .invPush 1 2, .tau 1, .tau 1, .tau 0, .tau 0, .tau 1, .tau 1, .tau 0,
               .tau 0, .tau 0, .tau 0, .tau 0, .tau 0, .tau 0, .tau 0, .tau 0, .tau 0,
               .invPop 0, .tau 0, .tau 0, .tau 0, .tau 0, .tau 0]).log =
      [.inv 0 (.push 1), .inv 1 (.push 2), .lin 1 (.push 2) .ack, .lin 0 (.push 1) .ack, .ret 0 .ack,
       .inv 0 .pop, .lin 0 .pop (.val (some 2)), .ret 0 (.val (some 2))] := by decide

/-! ### corollaries of the LP witness, stated separately -/

/-- **FIFO order (and conservation).** At every instant, the values returned by Pops so far, in return
    order, followed by the current abstract queue, are exactly the pushed values in the order in which
    the Pushes took effect (each Push takes effect between its invocation and its response, by
    `C01_lp_witness`). -/
theorem C01_fifo_order : ∀ acts : List Act,
    retVals (run init acts).log ++ absQ (run init acts).toHeap = pushedLin (run init acts).log :=
  fun acts => rets_append_absQ (inv_reachable acts) (valinv_reachable acts)

/-- **no invention.** A value returned by a Pop is the argument of an invoked Push. -/
theorem C01_no_invention : ∀ (acts : List Act) (t v : Nat),
    .ret t (.val (some v)) ∈ (run init acts).log → ∃ t', .inv t' (.push v) ∈ (run init acts).log := by
  intro acts t v hm
  obtain ⟨w, hw, _, _⟩ := (inv_reachable acts).logi.ex
  exact no_invention hw hm

/-- **no duplication.** If the arguments of the invoked Pushes are pairwise distinct, then the values
    returned by Pops are pairwise distinct, and none of them is still in the queue. -/
theorem C01_no_duplication : ∀ acts : List Act, (invPushVals (run init acts).log).Nodup →
    (retVals (run init acts).log ++ absQ (run init acts).toHeap).Nodup :=
  fun acts => rets_nodup (inv_reachable acts) (valinv_reachable acts)

/-- **no loss.** At the instant a Push returns, its argument (the argument of the thread's latest
    invocation) has been popped or is in the abstract queue — and by `C01_fifo_order` it stays in
    `returned ++ queue` forever after. -/
theorem C01_no_loss : ∀ (acts : List Act) (l : List LEv) (t : Nat),
    (run init acts).log = l ++ [.ret t .ack] →
    ∃ v, lastInv t l = some (.push v) ∧ v ∈ poppedLin l ++ absQ (run init acts).toHeap := by
  intro acts l t hl
  obtain ⟨w, hw, hq, _⟩ := (inv_reachable acts).logi.ex
  rw [hl] at hw
  rw [← hq]
  exact no_loss hw

/-- **nil only if empty.** Every Pop that returns nil contains an instant — after its invocation and
    before its response — at which the abstract queue was empty. -/
theorem C01_nil_only_if_empty : ∀ (acts : List Act) (l l' : List LEv) (t : Nat),
    (run init acts).log = l ++ [.ret t (.val none)] ++ l' →
    ∃ a b, l = a ++ b ∧ EmptyInstant t a b := by
  intro acts l l' t hl
  obtain ⟨w, hw, _, _⟩ := (inv_reachable acts).logi.ex
  rw [hl] at hw
  obtain ⟨w₁, hw₁⟩ := wrun_prefix hw
  exact nil_only_if_empty hw₁

/-- non-vacuity of `C01_nil_only_if_empty`: a Pop on the empty queue returns nil; the instant is its
    load of `head.next`. -/
example : (run init [.invPop 0, .tau 0, .tau 0, .tau 0, .tau 0]).log =
    [.inv 0 .pop, .obs 0] ++ [.ret 0 (.val none)] ++ [] := by decide

/-- a complete run used for non-vacuity below: Push 7 and Push 9 by two threads (thread 1's link CAS wins,
    thread 0 retries and helps), then thread 0 pops 9. -/
def demoRun : List Act :=
  [.invPush 0 7, .tau 0, .invPush 1 9, .tau 1, .tau 1, .tau 0, .tau 0, .tau 1, .tau 1, .tau 0,
   .tau 0, .tau 0, .tau 0, .tau 0, .tau 0, .tau 0, .tau 0, .tau 0, .tau 0,
   .invPop 0, .tau 0, .tau 0, .tau 0, .tau 0, .tau 0, .tau 1]

/-- non-vacuity of `C01_no_duplication` / `C01_fifo_order` / `C01_no_invention`: distinct pushes
    `[7, 9]`, linearised in the order `[9, 7]`; the Pop returned `9`, `7` is still in the queue. -/
example : (invPushVals (run init demoRun).log).Nodup ∧
    invPushVals (run init demoRun).log = [7, 9] ∧
    pushedLin (run init demoRun).log = [9, 7] ∧
    retVals (run init demoRun).log = [9] ∧ absQ (run init demoRun).toHeap = [7] ∧
    .ret 0 (.val (some 9)) ∈ (run init demoRun).log := by decide

/-- non-vacuity of `C01_no_loss`: the log of `demoRun` ends with the response of thread 1's Push 9, whose
    value has been popped. -/
example : (run init demoRun).log = (run init demoRun).log.dropLast ++ [.ret 1 .ack] ∧
    lastInv 1 (run init demoRun).log.dropLast = some (.push 9) ∧
    9 ∈ poppedLin (run init demoRun).log.dropLast ++ absQ (run init demoRun).toHeap := by decide

/-! ### linearizability (Herlihy–Wing), by composition -/

/-- **LP soundness** (generic meta-theorem, independent of the queue model): a log whose markers
    replay legally on the FIFO has a linearizable client-visible history.  The linearization keeps
    every `lin` marker and, for each Pop that returns nil, its last `obs` marker, in log order;
    linearised-but-unreturned operations are completed, other pending ones dropped. -/
theorem C01_lp_sound : ∀ l : List LEv, LinWitness l → Linearizable FifoSpec (history l) :=
  fun _ h => lp_sound h

/-- **C01.** Every concurrent history of Push and Pop calls on one queue — any number of goroutines,
    any client programs, any interleaving of their individual atomic steps — is linearizable with
    respect to the sequential FIFO queue: it is equivalent to a legal sequential FIFO history that
    respects the real-time order of non-overlapping calls (`Got.Spec.Lin.Linearizable`). -/
theorem C01_linearizable : ∀ acts : List Act,
    Linearizable FifoSpec (history (run init acts).log) :=
  fun acts => lp_sound (C01_lp_witness acts)

/-! ### sanity of the definitions -/

/-- the definition of linearizability is not vacuous: a Pop that returns a value nobody pushed … -/
theorem C01_spec_rejects_invented_value :
    ¬ Linearizable FifoSpec [.inv 0 .pop, .ret 0 (.val (some 5))] :=
  not_linearizable_invented

/-- … and a Pop that is invoked after a Push has returned but answers nil (real-time order) are
    rejected. -/
theorem C01_spec_rejects_stale_empty :
    ¬ Linearizable FifoSpec [.inv 0 (.push 1), .ret 0 .ack, .inv 1 .pop, .ret 1 (.val none)] :=
  not_linearizable_stale_empty

/-- erasure: the ghost components (`chain`, `hi`, `ti`, `log`) are never read by the real part of the
    step function. -/
theorem C01_ghost_erasure : ∀ (s s' : State) (a : Act), core s = core s' → core (step s a) = core (step s' a) :=
  core_step

/-- a concrete instance: the overlapping history of `demoRun` (thread 1's Push 9 overlaps thread 0's
    Push 7 and Pop → 9) is linearizable, as `C01_linearizable` says. -/
example :
    history (run init demoRun).log =
      [.inv 0 (.push 7), .inv 1 (.push 9), .ret 0 .ack, .inv 0 .pop, .ret 0 (.val (some 9)), .ret 1 .ack] ∧
    Linearizable FifoSpec (history (run init demoRun).log) :=
  ⟨by decide, C01_linearizable demoRun⟩

/-! ### the translated source (translator tie for concurrent code)

`Got.Generated.AstLoomQueue.push` / `pop` are the per-thread programs that tools/srcfacts (minigo_atomic.go) re-translates
from /repo/loom/queue.go on every run into the atomic-instruction IR of Got/Model/AtomicIR.lean (queueLoad/queueCas
inlined after a shape check; `verifYield` is a no-op).  The generic small-step semantics of the IR turns them into a
labelled transition system (`Got.Model.MSQueueGen`: `genInit`, `gstep`, `genRun`; one `tau t` = one shared access of
thread `t` plus its local computation up to the next one).  The theorems below are about that *generated* LTS, so they
are re-checked against what the code says now.  `concState s aux` (Got/Lemmas/MSQueueAst.lean) is the generated-LTS
state that corresponds to the hand-written state `s`: same heap, and for each thread the continuation and locals that
the mapping `conf` assigns to its hand-written program counter. -/

/-- The translator accepted both methods: every construct of the current `Push`/`Pop` (and the shape of the helpers
    `queueLoad`/`queueCas`) is inside the AtomicIR fragment; otherwise the generated body is empty and the note names
    the construct. -/
theorem C01_translation_in_fragment :
    Got.Generated.AstLoomQueue.pushNote = "ok" ∧ Got.Generated.AstLoomQueue.popNote = "ok" := by decide

/-- **Translator tie, one step.** The LTS generated from the source and the hand-written model take the same steps:
    for every state `s` of the hand-written model (reachable or not), every client action `a` (invoke Push(v), invoke
    Pop, `tau t`) maps the corresponding generated state to the generated state that corresponds to `step s a` — heap,
    every thread's continuation and locals, and the client-visible history all coincide (no ghost component is
    involved on the generated side). -/
theorem C01_translated_source_step : ∀ (s : State) (aux : Nat → Nat) (a : Act),
    Got.Model.MSQueueGen.gstep (Got.Lemmas.MSQueueAst.concState s aux) a =
      Got.Lemmas.MSQueueAst.concState (step s a) (Got.Lemmas.MSQueueAst.auxStep s aux a) :=
  Got.Lemmas.MSQueueAst.sim_step

/-- hence every run: the client-visible history (invocations and responses with their values, in order) of the
    generated LTS after any list of actions is exactly the history of the hand-written model. -/
theorem C01_translated_source_history : ∀ acts : List Act,
    Got.Model.MSQueueGen.genHistory (Got.Model.MSQueueGen.genRun acts) = history (run init acts).log :=
  Got.Lemmas.MSQueueAst.genRun_hist

/-- **C01 for the translated source.** Every history of the LTS generated from the current source of
    `loom.Queue` — any number of goroutines, any client programs, any interleaving of their atomic steps — is
    linearizable with respect to the sequential FIFO queue. -/
theorem C01_translated_source_linearizable : ∀ acts : List Act,
    Linearizable FifoSpec (Got.Model.MSQueueGen.genHistory (Got.Model.MSQueueGen.genRun acts)) := by
  intro acts
  rw [Got.Lemmas.MSQueueAst.genRun_hist]
  exact C01_linearizable acts

/-- the translated source never dereferences nil (`next.value` in Pop, `&tail.next`/`&head.next`) and the IR
    semantics never gets stuck on it (no ill-typed operand, no statement with two accesses, local computation between
    two accesses within the fuel). -/
theorem C01_translated_source_safe : ∀ (acts : List Act) (t : Nat),
    (Got.Model.MSQueueGen.genRun acts).conf t ≠ .crash ∧ (Got.Model.MSQueueGen.genRun acts).conf t ≠ .stuck := by
  intro acts t
  rw [Got.Lemmas.MSQueueAst.genRun_eq]
  constructor
  · intro h
    exact C01_no_crash acts t ((Got.Lemmas.MSQueueAst.conf_crash_iff _ _).1 h)
  · exact Got.Lemmas.MSQueueAst.conf_ne_stuck _ _

/-- non-vacuity: the generated LTS really runs — `demoRun` (two overlapping Pushes with a failed link CAS and a helping
    step, then a Pop) executed by the AtomicIR semantics on the translated source yields this history. -/
example : Got.Model.MSQueueGen.genHistory (Got.Model.MSQueueGen.genRun demoRun) =
      [.inv 0 (.push 7), .inv 1 (.push 9), .ret 0 .ack, .inv 0 .pop, .ret 0 (.val (some 9)), .ret 1 .ack] := by decide
