/- property theorems of C01 (only theorems + non-vacuity examples live here) -/
