/- property theorems of C11 (only theorems + non-vacuity examples live here) -/
