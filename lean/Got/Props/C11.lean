import Got.Lemmas.CodecRoundtrip
import Got.Lemmas.CodecAstBytes
/-
C11 — the iox codec round-trips every value and keeps the little-endian / LEB128 wire format.

Model: `Got.Model.Codec` (writers = the bytes appended to the stream buffer, readers = functions of `(buf, pos)`), written
over `BitVec` with the Go operators, the shift amounts / masks / bounds taken from the literal tables regenerated from the
Go source. Specification: `Got.Spec.Codec` (`leBytes`, `leb128`, `twoCompl`, `prefixed`), independent of the model.
All statements are for EVERY value / every list of values / every surrounding stream content.
Only theorems and non-vacuity examples live in this file.
-/
open Got.Model.Codec Got.Spec.Codec Got.Lemmas.Codec Got.Facts

/-! ## the literals of the Go source the model is built from (re-checked whenever the source changes) -/

theorem C11_facts_literals :
    lits_iox_OctetsStream_WriteBool = [1] ∧ lits_iox_OctetsStream_ReadBool = [1] ∧
    lits_iox_OctetsStream_WriteInt16 = [8] ∧ lits_iox_OctetsStream_WriteInt32 = [8, 16, 24] ∧
    lits_iox_OctetsStream_WriteInt64 = [8, 16, 24, 32, 40, 48, 56] ∧
    lits_iox_OctetsStream_ReadInt16 = [2, 0, 0, 1, 8] ∧
    lits_iox_OctetsStream_ReadInt32 = [4, 0, 0, 1, 8, 2, 16, 3, 24] ∧
    lits_iox_OctetsStream_ReadInt64 = [8, 0, 0, 1, 8, 2, 16, 3, 24, 4, 32, 5, 40, 6, 48, 7, 56] ∧
    lits_iox_OctetsWriter_Write7BitEncodedInt = [127, 4294967168, 7] ∧
    lits_iox_OctetsReader_Read7BitEncodedInt = [0, 0, 28, 7, 0, 127, 127, 0, 15, 0, 28] ∧
    lits_iox_OctetsReader_ReadBytes = [0, 0] ∧ lits_iox_OctetsStream_Write = [0] := by
  decide

/-! ## wire format: what each writer appends -/

theorem C11_wire_bool (b : Bool) : writeBool b = leBytes 1 (if b then 1 else 0) := by
  cases b <;> rfl

theorem C11_wire_byte (b : Byte) : writeByte b = leBytes 1 b.toNat := by
  rw [leBytes_one_byte]; rfl

/-- int16: two bytes, little-endian two's complement — for every Go `int16` value `z` -/
theorem C11_wire_int16 (d : BitVec 16) :
    writeInt16 d = leBytes 2 (twoCompl 16 d.toInt) ∧ twoCompl 16 d.toInt = d.toNat ∧ (writeInt16 d).length = 2 := by
  rw [twoCompl_toInt]; exact ⟨writeInt16_wire d, rfl, rfl⟩

theorem C11_wire_int32 (d : BitVec 32) :
    writeInt32 d = leBytes 4 (twoCompl 32 d.toInt) ∧ twoCompl 32 d.toInt = d.toNat ∧ (writeInt32 d).length = 4 := by
  rw [twoCompl_toInt]; exact ⟨writeInt32_wire d, rfl, rfl⟩

theorem C11_wire_int64 (d : BitVec 64) :
    writeInt64 d = leBytes 8 (twoCompl 64 d.toInt) ∧ twoCompl 64 d.toInt = d.toNat ∧ (writeInt64 d).length = 8 := by
  rw [twoCompl_toInt]; exact ⟨writeInt64_wire d, rfl, rfl⟩

example : writeInt32 (BitVec.ofInt 32 (-2)) = [0xfe#8, 0xff#8, 0xff#8, 0xff#8] := by decide
example : writeInt16 (BitVec.ofInt 16 (-32768)) = [0x00#8, 0x80#8] := by decide
example : leBytes 4 (twoCompl 32 (-2)) = [0xfe#8, 0xff#8, 0xff#8, 0xff#8] := by decide

/-- Write7BitEncodedInt terminates and appends the unsigned LEB128 of the 32-bit pattern: 1 to 5 bytes -/
theorem C11_wire_7bit (d : BitVec 32) :
    write7 d = some (leb128 (twoCompl 32 d.toInt)) ∧ twoCompl 32 d.toInt = d.toNat ∧
      1 ≤ (leb128 d.toNat).length ∧ (leb128 d.toNat).length ≤ 5 := by
  rw [twoCompl_toInt]
  have hd := d.isLt
  have hp : 2 ^ 32 ≤ 128 ^ (4 + 1) := by decide
  have hl := leb128_length 4 d.toNat (Nat.lt_of_lt_of_le hd hp)
  exact ⟨write7_eq d, rfl, hl.1, hl.2⟩

example : write7 (BitVec.ofInt 32 (-1)) = some [0xff#8, 0xff#8, 0xff#8, 0xff#8, 0x0f#8] := by decide
example : write7 (BitVec.ofInt 32 300) = some [0xac#8, 0x02#8] := by decide
example : leb128 16384 = [0x80#8, 0x80#8, 0x01#8] := by
  rw [leb128_ge _ (by decide), leb128_ge _ (by decide), leb128_lt _ (by decide)]

/-- WriteBytes / WriteString: 7-bit length prefix, then the raw bytes (lengths below 2^31: the prefix is an int32) -/
theorem C11_wire_bytes (data : List Byte) (h : data.length < 2 ^ 31) :
    writeBytes data = some (prefixed data) ∧ writeString data = some (prefixed data) ∧
      prefixed data = leb128 data.length ++ data :=
  ⟨(rt_bytes data h [] []).1, (rt_bytes data h [] []).1, rfl⟩

example : writeBytes [0x61#8, 0xff#8] = some [2#8, 0x61#8, 0xff#8] := by decide

/-- stream.Write appends the bytes unchanged -/
theorem C11_wire_raw (data : List Byte) : writeRaw data = data := writeRaw_eq data

/-- every sequence of typed writes produces the concatenation of the documented encodings -/
theorem C11_wire_seq (vs : List Val) (h : ∀ v ∈ vs, v.valid) : encode vs = some (vs.flatMap wire) :=
  encode_wire vs h

/-! ## round trips: reading right behind `pre`, in front of any `rest`, what the writer appended -/

theorem C11_roundtrip_bool (pre rest : List Byte) (b : Bool) :
    readBool (pre ++ writeBool b ++ rest) pre.length = ⟨.ok b, pre.length + (writeBool b).length, 0⟩ :=
  rt_bool pre rest b

theorem C11_roundtrip_byte (pre rest : List Byte) (b : Byte) :
    readByte (pre ++ writeByte b ++ rest) pre.length = ⟨.ok b, pre.length + (writeByte b).length, 0⟩ :=
  rt_byte pre rest b

theorem C11_roundtrip_int16 (pre rest : List Byte) (d : BitVec 16) :
    readInt16 (pre ++ writeInt16 d ++ rest) pre.length = ⟨.ok d, pre.length + (writeInt16 d).length, 0⟩ :=
  rt_int16 pre rest d

theorem C11_roundtrip_int32 (pre rest : List Byte) (d : BitVec 32) :
    readInt32 (pre ++ writeInt32 d ++ rest) pre.length = ⟨.ok d, pre.length + (writeInt32 d).length, 0⟩ :=
  rt_int32 pre rest d

theorem C11_roundtrip_int64 (pre rest : List Byte) (d : BitVec 64) :
    readInt64 (pre ++ writeInt64 d ++ rest) pre.length = ⟨.ok d, pre.length + (writeInt64 d).length, 0⟩ :=
  rt_int64 pre rest d

theorem C11_roundtrip_7bit (pre rest : List Byte) (d : BitVec 32) :
    ∃ bs, write7 d = some bs ∧
      read7 (pre ++ bs ++ rest) pre.length = ⟨.ok d, pre.length + bs.length, 0⟩ :=
  rt_7bit pre rest d

/-- byte slices (and strings, next theorem) of every length below 2^31, any content (no UTF-8 assumption) -/
theorem C11_roundtrip_bytes (pre rest data : List Byte) (h : data.length < 2 ^ 31) :
    ∃ bs, writeBytes data = some bs ∧
      readBytes (pre ++ bs ++ rest) pre.length = ⟨.ok data, pre.length + bs.length, data.length⟩ :=
  ⟨_, (rt_bytes data h pre rest).1, (rt_bytes data h pre rest).2⟩

theorem C11_roundtrip_string (pre rest data : List Byte) (h : data.length < 2 ^ 31) :
    ∃ bs, writeString data = some bs ∧
      readString (pre ++ bs ++ rest) pre.length = ⟨.ok data, pre.length + bs.length, data.length⟩ :=
  ⟨_, (rt_bytes data h pre rest).1, (rt_bytes data h pre rest).2⟩

example : (2 : Nat) < 2 ^ 31 ∧ readBytes ([7#8] ++ [2#8, 0x61#8, 0xff#8] ++ [9#8]) 1 = ⟨.ok [0x61#8, 0xff#8], 4, 2⟩ := by
  decide

/-- stream.Write then stream.Read with a buffer of the same (non-zero) length -/
theorem C11_roundtrip_raw (pre rest data : List Byte) (h : 0 < data.length) :
    streamRead (pre ++ writeRaw data ++ rest) pre.length data.length
      = ⟨.ok (data.length, data), pre.length + data.length, 0⟩ :=
  rt_raw data h pre rest

example : 0 < [5#8, 6#8].length ∧
    streamRead ([1#8] ++ writeRaw [5#8, 6#8] ++ [9#8]) 1 2 = ⟨.ok (2, [5#8, 6#8]), 3, 0⟩ := by decide

/-- every value of every supported type, in any context: the matching read call returns it and consumes exactly the
    bytes written for it -/
theorem C11_roundtrip_val (v : Val) (h : v.valid) :
    ∃ bs, encode1 v = some bs ∧ ∀ pre rest : List Byte,
      (read1 (pre ++ bs ++ rest) pre.length v.op).out = .ok v ∧
      (read1 (pre ++ bs ++ rest) pre.length v.op).pos = pre.length + bs.length :=
  rt_val v h

/-- every sequence of typed values: writing them in order and reading them back with the matching calls returns the
    same values and consumes exactly the bytes written (also when the stream holds other data before and after) -/
theorem C11_roundtrip_seq (vs : List Val) (h : ∀ v ∈ vs, v.valid) :
    ∃ bs, encode vs = some bs ∧ ∀ pre rest : List Byte,
      decode (pre ++ bs ++ rest) pre.length (vs.map Val.op) = some (vs, pre.length + bs.length) :=
  rt_seq vs h

/-- … in particular on a fresh stream -/
theorem C11_roundtrip_seq_fresh (vs : List Val) (h : ∀ v ∈ vs, v.valid) :
    ∃ bs, encode vs = some bs ∧ decode bs 0 (vs.map Val.op) = some (vs, bs.length) := by
  obtain ⟨bs, he, hd⟩ := rt_seq vs h
  refine ⟨bs, he, ?_⟩
  have := hd [] []
  simpa using this

example : (∀ v ∈ [Val.i32 (BitVec.ofInt 32 (-2)), Val.str [0x68#8, 0x69#8], Val.v7 300#32, Val.bool true], v.valid) ∧
    encode [Val.i32 (BitVec.ofInt 32 (-2)), Val.str [0x68#8, 0x69#8], Val.v7 300#32, Val.bool true]
      = some [0xfe#8, 0xff#8, 0xff#8, 0xff#8, 2#8, 0x68#8, 0x69#8, 0xac#8, 2#8, 1#8] := by
  refine ⟨?_, by decide⟩
  intro v hv
  simp only [List.mem_cons, List.not_mem_nil, or_false] at hv
  rcases hv with h | h | h | h <;> subst h <;> simp [Val.valid]

/-- the specification decoders invert the specification encoders (sanity of the spec itself) -/
theorem C11_spec_le_inverse (w n : Nat) : leValue (leBytes w n) = n % 256 ^ w := by
  induction w generalizing n with
  | zero => simp [leBytes, leValue, Nat.mod_one]
  | succ w ih =>
    have e : (BitVec.ofNat 8 (n % 256)).toNat = n % 256 := by simp
    simp only [leBytes, leValue, ih, e]
    rw [Nat.pow_succ, Nat.mul_comm (256 ^ w) 256, Nat.mod_mul]
/-! ## the translated source (translator tie)

`Got.Generated.AstIox` holds the MiniGoBytes terms (Got/Model/MiniGoBytes.lean) that tools/srcfacts/minigo_codec.go regenerates
from /repo/iox/octets_*.go on every run (go/ast + go/types); `run table "<Type>.<Method>" fuel args st` interprets the
generated term of a method on the stream `st = ⟨buffer, position, alloc⟩`.  The theorems below are therefore re-checked
against what the code says now: each states that the interpreted *generated* term does exactly what the model function
used by all other C11 theorems does — for every argument value, every stream content and every fuel above a small
constant (fuel only bounds the number of statements executed).  `writeOut st bs` = returns `nil`, `bs` appended to the
buffer; `readOut enc zero st r` = returns the model's value / error and moves to the model's position (`crash` = panic). -/

open Got.Generated.AstIox in
/-- The translator accepted every method of OctetsStream / OctetsWriter / OctetsReader it is pointed at: every construct of
    the current source is inside the MiniGoBytes fragment (otherwise the generated body is empty and the note names the
    construct). -/
theorem C11_translation_in_fragment : notes.filter (fun p => p.2 != "ok") = [] := by decide

section translated
open Got.Model.MiniGoBytes (run St)
open Got.Generated.AstIox Got.Lemmas.CodecAst

theorem C11_translated_source_WriteBool_refines_model (b : Bool) (st : St) (fuel : Nat) (hf : 8 ≤ fuel) :
    run table "OctetsWriter.WriteBool" fuel [.bool b] st = some (writeOut st (writeBool b)) :=
  w_writeBool_ast b st fuel hf

theorem C11_translated_source_WriteByte_refines_model (b : BitVec 8) (st : St) (fuel : Nat) (hf : 8 ≤ fuel) :
    run table "OctetsWriter.WriteByte" fuel [.bv 8 false b] st = some (writeOut st (writeByte b)) :=
  w_writeByte_ast b st fuel (by omega)

theorem C11_translated_source_WriteInt16_refines_model (d : BitVec 16) (st : St) (fuel : Nat) (hf : 8 ≤ fuel) :
    run table "OctetsWriter.WriteInt16" fuel [.bv 16 true d] st = some (writeOut st (writeInt16 d)) :=
  w_writeInt16_ast d st fuel (by omega)

/-- e.g. `byte(d>>24)` of the source: arithmetic shift of the signed 32-bit value, then truncation — for all 2^32 values -/
theorem C11_translated_source_WriteInt32_refines_model (d : BitVec 32) (st : St) (fuel : Nat) (hf : 8 ≤ fuel) :
    run table "OctetsWriter.WriteInt32" fuel [.bv 32 true d] st = some (writeOut st (writeInt32 d)) :=
  w_writeInt32_ast d st fuel (by omega)

theorem C11_translated_source_WriteInt64_refines_model (d : BitVec 64) (st : St) (fuel : Nat) (hf : 8 ≤ fuel) :
    run table "OctetsWriter.WriteInt64" fuel [.bv 64 true d] st = some (writeOut st (writeInt64 d)) :=
  w_writeInt64_ast d st fuel (by omega)

/-- the loop `for num > 127 { WriteByte(byte(num | 0xFFFFFF80)); num >>= 7 }` of the source, all 2^32 values (loop
    invariant, not enumeration) -/
theorem C11_translated_source_Write7BitEncodedInt_refines_model (d : BitVec 32) (st : St) (fuel : Nat) (hf : 72 ≤ fuel) :
    run table "OctetsWriter.Write7BitEncodedInt" fuel [.bv 32 true d] st = (write7 d).map (writeOut st) :=
  w_write7_ast d st fuel hf

/-- `stream.Write(buffer)`: appends the bytes, leaves the caller's slice as it was -/
theorem C11_translated_source_Write_refines_model (data : List (BitVec 8)) (st : St) (fuel : Nat) (hf : 8 ≤ fuel) :
    run table "OctetsStream.Write" fuel [.bytes data] st =
      some (.ret [.err none] [some data] { st with buffer := st.buffer ++ writeRaw data }) :=
  s_write_ast data st fuel (by omega)

/-- WriteBytes = `Write7BitEncodedInt(int32(len(data)))` then `stream.Write(data)`, through the function table -/
theorem C11_translated_source_WriteBytes_refines_model (data : List (BitVec 8)) (st : St) (fuel : Nat) (hf : 80 ≤ fuel) :
    run table "OctetsWriter.WriteBytes" fuel [.bytes data] st = (writeBytes data).map (writeSliceOut st data) :=
  w_writeBytes_ast data st fuel hf

theorem C11_translated_source_WriteString_refines_model (data : List (BitVec 8)) (st : St) (fuel : Nat) (hf : 90 ≤ fuel) :
    run table "OctetsWriter.WriteString" fuel [.bytes data] st = (writeString data).map (writeSliceOut st data) :=
  w_writeString_ast data st fuel hf

theorem C11_translated_source_ReadBool_refines_model (buf : List (BitVec 8)) (pos a : Nat) (fuel : Nat) (hf : 10 ≤ fuel) :
    run table "OctetsReader.ReadBool" fuel [] ⟨buf, pos, a⟩ =
      some (readOut .bool (.bool false) ⟨buf, pos, a⟩ (readBool buf pos)) :=
  r_readBool_ast buf pos a fuel hf

theorem C11_translated_source_ReadByte_refines_model (buf : List (BitVec 8)) (pos a : Nat) (fuel : Nat) (hf : 10 ≤ fuel) :
    run table "OctetsReader.ReadByte" fuel [] ⟨buf, pos, a⟩ =
      some (readOut (.bv 8 false) (.bv 8 false 0) ⟨buf, pos, a⟩ (readByte buf pos)) :=
  r_readByte_ast buf pos a fuel (by omega)

theorem C11_translated_source_ReadInt16_refines_model (buf : List (BitVec 8)) (pos a : Nat) (fuel : Nat) (hf : 10 ≤ fuel) :
    run table "OctetsReader.ReadInt16" fuel [] ⟨buf, pos, a⟩ =
      some (readOut (.bv 16 true) (.bv 16 true 0) ⟨buf, pos, a⟩ (readInt16 buf pos)) :=
  r_readInt16_ast buf pos a fuel (by omega)

/-- e.g. `int32(b[0]) | int32(b[1])<<8 | int32(b[2])<<16 | int32(b[3])<<24` on `b = buffer[position:]`, with the bounds check -/
theorem C11_translated_source_ReadInt32_refines_model (buf : List (BitVec 8)) (pos a : Nat) (fuel : Nat) (hf : 10 ≤ fuel) :
    run table "OctetsReader.ReadInt32" fuel [] ⟨buf, pos, a⟩ =
      some (readOut (.bv 32 true) (.bv 32 true 0) ⟨buf, pos, a⟩ (readInt32 buf pos)) :=
  r_readInt32_ast buf pos a fuel (by omega)

theorem C11_translated_source_ReadInt64_refines_model (buf : List (BitVec 8)) (pos a : Nat) (fuel : Nat) (hf : 10 ≤ fuel) :
    run table "OctetsReader.ReadInt64" fuel [] ⟨buf, pos, a⟩ =
      some (readOut (.bv 64 true) (.bv 64 true 0) ⟨buf, pos, a⟩ (readInt64 buf pos)) :=
  r_readInt64_ast buf pos a fuel (by omega)

/-- the loop `for i := 0; i < 28; i += 7 { … num |= uint32(b&0x7F) << i … }` (shift by a variable) and the fifth-byte
    epilogue, on arbitrary bytes -/
theorem C11_translated_source_Read7BitEncodedInt_refines_model (buf : List (BitVec 8)) (pos a : Nat) (fuel : Nat)
    (hf : 90 ≤ fuel) :
    run table "OctetsReader.Read7BitEncodedInt" fuel [] ⟨buf, pos, a⟩ =
      some (readOut (.bv 32 true) (.bv 32 true 0) ⟨buf, pos, a⟩ (read7 buf pos)) :=
  r_read7_ast buf pos a fuel hf

/-- **The property, stated of the translated source itself (7-bit integers).** For every int32 `d` and every stream: the
    translated `Write7BitEncodedInt` returns nil and appends some bytes `bs` (1 to 5 of them: the unsigned LEB128 of the
    32-bit pattern); and wherever those bytes stand in a stream — behind any `pre`, in front of any `rest` — the
    translated `Read7BitEncodedInt` started at them returns `d`, nil and stops exactly behind them. -/
theorem C11_translated_source_roundtrip_7bit (d : BitVec 32) (st : St) (pre rest : List (BitVec 8)) (a : Nat) (fuel : Nat)
    (hf : 90 ≤ fuel) :
    ∃ bs, bs = leb128 d.toNat ∧ 1 ≤ bs.length ∧ bs.length ≤ 5 ∧
      run table "OctetsWriter.Write7BitEncodedInt" fuel [.bv 32 true d] st =
        some (.ret [.err none] [none] { st with buffer := st.buffer ++ bs }) ∧
      run table "OctetsReader.Read7BitEncodedInt" fuel [] ⟨pre ++ bs ++ rest, pre.length, a⟩ =
        some (.ret [.bv 32 true d, .err none] [] ⟨pre ++ bs ++ rest, ((pre.length + bs.length : Nat) : Int), a⟩) := by
  have hw := (C11_wire_7bit d)
  obtain ⟨bs, hbs, hr⟩ := C11_roundtrip_7bit pre rest d
  have e : bs = leb128 d.toNat := by
    have := hw.1; rw [hw.2.1] at this; rw [hbs] at this; exact (Option.some.inj this)
  refine ⟨bs, e, by rw [e]; exact hw.2.2.1, by rw [e]; exact hw.2.2.2, ?_, ?_⟩
  · rw [w_write7_ast d st fuel (by omega), hbs]; rfl
  · rw [r_read7_ast _ _ _ fuel hf, hr]; simp [readOut]

/-- … and for fixed-width int32: the four bytes the translated `WriteInt32` appends are read back by the translated
    `ReadInt32` as the same value, four bytes consumed -/
theorem C11_translated_source_roundtrip_int32 (d : BitVec 32) (st : St) (pre rest : List (BitVec 8)) (a : Nat) (fuel : Nat)
    (hf : 10 ≤ fuel) :
    run table "OctetsWriter.WriteInt32" fuel [.bv 32 true d] st =
        some (.ret [.err none] [none] { st with buffer := st.buffer ++ writeInt32 d }) ∧
      run table "OctetsReader.ReadInt32" fuel [] ⟨pre ++ writeInt32 d ++ rest, pre.length, a⟩ =
        some (.ret [.bv 32 true d, .err none] [] ⟨pre ++ writeInt32 d ++ rest, ((pre.length + 4 : Nat) : Int), a⟩) := by
  refine ⟨w_writeInt32_ast d st fuel (by omega), ?_⟩
  rw [r_readInt32_ast _ _ _ fuel (by omega), C11_roundtrip_int32 pre rest d]
  simp [readOut, (C11_wire_int32 d).2.2]

/-- non-vacuity: the generated terms really run — `Write7BitEncodedInt(300)` on an empty stream, then reading it back -/
example : run table "OctetsWriter.Write7BitEncodedInt" 100 [.bv 32 true 300#32] ⟨[], 0, 0⟩ =
    some (.ret [.err none] [none] ⟨[0xac#8, 0x02#8], 0, 0⟩) := by
  rw [C11_translated_source_Write7BitEncodedInt_refines_model _ _ _ (by omega),
    show write7 300#32 = some [0xac#8, 0x02#8] by decide]
  rfl

example : run table "OctetsReader.Read7BitEncodedInt" 100 [] ⟨[0xac#8, 0x02#8], 0, 0⟩ =
    some (.ret [.bv 32 true 300#32, .err none] [] ⟨[0xac#8, 0x02#8], 2, 0⟩) := by
  have h := C11_translated_source_Read7BitEncodedInt_refines_model [0xac#8, 0x02#8] 0 0 100 (by omega)
  rw [show read7 [0xac#8, 0x02#8] 0 = ⟨.ok 300#32, 2, 0⟩ by decide] at h
  simpa [readOut] using h

/-- ReadBytes of the translated source: `Read7BitEncodedInt`, the three size checks, `make([]byte, size)` (counted in
    `alloc`), `stream.Read(data)` through the function table with the element writes coming back to `data` -/
theorem C11_translated_source_ReadBytes_refines_model (buf : List (BitVec 8)) (pos a : Nat) (fuel : Nat)
    (hf : 120 ≤ fuel) (hp : pos ≤ buf.length) :
    run table "OctetsReader.ReadBytes" fuel [] ⟨buf, pos, a⟩ =
      some (readOut .bytes (.bytes []) ⟨buf, pos, a⟩ (readBytes buf pos)) :=
  r_readBytes_ast buf pos a fuel hf hp

theorem C11_translated_source_ReadString_refines_model (buf : List (BitVec 8)) (pos a : Nat) (fuel : Nat)
    (hf : 130 ≤ fuel) (hp : pos ≤ buf.length) :
    run table "OctetsReader.ReadString" fuel [] ⟨buf, pos, a⟩ =
      some (readOut .bytes (.bytes []) ⟨buf, pos, a⟩ (readString buf pos)) :=
  r_readString_ast buf pos a fuel hf hp

/-- **The property, stated of the translated source itself (byte slices).** For every `data` shorter than 2^31 bytes: the
    translated `WriteBytes` returns nil, leaves the caller's slice alone and appends `bs = leb128 (len data) ++ data`; and
    wherever `bs` stands in a stream the translated `ReadBytes` started at it returns exactly `data`, nil, stops exactly
    behind it and has passed exactly `len data` bytes to `make`. -/
theorem C11_translated_source_roundtrip_bytes (data : List (BitVec 8)) (h : data.length < 2 ^ 31) (st : St)
    (pre rest : List (BitVec 8)) (a : Nat) (fuel : Nat) (hf : 120 ≤ fuel) :
    ∃ bs, bs = leb128 data.length ++ data ∧
      run table "OctetsWriter.WriteBytes" fuel [.bytes data] st =
        some (.ret [.err none] [some data] { st with buffer := st.buffer ++ bs }) ∧
      run table "OctetsReader.ReadBytes" fuel [] ⟨pre ++ bs ++ rest, pre.length, a⟩ =
        some (.ret [.bytes data, .err none] []
          ⟨pre ++ bs ++ rest, ((pre.length + bs.length : Nat) : Int), a + data.length⟩) := by
  obtain ⟨bs, hbs, hr⟩ := C11_roundtrip_bytes pre rest data h
  have hw := C11_wire_bytes data h
  have e : bs = leb128 data.length ++ data := by
    have := hw.1; rw [hbs, hw.2.2] at this; exact Option.some.inj this
  refine ⟨bs, e, ?_, ?_⟩
  · rw [w_writeBytes_ast data st fuel (by omega), hbs]; rfl
  · rw [r_readBytes_ast _ _ _ fuel hf (by simp), hr]; simp [readOut]

end translated
