import Got.Lemmas.MSQueueSolo
import Got.Lemmas.MSQueueGlobal
import Got.Lemmas.MSQueueAst
/-
C02 — loom.Queue is lock-free: an operation running alone always finishes.

Model: `Got.Model.MSQueue` (one `tau t` = one shared-memory access of loom/queue.go = one step of the
controlled scheduler on the real code).  `solo t k s` = `k` successive steps of thread `t` with every
other thread frozen wherever it happens to be; `busy s t` = thread `t` is inside a Push or Pop.
-/
open Got.Model.MSQueue Got.Spec.Lin

/-- **C02.** From every reachable state (any number of threads, any client programs, any
    interleaving; the other threads are frozen at arbitrary points inside their operations), a busy
    thread that keeps running alone returns within `K = 13` of its own steps. -/
theorem C02_solo_bound : ∀ (acts : List Act) (t : Nat), busy (run init acts) t →
    ∃ k, k ≤ K ∧ ¬ busy (solo t k (run init acts)) t :=
  fun acts t _ => solo_bound (inv_reachable acts) t

/-- the measure behind the bound: it is at most `K` and strictly decreases with every solo step of a
    busy thread (in every reachable state). -/
theorem C02_measure : ∀ (acts : List Act) (t : Nat),
    mu (run init acts) t ≤ K ∧
    (busy (run init acts) t → mu (tau (run init acts) t) t < mu (run init acts) t) :=
  fun acts t => ⟨mu_le_K _ t, fun hb => mu_dec (inv_reachable acts) hb⟩

/-- a step of a thread never makes *another* thread's operation return or start: freezing is
    faithful (the solo thread's steps change only its own pc). -/
theorem C02_solo_frame : ∀ (s : State) (t t' : Nat), t' ≠ t → (tau s t).pc t' = s.pc t' := by
  intro s t t' h
  have hu : ∀ p, (setPc s t p).pc t' = s.pc t' := fun p => upd_other _ _ _ _ h
  have hc : ∀ a b p, (casTail s t a b p).pc t' = s.pc t' := by
    intro a b p; rw [casTail_pc]; exact upd_other _ _ _ _ h
  unfold tau
  split
  · rfl
  · rfl
  · exact hu _
  · exact hu _
  · split
    · split <;> exact hu _
    · exact hu _
  · split
    · exact upd_other _ _ _ _ h
    · exact hu _
  · exact hc _ _ _
  · exact hc _ _ _
  · exact hu _
  · exact hu _
  · split
    · exact upd_other _ _ _ _ h
    · exact hu _
  · split
    · split
      · split
        · exact upd_other _ _ _ _ h
        · exact hu _
      · split <;> exact hu _
    · exact hu _
  · exact hc _ _ _
  · split
    · exact upd_other _ _ _ _ h
    · exact hu _

/-! ### non-vacuity: reachable states with a linked-but-unswung node (lagging tail) -/

/-- thread 0 has linked its node and is frozen before swinging the tail; thread 1 then invokes Push. -/
def lagPush : List Act :=
  [.invPush 0 1, .tau 0, .tau 0, .tau 0, .tau 0, .invPush 1 2]

/-- the solo Push goes through its helping branch: exactly 9 steps (4 helping + 5). -/
example : busy (run init lagPush) 1 ∧ busy (solo 1 8 (run init lagPush)) 1 ∧
    ¬ busy (solo 1 9 (run init lagPush)) 1 ∧ mu (run init lagPush) 1 = 9 := by decide

/-- same state, thread 2 invokes Pop: head = tail and the tail lags, 10 steps (5 helping + 5). -/
def lagPop : List Act :=
  [.invPush 0 1, .tau 0, .tau 0, .tau 0, .tau 0, .invPop 2]

example : busy (run init lagPop) 2 ∧ busy (solo 2 9 (run init lagPop)) 2 ∧
    ¬ busy (solo 2 10 (run init lagPop)) 2 ∧ mu (run init lagPop) 2 = 10 := by decide

/-- the bound `K = 13` is attained: thread 2 loaded the head (n0) and is frozen; thread 0 pushes 1
    completely, thread 1 pops it (head moves to n1), thread 3 links a node behind n1 and is frozen
    before swinging the tail.  Thread 2, alone: 3 steps to fail the re-check of its stale head,
    5 steps of a helping iteration, 5 steps of a successful iteration. -/
def worstPop : List Act :=
  [.invPop 2, .tau 2,
   .invPush 0 1, .tau 0, .tau 0, .tau 0, .tau 0, .tau 0,
   .invPop 1, .tau 1, .tau 1, .tau 1, .tau 1, .tau 1,
   .invPush 3 3, .tau 3, .tau 3, .tau 3, .tau 3]

example : busy (run init worstPop) 2 ∧ busy (solo 2 12 (run init worstPop)) 2 ∧
    ¬ busy (solo 2 13 (run init worstPop)) 2 ∧ mu (run init worstPop) 2 = 13 := by decide

/-! ### system-wide lock-freedom (stronger than the solo statement: nobody runs alone)

`completed s` = number of operations that have returned (`.ret` events of the log); `Sched n s as` = every `tau`
step of the action list `as` is taken by a thread with id `< n` that is busy at that moment, invocations by any
thread are interleaved freely; `nTau as` = number of `tau` steps; `F n = (K·n + 1)·(2n + 2)`.  Proof
(Got/Lemmas/MSQueueGlobal.lean): potential `phi` = Σ_{t<n} solo measure + (K·n+1)·(remaining heap changes); every
busy step either completes an operation or strictly decreases `phi`; a failed CAS / re-check is paid for by the
link or swing of another operation, of which a window without completion contains at most `2n + 1`. -/

/-- **Lock-freedom under arbitrary interleaving** (mechanism "a failed CAS implies another operation made
    progress"): from every reachable state, in every window that contains at least `m · F n` steps — each by an
    arbitrary busy thread with id below `n`, interleaved with arbitrary invocations, no thread running alone — at
    least `m` operations complete. -/
theorem C02_lock_free_window : ∀ (acts : List Act) (n : Nat) (as : List Act),
    Sched n (run init acts) as → ∀ m, m * F n ≤ nTau as →
    completed (run init acts) + m ≤ completed (run (run init acts) as) :=
  fun acts _ _ hs m hlen => lock_free_window (inv_reachable acts) hs m hlen

/-- the `tau`-only form: under ANY interleaving of the steps of busy threads with ids below `n`, some operation
    returns within `F n` steps. -/
theorem C02_lock_free_global : ∀ (acts : List Act) (ts : List Nat) (n : Nat),
    (∀ t ∈ ts, t < n) → BusySched (run init acts) ts → F n ≤ ts.length →
    completed (run init acts) < completed (ts.foldl tau (run init acts)) :=
  fun acts ts n hn hs hlen => lock_free_global acts ts n hn hs hlen

/-- every busy step either completes an operation or strictly decreases the potential (the amortised core). -/
theorem C02_step_dichotomy : ∀ (acts : List Act) (t n : Nat), t < n → busy (run init acts) t →
    completed (run init acts) < completed (tau (run init acts) t) ∨
    phi n (tau (run init acts) t) < phi n (run init acts) :=
  fun acts _ _ ht hb => tau_dichotomy (inv_reachable acts) ht hb

/-- non-vacuity: all hypotheses of `C02_lock_free_window` hold together on a concrete window (two threads, one
    pushing and one popping for ever, round-robin: 166 ≥ F 2 = 162 `tau` steps), so the theorem applies. -/
example : completed (run init []) + 1 ≤ completed (run (run init []) (rr 100 init)) :=
  C02_lock_free_window [] 2 (rr 100 init) rr_hyps.1 1 rr_hyps.2

/-! ### the translated source (see Got/Props/C01.lean, section "the translated source")

`Got.Model.MSQueueGen.genRun acts` is the state of the LTS generated from the current source of loom/queue.go after
the client actions `acts`; `genSolo t k` = `k` successive steps of thread `t` alone in that LTS. -/

/-- **C02 for the translated source.** From every reachable state of the LTS generated from the source, a thread that is
    inside a Push or Pop and keeps running alone (everybody else frozen) is back to idle within `K = 13` of its own
    steps. -/
theorem C02_translated_source_solo_bound : ∀ (acts : List Act) (t : Nat),
    Got.Model.AtomicIR.isIdle ((Got.Model.MSQueueGen.genRun acts).conf t) = false →
    ∃ k, k ≤ 13 ∧ Got.Model.AtomicIR.isIdle
      ((Got.Model.MSQueueGen.genSolo t k (Got.Model.MSQueueGen.genRun acts)).conf t) = true := by
  intro acts t hb
  rw [Got.Lemmas.MSQueueAst.genRun_eq] at hb ⊢
  have hbusy : busy (run init acts) t := by
    intro hi
    simp [Got.Lemmas.MSQueueAst.concState, hi, Got.Lemmas.MSQueueAst.conf, Got.Model.AtomicIR.isIdle] at hb
  obtain ⟨k, hk, hd⟩ := C02_solo_bound acts t hbusy
  obtain ⟨aux', ha⟩ := Got.Lemmas.MSQueueAst.solo_sim t k (run init acts)
    (Got.Lemmas.MSQueueAst.auxRun init (fun _ => 0) acts)
  refine ⟨k, hk, ?_⟩
  unfold Got.Model.MSQueueGen.genSolo
  rw [ha]
  have : (solo t k (run init acts)).pc t = .idle := by
    unfold busy at hd
    exact Classical.not_not.1 hd
  simp [Got.Lemmas.MSQueueAst.concState, this, Got.Lemmas.MSQueueAst.conf, Got.Model.AtomicIR.isIdle]

/-- non-vacuity, on the generated LTS itself: in the state reached by `lagPush` (a linked but unswung node) thread 1's
    Push is busy, still busy after 8 solo steps and idle after 9; in `worstPop` the bound 13 is attained. -/
example :
    Got.Model.AtomicIR.isIdle ((Got.Model.MSQueueGen.genRun lagPush).conf 1) = false ∧
    Got.Model.AtomicIR.isIdle ((Got.Model.MSQueueGen.genSolo 1 8 (Got.Model.MSQueueGen.genRun lagPush)).conf 1) = false ∧
    Got.Model.AtomicIR.isIdle ((Got.Model.MSQueueGen.genSolo 1 9 (Got.Model.MSQueueGen.genRun lagPush)).conf 1) = true ∧
    Got.Model.AtomicIR.isIdle ((Got.Model.MSQueueGen.genSolo 2 12 (Got.Model.MSQueueGen.genRun worstPop)).conf 2) = false ∧
    Got.Model.AtomicIR.isIdle ((Got.Model.MSQueueGen.genSolo 2 13 (Got.Model.MSQueueGen.genRun worstPop)).conf 2) = true := by
  decide
