/- property theorems of C02 (only theorems + non-vacuity examples live here) -/
