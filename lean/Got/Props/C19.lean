/- property theorems of C19 (only theorems + non-vacuity examples live here) -/
