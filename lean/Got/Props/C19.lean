import Got.Model.Aes
import Got.Lemmas.Aes
/-
C19 — aesx: Decrypt inverts Encrypt, the output is the standard AES-CBC(PKCS#7)/CFB-128 construction,
the caller's memory is untouched.  (only the property theorems + non-vacuity examples live here)

All theorems are about `Got.Model.Aes` (slice-level transcription of aesx/*.go over a store of backing
arrays) and hold for EVERY block function pair `E`/`D` on 16-byte blocks with `D ∘ E = id` — in
particular for AES with any key of 16/24/32 bytes; AES itself is not modelled in the theorems.
`Got.Spec.Aes.cbcEncrypt/cfbEncrypt/pkcs7` are the textbook definitions (SP 800-38A, PKCS#7).
-/
open Got.Model.Aes Got.Lemmas.Aes
open Got.Spec.Aes (Byte pkcs7)

/-- pkcs5Trimming undoes pkcs5Padding, for every input slice (any offset, any spare capacity) and every
    block size 1..255 (aesx uses 16). -/
theorem C19_unpad_pad (st : Store) (p : Slice) (hv : p.valid st) (bs : Nat) (h0 : 0 < bs) (h1 : bs ≤ 255) :
    (pkcs5Trimming (pkcs5Padding st p bs).1 (pkcs5Padding st p bs).2).bytes (pkcs5Padding st p bs).1 = p.bytes st := by
  obtain ⟨hb, _, _, hcap⟩ := pkcs5Padding_spec st p bs hv
  rw [(pkcs5Trimming_bytes _ _ hcap).1, hb, trimV_pkcs7 bs h0 h1]

/-- CBC: for every block permutation (E with left inverse D on 16-byte blocks), every 16-byte IV and every
    plaintext slice, Encrypt succeeds, and Decrypt of ANY slice holding the ciphertext bytes (in any store:
    the returned slice itself, or a copy placed anywhere) succeeds and returns exactly the plaintext. -/
theorem C19_cbc_roundtrip (E D : BlockFn)
    (hE : ∀ b : List Byte, b.length = 16 → (E b).length = 16) (hD : ∀ b : List Byte, b.length = 16 → D (E b) = b)
    (iv : List Byte) (hiv : iv.length = 16) (st : Store) (p : Slice) (hv : p.valid st) :
    ∃ st1 ct, cbcEncrypt E iv st p = .ok (st1, ct) ∧ ct.valid st1 ∧
      ∀ (st2 : Store) (c : Slice), c.valid st2 → c.bytes st2 = ct.bytes st1 →
        ∃ st3 out, cbcDecrypt D iv st2 c = .ok (st3, out) ∧ out.bytes st3 = p.bytes st := by
  obtain ⟨st1, ct, he, hb, hval, hlen⟩ := cbcEncrypt_spec E hE iv hiv st p hv
  refine ⟨st1, ct, he, hval, ?_⟩
  intro st2 c hc hcb
  have hpl : (p.bytes st).length = p.len := bytes_length st p (by have := hv.2.1; have := hv.2.2; omega)
  have hpm : (pkcs7 16 (p.bytes st)).length % 16 = 0 := by rw [pkcs7_length, hpl]; omega
  have hcl : (c.bytes st2).length = c.len := bytes_length st2 c (by have := hc.2.1; have := hc.2.2; omega)
  have hctl : (ct.bytes st1).length = ct.len := bytes_length st1 ct (by have := hval.2.1; have := hval.2.2; omega)
  have hrt := cbc_roundtrip E D hE hD iv _ hiv hpm
  have hclen : c.len = (pkcs7 16 (p.bytes st)).length := by
    rw [← hcl, hcb, hb, cbcEncrypt_length E hE iv _ hiv hpm]
  obtain ⟨st3, out, hd, hob⟩ := cbcDecrypt_spec D iv hiv st2 c hc (by omega) (by rw [hcb, hb, hrt]; omega)
  refine ⟨st3, out, hd, ?_⟩
  rw [hob, hcb, hb, hrt, trimV_pkcs7 16 (by omega) (by omega)]

/-- CFB: the same for ANY block function E with 16-byte outputs (no inverse needed: CFB uses E both ways). -/
theorem C19_cfb_roundtrip (E : BlockFn) (hE : ∀ b : List Byte, b.length = 16 → (E b).length = 16)
    (iv : List Byte) (hiv : iv.length = 16) (st : Store) (p : Slice) (hv : p.valid st) :
    ∃ st1 ct, cfbEncrypt E iv st p = .ok (st1, ct) ∧ ct.valid st1 ∧
      ∀ (st2 : Store) (c : Slice), c.valid st2 → c.bytes st2 = ct.bytes st1 →
        ∃ st3 out, cfbDecrypt E iv st2 c = .ok (st3, out) ∧ out.bytes st3 = p.bytes st := by
  obtain ⟨st1, ct, he, hb, hval, hlen⟩ := cfbEncrypt_spec E hE iv hiv st p hv
  refine ⟨st1, ct, he, hval, ?_⟩
  intro st2 c hc hcb
  have hpl : (p.bytes st).length = p.len := bytes_length st p (by have := hv.2.1; have := hv.2.2; omega)
  have hcl : (c.bytes st2).length = c.len := bytes_length st2 c (by have := hc.2.1; have := hc.2.2; omega)
  have hrt := cfb_roundtrip E hE iv (p.bytes st) hiv
  have hclen : c.len = p.len := by rw [← hcl, hcb, hb, cfbEncrypt_length E hE iv _ hiv, hpl]
  obtain ⟨st3, out, hd, hob⟩ := cfbDecrypt_spec E iv hiv st2 c hc (by rw [hcb, hb, hrt]; omega)
  exact ⟨st3, out, hd, by rw [hob, hcb, hb, hrt]⟩

/-- CBC Encrypt is the standard construction: CBC_E,iv(PKCS#7-pad(p)), of length 16·(|p|/16 + 1). -/
theorem C19_is_standard_cbc (E : BlockFn) (hE : ∀ b : List Byte, b.length = 16 → (E b).length = 16)
    (iv : List Byte) (hiv : iv.length = 16) (st : Store) (p : Slice) (hv : p.valid st) :
    ∃ st1 ct, cbcEncrypt E iv st p = .ok (st1, ct) ∧
      ct.bytes st1 = Got.Spec.Aes.cbcEncrypt E iv (pkcs7 16 (p.bytes st)) ∧
      (ct.bytes st1).length = 16 * (p.len / 16 + 1) := by
  obtain ⟨st1, ct, he, hb, hval, hlen⟩ := cbcEncrypt_spec E hE iv hiv st p hv
  refine ⟨st1, ct, he, hb, ?_⟩
  rw [bytes_length st1 ct (by have := hval.2.1; have := hval.2.2; omega), hlen]

/-- CFB Encrypt is CFB-128_E,iv(p), of the same length as p. -/
theorem C19_is_standard_cfb (E : BlockFn) (hE : ∀ b : List Byte, b.length = 16 → (E b).length = 16)
    (iv : List Byte) (hiv : iv.length = 16) (st : Store) (p : Slice) (hv : p.valid st) :
    ∃ st1 ct, cfbEncrypt E iv st p = .ok (st1, ct) ∧
      ct.bytes st1 = Got.Spec.Aes.cfbEncrypt E iv (p.bytes st) ∧ (ct.bytes st1).length = p.len := by
  obtain ⟨st1, ct, he, hb, hval, hlen⟩ := cfbEncrypt_spec E hE iv hiv st p hv
  refine ⟨st1, ct, he, hb, ?_⟩
  rw [bytes_length st1 ct (by have := hval.2.1; have := hval.2.2; omega), hlen]

/-- Neither Encrypt nor Decrypt, in either mode, for ANY block functions, IV, store and input slice (valid or
    not), changes a single byte of any backing array that existed before the call — the caller's array
    including the bytes beyond `len` up to `cap` and beyond — and the returned slice never aliases one. -/
theorem C19_input_untouched (c : Cipher) (E D : BlockFn) (st : Store) (input : Slice) :
    (∀ st' out, c.encrypt E st input = .ok (st', out) →
        (∀ i, i < st.length → st'.arr i = st.arr i) ∧ st.length ≤ out.id) ∧
    (∀ st' out, c.decrypt E D st input = .ok (st', out) →
        (∀ i, i < st.length → st'.arr i = st.arr i) ∧ st.length ≤ out.id) := by
  have key : ∀ r : Except Panic (Store × Slice), Untouched st r →
      ∀ st' out, r = .ok (st', out) → (∀ i, i < st.length → st'.arr i = st.arr i) ∧ st.length ≤ out.id := by
    intro r h st' out he
    subst he
    exact ⟨h.1.2, h.2⟩
  constructor
  · unfold Cipher.encrypt
    cases c.mode
    · exact key _ (cbcEncrypt_untouched E c.iv st input)
    · exact key _ (cfbEncrypt_untouched E c.iv st input)
  · unfold Cipher.decrypt
    cases c.mode
    · exact key _ (cbcDecrypt_untouched D c.iv st input)
    · exact key _ (cfbDecrypt_untouched E c.iv st input)

/-- The OLD padding (`append(ciphertext, padText...)`, before fix 9d098d6) did write into the caller's spare
    capacity: a 5-byte slice of a 32-byte array filled with 0xEE; after Encrypt bytes 5..15 are 0x0b. -/
theorem C19_old_padding_counterexample :
    (match cbcEncryptOld id commonIV [[1, 2, 3, 4, 5] ++ List.replicate 27 0xEE] ⟨0, 0, 5, 32⟩ with
      | .ok (st', _) => st'.arr 0
      | .error _ => []) = [1, 2, 3, 4, 5] ++ List.replicate 11 0x0b ++ List.replicate 16 0xEE := by
  decide

/-- the same call with the CURRENT padding leaves the array as it was (instance of C19_input_untouched) -/
theorem C19_new_padding_same_input :
    (match cbcEncrypt id commonIV [[1, 2, 3, 4, 5] ++ List.replicate 27 0xEE] ⟨0, 0, 5, 32⟩ with
      | .ok (st', _) => st'.arr 0
      | .error _ => []) = [1, 2, 3, 4, 5] ++ List.replicate 27 0xEE := by
  decide

/-- Encrypt's output bytes depend only on (E, iv, input bytes): not on the store, the offset, the capacity, nor on
    anything a previous call did — Encrypt/Decrypt keep no state, which is what makes one cipher object give
    the same answers to concurrent callers (model-level statement; see the concurrent differential run). -/
theorem C19_output_depends_only_on_input_bytes (c : Cipher) (E : BlockFn)
    (hE : ∀ b : List Byte, b.length = 16 → (E b).length = 16) (hiv : c.iv.length = 16)
    (st st' : Store) (p p' : Slice) (hv : p.valid st) (hv' : p'.valid st') (hb : p.bytes st = p'.bytes st') :
    ∃ s1 o1 s2 o2, c.encrypt E st p = .ok (s1, o1) ∧ c.encrypt E st' p' = .ok (s2, o2) ∧ o1.bytes s1 = o2.bytes s2 := by
  unfold Cipher.encrypt
  cases c.mode
  · obtain ⟨s1, o1, h1, b1, _⟩ := cbcEncrypt_spec E hE c.iv hiv st p hv
    obtain ⟨s2, o2, h2, b2, _⟩ := cbcEncrypt_spec E hE c.iv hiv st' p' hv'
    exact ⟨s1, o1, s2, o2, h1, h2, by rw [b1, b2, hb]⟩
  · obtain ⟨s1, o1, h1, b1, _⟩ := cfbEncrypt_spec E hE c.iv hiv st p hv
    obtain ⟨s2, o2, h2, b2, _⟩ := cfbEncrypt_spec E hE c.iv hiv st' p' hv'
    exact ⟨s1, o1, s2, o2, h1, h2, by rw [b1, b2, hb]⟩

/-! ### NewCipher: mode and IV selection -/

/-- no options: CBC with commonIV = 00 01 .. 0f -/
theorem C19_default_options (key : List Byte) (hk : key.length = 16 ∨ key.length = 24 ∨ key.length = 32) :
    newCipher key [] = .ok { mode := .cbc, iv := (List.range 16).map UInt8.ofNat } := by
  simp only [newCipher, hk, if_true]; rfl

/-- the last mode option wins -/
theorem C19_last_mode_option_wins (opts : List Opt) :
    modeOf (selectArgs (opts ++ [.withCFB])) = .cfb ∧ modeOf (selectArgs (opts ++ [.withCBC])) = .cbc := by
  simp only [selectArgs, List.foldl_append, List.foldl_cons, List.foldl_nil, applyOpt, modeOf]
  exact ⟨by simp, by decide⟩

/-- WithInitialVector(iv) with a non-empty iv sets the IV; with an empty one it is ignored -/
theorem C19_iv_option (opts : List Opt) (iv : List Byte) :
    (iv ≠ [] → (selectArgs (opts ++ [.withInitialVector iv])).initialVector = iv) ∧
    selectArgs (opts ++ [.withInitialVector []]) = selectArgs opts := by
  simp only [selectArgs, List.foldl_append, List.foldl_cons, List.foldl_nil, applyOpt]
  constructor
  · intro h
    have : iv.length ≠ 0 := fun h0 => h (List.eq_nil_of_length_eq_zero h0)
    simp [this]
  · simp

/-- mode options do not change the IV and IV options do not change the mode -/
theorem C19_options_independent (args : Arguments) (iv : List Byte) :
    (applyOpt args .withCFB).initialVector = args.initialVector ∧
    (applyOpt args .withCBC).initialVector = args.initialVector ∧
    (applyOpt args (.withInitialVector iv)).cipherType = args.cipherType := by
  refine ⟨rfl, rfl, ?_⟩
  simp only [applyOpt]; split <;> rfl

/-- a key that is not 16, 24 or 32 bytes long makes NewCipher panic -/
theorem C19_bad_key_panics (key : List Byte) (opts : List Opt)
    (hk : ¬(key.length = 16 ∨ key.length = 24 ∨ key.length = 32)) : newCipher key opts = .error .keySize := by
  simp only [newCipher, hk, if_false]

/-! ### non-vacuity: the hypotheses of the theorems above are satisfiable -/

-- a block permutation with a left inverse (the identity; AES is another one)
example : (∀ b : List Byte, b.length = 16 → (id b : List Byte).length = 16) ∧
    (∀ b : List Byte, b.length = 16 → id (id b : List Byte) = b) := ⟨fun _ h => h, fun _ _ => rfl⟩
-- a valid slice with spare capacity in the middle of an array, and a 16-byte IV
example : Slice.valid [[9, 9, 1, 2, 3, 7, 7, 7, 8]] ⟨0, 2, 3, 6⟩ := ⟨by decide, by decide, by decide⟩
example : commonIV.length = 16 := by decide
-- a concrete round trip through the model (E = D = id): 3-byte plaintext, one 16-byte ciphertext block
example :
    (match cbcEncrypt id commonIV [[9, 9, 1, 2, 3, 7, 7, 7, 8]] ⟨0, 2, 3, 6⟩ with
      | .ok (st1, ct) =>
        (match cbcDecrypt id commonIV st1 ct with
          | .ok (st2, out) => (out.bytes st2, ct.len)
          | .error _ => ([], 0))
      | .error _ => ([], 0)) = ([1, 2, 3], 16) := by decide
