/- property theorems of C17 (only theorems + non-vacuity examples live here) -/
