import Got.Model.Atomics
import Got.Spec.Atomics
import Got.Lemmas.Atomics
import Got.Lemmas.AtomicsAst
import Got.Lemmas.AtomicsAstMutex
/- property theorems of C17 (only theorems + non-vacuity examples live here) -/
open Got.Model.Atomics Got.Spec.Atomics Got.Lemmas.Atomics

/-! ## TryLock excludes -/

/-- Mutual exclusion, for every number of goroutines and every interleaving of TryLock steps, Unlock by holders and the
    transcribed sync.Mutex steps (fast/slow-path CAS, spinning, wake-up, starvation hand-off), from any unlocked
    initial word: at most one goroutine is inside the critical section, the locked bit tells whether there is one, and
    a hand-off in transit implies an unlocked word in starvation mode (which TryLock refuses). -/
theorem C17_trylock_excl (w0 : Word) (h0 : isLocked w0 = false) (acts : List MAct) :
    let s := runM (initM w0) acts
    s.holders.length ≤ 1 ∧ isLocked s.word = !s.holders.isEmpty ∧
    (s.handoff = true → isStarving s.word = true ∧ isLocked s.word = false) := by
  have h := runM_inv _ acts (initM_inv w0 h0)
  exact ⟨h.le_one, h.locked_iff, h.handoff⟩

/-- A successful TryLock step (either CAS) happens only when the word shows not locked, not starving and not woken, when
    nobody holds the mutex and no hand-off is in transit; it sets exactly the locked bit and makes the caller the holder.
    A failing CAS changes neither the word nor the holders. -/
theorem C17_trylock_success (w0 : Word) (h0 : isLocked w0 = false) (acts : List MAct) (t : Nat) :
    let s := runM (initM w0) acts
    (s.pc t = .cas1 →
      let s' := stepM s (.tryCas1 t)
      (s.word = 0 → s.holders = [] ∧ s.handoff = false ∧ s'.holders = [t] ∧ s'.word = s.word ||| mLocked ∧
                     s'.res t = some true) ∧
      (s.word ≠ 0 → s'.holders = s.holders ∧ s'.word = s.word ∧ s'.res t = s.res t)) ∧
    (∀ old, s.pc t = .cas2 old →
      let s' := stepM s (.tryCas2 t)
      (s.word = old → (s.word &&& (mLocked ||| mStarving ||| mWoken) != 0) = false ∧ s.holders = [] ∧
                       s.handoff = false ∧ s'.holders = [t] ∧ s'.word = s.word ||| mLocked ∧ s'.res t = some true) ∧
      (s.word ≠ old → s'.holders = s.holders ∧ s'.word = s.word ∧ s'.res t = some false)) := by
  intro s
  have h : MInv s := runM_inv _ acts (initM_inv w0 h0)
  constructor
  · intro hpc
    constructor
    · intro hw
      have hz : isLocked s.word = false := by rw [hw]; exact zero_flags.1
      have hn := holders_nil_of_unlocked h hz
      have hf : s.handoff = false := handoff_false_of h (Or.inl (by rw [hw]; exact zero_flags.2))
      refine ⟨hn, hf, ?_, ?_, ?_⟩ <;> simp [stepM, hpc, hw, hn, upd_same, mLocked_eq]
    · intro hw
      have hw' : ¬ s.word = 0#32 := hw
      refine ⟨?_, ?_, ?_⟩ <;> simp [stepM, hpc, hw']
  · intro old hpc
    constructor
    · intro hw
      have hm := h.cas2 t old hpc
      have hf := or_locked old (mask7_imp old hm)
      have hz : isLocked s.word = false := by rw [hw]; exact hf.1
      have hn := holders_nil_of_unlocked h hz
      have hh : s.handoff = false := handoff_false_of h (Or.inl (by rw [hw]; exact hf.2.1))
      refine ⟨by rw [hw]; exact hm, hn, hh, ?_, ?_, ?_⟩ <;> simp [stepM, hpc, hw, hn, upd_same]
    · intro hw
      refine ⟨?_, ?_, ?_⟩ <;> simp [stepM, hpc, hw, upd_same]

/-- No other step reports a TryLock success: `res t` becomes `some true` only through one of the two successful CASes. -/
theorem C17_trylock_true_only_by_cas (s : MSt) (a : MAct) (t : Nat)
    (h : (stepM s a).res t = some true) :
    s.res t = some true ∨ (a = .tryCas1 t ∧ s.pc t = .cas1 ∧ s.word = 0) ∨
      (∃ old, a = .tryCas2 t ∧ s.pc t = .cas2 old ∧ s.word = old) := by
  cases a with
  | tryStart u => simp only [stepM] at h; split at h <;> exact Or.inl h
  | tryCas1 u =>
    simp only [stepM] at h
    split at h
    · next hpc =>
      split at h
      · next hw =>
        by_cases e : t = u
        · subst e; exact Or.inr (Or.inl ⟨rfl, hpc, hw⟩)
        · dsimp only at h; rw [upd_other _ _ _ _ e] at h; exact Or.inl h
      · exact Or.inl h
    · exact Or.inl h
  | tryLoad u =>
    simp only [stepM] at h
    split at h
    · split at h
      · by_cases e : t = u
        · subst e; dsimp only at h; rw [upd_same] at h; cases h
        · dsimp only at h; rw [upd_other _ _ _ _ e] at h; exact Or.inl h
      · exact Or.inl h
    · exact Or.inl h
  | tryCas2 u =>
    simp only [stepM] at h
    split at h
    · next old hpc =>
      split at h
      · next hw =>
        by_cases e : t = u
        · subst e; exact Or.inr (Or.inr ⟨old, rfl, hpc, hw⟩)
        · dsimp only at h; rw [upd_other _ _ _ _ e] at h; exact Or.inl h
      · by_cases e : t = u
        · subst e; dsimp only at h; rw [upd_same] at h; cases h
        · dsimp only at h; rw [upd_other _ _ _ _ e] at h; exact Or.inl h
    · exact Or.inl h
  | unlock u => simp only [stepM] at h; split at h <;> exact Or.inl h
  | lockFast u => simp only [stepM] at h; split at h <;> exact Or.inl h
  | lockSlowCas u aw st =>
    simp only [stepM] at h
    split at h
    · exact Or.inl h
    · split at h <;> exact Or.inl h
  | spinWoken u => simp only [stepM] at h; split at h <;> exact Or.inl h
  | wake u => simp only [stepM] at h; split at h <;> exact Or.inl h
  | handoffTake u st =>
    simp only [stepM] at h
    split at h
    · split at h <;> exact Or.inl h
    · exact Or.inl h

/-- A mutex held through TryLock (or any other way) is released by the ordinary Unlock transition
    `AddInt32(&state, -mutexLocked)`: afterwards nobody holds it and the locked bit is clear. -/
theorem C17_trylock_unlock (w0 : Word) (h0 : isLocked w0 = false) (acts : List MAct) (t : Nat) :
    let s := runM (initM w0) acts
    t ∈ s.holders →
      let s' := stepM s (.unlock t)
      s'.word = s.word - mLocked ∧ s'.holders = [] ∧ isLocked s'.word = false := by
  intro s hmem
  have h : MInv s := runM_inv _ acts (initM_inv w0 h0)
  have h' : MInv (stepM s (.unlock t)) := stepM_inv s _ h
  have hw : (stepM s (.unlock t)).word = s.word - mLocked := by simp [stepM, hmem]
  have hl : isLocked s.word = true := by
    rw [h.locked_iff]
    cases hh : s.holders with
    | nil => rw [hh] at hmem; cases hmem
    | cons a l => rfl
  have hu : isLocked (stepM s (.unlock t)).word = false := by rw [hw]; exact (sub_locked s.word hl).1
  exact ⟨hw, holders_nil_of_unlocked h' hu, hu⟩

/-- non-vacuity: two goroutines race TryLock on a free mutex; the first CAS wins, the loser is refused, Unlock releases -/
example :
    let s := runM (initM 0) [.tryStart 1, .tryStart 2, .tryCas1 1, .tryCas1 2, .tryLoad 2]
    s.holders = [1] ∧ s.res 1 = some true ∧ s.res 2 = some false ∧ s.word = 1#32 ∧
    (stepM s (.unlock 1)).word = 0#32 := by decide

/-- non-vacuity: the load/CAS gap — goroutine 2 loads an unlocked word with a waiter, goroutine 1 takes the lock in the
    gap, goroutine 2's CAS fails -/
example :
    let s := runM (initM 8#32) [.tryStart 1, .tryStart 2, .tryCas1 2, .tryLoad 2, .tryCas1 1, .tryLoad 1, .tryCas2 1, .tryCas2 2]
    s.holders = [1] ∧ s.res 1 = some true ∧ s.res 2 = some false ∧ s.word = 9#32 := by decide

/-- non-vacuity: a starving, unlocked word (hand-off in transit) is refused -/
example :
    let s := runM (initM 12#32) [.tryStart 1, .tryCas1 1, .tryLoad 1]
    s.holders = [] ∧ s.res 1 = some false := by decide

/-! ## Flag: no lost update -/

/-- For every number of goroutines, all programs and all interleavings: the flag value is the sequential fold, in CAS
    order, of exactly the calls whose CAS succeeded, and every call appears in that order exactly once when it has
    returned (and not at all while it is pending). -/
theorem C17_flag_atomic (v0 : W64) (acts : List FAct) :
    let s := runF (initF v0) acts
    s.val = s.log.foldl (fun v e => e.2.apply v) v0 ∧
    ∀ t, (s.log.filter (fun e => e.1 == t)).length + (if s.pc t = .idle then 0 else 1) = s.calls t := by
  have h := runF_inv v0 _ acts (initF_inv v0)
  exact ⟨h.val_eq, h.once⟩

/-- A call takes effect only at its successful CAS, atomically on the current value, as `v ↦ v ||| f` resp.
    `v &&& ~~~f`; a failed CAS and the other steps change nothing. -/
theorem C17_flag_step (s : FSt) (a : FAct) :
    (∃ t op, a = .cas t ∧ s.pc t = .cas op s.val ∧
        (stepF s a).val = op.apply s.val ∧ (stepF s a).log = s.log ++ [(t, op)] ∧ (stepF s a).pc t = .idle) ∨
    ((stepF s a).val = s.val ∧ (stepF s a).log = s.log) := by
  cases a with
  | invoke t op => right; simp only [stepF]; split <;> exact ⟨rfl, rfl⟩
  | load t => right; simp only [stepF]; split <;> exact ⟨rfl, rfl⟩
  | cas t =>
    simp only [stepF]
    split
    · next op last hpc =>
      split
      · next hv =>
        left
        refine ⟨t, op, rfl, by rw [hpc, hv], ?_, rfl, upd_same _ _ _⟩
        show op.apply last = op.apply s.val
        rw [hv]
      · right; exact ⟨rfl, rfl⟩
    · right; exact ⟨rfl, rfl⟩

/-- Adds only: the value is the initial value OR-ed with the flags of all completed calls, so every completed
    AddFlag's bits are present whatever the contention. -/
theorem C17_flag_adds_or (v0 : W64) (acts : List FAct)
    (hadd : ∀ e ∈ (runF (initF v0) acts).log, ∃ f, e.2 = FOp.add f) :
    let s := runF (initF v0) acts
    s.val = orFlags v0 s.log ∧ ∀ e ∈ s.log, ∀ f, e.2 = FOp.add f → s.val &&& f = f := by
  intro s
  have h := runF_inv v0 _ acts (initF_inv v0)
  have hv : s.val = orFlags v0 s.log := by rw [h.val_eq]; exact foldOps_adds v0 _ hadd
  refine ⟨hv, ?_⟩
  intro e he f hf
  rw [hv]
  exact orFlags_contains v0 _ e f he hf

/-- non-vacuity: both goroutines load 0, the first CAS succeeds, the second fails and retries — no bit is lost -/
example :
    let s := runF (initF 0) [.invoke 1 (.add 1), .invoke 2 (.add 2), .load 1, .load 2, .cas 1, .cas 2, .load 2, .cas 2]
    s.val = 3#64 ∧ s.log = [(1, .add 1), (2, .add 2)] ∧ s.pc 1 = .idle ∧ s.pc 2 = .idle := by decide

/-! ## AddIf64: the predicate holds at the instant of the update -/

/-- Any invariant that the guarded update preserves (`pred d v → Inv v → Inv (v + d)`) holds in every reachable state,
    for every number of goroutines and every interleaving; the value is the initial value plus the deltas of the
    successful calls. -/
theorem C17_addif (pred : W64 → W64 → Bool) (Inv : W64 → Prop)
    (hcl : ∀ d v, pred d v = true → Inv v → Inv (v + d)) (v0 : W64) (h0 : Inv v0) (acts : List AAct) :
    let s := runA pred (initA v0) acts
    Inv s.val ∧ s.val = s.added.foldl (· + ·) v0 := by
  have h := runA_inv pred Inv hcl v0 _ acts (initA_inv pred Inv v0 h0)
  exact ⟨h.inv, h.sum⟩

/-- The CAS that adds `delta` succeeds only on a value for which the predicate was evaluated to true: at the instant
    of the update the current value satisfies the predicate. -/
theorem C17_addif_cas_sees_pred (pred : W64 → W64 → Bool) (v0 : W64) (acts : List AAct) (t : Nat) (d e : W64) :
    let s := runA pred (initA v0) acts
    s.pc t = .cas d e → s.val = e →
      pred d s.val = true ∧ (stepA pred s (.cas t)).val = s.val + d ∧ (stepA pred s (.cas t)).res t = some true := by
  intro s hpc hv
  have h := runA_inv pred (fun _ => True) (fun _ _ _ _ => trivial) v0 _ acts (initA_inv pred _ v0 trivial)
  refine ⟨by rw [hv]; exact h.seen t d e hpc, ?_, ?_⟩ <;> simp [stepA, hpc, hv, upd_same]

/-- Instance used by the correspondence check: with the predicate `old + delta <= limit` the counter never exceeds the
    limit, under any contention. -/
theorem C17_addif_limit (limit : Int) (v0 : W64) (h0 : v0.toInt ≤ limit) (acts : List AAct) :
    (runA (limitPred limit) (initA v0) acts).val.toInt ≤ limit := by
  have := C17_addif (limitPred limit) (fun v => v.toInt ≤ limit)
    (by intro d v hp _; simpa [limitPred] using hp) v0 h0 acts
  exact this.1

/-- non-vacuity: limit 1, two goroutines add 1 to 0: both load 0 and pass the test, one CAS wins, the loser re-tests
    against 1 and gives up -/
example :
    let s := runA (limitPred 1) (initA 0) [.invoke 1 1, .invoke 2 1, .load 1, .load 2, .cas 1, .cas 2, .load 2]
    s.val = 1#64 ∧ s.res 1 = some true ∧ s.res 2 = some false := by decide

/-! ## Count is truthful -/

/-- Count() = number of waiters (the word shifted right arithmetically) + 1 if the locked bit is set, for every word. -/
theorem C17_count (w : Word) :
    count w = w.toInt / 2 ^ mShift + (if isLocked w then 1 else 0) := by
  have hs : mShift = 3 := mShift_eq
  have hb : (w &&& mLocked).toInt = if isLocked w then 1 else 0 := by
    have e : (w &&& mLocked) = if isLocked w then 1#32 else 0#32 := by
      unfold isLocked
      rw [mLocked_eq]
      by_cases h : w &&& 1#32 = 0#32
      · simp [h]
      · have h1 : (w &&& 1#32).toNat < 2 := by
          rw [BitVec.toNat_and]; exact Nat.lt_of_le_of_lt Nat.and_le_right (by decide)
        have h2 : (w &&& 1#32).toNat ≠ 0 := fun x => h (BitVec.eq_of_toNat_eq (by simpa using x))
        have h3 : (w &&& 1#32) = 1#32 := BitVec.eq_of_toNat_eq (by
          have : (1#32 : Word).toNat = 1 := rfl
          omega)
        simp [h3]
    rw [e]; split <;> rfl
  unfold count
  simp only [BitVec.toInt_add, BitVec.toInt_sshiftRight, Int.shiftRight_eq_div_pow, hb, hs]
  have hr := @BitVec.toInt_lt 32 w
  have hl := @BitVec.le_toInt 32 w
  simp at hr hl
  apply Int.bmod_eq_of_le <;> split <;> omega

/-- the expression of the unchanged tree reported 0 for a held mutex without waiters (state word 1) -/
theorem C17_old_count_counterexample : countOld 1#32 = 0 ∧ count 1#32 = 1 := by decide

/-- non-vacuity / regression values: held + 2 waiters → 3; unheld + 2 waiters → 2 -/
example : count 17#32 = 3 ∧ count 16#32 = 2 ∧ countOld 17#32 = 2 := by decide

/-! ## the translated source (translator tie for the CAS loops)

`Got.Generated.AstLoomAtomics.addFlag` / `removeFlag` / `addIf64` are the programs that tools/srcfacts (minigo_atomic.go)
re-translates from /repo/loom/flag.go and /repo/loom/atomic.go on every run into the atomic-instruction IR of
Got/Model/AtomicIR.lean; its generic small-step semantics turns them into labelled transition systems
(`Got.Model.AtomicsGen`: `flagStep`/`flagRun`, `addIfStep`/`addIfRun`; client actions `invoke t call` and `tau t` = thread
`t` performs its next atomic access and the local computation up to the following one).  `RelF g s` / `RelA g s aux`
(Got/Lemmas/AtomicsAst.lean): the generated state `g` has the same word as the hand-written state `s` and every thread's
continuation and locals are the image of its hand-written program counter.  `toF s a` / `toA s a` = the hand-written
action (`load t` or `cas t`) that `tau t` is in state `s`. -/

/-- The translator accepted the six functions (otherwise the generated body is empty and the note names the construct).
    AddIf64's guard `if addr == nil { return false }` is not translated: the models assume a non-nil address. -/
theorem C17_translation_in_fragment :
    Got.Generated.AstLoomAtomics.addFlagNote = "ok" ∧ Got.Generated.AstLoomAtomics.removeFlagNote = "ok" ∧
    Got.Generated.AstLoomAtomics.addIf64Note = "ok" ∧ Got.Generated.AstLoomAtomics.tryLockNote = "ok" ∧
    Got.Generated.AstLoomAtomics.countNote = "ok" ∧ Got.Generated.AstLoomAtomics.hasFlagNote = "ok" := by decide

/-- **Translator tie, Flag, one step.** Corresponding states stay corresponding: an action of the LTS generated from the
    source of AddFlag/RemoveFlag is exactly the action `toF s a` of the hand-written model `stepF`. -/
theorem C17_translated_source_flag_step : ∀ (g : Got.Model.AtomicIR.GState) (s : FSt) (a : Got.Model.AtomicsGen.CAct FOp),
    Got.Lemmas.AtomicsAst.RelF g s →
    Got.Lemmas.AtomicsAst.RelF (Got.Model.AtomicsGen.flagStep g a) (stepF s (Got.Lemmas.AtomicsAst.toF s a)) :=
  Got.Lemmas.AtomicsAst.simF

/-- **No lost update, for the translated source.** After any run of the generated Flag LTS (any number of goroutines, any
    interleaving) there is a run of the hand-written model, action for action, that ends in the corresponding state; the
    word of the generated LTS is therefore the sequential fold, in CAS order, of exactly the calls whose CAS succeeded, each
    call appearing there exactly once when it has returned and not at all while it is pending (`C17_flag_atomic`). -/
theorem C17_translated_source_flag_atomic (v0 : W64) (acts : List (Got.Model.AtomicsGen.CAct FOp)) :
    ∃ facts : List FAct, facts.length = acts.length ∧
      let s := runF (initF v0) facts
      Got.Lemmas.AtomicsAst.RelF (Got.Model.AtomicsGen.flagRun v0 acts) s ∧
      (Got.Model.AtomicsGen.flagRun v0 acts).mem.cell = s.log.foldl (fun v e => e.2.apply v) v0 ∧
      ∀ t, (s.log.filter (fun e => e.1 == t)).length + (if s.pc t = .idle then 0 else 1) = s.calls t := by
  obtain ⟨facts, hl, hr⟩ := Got.Lemmas.AtomicsAst.flagRun_rel v0 acts
  have h := C17_flag_atomic v0 facts
  exact ⟨facts, hl, hr, by rw [hr.cell]; exact h.1, h.2⟩

/-- **Translator tie, AddIf64, one step.** -/
theorem C17_translated_source_addif_step : ∀ (pred : W64 → W64 → Bool) (g : Got.Model.AtomicIR.GState) (s : ASt)
    (aux : Nat → W64 × W64) (a : Got.Model.AtomicsGen.CAct W64), Got.Lemmas.AtomicsAst.RelA g s aux →
    Got.Lemmas.AtomicsAst.RelA (Got.Model.AtomicsGen.addIfStep pred g a) (stepA pred s (Got.Lemmas.AtomicsAst.toA s a))
      (Got.Lemmas.AtomicsAst.auxA s aux a) :=
  Got.Lemmas.AtomicsAst.simA

/-- **The guarded update, for the translated source.** Any invariant that the guarded update preserves holds of the word
    after every run of the LTS generated from the source of AddIf64, for every number of goroutines and every interleaving. -/
theorem C17_translated_source_addif (pred : W64 → W64 → Bool) (Inv : W64 → Prop)
    (hcl : ∀ d v, pred d v = true → Inv v → Inv (v + d)) (v0 : W64) (h0 : Inv v0)
    (acts : List (Got.Model.AtomicsGen.CAct W64)) :
    Inv (Got.Model.AtomicsGen.addIfRun pred v0 acts).mem.cell := by
  obtain ⟨aacts, aux, _, hr⟩ := Got.Lemmas.AtomicsAst.addIfRun_rel pred v0 acts
  rw [hr.cell]
  exact (C17_addif pred Inv hcl v0 h0 aacts).1

/-- instance: with the predicate `old + delta <= limit` the counter of the translated source never exceeds the limit. -/
theorem C17_translated_source_addif_limit (limit : Int) (v0 : W64) (h0 : v0.toInt ≤ limit)
    (acts : List (Got.Model.AtomicsGen.CAct W64)) :
    (Got.Model.AtomicsGen.addIfRun (limitPred limit) v0 acts).mem.cell.toInt ≤ limit :=
  C17_translated_source_addif (limitPred limit) (fun v => v.toInt ≤ limit)
    (by intro d v hp _; simpa [limitPred] using hp) v0 h0 acts

/-- non-vacuity: the generated LTSs really run.  Flag: both goroutines load 0, the first CAS succeeds, the second fails
    and retries — the word ends as 3 and both calls have returned.  AddIf64 with limit 1: both pass the test on 0, one CAS
    wins, the loser re-tests against 1 and gives up (returns false). -/
example :
    let g := Got.Model.AtomicsGen.flagRun 0 [.invoke 1 (.add 1), .invoke 2 (.add 2), .tau 1, .tau 2, .tau 1, .tau 2, .tau 2, .tau 2]
    g.mem.cell = 3#64 ∧ Got.Model.AtomicIR.isIdle (g.conf 1) = true ∧ Got.Model.AtomicIR.isIdle (g.conf 2) = true ∧
    g.hist.length = 4 := by decide

example :
    let g := Got.Model.AtomicsGen.addIfRun (limitPred 1) 0 [.invoke 1 1, .invoke 2 1, .tau 1, .tau 2, .tau 1, .tau 2, .tau 2]
    g.mem.cell = 1#64 ∧
    g.hist = [(1, .inv 0 [.i64 1]), (2, .inv 0 [.i64 1]), (1, .ret (some (.bool true))), (2, .ret (some (.bool false)))] := by
  decide

/-! ### TryLock and Count, translated

`Got.Generated.AstLoomAtomics.tryLock` / `count` are re-translated from /repo/loom/mutex.go on every run (the state word
`(*int32)(unsafe.Pointer(&m.Mutex))` is the IR's `cell32`; named constants are replaced by their values as computed by
go/types; `return <CAS>` is `tmp := <CAS>; return tmp`).  `Got.Model.AtomicsGen.Mx` is the joint system: the TryLock
threads of the *generated* LTS, composed with the hand-written transcription of the sync.Mutex steps (`EnvAct`: Unlock,
Lock fast/slow path, spinning, wake-up, hand-off) as the environment, which stores into the generated LTS's word the word
the transcribed step produces.  `RelM g s`: same word, every thread's configuration is the image of its hand-written pc,
and the result of each thread's last completed TryLock in the generated history is the hand-written `res`. -/

/-- **Translator tie, TryLock, one step**: invoking TryLock, a thread's next atomic access (`tau t` = the hand-written
    `tryCas1`/`tryLoad`/`tryCas2` step `tauM s t`), and an environment step all keep the generated and the hand-written
    state corresponding. -/
theorem C17_translated_source_trylock_step (g : Got.Model.AtomicIR.GState) (s : MSt) (h : Got.Lemmas.AtomicsAst.RelM g s) :
    (∀ t, Got.Lemmas.AtomicsAst.RelM
        (Got.Model.AtomicIR.step Got.Model.AtomicsGen.mutexProg Got.Model.AtomicsGen.noPred g (.inv t 0 []))
        (stepM s (.tryStart t))) ∧
    (∀ t, Got.Lemmas.AtomicsAst.RelM
        (Got.Model.AtomicIR.step Got.Model.AtomicsGen.mutexProg Got.Model.AtomicsGen.noPred g (.tau t))
        (stepM s (Got.Model.AtomicsGen.tauM s t))) ∧
    (∀ e : Got.Model.AtomicsGen.EnvAct, Got.Lemmas.AtomicsAst.RelM
        { g with mem := { g.mem with cell32 := (stepM s e.toM).word } } (stepM s e.toM)) :=
  ⟨fun t => Got.Lemmas.AtomicsAst.simM_invoke g s t h, fun t => Got.Lemmas.AtomicsAst.simM_tau g s t h,
   fun e => Got.Lemmas.AtomicsAst.simM_env g s e h⟩

/-- **Mutual exclusion for the translated TryLock.** After every joint run from an unlocked word (any number of goroutines
    running the generated TryLock, any interleaving with the transcribed Lock/Unlock traffic): the hand-written component is a
    reachable state of `stepM` corresponding to the generated one, so the generated LTS's word has its locked bit set iff
    somebody holds the mutex, at most one goroutine holds it, and the result the generated TryLock returned last to each
    thread is the model's `res` (about which `C17_trylock_success` / `C17_trylock_true_only_by_cas` speak). -/
theorem C17_translated_source_trylock_excl (w0 : Word) (h0 : isLocked w0 = false) (acts : List Got.Model.AtomicsGen.MxAct) :
    let x := Got.Model.AtomicsGen.mxRun w0 acts
    (∃ macts, x.s = runM (initM w0) macts) ∧ Got.Lemmas.AtomicsAst.RelM x.g x.s ∧
    x.s.holders.length ≤ 1 ∧ isLocked x.g.mem.cell32 = !x.s.holders.isEmpty ∧
    ∀ t, Got.Model.AtomicsGen.lastRetB x.g.hist t = x.s.res t := by
  intro x
  obtain ⟨hr, macts, hm⟩ := Got.Lemmas.AtomicsAst.mxRun_rel w0 acts
  have he := C17_trylock_excl w0 h0 macts
  simp only [← hm] at he
  exact ⟨⟨macts, hm⟩, hr, he.1, by rw [hr.word]; exact he.2.1, hr.res⟩

/-- **Count is truthful, for the translated source.** For every state word `w`, the LTS generated from the source of
    `Count` — invocation, its one atomic load, the int32 arithmetic, return — returns `count w` = waiters + (1 if locked)
    (`C17_count`). -/
theorem C17_translated_source_count (w : Word) :
    ∃ r : BitVec 64,
      (Got.Model.AtomicsGen.countRun w).hist = [(0, .inv 1 []), (0, .ret (some (.i64 r)))] ∧
      r.toInt = w.toInt / 2 ^ mShift + (if isLocked w then 1 else 0) := by
  obtain ⟨r, hh, hr, _⟩ := Got.Lemmas.AtomicsAst.count_gen w
  exact ⟨r, hh, by rw [hr]; exact C17_count w⟩

/-- non-vacuity: two goroutines race the generated TryLock on a free mutex; the first CAS wins, the loser's CAS fails, it
    loads a locked word and is refused; then the holder's Unlock (environment) clears the word.  Count on word 17 is 3. -/
example :
    let x := Got.Model.AtomicsGen.mxRun 0 [.invoke 1, .invoke 2, .tau 1, .tau 2, .tau 2]
    x.g.mem.cell32 = 1#32 ∧ Got.Model.AtomicsGen.lastRetB x.g.hist 1 = some true ∧
    Got.Model.AtomicsGen.lastRetB x.g.hist 2 = some false ∧ x.s.holders = [1] ∧
    (Got.Model.AtomicsGen.mxStep x (.env (.unlock 1))).g.mem.cell32 = 0#32 ∧
    (Got.Model.AtomicsGen.countRun 17#32).hist = [(0, .inv 1 []), (0, .ret (some (.i64 3#64)))] := by decide

/-- **HasFlag, translated**: for every flag word `v` and mask `f`, the LTS generated from the source of `HasFlag`
    (`return (atomic.LoadInt64(addr) & flag) != 0`, read as `tmp := load; return (tmp & flag) != 0`) returns
    `hasFlag v f = (v &&& f != 0)` and leaves the word unchanged. -/
theorem C17_translated_source_hasflag (v f : W64) :
    (Got.Model.AtomicsGen.hasFlagRun v f).hist = [(0, .inv 2 [.i64 f]), (0, .ret (some (.bool (hasFlag v f))))] ∧
    (Got.Model.AtomicsGen.hasFlagRun v f).mem.cell = v :=
  Got.Lemmas.AtomicsAst.hasFlag_gen v f
