import Got.Model.Search
import Got.Lemmas.Search
import Got.Lemmas.SearchAst
/-
C14 — sortx.Search returns the first match or the complement of the insertion point.

Property theorems only (helper lemmas: Got/Lemmas/Search.lean). `search` is the model of the Go function
(Got/Model/Search.lean); it returns the result together with the log of every predicate evaluation.

`Consistent n less equal b` is "the list is sorted consistently with the predicates": `less` holds exactly
on the prefix `[0,b)` (so `b` is the insertion point), and an element equal to the target is never in the
less-prefix and everything between the insertion point and it is equal too.
-/
open Got.Model.Search Got.Lemmas.Search Got.Lemmas.SearchAst Got.Model.MiniGo

def C14_Consistent (n : Int) (less equal : Int → Bool) (b : Int) : Prop :=
  0 ≤ b ∧ b ≤ n ∧
  (∀ k, 0 ≤ k → k < n → (less k = true ↔ k < b)) ∧
  (∀ k, 0 ≤ k → k < n → equal k = true → b ≤ k ∧ ∀ j, b ≤ j → j ≤ k → equal j = true)

/-- Termination for ARBITRARY predicates (even inconsistent ones): the Go loop `for i+1 != j` always exits. -/
theorem C14_terminates (n : Int) (less equal : Int → Bool) : (search n less equal).isSome = true := by
  unfold search
  split
  · rfl
  · have h := loop_isSome less (-1) n [] (by omega)
    cases hl : loop less (-1) n [] with
    | none => simp [hl] at h
    | some p =>
      obtain ⟨j, log⟩ := p
      simp only []
      split
      · rfl
      · split <;> rfl

/-- An empty (or negative-length) list gives -1. -/
theorem C14_empty (n : Int) (less equal : Int → Bool) (h : n ≤ 0) : search n less equal = some (-1, []) := by
  simp [search, h]

/-- Main result: on a consistent (sorted) input the answer is the insertion point `b` itself when the
    element there equals the target, and the bitwise complement `^b = -b-1` otherwise. -/
theorem C14_result (n : Int) (less equal : Int → Bool) (b : Int) (hn : 0 < n)
    (hc : C14_Consistent n less equal b) (r : Int) (log : List Probe)
    (hs : search n less equal = some (r, log)) :
    (b < n ∧ equal b = true → r = b) ∧ (¬ (b < n ∧ equal b = true) → r = -b - 1) := by
  obtain ⟨hb0, hbn, hless, _⟩ := hc
  unfold search at hs
  rw [if_neg (by omega)] at hs
  cases hl : loop less (-1) n [] with
  | none => simp [hl] at hs
  | some p =>
    obtain ⟨j, lg⟩ := p
    have hj : j = b := loop_result less b (-1) n [] (fun k h1 h2 => hless k (by omega) h2) (by omega) hbn j lg hl
    subst hj
    simp only [hl] at hs
    by_cases hjn : j = n
    · simp [hjn, compl] at hs
      constructor
      · intro h; omega
      · intro _; omega
    · rw [if_neg hjn] at hs
      by_cases he : equal j = true
      · simp [he] at hs
        exact ⟨fun _ => hs.1.symm, fun h => absurd ⟨by omega, he⟩ h⟩
      · simp [he, compl] at hs
        exact ⟨fun h => absurd h.2 he, fun _ => by omega⟩

/-- If some element equals the target, the result is the index of the FIRST such element. -/
theorem C14_first_match (n : Int) (less equal : Int → Bool) (b : Int) (hn : 0 < n)
    (hc : C14_Consistent n less equal b) (r : Int) (log : List Probe)
    (hs : search n less equal = some (r, log))
    (k : Int) (hk0 : 0 ≤ k) (hkn : k < n) (hek : equal k = true) :
    0 ≤ r ∧ r ≤ k ∧ equal r = true ∧ ∀ m, 0 ≤ m → m < r → equal m = false := by
  have hc' := hc
  obtain ⟨hb0, hbn, hless, heq⟩ := hc
  obtain ⟨hbk, hrun⟩ := heq k hk0 hkn hek
  have hbe : equal b = true := hrun b (by omega) hbk
  have hr : r = b := (C14_result n less equal b hn hc' r log hs).1 ⟨by omega, hbe⟩
  subst hr
  refine ⟨hb0, hbk, hbe, ?_⟩
  intro m hm0 hmr
  cases hm : equal m with
  | false => rfl
  | true => have := (heq m hm0 (by omega) hm).1; omega

/-- The result is negative exactly when no element equals the target, and then it is the complement of the
    insertion point (inserting at `^r = -r-1` keeps the list sorted: everything before is less, nothing after is). -/
theorem C14_absent (n : Int) (less equal : Int → Bool) (b : Int) (hn : 0 < n)
    (hc : C14_Consistent n less equal b) (r : Int) (log : List Probe)
    (hs : search n less equal = some (r, log)) :
    (r < 0 ↔ ∀ k, 0 ≤ k → k < n → equal k = false) ∧ (r < 0 → -r - 1 = b) := by
  have hres := C14_result n less equal b hn hc r log hs
  obtain ⟨hb0, hbn, hless, heq⟩ := hc
  by_cases hm : b < n ∧ equal b = true
  · have hr := hres.1 hm
    constructor
    · constructor
      · intro h; omega
      · intro h; have := h b hb0 hm.1; simp [hm.2] at this
    · intro h; omega
  · have hr := hres.2 hm
    constructor
    · constructor
      · intro _ k hk0 hkn
        cases hk : equal k with
        | false => rfl
        | true =>
          obtain ⟨hbk, hrun⟩ := heq k hk0 hkn hk
          exact absurd ⟨by omega, hrun b (by omega) hbk⟩ hm
      · intro _; omega
    · intro _; omega

/-- The predicates are evaluated only at valid indices `0 ≤ k < n` — for ARBITRARY predicates. -/
theorem C14_probes_in_range (n : Int) (less equal : Int → Bool) (r : Int) (log : List Probe)
    (hs : search n less equal = some (r, log)) : ∀ p ∈ log, 0 ≤ idx p ∧ idx p < n := by
  unfold search at hs
  split at hs
  · simp at hs; obtain ⟨_, rfl⟩ := hs; simp
  · rename_i hn
    cases hl : loop less (-1) n [] with
    | none => simp [hl] at hs
    | some p =>
      obtain ⟨j, lg⟩ := p
      obtain ⟨hj1, hj2, hlg⟩ := loop_range less (-1) n [] (-1) n (by omega) (by omega) (by omega) (by simp) j lg hl
      simp only [hl] at hs
      have hlg' : ∀ p ∈ lg, 0 ≤ idx p ∧ idx p < n := fun p hp => ⟨by have := (hlg p hp).1; omega, (hlg p hp).2⟩
      split at hs
      · simp at hs; obtain ⟨_, rfl⟩ := hs; exact hlg'
      · rename_i hjn
        have hej : ∀ p ∈ lg ++ [Probe.equal j], 0 ≤ idx p ∧ idx p < n := by
          intro p hp
          rcases List.mem_append.mp hp with h | h
          · exact hlg' p h
          · simp at h; subst h; simp only [idx]; omega
        split at hs <;> (simp at hs; obtain ⟨_, rfl⟩ := hs; exact hej)

/-- O(log n): at most ⌈lg(n+1)⌉ evaluations of `less` (stated as: any `c` with `n+1 ≤ 2^c` bounds them) and at
    most one evaluation of `equal` — for ARBITRARY predicates. -/
theorem C14_probe_count (n : Int) (less equal : Int → Bool) (r : Int) (log : List Probe)
    (hs : search n less equal = some (r, log)) (c : Nat) (hc : n + 1 ≤ (2 : Int) ^ c) :
    countLess log ≤ c ∧ log.length ≤ countLess log + 1 := by
  unfold search at hs
  split at hs
  · simp at hs; obtain ⟨_, rfl⟩ := hs; simp [countLess]
  · rename_i hn
    cases hl : loop less (-1) n [] with
    | none => simp [hl] at hs
    | some p =>
      obtain ⟨j, lg⟩ := p
      have hcnt := loop_count less c (-1) n [] (by omega) (by omega) j lg hl
      obtain ⟨ext, he, hall⟩ := loop_log less (-1) n [] j lg hl
      have hlen : lg.length = countLess lg := by
        simp only [List.nil_append] at he; subst he
        simp only [countLess]
        rw [List.filter_eq_self.mpr hall]
      simp only [hl] at hs
      simp [countLess] at hcnt
      split at hs
      · simp at hs; obtain ⟨_, rfl⟩ := hs; exact ⟨hcnt, by omega⟩
      · split at hs <;>
        · simp at hs; obtain ⟨_, rfl⟩ := hs
          rw [countLess_append]
          have : countLess [Probe.equal j] = 0 := by simp [countLess, List.filter, isLess]
          simp only [List.length_append, List.length_cons, List.length_nil]
          simp only [countLess] at *
          omega

/-- The Go midpoint expression `int(uint(i+j)>>1)` computed on 64-bit words equals the model's `(i+j)/2`
    whenever `0 ≤ i+j` (which the range invariant guarantees inside the loop: `-1 ≤ i`, `i+1 < j`). -/
theorem C14_mid_bitvec (i j : BitVec 64) (h0 : 0 ≤ i.toInt + j.toInt) :
    ((i + j) >>> 1).toInt = (i.toInt + j.toInt) / 2 := mid_bitvec i j h0

/-- Instantiation ("a list sorted consistently with the supplied predicates"): for a list of integers sorted
    in non-decreasing order and a target `x`, the predicates `less k = l[k] < x`, `equal k = l[k] = x` are
    consistent with insertion point `b` = number of elements `< x`. -/
theorem C14_sorted_list_consistent (l : List Int) (x : Int) (hs : l.Pairwise (· ≤ ·)) :
    C14_Consistent l.length (fun k => decide (l.getD k.toNat 0 < x)) (fun k => decide (l.getD k.toNat 0 = x))
      ((l.filter (· < x)).length) := by
  induction l with
  | nil =>
    refine ⟨by simp, by simp, ?_, ?_⟩ <;> intro k h1 h2 <;> simp at h2 <;> omega
  | cons a t ih =>
    have hs' := (List.pairwise_cons.mp hs)
    have iht := ih hs'.2
    obtain ⟨h0, hle, hl, he⟩ := iht
    have hfl : (t.filter (· < x)).length ≤ t.length := List.length_filter_le _ _
    by_cases hax : a < x
    · -- head is less: everything shifts by one
      have hf : ((a :: t).filter (· < x)).length = (t.filter (· < x)).length + 1 := by simp [List.filter, hax]
      refine ⟨by omega, by simp only [List.length_cons]; omega, ?_, ?_⟩
      · intro k hk0 hkn
        simp only [List.length_cons] at hkn
        by_cases hk : k = 0
        · subst hk; simp [hax]
        · have hk1 : k.toNat = (k - 1).toNat + 1 := by omega
          have := hl (k - 1) (by omega) (by omega)
          simp only [hk1, List.getD_cons_succ, hf]
          simp only [decide_eq_true_eq] at this ⊢
          rw [this]; omega
      · intro k hk0 hkn hek
        simp only [List.length_cons] at hkn
        by_cases hk : k = 0
        · subst hk; simp at hek; omega
        · have hk1 : k.toNat = (k - 1).toNat + 1 := by omega
          simp only [hk1, List.getD_cons_succ] at hek
          obtain ⟨hb, hrun⟩ := he (k - 1) (by omega) (by omega) hek
          refine ⟨by omega, ?_⟩
          intro j hbj hjk
          have hj1 : j.toNat = (j - 1).toNat + 1 := by omega
          simp only [hj1, List.getD_cons_succ]
          exact hrun (j - 1) (by omega) (by omega)
    · -- head is not less: nothing in the list is less (sorted), insertion point 0
      have hall : ∀ y ∈ t, ¬ y < x := fun y hy => by have := hs'.1 y hy; omega
      have hf0 : (t.filter (· < x)).length = 0 := by
        rw [List.length_eq_zero_iff, List.filter_eq_nil_iff]; intro y hy; simpa using hall y hy
      have hf : ((a :: t).filter (· < x)).length = 0 := by simp [List.filter, hax, hf0]
      rw [hf]
      have hget : ∀ k : Int, 0 ≤ k → k < (a :: t).length → ¬ (a :: t).getD k.toNat 0 < x := by
        intro k hk0 hkn
        simp only [List.length_cons] at hkn
        by_cases hk : k = 0
        · subst hk; simpa using hax
        · have hk1 : k.toNat = (k - 1).toNat + 1 := by omega
          simp only [hk1, List.getD_cons_succ]
          have hlt : (k - 1).toNat < t.length := by omega
          rw [List.getD_eq_getElem?_getD, List.getElem?_eq_getElem hlt, Option.getD_some]
          exact hall _ (List.getElem_mem hlt)
      refine ⟨by omega, by simp only [List.length_cons]; omega, ?_, ?_⟩
      · intro k hk0 hkn
        have := hget k hk0 hkn
        simp only [decide_eq_true_eq]
        constructor
        · intro h; exact absurd h this
        · intro h; omega
      · intro k hk0 hkn hek
        refine ⟨by omega, ?_⟩
        intro j hj0 hjk
        simp only [decide_eq_true_eq] at hek ⊢
        -- sorted: l[j] ≤ l[k] = x and ¬ l[j] < x
        have hjn : j < (a :: t).length := by omega
        have h1 := hget j (by omega) hjn
        have hjl : j.toNat < (a :: t).length := by omega
        have hkl : k.toNat < (a :: t).length := by omega
        rw [List.getD_eq_getElem?_getD, List.getElem?_eq_getElem hjl, Option.getD_some] at h1 ⊢
        rw [List.getD_eq_getElem?_getD, List.getElem?_eq_getElem hkl, Option.getD_some] at hek
        by_cases hjk' : j = k
        · subst hjk'; exact hek
        · have := List.pairwise_iff_getElem.mp hs j.toNat k.toNat hjl hkl (by omega)
          omega

/-- Non-vacuity: a concrete sorted list satisfies the hypotheses, and the model returns the documented answers
    (first of a run of equals; complement of the insertion point). -/
example : C14_Consistent ([1, 3, 3, 3, 7, 9] : List Int).length
    (fun k => decide (([1, 3, 3, 3, 7, 9] : List Int).getD k.toNat 0 < 3))
    (fun k => decide (([1, 3, 3, 3, 7, 9] : List Int).getD k.toNat 0 = 3))
    ((([1, 3, 3, 3, 7, 9] : List Int).filter (· < 3)).length) :=
  C14_sorted_list_consistent [1, 3, 3, 3, 7, 9] 3 (by decide)

example : (([1, 3, 3, 3, 7, 9] : List Int).filter (· < 3)).length = 1 := by decide

example : (search 6 (fun k => decide (([1, 3, 3, 3, 7, 9] : List Int).getD k.toNat 0 < 3))
    (fun k => decide (([1, 3, 3, 3, 7, 9] : List Int).getD k.toNat 0 = 3))).map (·.1) = some 1 := by
  simp +decide [search, loop]

example : (search 6 (fun k => decide (([1, 3, 3, 3, 7, 9] : List Int).getD k.toNat 0 < 8))
    (fun k => decide (([1, 3, 3, 3, 7, 9] : List Int).getD k.toNat 0 = 8))).map (·.1) = some (-6) := by
  simp +decide [search, loop, compl]

/-! ### the translated source

`Got.Generated.AstSortx.search` is the MiniGo term that tools/srcfacts regenerates from /repo/sortx/search.go on every
run (go/ast + go/types → Got/Model/MiniGo.lean); the three theorems below are therefore re-checked against what the
code says now.  `fnsOf less equal` supplies the two predicate parameters, `callOf` renders a model probe as a call. -/

/-- The translator accepted the function: every construct of the current `sortx.Search` is inside the MiniGo
    fragment (otherwise the generated body is empty and this note names the construct). -/
theorem C14_translation_in_fragment : Got.Generated.AstSortx.searchNote = "ok" := by decide

/-- **Translator tie.** For every 64-bit `count` and all predicates, interpreting the translated source of
    `sortx.Search` (64-bit wrap-around arithmetic, unsigned shift, short-circuit `||`) yields exactly the result and
    exactly the sequence of predicate calls of the model `search` that all other C14 theorems are about — with any
    fuel ≥ count + 12 (the interpreter's fuel only bounds the number of statements executed). -/
theorem C14_translated_source_refines_model (count : Int)
    (hc : -9223372036854775808 ≤ count ∧ count < 9223372036854775808) (less equal : Int → Bool)
    (r : Int) (log : List Probe) (hs : search count less equal = some (r, log))
    (fuel : Nat) (hf : count.toNat + 12 ≤ fuel) :
    Got.Generated.AstSortx.search.run (fnsOf less equal) fuel [count] = some (.ret r (log.map callOf)) :=
  search_ast_refines count hc less equal r log hs fuel hf

/-- Hence the property for the translated source itself: on an input sorted consistently with the predicates
    (insertion point `b`), the code as translated returns `b` if the element there equals the target and `^b`
    otherwise, and calls the predicates only at valid indices. -/
theorem C14_translated_source_result (n : Int) (hn : 0 < n) (h64 : n < 9223372036854775808)
    (less equal : Int → Bool) (b : Int) (hc : C14_Consistent n less equal b) :
    ∃ r calls, (∀ fuel, n.toNat + 12 ≤ fuel →
        Got.Generated.AstSortx.search.run (fnsOf less equal) fuel [n] = some (.ret r calls)) ∧
      (b < n ∧ equal b = true → r = b) ∧ (¬ (b < n ∧ equal b = true) → r = -b - 1) ∧
      (∀ c ∈ calls, 0 ≤ c.2 ∧ c.2 < n) := by
  have ht := C14_terminates n less equal
  cases hs : search n less equal with
  | none => simp [hs] at ht
  | some p =>
    obtain ⟨r, log⟩ := p
    refine ⟨r, log.map callOf, ?_, ?_, ?_, ?_⟩
    · intro fuel hf
      exact search_ast_refines n ⟨by omega, h64⟩ less equal r log hs fuel hf
    · exact (C14_result n less equal b hn hc r log hs).1
    · exact (C14_result n less equal b hn hc r log hs).2
    · intro c hcm
      obtain ⟨p, hp, rfl⟩ := List.mem_map.mp hcm
      have := C14_probes_in_range n less equal r log hs p hp
      cases p <;> simpa [callOf, idx] using this

/-- non-vacuity / sanity: the interpreter run on the generated term, on a concrete sorted list -/
example : (Got.Generated.AstSortx.search.run
    (fnsOf (fun k => decide (([1, 3, 3, 3, 7, 9] : List Int).getD k.toNat 0 < 3))
           (fun k => decide (([1, 3, 3, 3, 7, 9] : List Int).getD k.toNat 0 = 3))) 40 [6]) =
    some (.ret 1 [("f0", 2), ("f0", 0), ("f0", 1), ("f1", 1)]) := by decide
