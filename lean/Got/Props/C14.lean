import Got.Model.Search
