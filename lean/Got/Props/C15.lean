/- property theorems of C15 (only theorems + non-vacuity examples live here) -/
