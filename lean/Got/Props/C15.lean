import Got.Model.Sort
import Got.Model.SortUnique
import Got.Lemmas.SortUnique
import Got.Lemmas.SortBounds
import Got.Lemmas.SortInsertion
import Got.Lemmas.SortHeap
import Got.Lemmas.SortPivot
import Got.Lemmas.SortQuick
import Got.Lemmas.SortCostQuick
/- property theorems of C15 (only theorems + non-vacuity examples live here) -/
open Got.Model.Sort Got.Model.SortUnique
open Got.Lemmas.Sort (StrictWeak)

/-! ## (a) UniqueInt / UniqueString -/

/-- `Unique*` never panics and returns the input with every run of equal adjacent elements collapsed to its
    first element, order kept (`collapseRuns`); the backing array keeps its length. -/
theorem C15_unique {α : Type} [DecidableEq α] (a : Array α) :
    ∃ r b, unique a = some (r, b) ∧ r.toList = collapseRuns a.toList ∧ b.size = a.size :=
  Got.Lemmas.SortUnique.unique_spec a

/-- `collapseRuns` is the library function `List.eraseReps` ("keep the first element of each run") -/
theorem C15_unique_spec_eraseReps {α : Type} [DecidableEq α] (l : List α) : collapseRuns l = l.eraseReps :=
  Got.Lemmas.SortUnique.collapseRuns_eq_eraseReps l

/-- independent characterisation of `collapseRuns l`: no two neighbours of it are equal, and `l` is obtained back
    by repeating its k-th element `ns[k]+1 ≥ 1` times (so it is exactly the list of run heads of `l`). -/
theorem C15_unique_spec_runs {α : Type} [DecidableEq α] (l : List α) :
    Got.Lemmas.SortUnique.NoAdjEq (collapseRuns l) ∧
    ∃ ns : List Nat, ns.length = (collapseRuns l).length ∧
      l = (List.zipWith (fun n x => List.replicate (n + 1) x) ns (collapseRuns l)).flatten := by
  cases l with
  | nil => exact ⟨trivial, [], rfl, rfl⟩
  | cons x t =>
    refine ⟨Got.Lemmas.SortUnique.collapseFrom_noAdjEq x t, ?_⟩
    obtain ⟨ns, h1, h2⟩ := Got.Lemmas.SortUnique.collapseFrom_runs x t
    exact ⟨ns, by simpa [collapseRuns] using h1, h2⟩

/-- sorted (non-decreasing) input gives a strictly increasing result, for any antisymmetric `le` -/
theorem C15_unique_sorted_strict {α : Type} [DecidableEq α] (le : α → α → Prop)
    (antisymm : ∀ x y, le x y → le y x → x = y) (a : Array α) (hsorted : List.Pairwise le a.toList) :
    ∃ r b, unique a = some (r, b) ∧ List.Pairwise (fun x y => le x y ∧ x ≠ y) r.toList := by
  obtain ⟨r, b, h1, h2, _⟩ := C15_unique a
  refine ⟨r, b, h1, ?_⟩
  rw [h2]
  cases hl : a.toList with
  | nil => simp [collapseRuns]
  | cons x t =>
    rw [hl] at hsorted
    exact Got.Lemmas.SortUnique.collapseFrom_strict le antisymm x t hsorted

/-- UniqueInt on a sorted []int: strictly increasing -/
theorem C15_unique_int_sorted (a : Array Int) (hsorted : List.Pairwise (· ≤ ·) a.toList) :
    ∃ r b, unique a = some (r, b) ∧ List.Pairwise (· < ·) r.toList := by
  obtain ⟨r, b, h1, h2⟩ := C15_unique_sorted_strict (· ≤ ·) (fun x y h1 h2 => Int.le_antisymm h1 h2) a hsorted
  exact ⟨r, b, h1, h2.imp (fun ⟨h, hne⟩ => by omega)⟩

/-- a non-empty input gives a non-empty result starting with the first element -/
theorem C15_unique_nonempty {α : Type} [DecidableEq α] (a : Array α) (h : a.size ≥ 1) :
    ∃ r b, unique a = some (r, b) ∧ r.size ≥ 1 ∧ r[0]? = a[0]? := by
  obtain ⟨r, b, h1, h2, _⟩ := C15_unique a
  refine ⟨r, b, h1, ?_⟩
  rcases a with ⟨l⟩
  cases l with
  | nil => simp at h
  | cons x t =>
    have : r.toList = x :: collapseFrom x t := h2
    rcases r with ⟨rl⟩
    simp only at this
    subst this
    simp

example : ∃ r b, unique #[1, 1, 2, 2, 2, 3, 1, 1] = some (r, b) ∧ r.toList = [1, 2, 3, 1] := by
  obtain ⟨r, b, h1, h2, _⟩ := C15_unique #[1, 1, 2, 2, 2, 3, 1, 1]
  exact ⟨r, b, h1, by rw [h2]; decide⟩
example : List.Pairwise (· ≤ ·) (#[(1 : Int), 1, 2, 5, 5]).toList := by decide

/-! ## (b) SliceBy with an ARBITRARY less function -/

/-- For every less function — a function of the current contents, the whole call history and the two indices, so
    also inconsistent ones — `SliceBy(keys, values, less)` terminates (`sliceBy` is a total function) and, with
    `n = min(len keys, len values)`:
    * the (key, value) pairs at equal indices `< n` after the call are a permutation of the original ones,
    * both slices keep their length and everything at an index `≥ n` is untouched,
    * every index passed to `less` or to the swapper is `< n` (so neither `reflect.Swapper` nor an indexing
      less closure can panic). -/
theorem C15_perm_pairing_prefix {K V : Type} (less : LessFn K V) (keys : Array K) (vals : Array V) :
    let n := min keys.size vals.size
    let r := sliceBy less keys vals
    ((r.keys.toList.take n).zip (r.vals.toList.take n)).Perm ((keys.toList.take n).zip (vals.toList.take n)) ∧
    r.keys.size = keys.size ∧ r.vals.size = vals.size ∧
    (∀ k, n ≤ k → r.keys[k]? = keys[k]? ∧ r.vals[k]? = vals[k]?) ∧
    (∀ e ∈ r.log, match e with
      | .less i j _ => i < n ∧ j < n
      | .swap i j => i < n ∧ j < n) := by
  intro n r
  have st := Got.Lemmas.Sort.sliceBy_steps less keys vals
  have hsz := st.sizes
  have hperm := st.zip_perm (Nat.min_le_left _ _) (Nat.min_le_right _ _)
  refine ⟨?_, hsz.1, hsz.2, fun k hk => st.outside k (Or.inr hk), ?_⟩
  · have h1 := Array.perm_iff_toList_perm.1 hperm
    rw [Array.toList_zip, Array.toList_zip, List.zip_eq_zip_take_min,
      List.zip_eq_zip_take_min (l₁ := keys.toList)] at h1
    simp only [Array.length_toList] at h1
    rw [hsz.1, hsz.2] at h1
    exact h1
  · obtain ⟨evs, h1, h2⟩ := st.log
    intro e he
    have he' : e ∈ evs := by
      have : e ∈ evs ++ [] := by
        have h1' : (sliceBy less keys vals).log = evs ++ [] := h1
        rw [← h1']; exact he
      simpa using this
    have := h2 e he'
    cases e with
    | less i j b => exact ⟨this.2.1, this.2.2.2⟩
    | swap i j => exact ⟨this.2.1, this.2.2.2⟩

/-- the statement is not vacuous for an inconsistent less: "everything is less than everything" -/
example : ((sliceBy (fun _ _ _ => true) #[3, 1, 2] #["a", "b"]).keys.size = 3) :=
  (C15_perm_pairing_prefix (fun _ _ _ => true) #[3, 1, 2] #["a", "b"]).2.1

/-! ## (c) sortedness of the insertion-sort path and of the heap-sort path
`StrictWeak lt`: `lt` irreflexive, transitive, incomparability transitive.  "Sorted" = no later key is less than an
earlier one. -/

/-- insertionSort_func sorts the range `[a,b)` (any contents, any `a`, `b` within the key slice) -/
theorem C15_sorted_insertionSort {K V : Type} {lt : K → K → Bool} (sw : StrictWeak lt) (a b : Nat) (s : St K V)
    (hb : b ≤ s.keys.size) :
    ∀ i j x y, a ≤ i → i < j → j < b → (insertionSort (stdLess lt) a b s).keys[i]? = some x →
      (insertionSort (stdLess lt) a b s).keys[j]? = some y → lt y x = false :=
  Got.Lemmas.Sort.insertionSort_sorted sw a b s hb

/-- heapSort_func (the fallback when the depth limit is exhausted) sorts the range `[a,b)` -/
theorem C15_sorted_heapSort {K V : Type} {lt : K → K → Bool} (sw : StrictWeak lt) (a b : Nat) (s : St K V)
    (hab : a ≤ b) (hb : b ≤ s.keys.size) :
    ∀ i j x y, a ≤ i → i < j → j < b → (heapSort (stdLess lt) a b s).keys[i]? = some x →
      (heapSort (stdLess lt) a b s).keys[j]? = some y → lt y x = false :=
  Got.Lemmas.Sort.heapSort_sorted sw a b s hab hb

/-- `<` on Int is a strict weak order (non-vacuity of the hypothesis) -/
example : StrictWeak (fun (x y : Int) => decide (x < y)) where
  irrefl := by intro x; simp
  trans := by intro x y z h1 h2; simp at *; omega
  incomp_trans := by intro x y z h1 h2 h3 h4; simp at *; omega

/-! ## (d) doPivot post-condition, full sortedness, depth -/

/-- doPivot_func on a range of at least 3 elements inside the key slice (it is only called with more than 12):
    for any less, all indices stay in `[lo,hi)` and `lo ≤ midlo < hi`, `lo ≤ midhi ≤ hi`; with the standard closure
    over a strict weak order there is a pivot value `p` (found at `midlo`) such that `[lo,midlo)` is `≤ p`,
    `[midlo,midhi)` is equivalent to `p` and non-empty, `[midhi,hi)` is `≥ p`. -/
theorem C15_doPivot_post {K V : Type} {lt : K → K → Bool} (sw : StrictWeak lt) (lo hi : Nat) (s : St K V)
    (h : lo + 3 ≤ hi) (hsz : hi ≤ s.keys.size) :
    let r := doPivot (stdLess lt) lo hi s
    lo ≤ r.1 ∧ r.1 < r.2.1 ∧ r.2.1 ≤ hi ∧
    ∃ p, r.2.2.keys[r.1]? = some p ∧
      (∀ k x, lo ≤ k → k < r.1 → r.2.2.keys[k]? = some x → lt p x = false) ∧
      (∀ k x, r.1 ≤ k → k < r.2.1 → r.2.2.keys[k]? = some x → lt p x = false ∧ lt x p = false) ∧
      (∀ k x, r.2.1 ≤ k → k < hi → r.2.2.keys[k]? = some x → lt x p = false) := by
  intro r
  obtain ⟨_, b1, _, _, b4⟩ := Got.Lemmas.Sort.doPivot_steps (stdLess lt) lo hi s h
  obtain ⟨p, hp, z1, z2, z3, hlt⟩ := Got.Lemmas.Sort.doPivot_sem sw lo hi s h hsz
  exact ⟨b1, hlt, b4, p, hp, z1, z2, z3⟩

/-- After `SliceBy(keys, values, func(i,j) bool { return keys[i] < keys[j] })` with `<` a strict weak order, the first
    `min(len keys, len values)` keys are in non-decreasing order: no later key is less than an earlier one
    (all three paths: insertion sort, quicksort partitioning, heap-sort fallback). -/
theorem C15_sorted {K V : Type} {lt : K → K → Bool} (sw : StrictWeak lt) (keys : Array K) (vals : Array V) :
    let n := min keys.size vals.size
    let r := sliceBy (stdLess lt) keys vals
    ∀ i j x y, i < j → j < n → r.keys[i]? = some x → r.keys[j]? = some y → lt y x = false := by
  intro n r i j x y h1 h2 hx hy
  exact Got.Lemmas.Sort.sliceBy_sorted sw keys vals i j x y (Nat.zero_le _) h1 h2 hx hy

/-- `[]int` keys with `<` -/
theorem C15_sorted_int {V : Type} (keys : Array Int) (vals : Array V) :
    let n := min keys.size vals.size
    let r := sliceBy (stdLess (fun (x y : Int) => decide (x < y))) keys vals
    ∀ i j x y, i < j → j < n → r.keys[i]? = some x → r.keys[j]? = some y → x ≤ y := by
  intro n r i j x y h1 h2 hx hy
  have sw : StrictWeak (fun (x y : Int) => decide (x < y)) :=
    { irrefl := by intro x; simp
      trans := by intro x y z h1 h2; simp at *; omega
      incomp_trans := by intro x y z h1 h2 h3 h4; simp at *; omega }
  have := C15_sorted sw keys vals i j x y h1 h2 hx hy
  simpa using this

/-- Depth: SliceBy starts quickSort_func with the budget `maxDepth(n) = 2·k`, `k = ⌈lg(n+1)⌉` (the least `k` with
    `n+1 ≤ 2^k`); every partition step — loop iteration or nested call — consumes one unit, so the longest chain of
    partition steps (`quickSortLevels`, an instrumented copy computing the same state) is at most `2·⌈lg(n+1)⌉`;
    heapSort_func is entered exactly when the budget is 0 on a range of more than 12 elements.
    The O(n log n) bound on the NUMBER of comparisons is `C15_comparisons` below. -/
theorem C15_depth {K V : Type} (less : LessFn K V) (keys : Array K) (vals : Array V) :
    let n := min keys.size vals.size
    let s0 : St K V := ⟨keys, vals, []⟩
    ∃ k, maxDepth n = 2 * k ∧ n + 1 ≤ 2 ^ k ∧ (∀ k', n + 1 ≤ 2 ^ k' → k ≤ k') ∧
      (quickSortLevels less 0 n (maxDepth n) s0).1 = quickSort less 0 n (maxDepth n) s0 ∧
      (quickSortLevels less 0 n (maxDepth n) s0).2 ≤ 2 * k ∧
      (n > 1 → sliceBy less keys vals = quickSort less 0 n (maxDepth n) s0) := by
  intro n s0
  obtain ⟨k, h1, h2, h3⟩ := Got.Lemmas.Sort.maxDepth_spec n
  have h4 := Got.Lemmas.Sort.quickSortLevels_spec less (maxDepth n) 0 n s0
  refine ⟨k, h1, h2, h3, h4.1, by omega, ?_⟩
  intro hn
  unfold sliceBy
  dsimp only
  rw [if_neg (by omega)]

/-- a budget-0 call on a large range is the heap sort (definitional, stated for the record) -/
theorem C15_depth_heapSort_at_zero {K V : Type} (less : LessFn K V) (a b : Nat) (s : St K V)
    (h : b - a > thrInsertion) : quickSort less a b 0 s = heapSort less a b s := by
  rw [quickSort, if_pos h]

/-! ## number of comparisons -/

/-- For EVERY less function (any function of contents, call history and indices — also inconsistent ones), the
    number of `less` calls made by `SliceBy(keys, values, less)` is at most `n·(9·L + 7) ≤ 9·n·(L + 1)` with
    `n = min(len keys, len values)` and `L = ⌈lg(n+1)⌉` (the least `L` with `n+1 ≤ 2^L`).
    Accounting (all per-function bounds are read off the model's log and hold for arbitrary less, because every
    loop of the Go code is bounded by its indices): one doPivot_func on `m` elements ≤ `2m + 18 ≤ 3m` (pivot choice
    ≤ 12, first scan + partition loop ≤ m, duplicate probes ≤ 3, protect loop ≤ m); at most `2L` partition levels
    over disjoint ranges; heapSort_func on `m` elements ≤ `(3m+2)·⌈lg(m+1)⌉ ≤ 3mL + 2m`; the tail on `m ≤ 12`
    elements ≤ `m(m-1)/2 + m ≤ 7m`.  (The check's oracle monitors the sharper `4·n·(lg n + 2)` for consistent
    orders; worst observed `3.36·n·(lg n + 2)`.) -/
theorem C15_comparisons {K V : Type} (less : LessFn K V) (keys : Array K) (vals : Array V) :
    let n := min keys.size vals.size
    ∃ L, n + 1 ≤ 2 ^ L ∧ (∀ k', n + 1 ≤ 2 ^ k' → L ≤ k') ∧
      lessCount (sliceBy less keys vals).log ≤ n * (9 * L + 7) ∧
      lessCount (sliceBy less keys vals).log ≤ 9 * n * (L + 1) := by
  intro n
  obtain ⟨L, h1, h2, h3⟩ := Got.Lemmas.Sort.sliceBy_cost less keys vals
  refine ⟨L, h1, h2, h3, Nat.le_trans h3 ?_⟩
  have e : 9 * n * (L + 1) = n * (9 * L + 9) := by
    rw [Nat.mul_comm 9 n, Nat.mul_assoc, Nat.mul_add 9 L 1]
  rw [e]
  exact Nat.mul_le_mul_left _ (by omega)

/-- per-function cost bounds used above, for any less: doPivot_func on a range of `m ≥ 3` elements makes at most
    `2m + 3 + 12` Less calls, heapSort_func on `m < 2^k` elements at most `(3m+2)·k`. -/
theorem C15_comparisons_doPivot_heapSort {K V : Type} (less : LessFn K V) (a b k : Nat) (s : St K V) :
    (a + 3 ≤ b → lessCount (doPivot less a b s).2.2.log ≤ lessCount s.log + 2 * (b - a) + 15) ∧
    (b - a < 2 ^ k → lessCount (heapSort less a b s).log ≤ lessCount s.log + (3 * (b - a) + 2) * k) := by
  constructor
  · intro h
    have := (Got.Lemmas.Sort.doPivot_cost less a b s h).1
    unfold Got.Lemmas.Sort.cnt at this
    split at this <;> omega
  · intro h
    exact Got.Lemmas.Sort.heapSort_cost less a b k s h
