import Got.Model.Sort
import Got.Model.SortUnique
import Got.Lemmas.SortUnique
import Got.Lemmas.SortBounds
import Got.Lemmas.SortInsertion
import Got.Lemmas.SortHeap
import Got.Lemmas.SortPivot
import Got.Lemmas.SortQuick
import Got.Lemmas.SortCostQuick
import Got.Lemmas.SortAstAll
import Got.Lemmas.SortAstPivotSem
import Got.Lemmas.SortAstUnique
/- property theorems of C15 (only theorems + non-vacuity examples live here) -/
open Got.Model.Sort Got.Model.SortUnique
open Got.Lemmas.Sort (StrictWeak)

/-! ## (a) UniqueInt / UniqueString -/

/-- `Unique*` never panics and returns the input with every run of equal adjacent elements collapsed to its
    first element, order kept (`collapseRuns`); the backing array keeps its length. -/
theorem C15_unique {α : Type} [DecidableEq α] (a : Array α) :
    ∃ r b, unique a = some (r, b) ∧ r.toList = collapseRuns a.toList ∧ b.size = a.size :=
  Got.Lemmas.SortUnique.unique_spec a

/-- `collapseRuns` is the library function `List.eraseReps` ("keep the first element of each run") -/
theorem C15_unique_spec_eraseReps {α : Type} [DecidableEq α] (l : List α) : collapseRuns l = l.eraseReps :=
  Got.Lemmas.SortUnique.collapseRuns_eq_eraseReps l

/-- independent characterisation of `collapseRuns l`: no two neighbours of it are equal, and `l` is obtained back
    by repeating its k-th element `ns[k]+1 ≥ 1` times (so it is exactly the list of run heads of `l`). -/
theorem C15_unique_spec_runs {α : Type} [DecidableEq α] (l : List α) :
    Got.Lemmas.SortUnique.NoAdjEq (collapseRuns l) ∧
    ∃ ns : List Nat, ns.length = (collapseRuns l).length ∧
      l = (List.zipWith (fun n x => List.replicate (n + 1) x) ns (collapseRuns l)).flatten := by
  cases l with
  | nil => exact ⟨trivial, [], rfl, rfl⟩
  | cons x t =>
    refine ⟨Got.Lemmas.SortUnique.collapseFrom_noAdjEq x t, ?_⟩
    obtain ⟨ns, h1, h2⟩ := Got.Lemmas.SortUnique.collapseFrom_runs x t
    exact ⟨ns, by simpa [collapseRuns] using h1, h2⟩

/-- sorted (non-decreasing) input gives a strictly increasing result, for any antisymmetric `le` -/
theorem C15_unique_sorted_strict {α : Type} [DecidableEq α] (le : α → α → Prop)
    (antisymm : ∀ x y, le x y → le y x → x = y) (a : Array α) (hsorted : List.Pairwise le a.toList) :
    ∃ r b, unique a = some (r, b) ∧ List.Pairwise (fun x y => le x y ∧ x ≠ y) r.toList := by
  obtain ⟨r, b, h1, h2, _⟩ := C15_unique a
  refine ⟨r, b, h1, ?_⟩
  rw [h2]
  cases hl : a.toList with
  | nil => simp [collapseRuns]
  | cons x t =>
    rw [hl] at hsorted
    exact Got.Lemmas.SortUnique.collapseFrom_strict le antisymm x t hsorted

/-- UniqueInt on a sorted []int: strictly increasing -/
theorem C15_unique_int_sorted (a : Array Int) (hsorted : List.Pairwise (· ≤ ·) a.toList) :
    ∃ r b, unique a = some (r, b) ∧ List.Pairwise (· < ·) r.toList := by
  obtain ⟨r, b, h1, h2⟩ := C15_unique_sorted_strict (· ≤ ·) (fun x y h1 h2 => Int.le_antisymm h1 h2) a hsorted
  exact ⟨r, b, h1, h2.imp (fun ⟨h, hne⟩ => by omega)⟩

/-- a non-empty input gives a non-empty result starting with the first element -/
theorem C15_unique_nonempty {α : Type} [DecidableEq α] (a : Array α) (h : a.size ≥ 1) :
    ∃ r b, unique a = some (r, b) ∧ r.size ≥ 1 ∧ r[0]? = a[0]? := by
  obtain ⟨r, b, h1, h2, _⟩ := C15_unique a
  refine ⟨r, b, h1, ?_⟩
  rcases a with ⟨l⟩
  cases l with
  | nil => simp at h
  | cons x t =>
    have : r.toList = x :: collapseFrom x t := h2
    rcases r with ⟨rl⟩
    simp only at this
    subst this
    simp

example : ∃ r b, unique #[1, 1, 2, 2, 2, 3, 1, 1] = some (r, b) ∧ r.toList = [1, 2, 3, 1] := by
  obtain ⟨r, b, h1, h2, _⟩ := C15_unique #[1, 1, 2, 2, 2, 3, 1, 1]
  exact ⟨r, b, h1, by rw [h2]; decide⟩
example : List.Pairwise (· ≤ ·) (#[(1 : Int), 1, 2, 5, 5]).toList := by decide

/-! ## (b) SliceBy with an ARBITRARY less function -/

/-- For every less function — a function of the current contents, the whole call history and the two indices, so
    also inconsistent ones — `SliceBy(keys, values, less)` terminates (`sliceBy` is a total function) and, with
    `n = min(len keys, len values)`:
    * the (key, value) pairs at equal indices `< n` after the call are a permutation of the original ones,
    * both slices keep their length and everything at an index `≥ n` is untouched,
    * every index passed to `less` or to the swapper is `< n` (so neither `reflect.Swapper` nor an indexing
      less closure can panic). -/
theorem C15_perm_pairing_prefix {K V : Type} (less : LessFn K V) (keys : Array K) (vals : Array V) :
    let n := min keys.size vals.size
    let r := sliceBy less keys vals
    ((r.keys.toList.take n).zip (r.vals.toList.take n)).Perm ((keys.toList.take n).zip (vals.toList.take n)) ∧
    r.keys.size = keys.size ∧ r.vals.size = vals.size ∧
    (∀ k, n ≤ k → r.keys[k]? = keys[k]? ∧ r.vals[k]? = vals[k]?) ∧
    (∀ e ∈ r.log, match e with
      | .less i j _ => i < n ∧ j < n
      | .swap i j => i < n ∧ j < n) := by
  intro n r
  have st := Got.Lemmas.Sort.sliceBy_steps less keys vals
  have hsz := st.sizes
  have hperm := st.zip_perm (Nat.min_le_left _ _) (Nat.min_le_right _ _)
  refine ⟨?_, hsz.1, hsz.2, fun k hk => st.outside k (Or.inr hk), ?_⟩
  · have h1 := Array.perm_iff_toList_perm.1 hperm
    rw [Array.toList_zip, Array.toList_zip, List.zip_eq_zip_take_min,
      List.zip_eq_zip_take_min (l₁ := keys.toList)] at h1
    simp only [Array.length_toList] at h1
    rw [hsz.1, hsz.2] at h1
    exact h1
  · obtain ⟨evs, h1, h2⟩ := st.log
    intro e he
    have he' : e ∈ evs := by
      have : e ∈ evs ++ [] := by
        have h1' : (sliceBy less keys vals).log = evs ++ [] := h1
        rw [← h1']; exact he
      simpa using this
    have := h2 e he'
    cases e with
    | less i j b => exact ⟨this.2.1, this.2.2.2⟩
    | swap i j => exact ⟨this.2.1, this.2.2.2⟩

/-- the statement is not vacuous for an inconsistent less: "everything is less than everything" -/
example : ((sliceBy (fun _ _ _ => true) #[3, 1, 2] #["a", "b"]).keys.size = 3) :=
  (C15_perm_pairing_prefix (fun _ _ _ => true) #[3, 1, 2] #["a", "b"]).2.1

/-! ## (c) sortedness of the insertion-sort path and of the heap-sort path
`StrictWeak lt`: `lt` irreflexive, transitive, incomparability transitive.  "Sorted" = no later key is less than an
earlier one. -/

/-- insertionSort_func sorts the range `[a,b)` (any contents, any `a`, `b` within the key slice) -/
theorem C15_sorted_insertionSort {K V : Type} {lt : K → K → Bool} (sw : StrictWeak lt) (a b : Nat) (s : St K V)
    (hb : b ≤ s.keys.size) :
    ∀ i j x y, a ≤ i → i < j → j < b → (insertionSort (stdLess lt) a b s).keys[i]? = some x →
      (insertionSort (stdLess lt) a b s).keys[j]? = some y → lt y x = false :=
  Got.Lemmas.Sort.insertionSort_sorted sw a b s hb

/-- heapSort_func (the fallback when the depth limit is exhausted) sorts the range `[a,b)` -/
theorem C15_sorted_heapSort {K V : Type} {lt : K → K → Bool} (sw : StrictWeak lt) (a b : Nat) (s : St K V)
    (hab : a ≤ b) (hb : b ≤ s.keys.size) :
    ∀ i j x y, a ≤ i → i < j → j < b → (heapSort (stdLess lt) a b s).keys[i]? = some x →
      (heapSort (stdLess lt) a b s).keys[j]? = some y → lt y x = false :=
  Got.Lemmas.Sort.heapSort_sorted sw a b s hab hb

/-- `<` on Int is a strict weak order (non-vacuity of the hypothesis) -/
example : StrictWeak (fun (x y : Int) => decide (x < y)) where
  irrefl := by intro x; simp
  trans := by intro x y z h1 h2; simp at *; omega
  incomp_trans := by intro x y z h1 h2 h3 h4; simp at *; omega

/-! ## (d) doPivot post-condition, full sortedness, depth -/

/-- doPivot_func on a range of at least 3 elements inside the key slice (it is only called with more than 12):
    for any less, all indices stay in `[lo,hi)` and `lo ≤ midlo < hi`, `lo ≤ midhi ≤ hi`; with the standard closure
    over a strict weak order there is a pivot value `p` (found at `midlo`) such that `[lo,midlo)` is `≤ p`,
    `[midlo,midhi)` is equivalent to `p` and non-empty, `[midhi,hi)` is `≥ p`. -/
theorem C15_doPivot_post {K V : Type} {lt : K → K → Bool} (sw : StrictWeak lt) (lo hi : Nat) (s : St K V)
    (h : lo + 3 ≤ hi) (hsz : hi ≤ s.keys.size) :
    let r := doPivot (stdLess lt) lo hi s
    lo ≤ r.1 ∧ r.1 < r.2.1 ∧ r.2.1 ≤ hi ∧
    ∃ p, r.2.2.keys[r.1]? = some p ∧
      (∀ k x, lo ≤ k → k < r.1 → r.2.2.keys[k]? = some x → lt p x = false) ∧
      (∀ k x, r.1 ≤ k → k < r.2.1 → r.2.2.keys[k]? = some x → lt p x = false ∧ lt x p = false) ∧
      (∀ k x, r.2.1 ≤ k → k < hi → r.2.2.keys[k]? = some x → lt x p = false) := by
  intro r
  obtain ⟨_, b1, _, _, b4⟩ := Got.Lemmas.Sort.doPivot_steps (stdLess lt) lo hi s h
  obtain ⟨p, hp, z1, z2, z3, hlt⟩ := Got.Lemmas.Sort.doPivot_sem sw lo hi s h hsz
  exact ⟨b1, hlt, b4, p, hp, z1, z2, z3⟩

/-- After `SliceBy(keys, values, func(i,j) bool { return keys[i] < keys[j] })` with `<` a strict weak order, the first
    `min(len keys, len values)` keys are in non-decreasing order: no later key is less than an earlier one
    (all three paths: insertion sort, quicksort partitioning, heap-sort fallback). -/
theorem C15_sorted {K V : Type} {lt : K → K → Bool} (sw : StrictWeak lt) (keys : Array K) (vals : Array V) :
    let n := min keys.size vals.size
    let r := sliceBy (stdLess lt) keys vals
    ∀ i j x y, i < j → j < n → r.keys[i]? = some x → r.keys[j]? = some y → lt y x = false := by
  intro n r i j x y h1 h2 hx hy
  exact Got.Lemmas.Sort.sliceBy_sorted sw keys vals i j x y (Nat.zero_le _) h1 h2 hx hy

/-- `[]int` keys with `<` -/
theorem C15_sorted_int {V : Type} (keys : Array Int) (vals : Array V) :
    let n := min keys.size vals.size
    let r := sliceBy (stdLess (fun (x y : Int) => decide (x < y))) keys vals
    ∀ i j x y, i < j → j < n → r.keys[i]? = some x → r.keys[j]? = some y → x ≤ y := by
  intro n r i j x y h1 h2 hx hy
  have sw : StrictWeak (fun (x y : Int) => decide (x < y)) :=
    { irrefl := by intro x; simp
      trans := by intro x y z h1 h2; simp at *; omega
      incomp_trans := by intro x y z h1 h2 h3 h4; simp at *; omega }
  have := C15_sorted sw keys vals i j x y h1 h2 hx hy
  simpa using this

/-- Depth: SliceBy starts quickSort_func with the budget `maxDepth(n) = 2·k`, `k = ⌈lg(n+1)⌉` (the least `k` with
    `n+1 ≤ 2^k`); every partition step — loop iteration or nested call — consumes one unit, so the longest chain of
    partition steps (`quickSortLevels`, an instrumented copy computing the same state) is at most `2·⌈lg(n+1)⌉`;
    heapSort_func is entered exactly when the budget is 0 on a range of more than 12 elements.
    The O(n log n) bound on the NUMBER of comparisons is `C15_comparisons` below. -/
theorem C15_depth {K V : Type} (less : LessFn K V) (keys : Array K) (vals : Array V) :
    let n := min keys.size vals.size
    let s0 : St K V := ⟨keys, vals, []⟩
    ∃ k, maxDepth n = 2 * k ∧ n + 1 ≤ 2 ^ k ∧ (∀ k', n + 1 ≤ 2 ^ k' → k ≤ k') ∧
      (quickSortLevels less 0 n (maxDepth n) s0).1 = quickSort less 0 n (maxDepth n) s0 ∧
      (quickSortLevels less 0 n (maxDepth n) s0).2 ≤ 2 * k ∧
      (n > 1 → sliceBy less keys vals = quickSort less 0 n (maxDepth n) s0) := by
  intro n s0
  obtain ⟨k, h1, h2, h3⟩ := Got.Lemmas.Sort.maxDepth_spec n
  have h4 := Got.Lemmas.Sort.quickSortLevels_spec less (maxDepth n) 0 n s0
  refine ⟨k, h1, h2, h3, h4.1, by omega, ?_⟩
  intro hn
  unfold sliceBy
  dsimp only
  rw [if_neg (by omega)]

/-- a budget-0 call on a large range is the heap sort (definitional, stated for the record) -/
theorem C15_depth_heapSort_at_zero {K V : Type} (less : LessFn K V) (a b : Nat) (s : St K V)
    (h : b - a > thrInsertion) : quickSort less a b 0 s = heapSort less a b s := by
  rw [quickSort, if_pos h]

/-! ## number of comparisons -/

/-- For EVERY less function (any function of contents, call history and indices — also inconsistent ones), the
    number of `less` calls made by `SliceBy(keys, values, less)` is at most `n·(9·L + 7) ≤ 9·n·(L + 1)` with
    `n = min(len keys, len values)` and `L = ⌈lg(n+1)⌉` (the least `L` with `n+1 ≤ 2^L`).
    Accounting (all per-function bounds are read off the model's log and hold for arbitrary less, because every
    loop of the Go code is bounded by its indices): one doPivot_func on `m` elements ≤ `2m + 18 ≤ 3m` (pivot choice
    ≤ 12, first scan + partition loop ≤ m, duplicate probes ≤ 3, protect loop ≤ m); at most `2L` partition levels
    over disjoint ranges; heapSort_func on `m` elements ≤ `(3m+2)·⌈lg(m+1)⌉ ≤ 3mL + 2m`; the tail on `m ≤ 12`
    elements ≤ `m(m-1)/2 + m ≤ 7m`.  (The check's oracle monitors the sharper `4·n·(lg n + 2)` for consistent
    orders; worst observed `3.36·n·(lg n + 2)`.) -/
theorem C15_comparisons {K V : Type} (less : LessFn K V) (keys : Array K) (vals : Array V) :
    let n := min keys.size vals.size
    ∃ L, n + 1 ≤ 2 ^ L ∧ (∀ k', n + 1 ≤ 2 ^ k' → L ≤ k') ∧
      lessCount (sliceBy less keys vals).log ≤ n * (9 * L + 7) ∧
      lessCount (sliceBy less keys vals).log ≤ 9 * n * (L + 1) := by
  intro n
  obtain ⟨L, h1, h2, h3⟩ := Got.Lemmas.Sort.sliceBy_cost less keys vals
  refine ⟨L, h1, h2, h3, Nat.le_trans h3 ?_⟩
  have e : 9 * n * (L + 1) = n * (9 * L + 9) := by
    rw [Nat.mul_comm 9 n, Nat.mul_assoc, Nat.mul_add 9 L 1]
  rw [e]
  exact Nat.mul_le_mul_left _ (by omega)

/-- per-function cost bounds used above, for any less: doPivot_func on a range of `m ≥ 3` elements makes at most
    `2m + 3 + 12` Less calls, heapSort_func on `m < 2^k` elements at most `(3m+2)·k`. -/
theorem C15_comparisons_doPivot_heapSort {K V : Type} (less : LessFn K V) (a b k : Nat) (s : St K V) :
    (a + 3 ≤ b → lessCount (doPivot less a b s).2.2.log ≤ lessCount s.log + 2 * (b - a) + 15) ∧
    (b - a < 2 ^ k → lessCount (heapSort less a b s).log ≤ lessCount s.log + (3 * (b - a) + 2) * k) := by
  constructor
  · intro h
    have := (Got.Lemmas.Sort.doPivot_cost less a b s h).1
    unfold Got.Lemmas.Sort.cnt at this
    split at this <;> omega
  · intro h
    exact Got.Lemmas.Sort.heapSort_cost less a b k s h

/-! ## the translated source

`Got/Generated/AstSortxSort.lean` holds the MiniGoSort terms (deep embedding `Got/Model/MiniGoSort.lean`) that
tools/srcfacts/minigo_sort.go regenerates on EVERY run from /repo/sortx/zfuncversion.go (insertionSort_func,
siftDown_func, heapSort_func, medianOfThree_func, doPivot_func, quickSort_func) and /repo/sortx/sort.go (maxDepth), so the
theorems below are re-checked against what the code says now.  `F.run (sortWorld less) prog fuel args s` interprets the
generated term `F` (calls resolved in the generated program `prog`) with `data.Less`/`data.Swap` acting on the model
state `s : St K V` exactly like the model (same log); `some (results, s')` = it terminated within `fuel`.
"refines_model": for every fuel above some bound the interpretation returns exactly the model function's final state —
both slices AND the complete Less/Swap log — so every C15 theorem about the model function is a theorem about the
translated source.  Index hypotheses `< 2^62` are what SliceBy guarantees (indices are within slice lengths).
`sliceByAst` = SliceBy with maxDepth and quickSort_func interpreted, the glue (`min` of the lengths, `length <= 1` guard)
transcribed by hand (Got/Model/SortAstWorld.lean); the driver mode `drv_sort ast` prints it for every case of the
correspondence. -/
section TranslatedSource
open Got.Model.MiniGoSort Got.Model.SortAst

/-- The translator accepted all seven functions: every construct of their current source is inside the MiniGoSort
    fragment (otherwise the generated body is empty and the note names the construct). -/

theorem C15_translation_in_fragment :
    Got.Generated.AstSortxSort.notes = ["ok", "ok", "ok", "ok", "ok", "ok", "ok"] := by decide

/-- **Translator tie, medianOfThree_func**: the translated source computes the model's `medianOfThree`. -/
theorem C15_translated_source_medianOfThree_refines_model {K V : Type} (less : LessFn K V) (m1 m0 m2 : Nat)
    (h1 : m1 < 2 ^ 62) (h0 : m0 < 2 ^ 62) (h2 : m2 < 2 ^ 62) (s : St K V) :
    ∃ f0, ∀ fuel, f0 ≤ fuel →
      Got.Generated.AstSortxSort.medianOfThree_func.run (sortWorld less) Got.Generated.AstSortxSort.prog fuel
        [(m1 : Int), (m0 : Int), (m2 : Int)] s = some ([], medianOfThree less m1 m0 m2 s) := by
  refine Got.Lemmas.SortAst.run_of_FnRuns (vs := []) rfl rfl ?_
  have e : List.map wrap [(m1 : Int), (m0 : Int), (m2 : Int)] = [(m1 : Int), (m0 : Int), (m2 : Int)] := by
    simp (disch := omega) only [List.map, Got.Lemmas.SortAst.wrap_eq]
  rw [e]
  exact Got.Lemmas.SortAst.medianOfThree_runs _ less m1 m0 m2 h1 h0 h2 s

example : (Got.Generated.AstSortxSort.medianOfThree_func.run (sortWorld (stdLess (fun (x y : Int) => decide (x < y))))
    Got.Generated.AstSortxSort.prog 20 [0, 1, 2] ({ keys := #[5, 3, 1], vals := #["a", "b", "c"], log := [] } : St Int String)).map
      (fun r => (r.2.keys, r.2.vals)) = some (#[3, 1, 5], #["b", "c", "a"]) := by decide

/-- **Translator tie, maxDepth**: the translated source returns the model's `maxDepth n` (and touches nothing), in any world. -/
theorem C15_translated_source_maxDepth_refines_model {σ : Type} (W : World σ) (n : Nat) (hn : n < 2 ^ 62) (w : σ) :
    ∃ f0, ∀ fuel, f0 ≤ fuel →
      Got.Generated.AstSortxSort.maxDepth.run W Got.Generated.AstSortxSort.prog fuel [(n : Int)] w =
        some ([((maxDepth n : Nat) : Int)], w) := by
  refine Got.Lemmas.SortAst.run_of_FnRuns rfl rfl ?_
  have e : List.map wrap [(n : Int)] = [(n : Int)] := by
    simp (disch := omega) only [List.map, Got.Lemmas.SortAst.wrap_eq]
  rw [e]
  exact Got.Lemmas.SortAst.maxDepth_runs W _ n hn w

/-- **Translator tie, insertionSort_func**: the translated source (two nested `for` loops, `j > a && data.Less(j, j-1)`)
    computes the model's `insertionSort`. -/
theorem C15_translated_source_insertionSort_refines_model {K V : Type} (less : LessFn K V) (a b : Nat)
    (ha : a < 2 ^ 62) (hb : b < 2 ^ 62) (s : St K V) :
    ∃ f0, ∀ fuel, f0 ≤ fuel →
      Got.Generated.AstSortxSort.insertionSort_func.run (sortWorld less) Got.Generated.AstSortxSort.prog fuel
        [(a : Int), (b : Int)] s = some ([], insertionSort less a b s) := by
  refine Got.Lemmas.SortAst.run_of_FnRuns (vs := []) rfl rfl ?_
  have e : List.map wrap [(a : Int), (b : Int)] = [(a : Int), (b : Int)] := by
    simp (disch := omega) only [List.map, Got.Lemmas.SortAst.wrap_eq]
  rw [e]
  exact Got.Lemmas.SortAst.insertionSort_runs _ less a b ha hb s

/-- **Translator tie, siftDown_func** (`for { … break … return … }`): the translated source computes the model's `siftDown`. -/
theorem C15_translated_source_siftDown_refines_model {K V : Type} (less : LessFn K V) (lo hi first : Nat)
    (hlo : lo < 2 ^ 62) (hhi : hi < 2 ^ 62) (hf : first + hi < 2 ^ 62) (s : St K V) :
    ∃ f0, ∀ fuel, f0 ≤ fuel →
      Got.Generated.AstSortxSort.siftDown_func.run (sortWorld less) Got.Generated.AstSortxSort.prog fuel
        [(lo : Int), (hi : Int), (first : Int)] s = some ([], siftDown less hi first lo s) := by
  refine Got.Lemmas.SortAst.run_of_FnRuns (vs := []) rfl rfl ?_
  have e : List.map wrap [(lo : Int), (hi : Int), (first : Int)] = [(lo : Int), (hi : Int), (first : Int)] := by
    simp (disch := omega) only [List.map, Got.Lemmas.SortAst.wrap_eq]
  rw [e]
  exact Got.Lemmas.SortAst.siftDown_runs _ less lo hi first hlo hhi hf s

/-- **Translator tie, heapSort_func** (truncated `(hi-1)/2`, two descending loops, calls of siftDown_func resolved in the
    generated program): the translated source computes the model's `heapSort`. -/
theorem C15_translated_source_heapSort_refines_model {K V : Type} (less : LessFn K V) (a b : Nat)
    (hab : a ≤ b) (hb : b < 2 ^ 62) (s : St K V) :
    ∃ f0, ∀ fuel, f0 ≤ fuel →
      Got.Generated.AstSortxSort.heapSort_func.run (sortWorld less) Got.Generated.AstSortxSort.prog fuel
        [(a : Int), (b : Int)] s = some ([], heapSort less a b s) :=
  Got.Lemmas.SortAst.heapSort_translated less a b hab hb s

/-- headline property on the translated source: insertionSort_func as translated sorts the range -/
theorem C15_translated_source_insertionSort_sorted {K V : Type} {lt : K → K → Bool} (sw : StrictWeak lt) (a b : Nat)
    (s : St K V) (ha : a < 2 ^ 62) (hb : b ≤ s.keys.size) (hb62 : b < 2 ^ 62) :
    ∃ f0, ∀ fuel, f0 ≤ fuel → ∃ s',
      Got.Generated.AstSortxSort.insertionSort_func.run (sortWorld (stdLess lt)) Got.Generated.AstSortxSort.prog fuel
        [(a : Int), (b : Int)] s = some ([], s') ∧
      ∀ i j x y, a ≤ i → i < j → j < b → s'.keys[i]? = some x → s'.keys[j]? = some y → lt y x = false := by
  obtain ⟨f0, h⟩ := C15_translated_source_insertionSort_refines_model (stdLess lt) a b ha hb62 s
  exact ⟨f0, fun fuel hf => ⟨_, h fuel hf, C15_sorted_insertionSort sw a b s hb⟩⟩

/-- headline property on the translated source: heapSort_func as translated sorts the range -/
theorem C15_translated_source_heapSort_sorted {K V : Type} {lt : K → K → Bool} (sw : StrictWeak lt) (a b : Nat)
    (s : St K V) (hab : a ≤ b) (hb : b ≤ s.keys.size) (hb62 : b < 2 ^ 62) :
    ∃ f0, ∀ fuel, f0 ≤ fuel → ∃ s',
      Got.Generated.AstSortxSort.heapSort_func.run (sortWorld (stdLess lt)) Got.Generated.AstSortxSort.prog fuel
        [(a : Int), (b : Int)] s = some ([], s') ∧
      ∀ i j x y, a ≤ i → i < j → j < b → s'.keys[i]? = some x → s'.keys[j]? = some y → lt y x = false :=
  Got.Lemmas.SortAst.heapSort_translated_sorted sw a b s hab hb hb62

/-- headline property on the translated source, ANY less: heapSort_func as translated permutes the (key, value) pairs,
    keeps lengths, touches nothing outside `[a,b)` and passes only indices of `[a,b)` to Less/Swap -/
theorem C15_translated_source_heapSort_perm_pairing {K V : Type} (less : LessFn K V) (a b : Nat) (s : St K V)
    (hab : a ≤ b) (hbk : b ≤ s.keys.size) (hbv : b ≤ s.vals.size) (hb62 : b < 2 ^ 62) :
    ∃ f0, ∀ fuel, f0 ≤ fuel → ∃ s',
      Got.Generated.AstSortxSort.heapSort_func.run (sortWorld less) Got.Generated.AstSortxSort.prog fuel
        [(a : Int), (b : Int)] s = some ([], s') ∧
      (s'.keys.zip s'.vals).Perm (s.keys.zip s.vals) ∧
      s'.keys.size = s.keys.size ∧ s'.vals.size = s.vals.size ∧
      (∀ k, k < a ∨ b ≤ k → s'.keys[k]? = s.keys[k]? ∧ s'.vals[k]? = s.vals[k]?) ∧
      ∃ evs, s'.log = evs ++ s.log ∧ ∀ e ∈ evs, match e with
        | .less i j _ => a ≤ i ∧ i < b ∧ a ≤ j ∧ j < b
        | .swap i j => a ≤ i ∧ i < b ∧ a ≤ j ∧ j < b :=
  Got.Lemmas.SortAst.heapSort_translated_perm less a b s hab hbk hbv hb62

example : (Got.Generated.AstSortxSort.insertionSort_func.run (sortWorld (stdLess (fun (x y : Int) => decide (x < y))))
    Got.Generated.AstSortxSort.prog 50 [0, 4] ({ keys := #[5, 3, 9, 1], vals := #[0, 1, 2, 3], log := [] } : St Int Nat)).map
      (fun r => (r.2.keys, r.2.vals)) = some (#[1, 3, 5, 9], #[3, 1, 0, 2]) := by decide

example : (sliceByAst 200 (stdLess (fun (x y : Int) => decide (x < y))) #[5, 3, 9, 1, 4] #["a", "b", "c", "d"]).map
    (fun r => (r.keys, r.vals, lessCount r.log)) = some (#[1, 3, 5, 9, 4], #["d", "b", "a", "c"], 5) := by decide

/-- **Translator tie, doPivot_func** (ninther / median-of-three pivot choice through calls of medianOfThree_func,
    `int(uint(lo+hi)>>1)`, the four scan loops, the two `for { … break … }` loops, the bool local `protect`, the three
    duplicate probes, two results): the translated source returns the model's `(midlo, midhi)` and final state. -/
theorem C15_translated_source_doPivot_refines_model {K V : Type} (less : LessFn K V) (lo hi : Nat)
    (h : lo + 3 ≤ hi) (hhi : hi < 2 ^ 62) (s : St K V) :
    ∃ f0, ∀ fuel, f0 ≤ fuel →
      Got.Generated.AstSortxSort.doPivot_func.run (sortWorld less) Got.Generated.AstSortxSort.prog fuel
        [(lo : Int), (hi : Int)] s =
      some ([(((doPivot less lo hi s).1 : Nat) : Int), (((doPivot less lo hi s).2.1 : Nat) : Int)], (doPivot less lo hi s).2.2) := by
  refine Got.Lemmas.SortAst.run_of_FnRuns rfl rfl ?_
  have e : List.map wrap [(lo : Int), (hi : Int)] = [(lo : Int), (hi : Int)] := by
    simp (disch := omega) only [List.map, Got.Lemmas.SortAst.wrap_eq]
  rw [e]
  exact Got.Lemmas.SortAst.pivotSpec less lo hi s h hhi

/-- C15 (d) doPivot post-condition for the translated source: with the standard closure over a strict weak order the
    translated doPivot_func returns `lo ≤ midlo < midhi ≤ hi` and leaves `[lo,midlo) ≤ p`, `[midlo,midhi) ~ p`,
    `[midhi,hi) ≥ p` for the pivot value `p` found at `midlo`. -/
theorem C15_translated_source_doPivot_post {K V : Type} {lt : K → K → Bool} (sw : StrictWeak lt) (lo hi : Nat) (s : St K V)
    (h : lo + 3 ≤ hi) (hsz : hi ≤ s.keys.size) (hhi : hi < 2 ^ 62) :
    ∃ f0, ∀ fuel, f0 ≤ fuel → ∃ (mlo mhi : Nat) (s' : St K V),
      Got.Generated.AstSortxSort.doPivot_func.run (sortWorld (stdLess lt)) Got.Generated.AstSortxSort.prog fuel
        [(lo : Int), (hi : Int)] s = some ([(mlo : Int), (mhi : Int)], s') ∧
      lo ≤ mlo ∧ mlo < mhi ∧ mhi ≤ hi ∧
      ∃ p, s'.keys[mlo]? = some p ∧
        (∀ k x, lo ≤ k → k < mlo → s'.keys[k]? = some x → lt p x = false) ∧
        (∀ k x, mlo ≤ k → k < mhi → s'.keys[k]? = some x → lt p x = false ∧ lt x p = false) ∧
        (∀ k x, mhi ≤ k → k < hi → s'.keys[k]? = some x → lt x p = false) :=
  Got.Lemmas.SortAst.doPivot_translated_post sw lo hi s h hsz hhi

/-- **Translator tie, quickSort_func**: the translated source — loop `for b-a > 12`, depth budget, heapSort_func fallback,
    doPivot_func, recursion on the smaller side (the function calls itself through the generated program), gap pass and
    insertionSort_func tail — computes the model's `quickSort`. -/
theorem C15_translated_source_quickSort_refines_model {K V : Type} (less : LessFn K V)
    (a b d : Nat) (hab : a ≤ b) (hb : b < 2 ^ 62) (hd : d < 2 ^ 62) (s : St K V) :
    ∃ f0, ∀ fuel, f0 ≤ fuel →
      Got.Generated.AstSortxSort.quickSort_func.run (sortWorld less) Got.Generated.AstSortxSort.prog fuel
        [(a : Int), (b : Int), (d : Int)] s = some ([], quickSort less a b d s) := by
  refine Got.Lemmas.SortAst.run_of_FnRuns (vs := []) rfl rfl ?_
  have e : List.map wrap [(a : Int), (b : Int), (d : Int)] = [(a : Int), (b : Int), (d : Int)] := by
    simp (disch := omega) only [List.map, Got.Lemmas.SortAst.wrap_eq]
  rw [e]
  exact Got.Lemmas.SortAst.quickSort_runs _ less (Got.Lemmas.SortAst.callees less) a b d hab hb hd s

/-- **Translator tie, whole call**: SliceBy with the translated maxDepth and quickSort_func interpreted (and through their
    calls all seven translated functions) is the model's `sliceBy` — final slices and the complete Less/Swap log —
    whenever `min(len keys, len values) < 2^62`.  Hence every C15 theorem about `sliceBy` is a theorem about the
    translated source; three of them are restated below. -/
theorem C15_translated_source_sliceBy_refines_model {K V : Type} (less : LessFn K V) (keys : Array K) (vals : Array V)
    (hn : min keys.size vals.size < 2 ^ 62) :
    ∃ f0, ∀ fuel, f0 ≤ fuel → sliceByAst fuel less keys vals = some (sliceBy less keys vals) :=
  Got.Lemmas.SortAst.sliceByAst_refines less keys vals hn

/-- C15 (b) for the translated source, ANY less function: it terminates, permutes the (key, value) pairs of the common
    prefix, keeps lengths and everything beyond the prefix, and passes only indices `< n` to less and to the swapper. -/
theorem C15_translated_source_perm_pairing_prefix {K V : Type} (less : LessFn K V) (keys : Array K) (vals : Array V)
    (hn : min keys.size vals.size < 2 ^ 62) :
    ∃ f0, ∀ fuel, f0 ≤ fuel → ∃ r, sliceByAst fuel less keys vals = some r ∧
      let n := min keys.size vals.size
      ((r.keys.toList.take n).zip (r.vals.toList.take n)).Perm ((keys.toList.take n).zip (vals.toList.take n)) ∧
      r.keys.size = keys.size ∧ r.vals.size = vals.size ∧
      (∀ k, n ≤ k → r.keys[k]? = keys[k]? ∧ r.vals[k]? = vals[k]?) ∧
      (∀ e ∈ r.log, match e with
        | .less i j _ => i < n ∧ j < n
        | .swap i j => i < n ∧ j < n) := by
  obtain ⟨f0, h⟩ := C15_translated_source_sliceBy_refines_model less keys vals hn
  exact ⟨f0, fun fuel hf => ⟨_, h fuel hf, C15_perm_pairing_prefix less keys vals⟩⟩

/-- C15 (d) for the translated source: with `keys[i] < keys[j]` over a strict weak order the common prefix ends sorted. -/
theorem C15_translated_source_sorted {K V : Type} {lt : K → K → Bool} (sw : StrictWeak lt) (keys : Array K) (vals : Array V)
    (hn : min keys.size vals.size < 2 ^ 62) :
    ∃ f0, ∀ fuel, f0 ≤ fuel → ∃ r, sliceByAst fuel (stdLess lt) keys vals = some r ∧
      ∀ i j x y, i < j → j < min keys.size vals.size → r.keys[i]? = some x → r.keys[j]? = some y → lt y x = false := by
  obtain ⟨f0, h⟩ := C15_translated_source_sliceBy_refines_model (stdLess lt) keys vals hn
  exact ⟨f0, fun fuel hf => ⟨_, h fuel hf, C15_sorted sw keys vals⟩⟩

/-- number of comparisons for the translated source, ANY less: at most `9·n·(⌈lg(n+1)⌉ + 1)` calls of `data.Less`. -/
theorem C15_translated_source_comparisons {K V : Type} (less : LessFn K V) (keys : Array K) (vals : Array V)
    (hn : min keys.size vals.size < 2 ^ 62) :
    ∃ f0, ∀ fuel, f0 ≤ fuel → ∃ r, sliceByAst fuel less keys vals = some r ∧
      ∃ L, min keys.size vals.size + 1 ≤ 2 ^ L ∧ (∀ k', min keys.size vals.size + 1 ≤ 2 ^ k' → L ≤ k') ∧
        lessCount r.log ≤ 9 * min keys.size vals.size * (L + 1) := by
  obtain ⟨f0, h⟩ := C15_translated_source_sliceBy_refines_model less keys vals hn
  obtain ⟨L, h1, h2, _, h4⟩ := C15_comparisons less keys vals
  exact ⟨f0, fun fuel hf => ⟨_, h fuel hf, L, h1, h2, h4⟩⟩

/-- non-vacuity of the hypotheses: a 14-element call (large enough for doPivot_func and the recursion) -/
example : ∃ fuel, sliceByAst fuel (stdLess (fun (x y : Int) => decide (x < y)))
    #[14, 13, 12, 11, 10, 9, 8, 7, 6, 5, 4, 3, 2, 1] #[0, 1, 2, 3, 4, 5, 6, 7, 8, 9, 10, 11, 12, 13] =
    some (sliceBy (stdLess (fun (x y : Int) => decide (x < y)))
      #[14, 13, 12, 11, 10, 9, 8, 7, 6, 5, 4, 3, 2, 1] #[0, 1, 2, 3, 4, 5, 6, 7, 8, 9, 10, 11, 12, 13]) := by
  obtain ⟨f0, h⟩ := C15_translated_source_sliceBy_refines_model (stdLess (fun (x y : Int) => decide (x < y)))
    #[14, 13, 12, 11, 10, 9, 8, 7, 6, 5, 4, 3, 2, 1] #[0, 1, 2, 3, 4, 5, 6, 7, 8, 9, 10, 11, 12, 13] (by decide)
  exact ⟨f0, h f0 (Nat.le_refl _)⟩

/-! ### UniqueInt / UniqueString, translated

`Got/Generated/AstSortxUnique.lean` holds the MiniGoSlice terms (Got/Model/MiniGoSlice.lean: one slice with Go's index and
reslice run-time checks, int locals) regenerated from /repo/sortx/unique.go on every run.  `F.run fuel a` =
`some (some (returned slice, backing array))`, `some none` = panic, `none` = out of fuel. -/

/-- The translator accepted both functions. -/
theorem C15_unique_translation_in_fragment : Got.Generated.AstSortxUnique.notes = ["ok", "ok"] := by decide

/-- **Translator tie, UniqueInt**: interpreting the translated source — bounds-checked `a[i] != a[j]`, `a[j+1] = a[i]`,
    `a = a[:j+1]` — returns exactly the model's `unique a` (returned slice and backing array, no panic), for every
    slice of fewer than 2^62 elements of any type with decidable equality. -/
theorem C15_translated_source_uniqueInt_refines_model {α : Type} [DecidableEq α] (a : Array α) (hsz : a.size < 2 ^ 62) :
    ∃ f0, ∀ fuel, f0 ≤ fuel → Got.Generated.AstSortxUnique.uniqueInt.run fuel a = some (unique a) :=
  Got.Lemmas.SortAstUnique.uniqueInt_refines a hsz

/-- **Translator tie, UniqueString** (same body, re-translated separately). -/
theorem C15_translated_source_uniqueString_refines_model {α : Type} [DecidableEq α] (a : Array α) (hsz : a.size < 2 ^ 62) :
    ∃ f0, ∀ fuel, f0 ≤ fuel → Got.Generated.AstSortxUnique.uniqueString.run fuel a = some (unique a) :=
  Got.Lemmas.SortAstUnique.uniqueString_refines a hsz

/-- C15 (a) for the translated source: UniqueInt as translated never panics and returns the input with every run of equal
    adjacent elements collapsed to its first element; the backing array keeps its length. -/
theorem C15_translated_source_unique {α : Type} [DecidableEq α] (a : Array α) (hsz : a.size < 2 ^ 62) :
    ∃ f0, ∀ fuel, f0 ≤ fuel → ∃ r b,
      Got.Generated.AstSortxUnique.uniqueInt.run fuel a = some (some (r, b)) ∧
      Got.Generated.AstSortxUnique.uniqueString.run fuel a = some (some (r, b)) ∧
      r.toList = collapseRuns a.toList ∧ b.size = a.size := by
  obtain ⟨f1, h1⟩ := C15_translated_source_uniqueInt_refines_model a hsz
  obtain ⟨f2, h2⟩ := C15_translated_source_uniqueString_refines_model a hsz
  obtain ⟨r, b, hu, hr, hb⟩ := C15_unique a
  exact ⟨f1 + f2, fun fuel hf => ⟨r, b, by rw [h1 fuel (by omega), hu], by rw [h2 fuel (by omega), hu], hr, hb⟩⟩

example : Got.Generated.AstSortxUnique.uniqueInt.run 20 (#[1, 1, 2] : Array Nat) = some (some (#[1, 2], #[1, 2, 2])) := by
  decide

end TranslatedSource
