import Got.Model.Sample
import Got.Lemmas.Sample
import Got.Lemmas.HeapAstAll
import Got.Lemmas.IfaceAst
import Got.Lemmas.SampleFullAst
/-
C20 — randx.WeightedSampling returns distinct valid indices, weighted correctly.
(only the property theorems + non-vacuity examples live here)

The theorems are about `Got.Model.Sample.weightedSampling`, the transcription of the loop of
randx/sample.go on top of the container/heap transcription `Got.Model.GoHeap`.  The float keys are
INPUTS of the model: `keys` is the list of the `totalNum` keys in loop order, of an arbitrary type `κ`,
compared by arbitrary Bool-valued functions `less` (heap order) and `gt` (replacement test).
-/
open Got.Model Got.Model.Sample Got.Lemmas.Sample Got.Lemmas.GoHeap

/-- VALIDITY, for EVERY key list and EVERY outcome of the comparisons (ties, ±Inf, NaN-like incomparable
    values, even inconsistent answers), hence for every weight vector and every random draw:
    with 1 ≤ m ≤ n the call returns (no panic) exactly m pairwise distinct indices in [0, n),
    and a permutation of 0..n-1 when m = n. -/
theorem C20_valid {κ : Type} (less gt : κ → κ → Bool) (m : Nat) (keys : List κ) (h1 : 1 ≤ m) (h2 : m ≤ keys.length) :
    ∃ r, weightedSampling less gt (m : Int) keys = .ok r ∧ r.length = m ∧ r.Nodup ∧ (∀ x ∈ r, x < keys.length) ∧
      (m = keys.length → r.Perm (List.range keys.length)) := by
  obtain ⟨h, _, hi, hr⟩ := weightedSampling_ok less gt m keys h1 h2
  have hlen : (h.toList.map (·.index)).length = m := by
    simp only [List.length_map, Array.length_toList, hi.size]; omega
  have hlt : ∀ x ∈ h.toList.map (·.index), x < keys.length := by
    intro x hx
    obtain ⟨y, hy, rfl⟩ := List.mem_map.mp hx
    exact hi.lt y hy
  refine ⟨_, hr, hlen, hi.nodup, hlt, ?_⟩
  intro hmn
  exact perm_range_of_nodup keys.length _ hi.nodup hlt (by rw [hlen, hmn])

/-- TOP-m: if the comparison is a strict total order and the keys are pairwise distinct (the situation with
    probability 1 for exact real keys u_i^(1/w_i)), the returned indices are exactly those of the m largest keys:
    every selected key is greater than every non-selected key (with C20_valid: m distinct indices, so this set is
    THE top-m set).  `gt a b = less b a` is what Go's `>` and `<` on floats satisfy. -/
theorem C20_top_m {κ : Type} (less gt : κ → κ → Bool) (st : StrictTotal less) (hgt : ∀ a b, gt a b = less b a)
    (m : Nat) (keys : List κ) (hnd : keys.Nodup) (h1 : 1 ≤ m) (h2 : m ≤ keys.length) :
    ∃ r, weightedSampling less gt (m : Int) keys = .ok r ∧ r.length = m ∧ r.Nodup ∧
      ∀ j, j ∈ r → ∀ j', j' < keys.length → j' ∉ r →
        ∀ kj kj', keys[j]? = some kj → keys[j']? = some kj' → less kj' kj = true := by
  obtain ⟨h, hl, hi, hr⟩ := weightedSampling_ok less gt m keys h1 h2
  obtain ⟨h', hl', _, ht⟩ := loop_top less gt st hgt keys hnd m h1 keys 0 #[] (by simp) (by omega) (inv_init m)
    (top_init less keys)
  rw [hl] at hl'
  injection hl' with hl'
  subst hl'
  refine ⟨_, hr, by simp only [List.length_map, Array.length_toList, hi.size]; omega, hi.nodup, ?_⟩
  intro j hj j' hj' hnot kj kj' hkj hkj'
  obtain ⟨x, hx, hxj⟩ := List.mem_map.mp hj
  have hxk : x.ki = kj := by
    have := ht.item x hx
    rw [hxj, hkj] at this
    injection this with e
    exact e.symm
  rw [← hxk]
  exact ht.excl j' hj' (fun y hy e => hnot (List.mem_map.mpr ⟨y, hy, e⟩)) kj' hkj' x hx

/-- container/heap, Push: under a strict weak order (asymmetric + negatively transitive `less`, ties allowed) Push
    keeps the heap invariant "no element is smaller than its parent" and only adds the pushed element -/
theorem C20_heap_push {α : Type} (less : α → α → Bool) (tp : TotalPreorder less) (a : Array α) (x : α)
    (hh : IsHeap less a) :
    IsHeap less (GoHeap.push less a x) ∧ (GoHeap.push less a x).toList.Perm (x :: a.toList) :=
  ⟨push_heap tp a x hh, push_perm less a x⟩

/-- container/heap, Pop: on a non-empty heap Pop succeeds, returns a MINIMAL element (no element is smaller), removes
    exactly that element, and leaves a heap -/
theorem C20_heap_pop {α : Type} (less : α → α → Bool) (tp : TotalPreorder less) (a : Array α) (hh : IsHeap less a)
    (hne : 0 < a.size) :
    ∃ x b, GoHeap.pop less a = some (x, b) ∧ IsHeap less b ∧ (∀ y ∈ a.toList, less y x = false) ∧
      (x :: b.toList).Perm a.toList := by
  refine ⟨_, _, pop_eq less a hne, ?_⟩
  obtain ⟨p1, p2, p3, _⟩ := pop_heap tp a hh _ _ (pop_eq less a hne)
  exact ⟨p1, p2, p3⟩

/-- for an ARBITRARY comparison (no assumption) Push and Pop still only permute: nothing is lost or duplicated -/
theorem C20_heap_perm {α : Type} (less : α → α → Bool) (a : Array α) (x : α) :
    (GoHeap.push less a x).toList.Perm (x :: a.toList) ∧
    (∀ y b, GoHeap.pop less a = some (y, b) → (y :: b.toList).Perm a.toList) ∧
    (0 < a.size → ∃ y b, GoHeap.pop less a = some (y, b)) :=
  ⟨push_perm less a x, fun y b h => (pop_perm less a y b h).1, fun h => ⟨_, _, pop_eq less a h⟩⟩

/-- the fuel of the structurally recursive loops is adequate: any larger fuel gives the same result, i.e. the loops
    of `up` / `down` always end through one of their `break`s, never by running out of fuel -/
theorem C20_heap_fuel_adequate {α : Type} (less : α → α → Bool) (a : Array α) (j n extra : Nat) :
    GoHeap.upAux less (j + 1 + extra) a j = GoHeap.up less a j ∧
    GoHeap.downAux less (n + extra) a j n = GoHeap.downLoop less a j n :=
  ⟨upAux_fuel less _ _ a j (by omega) (by omega), downAux_fuel less _ _ a j n (by omega) (by omega)⟩

/-- outside 1 ≤ m ≤ n the code panics (explicit argument check, negative capacity, or index out of range for m = 0) -/
theorem C20_invalid_arguments_panic {κ : Type} (less gt : κ → κ → Bool) (m : Int) (keys : List κ)
    (h : m < 1 ∨ (keys.length : Int) < m) : ∃ p, weightedSampling less gt m keys = .error p := by
  unfold weightedSampling
  split
  · exact ⟨_, rfl⟩
  · rename_i hn
    split
    · exact ⟨_, rfl⟩
    · have hm : m = 0 := by omega
      subst hm
      cases keys with
      | nil => simp at hn
      | cons k ks => exact ⟨.indexRange, by simp [loop, step]⟩

/-- the OLD code (heap pre-filled with `sampleNum` zero items, before fix ed1146e) returns the placeholder index
    twice when both keys are 0 (what u^(1/w) underflowed to for weights 5e-324): result [0, 0] -/
theorem C20_old_prefilled_counterexample :
    weightedSamplingOld (κ := Int) (fun a b => decide (a < b)) (fun a b => decide (a > b)) 0 2 [0, 0] = .ok [0, 0] := by
  decide

/-- and with three keys 0, the old code never reports index 1 or 2 at all -/
theorem C20_old_prefilled_counterexample_placeholder :
    weightedSamplingOld (κ := Int) (fun a b => decide (a < b)) (fun a b => decide (a > b)) 0 2 [0, 0, 0] = .ok [0, 0] := by
  decide

/-! non-vacuity: the hypotheses of C20_top_m / C20_heap_* are satisfiable -/

/-- `<` on Int is a strict total order … -/
example : StrictTotal (fun a b : Int => decide (a < b)) :=
  ⟨fun a b h => by simp at h ⊢; omega, fun a b c h1 h2 => by simp at h1 h2 ⊢; omega,
   fun a b => by simp only [decide_eq_true_eq]; omega⟩
/-- … and the rank comparison used by the driver is a strict weak order on the non-NaN ranks -/
example : TotalPreorder (fun a b : Int => decide (a < b)) :=
  ⟨fun a b h => by simp at h ⊢; omega, fun a b c h1 h2 => by simp at h1 h2 ⊢; omega⟩
example : IsHeap (fun a b : Int => decide (a < b)) #[1, 3, 2, 3] := by
  intro k hk _ h0
  have : k = 1 ∨ k = 2 ∨ k = 3 := by simp at hk; omega
  rcases this with rfl | rfl | rfl <;> rfl

/-! sanity: concrete runs of the current model -/
example : weightedSampling (κ := Int) (fun a b => decide (a < b)) (fun a b => decide (a > b)) 2 [0, 0] = .ok [0, 1] := by decide
example : weightedSampling rankLess rankGt 2 [some 3, some 1, some 2] = .ok [2, 0] := by decide
example : weightedSampling rankLess rankGt 1 [some 1, none, some 5] = .ok [2] := by decide

/-! ## the translated source of container/heap

`Got/Generated/AstContainerHeap.lean` holds the MiniGoHeap terms (deep embedding `Got/Model/MiniGoHeap.lean`) that
tools/srcfacts/minigo_heap.go regenerates on EVERY run from `$GOROOT/src/container/heap/heap.go` of the toolchain that
builds the harness (up, down, Init, Push, Pop, Remove, Fix), so the theorems below are re-checked against the library
source actually linked.  `F.run (heapWorld less) prog fuel args x a` interprets the generated term `F` (calls resolved in the
generated program `prog`) over the slice-backed `heap.Interface` on `a : Array α` (Len = size, Less(i,j) = `less a[i] a[j]`,
Swap, Push = append, Pop = remove last; an index out of range PANICS): `some (.done ints value a')` = returned within `fuel`,
`some .panic` = panicked.  "refines_model": for every fuel above some bound the interpretation is exactly the `GoHeap`
model function, so every heap theorem above is a theorem about the translated library source.  Index / size hypotheses
`< 2^62` hold for any slice.  `pushAst` / `popAst` / `initAst` are `h_Push.run` / `h_Pop.run` / `h_Init.run` with the outcome
unpacked (Got/Model/HeapAstWorld.lean); `weightedSamplingAst` is the WeightedSampling loop (hand-transcribed glue,
Got/Model/SampleAst.lean) over these interpreted heap operations — what `drv_sample ast` prints for every case. -/
section TranslatedSource
open Got.Model.MiniGoHeap Got.Model.HeapAst Got.Model.SampleAst Got.Generated.AstContainerHeap
open Got.Lemmas.HeapAst (run_of_Runs)

/-- The translator accepted all seven functions of container/heap (otherwise a body is empty and its note names the
    construct, or says that the GOROOT file is missing). -/
theorem C20_translation_in_fragment : notes = ["ok", "ok", "ok", "ok", "ok", "ok", "ok"] := by decide

/-- **Translator tie, heap.up** -/
theorem C20_translated_source_heap_up_refines_model {α : Type} (less : α → α → Bool) (a : Array α) (j : Nat)
    (hj : j < a.size) (hsz : a.size < 2 ^ 62) :
    ∃ f0, ∀ fuel, f0 ≤ fuel →
      h_up.run (heapWorld less) prog fuel [(j : Int)] none a = some (.done [] none (GoHeap.up less a j)) := by
  have e : List.map Got.Model.MiniGoSort.wrap [(j : Int)] = [(j : Int)] := by
    simp (disch := omega) only [List.map, Got.Lemmas.SortAst.wrap_eq]
  rcases Got.Lemmas.HeapAst.up_runs prog less a j hj hsz with h | ⟨_, e', h⟩
  · obtain ⟨f0, hr⟩ := run_of_Runs (fn := h_up) (args := [(j : Int)]) (x := none) rfl rfl (by rw [e]; exact h)
    exact ⟨f0, fun f hf => by rw [hr f hf]; rfl⟩
  · obtain ⟨f0, hr⟩ := run_of_Runs (fn := h_up) (args := [(j : Int)]) (x := none) rfl rfl (by rw [e]; exact h)
    exact ⟨f0, fun f hf => by rw [hr f hf]; rfl⟩

/-- **Translator tie, heap.down** (result `i > i0` as 1/0, incl. the `j1 < 0` overflow guard, never taken below 2^62) -/
theorem C20_translated_source_heap_down_refines_model {α : Type} (less : α → α → Bool) (a : Array α) (i0 n : Nat)
    (hn : n ≤ a.size) (hsz : a.size < 2 ^ 62) (hi : i0 < 2 ^ 62) :
    ∃ f0, ∀ fuel, f0 ≤ fuel →
      h_down.run (heapWorld less) prog fuel [(i0 : Int), (n : Int)] none a =
        some (.done [if (GoHeap.down less a i0 n).2 then 1 else 0] none (GoHeap.down less a i0 n).1) := by
  have e : List.map Got.Model.MiniGoSort.wrap [(i0 : Int), (n : Int)] = [(i0 : Int), (n : Int)] := by
    simp (disch := omega) only [List.map, Got.Lemmas.SortAst.wrap_eq]
  rcases Got.Lemmas.HeapAst.down_runs prog less a i0 n hn hsz hi with h | ⟨h0, _⟩
  · obtain ⟨f0, hr⟩ := run_of_Runs (fn := h_down) (args := [(i0 : Int), (n : Int)]) (x := none) rfl rfl (by rw [e]; exact h)
    exact ⟨f0, fun f hf => by rw [hr f hf]; rfl⟩
  · cases h0

/-- **Translator tie, heap.Init** -/
theorem C20_translated_source_heap_Init_refines_model {α : Type} (less : α → α → Bool) (a : Array α) (hsz : a.size < 2 ^ 62) :
    ∃ f0, ∀ fuel, f0 ≤ fuel → initAst fuel less a = some (some (GoHeap.init less a)) :=
  Got.Lemmas.HeapAst.initAst_refines less a hsz

/-- **Translator tie, heap.Push** (`h.Push(x); up(h, h.Len()-1)`) -/
theorem C20_translated_source_heap_Push_refines_model {α : Type} (less : α → α → Bool) (a : Array α) (x : α)
    (hsz : a.size + 1 < 2 ^ 62) :
    ∃ f0, ∀ fuel, f0 ≤ fuel → pushAst fuel less a x = some (some (GoHeap.push less a x)) :=
  Got.Lemmas.HeapAst.pushAst_refines less a x hsz

/-- **Translator tie, heap.Pop** (`some none` = the panic of the empty heap, as `GoHeap.pop = none`) -/
theorem C20_translated_source_heap_Pop_refines_model {α : Type} (less : α → α → Bool) (a : Array α) (hsz : a.size < 2 ^ 62) :
    ∃ f0, ∀ fuel, f0 ≤ fuel → popAst fuel less a = some (GoHeap.pop less a) :=
  Got.Lemmas.HeapAst.popAst_refines less a hsz

/-- **Translator tie, heap.Fix** -/
theorem C20_translated_source_heap_Fix_refines_model {α : Type} (less : α → α → Bool) (a : Array α) (i : Nat)
    (hi : i < a.size) (hsz : a.size < 2 ^ 62) :
    ∃ f0, ∀ fuel, f0 ≤ fuel →
      h_Fix.run (heapWorld less) prog fuel [(i : Int)] none a = some (.done [] none (GoHeap.fix less a i)) := by
  have e : List.map Got.Model.MiniGoSort.wrap [(i : Int)] = [(i : Int)] := by
    simp (disch := omega) only [List.map, Got.Lemmas.SortAst.wrap_eq]
  obtain ⟨e', h⟩ := Got.Lemmas.HeapAst.fix_runs prog Got.Lemmas.HeapAst.prog_down Got.Lemmas.HeapAst.prog_up less a i hi hsz
  obtain ⟨f0, hr⟩ := run_of_Runs (fn := h_Fix) (args := [(i : Int)]) (x := none) rfl rfl (by rw [e]; exact h)
  exact ⟨f0, fun f hf => by rw [hr f hf]; rfl⟩

/-- **Translator tie, heap.Remove** (any `i`; an index outside the heap panics, as `GoHeap.remove = none`) -/
theorem C20_translated_source_heap_Remove_refines_model {α : Type} (less : α → α → Bool) (a : Array α) (i : Nat)
    (hi : i < 2 ^ 62) (hsz : a.size < 2 ^ 62) :
    ∃ f0, ∀ fuel, f0 ≤ fuel →
      h_Remove.run (heapWorld less) prog fuel [(i : Int)] none a =
        some (match GoHeap.remove less a i with | some (x, b) => .done [] (some x) b | none => .panic) := by
  have e : List.map Got.Model.MiniGoSort.wrap [(i : Int)] = [(i : Int)] := by
    simp (disch := omega) only [List.map, Got.Lemmas.SortAst.wrap_eq]
  have h := Got.Lemmas.HeapAst.remove_runs prog Got.Lemmas.HeapAst.prog_down Got.Lemmas.HeapAst.prog_up less a i hi hsz
  cases hp : GoHeap.remove less a i with
  | none =>
    rw [hp] at h
    obtain ⟨f0, hr⟩ := run_of_Runs (fn := h_Remove) (args := [(i : Int)]) (x := none) rfl rfl (by rw [e]; exact h)
    exact ⟨f0, fun f hf => by rw [hr f hf]⟩
  | some p =>
    obtain ⟨x, b⟩ := p
    rw [hp] at h
    obtain ⟨f0, hr⟩ := run_of_Runs (fn := h_Remove) (args := [(i : Int)]) (x := none) rfl rfl (by rw [e]; exact h)
    exact ⟨f0, fun f hf => by rw [hr f hf]⟩

/-- headline property on the translated source: heap.Pop AS TRANSLATED, on a non-empty heap under a strict weak order,
    returns a minimal element, removes exactly it, and leaves a heap -/
theorem C20_translated_source_heap_Pop_min {α : Type} (less : α → α → Bool) (tp : TotalPreorder less) (a : Array α)
    (hh : IsHeap less a) (hne : 0 < a.size) (hsz : a.size < 2 ^ 62) :
    ∃ f0, ∀ fuel, f0 ≤ fuel → ∃ x b, popAst fuel less a = some (some (x, b)) ∧ IsHeap less b ∧
      (∀ y ∈ a.toList, less y x = false) ∧ (x :: b.toList).Perm a.toList := by
  obtain ⟨f0, h⟩ := C20_translated_source_heap_Pop_refines_model less a hsz
  obtain ⟨x, b, hp, h1, h2, h3⟩ := C20_heap_pop less tp a hh hne
  exact ⟨f0, fun fuel hf => ⟨x, b, by rw [h fuel hf, hp], h1, h2, h3⟩⟩

/-- headline property on the translated source: heap.Push AS TRANSLATED keeps the heap invariant and only adds `x` -/
theorem C20_translated_source_heap_Push_heap {α : Type} (less : α → α → Bool) (tp : TotalPreorder less) (a : Array α) (x : α)
    (hh : IsHeap less a) (hsz : a.size + 1 < 2 ^ 62) :
    ∃ f0, ∀ fuel, f0 ≤ fuel → ∃ b, pushAst fuel less a x = some (some b) ∧ IsHeap less b ∧ b.toList.Perm (x :: a.toList) := by
  obtain ⟨f0, h⟩ := C20_translated_source_heap_Push_refines_model less a x hsz
  exact ⟨f0, fun fuel hf => ⟨_, h fuel hf, (C20_heap_push less tp a x hh).1, (C20_heap_push less tp a x hh).2⟩⟩

/-- WeightedSampling over the INTERPRETED container/heap terms is the model `weightedSampling` (the loop glue is the
    hand-written transcription; Push and Pop are the generated terms) -/
theorem C20_translated_source_sampling_refines_model {κ : Type} (less gt : κ → κ → Bool) (sampleNum : Int) (keys : List κ)
    (hn : keys.length + 2 < 2 ^ 62) :
    ∃ f0, ∀ fuel, f0 ≤ fuel →
      weightedSamplingAst fuel less gt sampleNum keys = some (weightedSampling less gt sampleNum keys) :=
  Got.Lemmas.SampleAst.weightedSamplingAst_refines (Got.Lemmas.HeapAst.pushSpec _) (Got.Lemmas.HeapAst.popSpec _)
    less gt sampleNum keys hn

/-- C20 validity for the loop over the translated heap source: `m` pairwise distinct valid indices, no panic -/
theorem C20_translated_source_valid {κ : Type} (less gt : κ → κ → Bool) (m : Nat) (keys : List κ) (h1 : 1 ≤ m)
    (h2 : m ≤ keys.length) (hn : keys.length + 2 < 2 ^ 62) :
    ∃ f0, ∀ fuel, f0 ≤ fuel → ∃ r, weightedSamplingAst fuel less gt (m : Int) keys = some (.ok r) ∧ r.length = m ∧ r.Nodup ∧
      (∀ x ∈ r, x < keys.length) := by
  obtain ⟨f0, h⟩ := C20_translated_source_sampling_refines_model less gt (m : Int) keys hn
  obtain ⟨r, hr, p1, p2, p3, _⟩ := C20_valid less gt m keys h1 h2
  exact ⟨f0, fun fuel hf => ⟨r, by rw [h fuel hf, hr], p1, p2, p3⟩⟩

/-- **Translator tie, the heap.Interface methods of randx.sampleHeap**: the world built from the descriptions of
    `(*sampleHeap).Len/Less/Swap/Push/Pop` regenerated from /repo/randx/sample.go on every run
    (Got/Generated/AstRandxSampleHeap.lean, semantics Got/Model/MiniGoIface.lean: bounds-checked indexing, parallel
    assignment, `append`, reslice) IS the slice-backed world `heapWorld (itemLess less)` — Less compares the `ki` fields
    in this argument order, Swap exchanges the two elements, Push appends, Pop removes and returns the last element —
    and `h.Get(0)` is `h[0]?`. -/
theorem C20_translated_source_sampleHeap_world {κ : Type} (less : κ → κ → Bool) :
    sampleWorld less = heapWorld (itemLess less) ∧
    ∀ h : Array (Item κ), Got.Model.MiniGoIface.getOf Got.Generated.AstRandxSampleHeap.sampleHeap h 0 = h[0]? :=
  ⟨Got.Lemmas.IfaceAst.sampleWorld_eq less, Got.Lemmas.IfaceAst.get0_eq⟩

/-- what `drv_sample ast` runs — container/heap from GOROOT interpreted over the interface methods from /repo — is the model -/
theorem C20_translated_source_sampling_gen_refines_model {κ : Type} (less gt : κ → κ → Bool) (sampleNum : Int) (keys : List κ)
    (hn : keys.length + 2 < 2 ^ 62) :
    ∃ f0, ∀ fuel, f0 ≤ fuel →
      weightedSamplingGen fuel less gt sampleNum keys = some (weightedSampling less gt sampleNum keys) := by
  obtain ⟨f0, h⟩ := C20_translated_source_sampling_refines_model less gt sampleNum keys hn
  exact ⟨f0, fun fuel hf => by rw [Got.Lemmas.IfaceAst.weightedSamplingGen_eq, h fuel hf]⟩

/-- The translator accepted the body of WeightedSampling (integer control flow as written; the float key computation,
    the heap calls and the result slice as the abstract statements of Got/Model/MiniGoSampleLoop.lean). -/
theorem C20_sampling_translation_in_fragment : Got.Generated.AstRandxSampling.weightedSamplingNote = "ok" := by decide

/-- **Translator tie, the whole function**: `weightedSamplingFull` runs the body of WeightedSampling as re-described from
    /repo/randx/sample.go on every run (argument check, `make`, the loop with `h.Len() < sampleNum`, `else if ki > h.Get(0).ki`,
    `h.Len() > sampleNum`, the read-out loop), its heap calls being container/heap's Push/Pop as translated from GOROOT, over
    the heap.Interface world built from the translated methods of sampleHeap.  For every Go `int` sampleNum and every key list
    (the float keys `log w − log(−log u)` are the inputs, in index order) it returns — for every sufficiently large fuel —
    exactly the model's result: the index slice or the same panic class.  Nothing of the function is hand-transcribed any
    more except "the three float lines compute the key of index i". -/
theorem C20_translated_source_weightedSampling_refines_model {κ : Type} (less gt : κ → κ → Bool) (sampleNum : Int) (keys : List κ)
    (hn : keys.length + 2 < 2 ^ 62) (hm : -9223372036854775808 ≤ sampleNum ∧ sampleNum < 9223372036854775808) :
    ∃ f0, ∀ fuel, f0 ≤ fuel →
      weightedSamplingFull fuel less gt sampleNum keys = some (weightedSampling less gt sampleNum keys) :=
  Got.Lemmas.SampleFullAst.weightedSamplingFull_refines less gt sampleNum keys hn hm

/-- the driver (`drv_sample ast`) keeps the keys in an array for constant-time lookup; it computes the same function -/
theorem C20_translated_source_driver_run {κ : Type} (fuel : Nat) (less gt : κ → κ → Bool) (sampleNum : Int) (keys : List κ) :
    weightedSamplingFullA fuel less gt sampleNum keys.toArray = weightedSamplingFull fuel less gt sampleNum keys :=
  weightedSamplingFullA_eq fuel less gt sampleNum keys

/-- C20 TOP-m for the translated source: with a strict total order on pairwise distinct keys, the function AS TRANSLATED
    returns m distinct indices whose keys are all greater than every other key. -/
theorem C20_translated_source_top_m {κ : Type} (less gt : κ → κ → Bool) (st : StrictTotal less) (hgt : ∀ a b, gt a b = less b a)
    (m : Nat) (keys : List κ) (hnd : keys.Nodup) (h1 : 1 ≤ m) (h2 : m ≤ keys.length) (hn : keys.length + 2 < 2 ^ 62) :
    ∃ f0, ∀ fuel, f0 ≤ fuel → ∃ r, weightedSamplingFull fuel less gt (m : Int) keys = some (.ok r) ∧ r.length = m ∧ r.Nodup ∧
      ∀ j, j ∈ r → ∀ j', j' < keys.length → j' ∉ r →
        ∀ kj kj', keys[j]? = some kj → keys[j']? = some kj' → less kj' kj = true := by
  obtain ⟨f0, h⟩ := C20_translated_source_weightedSampling_refines_model less gt (m : Int) keys hn (by omega)
  obtain ⟨r, hr, p1, p2, p3⟩ := C20_top_m less gt st hgt m keys hnd h1 h2
  exact ⟨f0, fun fuel hf => ⟨r, by rw [h fuel hf, hr], p1, p2, p3⟩⟩

/-- non-vacuity of the hypotheses, instantiated: two keys, m = 1 -/
example : ∃ fuel, weightedSamplingFull fuel rankLess rankGt 1 [some 5, some 9] = some (weightedSampling rankLess rankGt 1 [some 5, some 9]) := by
  obtain ⟨f0, h⟩ := C20_translated_source_weightedSampling_refines_model rankLess rankGt 1 [some 5, some 9] (by decide) (by decide)
  exact ⟨f0, h f0 (Nat.le_refl _)⟩

example : popAst 50 (fun (x y : Nat) => decide (x < y)) #[0, 1, 5, 7, 3] = some (some (0, #[1, 3, 5, 7])) := by decide
example : pushAst 50 (fun (x y : Nat) => decide (x < y)) #[1, 3, 5, 7] 0 = some (some #[0, 1, 5, 7, 3]) := by decide
example : popAst 50 (fun (x y : Nat) => decide (x < y)) #[] = some none := by decide

end TranslatedSource
