/- property theorems of C20 (only theorems + non-vacuity examples live here) -/
