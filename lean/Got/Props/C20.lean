import Got.Model.Sample
import Got.Lemmas.Sample
/-
C20 — randx.WeightedSampling returns distinct valid indices, weighted correctly.
(only the property theorems + non-vacuity examples live here)

The theorems are about `Got.Model.Sample.weightedSampling`, the transcription of the loop of
randx/sample.go on top of the container/heap transcription `Got.Model.GoHeap`.  The float keys are
INPUTS of the model: `keys` is the list of the `totalNum` keys in loop order, of an arbitrary type `κ`,
compared by arbitrary Bool-valued functions `less` (heap order) and `gt` (replacement test).
-/
open Got.Model Got.Model.Sample Got.Lemmas.Sample Got.Lemmas.GoHeap

/-- VALIDITY, for EVERY key list and EVERY outcome of the comparisons (ties, ±Inf, NaN-like incomparable
    values, even inconsistent answers), hence for every weight vector and every random draw:
    with 1 ≤ m ≤ n the call returns (no panic) exactly m pairwise distinct indices in [0, n),
    and a permutation of 0..n-1 when m = n. -/
theorem C20_valid {κ : Type} (less gt : κ → κ → Bool) (m : Nat) (keys : List κ) (h1 : 1 ≤ m) (h2 : m ≤ keys.length) :
    ∃ r, weightedSampling less gt (m : Int) keys = .ok r ∧ r.length = m ∧ r.Nodup ∧ (∀ x ∈ r, x < keys.length) ∧
      (m = keys.length → r.Perm (List.range keys.length)) := by
  obtain ⟨h, _, hi, hr⟩ := weightedSampling_ok less gt m keys h1 h2
  have hlen : (h.toList.map (·.index)).length = m := by
    simp only [List.length_map, Array.length_toList, hi.size]; omega
  have hlt : ∀ x ∈ h.toList.map (·.index), x < keys.length := by
    intro x hx
    obtain ⟨y, hy, rfl⟩ := List.mem_map.mp hx
    exact hi.lt y hy
  refine ⟨_, hr, hlen, hi.nodup, hlt, ?_⟩
  intro hmn
  exact perm_range_of_nodup keys.length _ hi.nodup hlt (by rw [hlen, hmn])

/-- TOP-m: if the comparison is a strict total order and the keys are pairwise distinct (the situation with
    probability 1 for exact real keys u_i^(1/w_i)), the returned indices are exactly those of the m largest keys:
    every selected key is greater than every non-selected key (with C20_valid: m distinct indices, so this set is
    THE top-m set).  `gt a b = less b a` is what Go's `>` and `<` on floats satisfy. -/
theorem C20_top_m {κ : Type} (less gt : κ → κ → Bool) (st : StrictTotal less) (hgt : ∀ a b, gt a b = less b a)
    (m : Nat) (keys : List κ) (hnd : keys.Nodup) (h1 : 1 ≤ m) (h2 : m ≤ keys.length) :
    ∃ r, weightedSampling less gt (m : Int) keys = .ok r ∧ r.length = m ∧ r.Nodup ∧
      ∀ j, j ∈ r → ∀ j', j' < keys.length → j' ∉ r →
        ∀ kj kj', keys[j]? = some kj → keys[j']? = some kj' → less kj' kj = true := by
  obtain ⟨h, hl, hi, hr⟩ := weightedSampling_ok less gt m keys h1 h2
  obtain ⟨h', hl', _, ht⟩ := loop_top less gt st hgt keys hnd m h1 keys 0 #[] (by simp) (by omega) (inv_init m)
    (top_init less keys)
  rw [hl] at hl'
  injection hl' with hl'
  subst hl'
  refine ⟨_, hr, by simp only [List.length_map, Array.length_toList, hi.size]; omega, hi.nodup, ?_⟩
  intro j hj j' hj' hnot kj kj' hkj hkj'
  obtain ⟨x, hx, hxj⟩ := List.mem_map.mp hj
  have hxk : x.ki = kj := by
    have := ht.item x hx
    rw [hxj, hkj] at this
    injection this with e
    exact e.symm
  rw [← hxk]
  exact ht.excl j' hj' (fun y hy e => hnot (List.mem_map.mpr ⟨y, hy, e⟩)) kj' hkj' x hx

/-- container/heap, Push: under a strict weak order (asymmetric + negatively transitive `less`, ties allowed) Push
    keeps the heap invariant "no element is smaller than its parent" and only adds the pushed element -/
theorem C20_heap_push {α : Type} (less : α → α → Bool) (tp : TotalPreorder less) (a : Array α) (x : α)
    (hh : IsHeap less a) :
    IsHeap less (GoHeap.push less a x) ∧ (GoHeap.push less a x).toList.Perm (x :: a.toList) :=
  ⟨push_heap tp a x hh, push_perm less a x⟩

/-- container/heap, Pop: on a non-empty heap Pop succeeds, returns a MINIMAL element (no element is smaller), removes
    exactly that element, and leaves a heap -/
theorem C20_heap_pop {α : Type} (less : α → α → Bool) (tp : TotalPreorder less) (a : Array α) (hh : IsHeap less a)
    (hne : 0 < a.size) :
    ∃ x b, GoHeap.pop less a = some (x, b) ∧ IsHeap less b ∧ (∀ y ∈ a.toList, less y x = false) ∧
      (x :: b.toList).Perm a.toList := by
  refine ⟨_, _, pop_eq less a hne, ?_⟩
  obtain ⟨p1, p2, p3, _⟩ := pop_heap tp a hh _ _ (pop_eq less a hne)
  exact ⟨p1, p2, p3⟩

/-- for an ARBITRARY comparison (no assumption) Push and Pop still only permute: nothing is lost or duplicated -/
theorem C20_heap_perm {α : Type} (less : α → α → Bool) (a : Array α) (x : α) :
    (GoHeap.push less a x).toList.Perm (x :: a.toList) ∧
    (∀ y b, GoHeap.pop less a = some (y, b) → (y :: b.toList).Perm a.toList) ∧
    (0 < a.size → ∃ y b, GoHeap.pop less a = some (y, b)) :=
  ⟨push_perm less a x, fun y b h => (pop_perm less a y b h).1, fun h => ⟨_, _, pop_eq less a h⟩⟩

/-- the fuel of the structurally recursive loops is adequate: any larger fuel gives the same result, i.e. the loops
    of `up` / `down` always end through one of their `break`s, never by running out of fuel -/
theorem C20_heap_fuel_adequate {α : Type} (less : α → α → Bool) (a : Array α) (j n extra : Nat) :
    GoHeap.upAux less (j + 1 + extra) a j = GoHeap.up less a j ∧
    GoHeap.downAux less (n + extra) a j n = GoHeap.downLoop less a j n :=
  ⟨upAux_fuel less _ _ a j (by omega) (by omega), downAux_fuel less _ _ a j n (by omega) (by omega)⟩

/-- outside 1 ≤ m ≤ n the code panics (explicit argument check, negative capacity, or index out of range for m = 0) -/
theorem C20_invalid_arguments_panic {κ : Type} (less gt : κ → κ → Bool) (m : Int) (keys : List κ)
    (h : m < 1 ∨ (keys.length : Int) < m) : ∃ p, weightedSampling less gt m keys = .error p := by
  unfold weightedSampling
  split
  · exact ⟨_, rfl⟩
  · rename_i hn
    split
    · exact ⟨_, rfl⟩
    · have hm : m = 0 := by omega
      subst hm
      cases keys with
      | nil => simp at hn
      | cons k ks => exact ⟨.indexRange, by simp [loop, step]⟩

/-- the OLD code (heap pre-filled with `sampleNum` zero items, before fix ed1146e) returns the placeholder index
    twice when both keys are 0 (what u^(1/w) underflowed to for weights 5e-324): result [0, 0] -/
theorem C20_old_prefilled_counterexample :
    weightedSamplingOld (κ := Int) (fun a b => decide (a < b)) (fun a b => decide (a > b)) 0 2 [0, 0] = .ok [0, 0] := by
  decide

/-- and with three keys 0, the old code never reports index 1 or 2 at all -/
theorem C20_old_prefilled_counterexample_placeholder :
    weightedSamplingOld (κ := Int) (fun a b => decide (a < b)) (fun a b => decide (a > b)) 0 2 [0, 0, 0] = .ok [0, 0] := by
  decide

/-! non-vacuity: the hypotheses of C20_top_m / C20_heap_* are satisfiable -/

/-- `<` on Int is a strict total order … -/
example : StrictTotal (fun a b : Int => decide (a < b)) :=
  ⟨fun a b h => by simp at h ⊢; omega, fun a b c h1 h2 => by simp at h1 h2 ⊢; omega,
   fun a b => by simp only [decide_eq_true_eq]; omega⟩
/-- … and the rank comparison used by the driver is a strict weak order on the non-NaN ranks -/
example : TotalPreorder (fun a b : Int => decide (a < b)) :=
  ⟨fun a b h => by simp at h ⊢; omega, fun a b c h1 h2 => by simp at h1 h2 ⊢; omega⟩
example : IsHeap (fun a b : Int => decide (a < b)) #[1, 3, 2, 3] := by
  intro k hk _ h0
  have : k = 1 ∨ k = 2 ∨ k = 3 := by simp at hk; omega
  rcases this with rfl | rfl | rfl <;> rfl

/-! sanity: concrete runs of the current model -/
example : weightedSampling (κ := Int) (fun a b => decide (a < b)) (fun a b => decide (a > b)) 2 [0, 0] = .ok [0, 1] := by decide
example : weightedSampling rankLess rankGt 2 [some 3, some 1, some 2] = .ok [2, 0] := by decide
example : weightedSampling rankLess rankGt 1 [some 1, none, some 5] = .ok [2] := by decide
