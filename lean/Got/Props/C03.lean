import Got.Model.Wheel
import Got.Lemmas.Wheel
import Got.Lemmas.WheelAst
/-
C03 — Wheel timers fire exactly once, never late and less than one step early.

Model: Got/Model/Wheel.lean (transition system of loom/wheel.go + wheel_timer.go, one transition per atomic
access; `run fixed (init n step) acts` for an arbitrary action list `acts` covers every number of requester
threads, every program of NewTimer/AfterFunc/Reset calls and every interleaving with the ticker).
Helper lemmas and the inductive invariant: Got/Lemmas/Wheel.lean.

Vocabulary: tick j = the j-th call of onTicker; `adv` = ticks started (position stores done), `cls` = ticks
completed (closes done); `due c` = the tick that is to close channel c; a completed request is recorded as
`Req` (bucket offset k, cls/adv at the call, adv at the return, returned channel).
On the wheel's own tick clock tick j happens at time j·step.
-/
open Got.Model.Wheel Got.Lemmas.Wheel

/-! ### structural facts the model relies on (regenerated from the source on every check) -/

/-- The hook sites in onTicker / fetchWheelData (the wheel-site literals of the function bodies, in program
    order) appear in the order the model's program counters assume:
    ticker = loadPos(3) storePos(6) swapSlot(5) close(7);  request = loadPos(3) loadSlot(4) reloadPos(3). -/
theorem C03_sites : tickerSites = [3, 6, 5, 7] ∧ requestSites = [3, 4, 3] := by decide

/-! ### range check, bucket offset, Reset -/

/-- The request panics iff `d < 0 ∨ d ≥ step·n`; otherwise the bucket offset satisfies `k+1 = max ⌊d/step⌋ 1`
    and `k+1 ≤ n-1` (for n ≥ 2; `k = 0` on a one-bucket wheel). -/
theorem C03_range (step n : Nat) (d : Int) :
    (rangePanics step n d = true ↔ (d < 0 ∨ (step : Int) * n ≤ d)) ∧
    (rangePanics step n d = false →
      bucketIndex step d + 1 = max (d.toNat / step) 1 ∧
      (bucketIndex step d + 1 < n ∨ (n = 1 ∧ bucketIndex step d = 0))) := by
  refine ⟨rangePanics_iff step n d, fun h => ⟨?_, bucketIndex_range step n d h⟩⟩
  have h' : ¬ (d < 0 ∨ (step : Int) * n ≤ d) := by rw [← rangePanics_iff]; simp [h]
  exact bucketIndex_succ step d (by omega)

example : rangePanics 10 3 29 = false ∧ rangePanics 10 3 30 = true ∧ rangePanics 10 3 (-1) = true ∧
    bucketIndex 10 29 = 1 ∧ bucketIndex 10 9 = 0 ∧ bucketIndex 10 10 = 0 ∧ bucketIndex 10 20 = 1 := by decide

/-- Reset re-arms the timer exactly like a fresh request for the selected interval (the argument if it is
    at least one step, the timer's own interval otherwise); hence every theorem below, being stated for all
    action lists, covers Reset with the guarantee counted from the Reset call. -/
theorem C03_reset (s : State) (t : Nat) (base : Int) (arg : Option Int) :
    step fixed s (.reset t base arg) = step fixed s (.invoke t (resetInterval s.step base arg)) ∧
    resetInterval s.step base none = base ∧
    (∀ x, resetInterval s.step base (some x) = if (s.step : Int) ≤ x then x else base) := by
  refine ⟨rfl, rfl, fun x => rfl⟩

example : resetInterval 10 25 (some 9) = 25 ∧ resetInterval 10 25 (some 10) = 10 ∧ resetInterval 10 25 none = 25 := by
  decide

/-! ### exactly once -/

/-- In every reachable state no channel has been closed twice (`dblClose = false`: the Go `close` never panics),
    and a channel is closed iff its due tick is complete, and then it was closed by exactly that tick.
    (`due c = c+1` and slot contents only ever move to later due ticks, see `TInv`.) -/
theorem C03_closed_once (n step : Nat) (hn : 0 < n) (acts : List Act) :
    let s := run fixed (init n step) acts
    s.dblClose = false ∧ ∀ c, s.closedBy c = if s.due c ≤ s.cls then some (s.due c) else none := by
  intro s
  have h := (inv_reachable n step hn acts).t
  refine ⟨h.nodbl, fun c => ?_⟩
  rw [h.due_eq c]
  exact h.closed_eq c

/-- A closed channel is never re-opened and its closing tick never changes: once ready, a timer stays ready. -/
theorem C03_closed_stable (n step : Nat) (hn : 0 < n) (acts more : List Act) (c j : Nat)
    (h : (run fixed (init n step) acts).closedBy c = some j) :
    (run fixed (init n step) (acts ++ more)).closedBy c = some j := by
  have h1 := C03_closed_once n step hn acts
  have h2 := C03_closed_once n step hn (acts ++ more)
  have hd1 := (inv_reachable n step hn acts).t.due_eq c
  have hd2 := (inv_reachable n step hn (acts ++ more)).t.due_eq c
  have hm := (run_mono fixed (run fixed (init n step) acts) more).1
  rw [← run_append] at hm
  simp only [] at h1 h2
  rw [h1.2 c] at h
  rw [h2.2 c, hd2]
  rw [hd1] at h
  split at h
  · rw [if_pos (by omega)]; exact h
  · cases h

/-! ### the tick that releases a timer -/

/-- Main theorem.  For EVERY execution and every completed request r (NewTimer, AfterFunc or Reset) the returned
    channel is due at tick `L + k + 1` for some `L` between the number of ticks COMPLETE when the request was
    invoked and the number of ticks STARTED when it returned — whatever the number of concurrent requesters,
    however the request overlaps ticks, and however many whole revolutions pass during the request.  For
    n ≥ 2 even `ticks started at the invocation ≤ L`. -/
theorem C03_fire_tick (n step : Nat) (hn : 0 < n) (acts : List Act) (r : Req)
    (hr : r ∈ (run fixed (init n step) acts).done) :
    ∃ L, r.invCls ≤ L ∧ L ≤ r.retAdv ∧ (run fixed (init n step) acts).due r.chan = L + r.k + 1 ∧
      (2 ≤ n → r.invAdv ≤ L) := by
  have h := inv_reachable n step hn acts
  obtain ⟨_, _, _, L, h1, h2, h3, h4⟩ := h.d r hr
  refine ⟨L, h1, h2, ?_, ?_⟩
  · rw [h.t.due_eq]; exact h3
  · have hn' : (run fixed (init n step) acts).n = n := by
      have : ∀ (s : State) (a : Act), (Got.Model.Wheel.step fixed s a).n = s.n := by
        intro s a
        cases a with
        | tick => exact (tick_frame fixed s).1
        | invoke t d => exact (invoke_frame t d s).1
        | reset t b a => exact (invoke_frame t _ s).1
        | req t => exact (req_frame t s).1
      have hrun : ∀ (acts : List Act) (s : State), (run fixed s acts).n = s.n := by
        intro acts
        induction acts with
        | nil => intro s; rfl
        | cons a rest ih => intro s; simp only [run, List.foldl_cons] at ih ⊢; rw [ih, this]
      rw [hrun]; rfl
    rw [hn'] at h4
    exact h4

/-- A request that does not overlap any tick (as many ticks complete at the call as started at the return) is
    released by exactly tick `ticks + k + 1` — the closed form used by the virtual-time correspondence. -/
theorem C03_fire_tick_sequential (n step : Nat) (hn : 0 < n) (acts : List Act) (r : Req)
    (hr : r ∈ (run fixed (init n step) acts).done) (hseq : r.invCls = r.retAdv) :
    (run fixed (init n step) acts).due r.chan = r.invCls + r.k + 1 := by
  obtain ⟨L, h1, h2, h3, _⟩ := C03_fire_tick n step hn acts r hr
  rw [h3]; omega

/-- Combination: the timer of a completed request is ready exactly from tick `L + k + 1` on — not before
    (never early by a whole tick), and as soon as that tick is complete (never late), for the `L` of
    `C03_fire_tick`. -/
theorem C03_ready_iff (n step : Nat) (hn : 0 < n) (acts more : List Act) (r : Req)
    (hr : r ∈ (run fixed (init n step) acts).done) :
    ∃ L, r.invCls ≤ L ∧ L ≤ r.retAdv ∧
      (run fixed (init n step) (acts ++ more)).closedBy r.chan =
        if L + r.k + 1 ≤ (run fixed (init n step) (acts ++ more)).cls then some (L + r.k + 1) else none := by
  obtain ⟨L, h1, h2, h3, _⟩ := C03_fire_tick n step hn acts r hr
  refine ⟨L, h1, h2, ?_⟩
  have hc := (C03_closed_once n step hn (acts ++ more)).2 r.chan
  have hd1 := (inv_reachable n step hn acts).t.due_eq r.chan
  have hd2 := (inv_reachable n step hn (acts ++ more)).t.due_eq r.chan
  rw [hc, hd2, ← hd1, h3]

/-- non-vacuity: a request (interval 0, so k = 0) that overlaps tick 1 of a 3-bucket wheel, is forced to retry by
    the re-check and is released by tick 2 (L = 1): invoke · loadPos · [tick: loadPos storePos swapSlot] · loadSlot
    (fresh channel 3!) · reloadPos (changed → retry) · loadPos · loadSlot · reloadPos. -/
example :
    let s := run fixed (init 3 10) [.invoke 7 0, .req 7, .tick, .tick, .tick, .req 7, .req 7, .req 7, .req 7, .req 7]
    s.done = [{ tid := 7, k := 0, invCls := 0, invAdv := 0, retAdv := 1, retCls := 0, chan := 1 }] ∧ s.due 1 = 2 := by
  decide

/-- non-vacuity of the readiness statement: after two more whole ticks the channel is closed, by tick 2 -/
example :
    (run fixed (init 3 10) ([.invoke 7 0, .req 7, .tick, .tick, .tick, .req 7, .req 7, .req 7, .req 7, .req 7] ++
      [.tick] ++ fullTick)).closedBy 1 = some 2 := by
  decide

/-! ### ghost state -/

/-- Erasure: `adv`, `cls`, `due`, the closing tick inside `closedBy`, the per-request counters and the `done`
    log are never read by the real part — two states with the same real part (`real`: position, slots, closed
    bits, allocator, program counters and locals) have successors with the same real part.  So the ghost
    bookkeeping cannot mask or alter the behaviour of the modelled code. -/
theorem C03_ghost_erasure (v : Variant) (s s' : State) (a : Act) (h : real s = real s') :
    real (Got.Model.Wheel.step v s a) = real (Got.Model.Wheel.step v s' a) :=
  erasure v s s' a h

example : real (init 3 10) = real { init 3 10 with adv := 5, cls := 4, due := fun _ => 0, done := [] } := rfl

/-! ### timing on the wheel's tick clock -/

/-- If the request falls into tick period `L` (`L·s ≤ τ < (L+1)·s`) and its interval is in range, the timer
    released by tick `L+k+1` (time `(L+k+1)·s`) is ready after `t = fire − τ` with `D − s < t ≤ D`,
    `D = max (s·⌊d/s⌋) s`.  (Stated additively: `fire ≤ τ + D` and `τ + D < fire + s`; also `τ < fire`.) -/
theorem C03_timing (s d L τ : Nat) (_hs : 0 < s) (hL : L * s ≤ τ) (hτ : τ < (L + 1) * s) :
    let fire := fireTime s L (bucketIndex s d)
    let D := nominal s d
    τ < fire ∧ fire ≤ τ + D ∧ τ + D < fire + s := by
  intro fire D
  have hD : D = s * (bucketIndex s d + 1) := nominal_eq s d
  have hf : fire = L * s + s * (bucketIndex s d + 1) := fireTime_eq s L _
  have h1 : (L + 1) * s = L * s + s := by rw [Nat.add_mul, Nat.one_mul]
  have h2 : s * 1 ≤ s * (bucketIndex s d + 1) := Nat.mul_le_mul_left s (Nat.succ_le_succ (Nat.zero_le _))
  rw [hD, hf]
  generalize s * (bucketIndex s d + 1) = X at h2 ⊢
  omega

example : fireTime 10 2 (bucketIndex 10 25) = 40 ∧ nominal 10 25 = 20 ∧ nominal 10 3 = 10 := by decide

/-- The closed lower bound `t = D − s` is reached only by a request issued exactly at a tick instant and
    ordered before that tick (it sees `L = τ/s − 1`). -/
theorem C03_timing_tie (s d L : Nat) :
    fireTime s L (bucketIndex s d) + s = (L + 1) * s + nominal s d := by
  rw [nominal_eq, fireTime_eq, Nat.add_mul L 1, Nat.one_mul]
  omega

/-- The `L` of `C03_fire_tick` is the tick period of an instant inside the request: if tick j happens at time
    j·s, `cI` ticks were complete at the invocation instant `τi` (so `cI·s ≤ τi ≤ (cI+1)·s`) and `aR` ticks had
    started at the return instant `τr` (so `aR·s ≤ τr`), then every `L` with `cI ≤ L ≤ aR` is the tick period of
    some instant τ ∈ [τi, τr] — except in the tie case, where the request was issued at the very instant of
    tick `cI+1` and ordered before it. -/
theorem C03_window (s cI aR L τi τr : Nat) (hs : 0 < s) (h1 : cI * s ≤ τi) (h1' : τi ≤ (cI + 1) * s)
    (h2 : aR * s ≤ τr) (hir : τi ≤ τr) (hL1 : cI ≤ L) (hL2 : L ≤ aR) :
    ∃ τ, τi ≤ τ ∧ τ ≤ τr ∧ L * s ≤ τ ∧ (τ < (L + 1) * s ∨ (L = cI ∧ τi = (cI + 1) * s)) := by
  by_cases hc : L = cI
  · subst hc
    by_cases ht : τi < (L + 1) * s
    · exact ⟨τi, Nat.le_refl _, hir, h1, Or.inl ht⟩
    · exact ⟨τi, Nat.le_refl _, hir, h1, Or.inr ⟨rfl, by omega⟩⟩
  · have h3 : (cI + 1) * s ≤ L * s := Nat.mul_le_mul_right s (by omega)
    have h4 : L * s ≤ aR * s := Nat.mul_le_mul_right s hL2
    have h5 : (L + 1) * s = L * s + s := by rw [Nat.add_mul, Nat.one_mul]
    exact ⟨L * s, by omega, by omega, Nat.le_refl _, Or.inl (by omega)⟩

/-- End to end on the wheel's tick clock (tick j at time j·step).  Let a request for an interval `d` in range be
    invoked at instant `τi` and return at instant `τr`, where — because tick j happens at j·step — the ticks complete at
    the invocation satisfy `invCls·step ≤ τi ≤ (invCls+1)·step` and the ticks started at the return satisfy
    `retAdv·step ≤ τr`.  Then the timer becomes ready at `fire = due·step`, and there is an instant τ inside the
    request with `D − step < fire − τ ≤ D` (additively: `fire ≤ τ + D < fire + step`, and `τ < fire`), or else the request
    was issued exactly at a tick instant and ordered before that tick, in which case `fire − τi = D − step`. -/
theorem C03_end_to_end (n step : Nat) (hn : 0 < n) (hs : 0 < step) (acts : List Act) (r : Req)
    (hr : r ∈ (run fixed (init n step) acts).done) (d : Nat) (hk : r.k = bucketIndex step d)
    (τi τr : Nat) (h1 : r.invCls * step ≤ τi) (h1' : τi ≤ (r.invCls + 1) * step) (h2 : r.retAdv * step ≤ τr)
    (hir : τi ≤ τr) :
    let fire := (run fixed (init n step) acts).due r.chan * step
    let D := nominal step d
    (∃ τ, τi ≤ τ ∧ τ ≤ τr ∧ τ < fire ∧ fire ≤ τ + D ∧ τ + D < fire + step) ∨
    (τi = (r.invCls + 1) * step ∧ fire + step = τi + D) := by
  intro fire D
  obtain ⟨L, hL1, hL2, hdue, _⟩ := C03_fire_tick n step hn acts r hr
  have hfire : fire = fireTime step L (bucketIndex step d) := by
    show (run fixed (init n step) acts).due r.chan * step = _
    rw [hdue, hk]; rfl
  obtain ⟨τ, t1, t2, t3, t4⟩ := C03_window step r.invCls r.retAdv L τi τr hs h1 h1' h2 hir hL1 hL2
  rcases t4 with t4 | ⟨hLc, htie⟩
  · left
    have := C03_timing step d L τ hs t3 t4
    simp only [] at this
    exact ⟨τ, t1, t2, by rw [hfire]; exact this.1, by rw [hfire]; exact this.2.1, by rw [hfire]; exact this.2.2⟩
  · right
    refine ⟨htie, ?_⟩
    have := C03_timing_tie step d L
    rw [hfire, this, htie, hLc]

/-- non-vacuity: the overlapping request of the example above (k = 0, interval 0), invoked at 5 ns and returning at
    12 ns on a 10 ns wheel, satisfies every hypothesis of `C03_end_to_end` -/
example :
    let acts : List Act := [.invoke 7 0, .req 7, .tick, .tick, .tick, .req 7, .req 7, .req 7, .req 7, .req 7]
    let r : Req := { tid := 7, k := 0, invCls := 0, invAdv := 0, retAdv := 1, retCls := 0, chan := 1 }
    r ∈ (run fixed (init 3 10) acts).done ∧ r.k = bucketIndex 10 (0 : Nat) ∧
    r.invCls * 10 ≤ 5 ∧ 5 ≤ (r.invCls + 1) * 10 ∧ r.retAdv * 10 ≤ 12 := by
  decide

/-! ### the defect of the old code, and why the re-check is needed -/

/-- Old code (slot replaced BEFORE the position advance, no re-check), 3 buckets: `req.loadPos ; tick.loadPos ;
    tick.swapSlot ; req.loadSlot` returns the fresh channel, due at tick 4 = n+1, although k = 0 and no tick had
    even started when the request returned (C03_fire_tick would demand due = 1). -/
theorem C03_old_counterexample :
    let s := run old (init 3 10) [.invoke 0 0, .req 0, .tick, .tick, .req 0]
    s.done = [{ tid := 0, k := 0, invCls := 0, invAdv := 0, retAdv := 0, retCls := 0, chan := 3 }] ∧ s.due 3 = 4 := by
  decide

/-- The new order alone is not enough: without the re-check, `req.loadPos ; whole tick ; req.loadSlot` reads the
    slot that tick 1 has just refilled: due 4, while only ticks ≤ 2 are allowed (L ≤ retAdv = 1, k = 0). -/
theorem C03_norecheck_counterexample :
    let s := run noRecheck (init 3 10) [.invoke 0 0, .req 0, .tick, .tick, .tick, .tick, .req 0]
    s.done = [{ tid := 0, k := 0, invCls := 0, invAdv := 0, retAdv := 1, retCls := 1, chan := 3 }] ∧ s.due 3 = 4 := by
  decide

/-! ### the translated source (translator tie for the race part)

`Got.Generated.AstLoomWheel.fetchWheelData` / `onTicker` are re-translated from /repo/loom/wheel.go on every run into the
atomic-instruction IR of Got/Model/AtomicIR.lean (Go `int`/`time.Duration` as unbounded integers; `&wheel.position`,
`&wheel.channels[i]` with bounds check, `atomic.StoreInt64`, `atomic.SwapPointer` with a fresh `wheelData`, `close`,
`panic`; the immutable fields `maxTimeout`, `step`, `bucketsSize` are leading parameters).  `Got.Model.WheelGen` is the
generated LTS (thread 0 = the ticker goroutine, requester `t` = thread `t+1`; `gstep`, `genRun`).  `RelW g s aux`
(Got/Lemmas/WheelAst.lean): same shared memory (position, slots, allocator, closed bits, double-close flag), the ticker and
every requester are in the IR configuration that corresponds to their hand-written pc and locals, and the channels the
generated requests have returned are exactly the `done` records.  Not translated: NewWheel (the initial state `genInit`),
goLoop, and `WheelTimer.Reset`'s choice of the interval (`resetInterval`). -/

/-- The translator accepted both functions, and reads the receiver's immutable fields in the order the mapping assumes. -/
theorem C03_translation_in_fragment :
    Got.Generated.AstLoomWheel.fetchWheelDataNote = "ok" ∧ Got.Generated.AstLoomWheel.onTickerNote = "ok" ∧
    Got.Generated.AstLoomWheel.fetchWheelDataCfg = ["maxTimeout", "step", "bucketsSize"] ∧
    Got.Generated.AstLoomWheel.onTickerCfg = ["bucketsSize"] := by decide

/-- **Translator tie, one step.** In every state with `0 < n`, `0 < step` and a valid ticker index (all reachable states),
    every action of the hand-written model — a ticker access, an invocation with its range check and index computation, a
    requester access — is the corresponding action of the LTS generated from the source: corresponding states stay
    corresponding. -/
theorem C03_translated_source_step : ∀ (g : Got.Model.AtomicIR.GState) (s : State) (aux : Nat → Int) (a : Act),
    Got.Lemmas.WheelAst.RelW g s aux → Got.Lemmas.WheelAst.Good s →
    Got.Lemmas.WheelAst.RelW (Got.Model.WheelGen.gstep s.n s.step g a) (step fixed s a)
      (Got.Lemmas.WheelAst.auxStep s aux a) :=
  Got.Lemmas.WheelAst.simW_step

/-- hence every run from NewWheel(step, n). -/
theorem C03_translated_source_run (n stepNs : Nat) (hn : 0 < n) (hs : 0 < stepNs) (acts : List Act) :
    ∃ aux, Got.Lemmas.WheelAst.RelW (Got.Model.WheelGen.genRun n stepNs acts) (run fixed (init n stepNs) acts) aux :=
  Got.Lemmas.WheelAst.genRun_rel n stepNs hn hs acts

/-- **Channels are closed once, for the translated source**: in every run of the generated LTS no channel is closed twice,
    and channel `c` is closed exactly when the tick that is due to close it (`c + 1`) is complete. -/
theorem C03_translated_source_closed_once (n stepNs : Nat) (hn : 0 < n) (hs : 0 < stepNs) (acts : List Act) :
    let g := Got.Model.WheelGen.genRun n stepNs acts
    let s := run fixed (init n stepNs) acts
    g.mem.dbl = false ∧ ∀ c, g.mem.closed c = decide (s.due c ≤ s.cls) := by
  intro g s
  obtain ⟨aux, hr⟩ := Got.Lemmas.WheelAst.genRun_rel n stepNs hn hs acts
  have h := C03_closed_once n stepNs hn acts
  refine ⟨?_, fun c => ?_⟩
  · show g.mem.dbl = false
    rw [hr.mem]; exact h.1
  · show g.mem.closed c = _
    rw [hr.mem]
    show ((run fixed (init n stepNs) acts).closedBy c).isSome = _
    rw [h.2 c]
    by_cases hd : s.due c ≤ s.cls <;> simp [s, hd]

/-- **The tick that releases a timer, for the translated source**: every channel `c` that a request of thread `t` returned
    in the generated LTS is the channel of a `done` record of the model, so it is closed by tick `L + k + 1` for an `L`
    between the ticks complete at the invocation and the ticks started at the return (`C03_fire_tick`). -/
theorem C03_translated_source_fire_tick (n stepNs : Nat) (hn : 0 < n) (hs : 0 < stepNs) (acts : List Act) (t c : Nat)
    (hret : (t, c) ∈ Got.Model.WheelGen.returned (Got.Model.WheelGen.genRun n stepNs acts)) :
    ∃ r ∈ (run fixed (init n stepNs) acts).done, r.tid = t ∧ r.chan = c ∧
      ∃ L, r.invCls ≤ L ∧ L ≤ r.retAdv ∧ (run fixed (init n stepNs) acts).due c = L + r.k + 1 := by
  obtain ⟨aux, hr⟩ := Got.Lemmas.WheelAst.genRun_rel n stepNs hn hs acts
  rw [hr.ret] at hret
  obtain ⟨r, hrm, hre⟩ := List.mem_map.1 hret
  have hrd : r ∈ (run fixed (init n stepNs) acts).done := List.mem_reverse.1 hrm
  obtain ⟨L, h1, h2, h3, _⟩ := C03_fire_tick n stepNs hn acts r hrd
  have e1 : r.tid = t := congrArg Prod.fst hre
  have e2 : r.chan = c := congrArg Prod.snd hre
  exact ⟨r, hrd, e1, e2, L, h1, h2, by rw [← e2]; exact h3⟩

/-- non-vacuity: the generated LTS really runs — the overlapping request of the `C03_fire_tick` example (retry forced by
    the re-check) returns channel 1 to requester 7 in the LTS generated from the source. -/
example :
    Got.Model.WheelGen.returned (Got.Model.WheelGen.genRun 3 10
      [.invoke 7 0, .req 7, .tick, .tick, .tick, .req 7, .req 7, .req 7, .req 7, .req 7]) = [(7, 1)] := by decide
