/- property theorems of C03 (only theorems + non-vacuity examples live here) -/
