/- property theorems of C12 (only theorems + non-vacuity examples live here) -/
