import Got.Lemmas.CodecRoundtrip
/-
C12 — decoding arbitrary bytes with the iox readers is total, in-bounds and allocation-bounded.

Model: `Got.Model.Codec` (`read1 buf pos op` = one call of ReadBool/ReadByte/ReadInt16/ReadInt32/ReadInt64/
Read7BitEncodedInt/ReadBytes/ReadString/Read(n) on the stream `(buf, pos)`; outcome `ok v | err e | crash`, new position,
ghost `alloc` = bytes passed to `make`). All statements quantify over EVERY byte list, every start position within it and
every call. Only theorems and non-vacuity examples live in this file.
-/
open Got.Model.Codec Got.Lemmas.Codec

/-- every call returns a value or one of the errors documented for it (never panics / hangs), and the cursor ends
    between where it started and the end of the input -/
theorem C12_total_inbounds (buf : List Byte) (pos : Nat) (op : Op) (h : pos ≤ buf.length) :
    ((∃ v, (read1 buf pos op).out = .ok v) ∨ (∃ e, (read1 buf pos op).out = .err e ∧ op.mayFail e)) ∧
      pos ≤ (read1 buf pos op).pos ∧ (read1 buf pos op).pos ≤ buf.length := by
  have s := read1_spec buf pos op h
  refine ⟨?_, s.good.mono, s.good.inb⟩
  cases ho : (read1 buf pos op).out with
  | ok v => exact Or.inl ⟨v, rfl⟩
  | err e => exact Or.inr ⟨e, rfl, s.errs e ho⟩
  | crash => exact absurd ho s.good.nocrash

example : (read1 [0x80#8, 0x80#8] 0 .v7).out = .err .NotEnoughData ∧ (read1 [0x80#8, 0x80#8] 0 .v7).pos = 2 := by decide

/-- a failed fixed-width read (bool, byte, int16, int32, int64) consumes nothing, fails with ErrNotEnoughData, and only
    when fewer bytes than its width remain; a successful one consumes exactly its width -/
theorem C12_fixed_fail_consumes_nothing (buf : List Byte) (pos : Nat) (op : Op) (w : Nat) (h : pos ≤ buf.length)
    (hw : op.width = some w) :
    (∀ e, (read1 buf pos op).out = .err e →
        (read1 buf pos op).pos = pos ∧ e = .NotEnoughData ∧ buf.length < pos + w) ∧
    (∀ v, (read1 buf pos op).out = .ok v → (read1 buf pos op).pos = pos + w) := by
  have s := read1_spec buf pos op h
  refine ⟨fun e he => ?_, fun v hv => s.fixedOk w v hw hv⟩
  have hf := s.fixedFail w e hw he
  have hm := s.errs e he
  refine ⟨hf.1, ?_, hf.2⟩
  cases op <;> simp [Op.width] at hw <;> exact hm

example : (read1 [1#8, 2#8, 3#8] 0 .i32).out = .err .NotEnoughData ∧ (read1 [1#8, 2#8, 3#8] 0 .i32).pos = 0 := by decide

/-- Read7BitEncodedInt consumes at most five bytes of any input (whatever the outcome) and allocates nothing -/
theorem C12_7bit_le5 (buf : List Byte) (pos : Nat) :
    (read7 buf pos).pos ≤ pos + 5 ∧ pos ≤ (read7 buf pos).pos ∧ (read7 buf pos).alloc = 0 := by
  by_cases h : pos ≤ buf.length
  · have b := read7_bound buf pos h
    exact ⟨b.le, b.mono, b.alloc⟩
  · rw [read7_beyond buf pos (by omega)]
    exact ⟨by simp, by simp, rfl⟩

example : (read7 [0xff#8, 0xff#8, 0xff#8, 0xff#8, 0xff#8, 0xff#8] 0).pos = 5 ∧
    (read7 [0xff#8, 0xff#8, 0xff#8, 0xff#8, 0xff#8, 0xff#8] 0).out = .err .Bad7BitInt := by decide

/-- an over-long 7-bit group is rejected, not silently truncated: four continuation bytes followed by a fifth byte
    above 15 (a value that does not fit 32 bits) give ErrBad7BitInt after exactly five bytes -/
theorem C12_7bit_rejects_overlong (buf : List Byte) (pos : Nat) (b0 b1 b2 b3 b4 : Byte) (tl : List Byte)
    (hd : buf.drop pos = b0 :: b1 :: b2 :: b3 :: b4 :: tl)
    (h0 : b0 > 127#8) (h1 : b1 > 127#8) (h2 : b2 > 127#8) (h3 : b3 > 127#8) (h4 : b4 > 15#8) :
    read7 buf pos = ⟨.err .Bad7BitInt, pos + 5, 0⟩ :=
  read7_rejects_fifth buf pos b0 b1 b2 b3 b4 tl hd (BitVec.not_le.mpr h0) (BitVec.not_le.mpr h1)
    (BitVec.not_le.mpr h2) (BitVec.not_le.mpr h3) h4

example : read7 [0x80#8, 0x80#8, 0x80#8, 0x80#8, 0x10#8] 0 = ⟨.err .Bad7BitInt, 5, 0⟩ := by decide

/-- a successful ReadBytes (= ReadString) returns exactly the announced number of bytes, taken from the input right
    behind the length prefix, and the cursor ends right behind them -/
theorem C12_readbytes_exact (buf : List Byte) (pos : Nat) (data : List Byte) (h : pos ≤ buf.length)
    (hok : (readBytes buf pos).out = .ok data) :
    ∃ size p, read7 buf pos = ⟨.ok size, p, 0⟩ ∧ 0 ≤ size.toInt ∧
      data.length = size.toInt.toNat ∧ data = (buf.drop p).take size.toInt.toNat ∧
      (readBytes buf pos).pos = p + data.length ∧ p + data.length ≤ buf.length := by
  rcases readBytes_char buf pos h with ⟨e, p, _, hr⟩ | ⟨size, p, h7, hc⟩
  · rw [hr] at hok; simp at hok
  · refine ⟨size, p, h7, ?_⟩
    have hb := read7_bound buf pos h
    rw [h7] at hb
    have hp : p ≤ buf.length := hb.inb
    cases hc with
    | negative _ hr => rw [hr] at hok; simp at hok
    | short _ _ _ hr => rw [hr] at hok; simp at hok
    | empty hz hr =>
      rw [hr] at hok ⊢
      have hd : data = [] := by simpa using hok.symm
      subst hd hz
      exact ⟨by decide, by decide, by simp, by simp, by simpa using hp⟩
    | full h0 hi hf hr =>
      rw [hr] at hok ⊢
      have hd : data = (buf.drop p).take size.toNat := by simpa using hok.symm
      have hl : data.length = size.toNat := by
        rw [hd, List.length_take, List.length_drop]; omega
      have hn : size.toInt.toNat = size.toNat := by omega
      rw [hn]
      exact ⟨by omega, hl, hd, by simp [hl], by omega⟩

/-- ReadString is ReadBytes followed by a cast that keeps the bytes: the same statement holds for it -/
theorem C12_readstring_eq_readbytes (buf : List Byte) (pos : Nat) : readString buf pos = readBytes buf pos := rfl

example : (readBytes [9#8, 2#8, 0xaa#8, 0xbb#8, 7#8] 1) = ⟨.ok [0xaa#8, 0xbb#8], 4, 2⟩ := by decide

/-- whatever a length prefix announces, a call passes at most the number of remaining input bytes to `make`
    (only ReadBytes/ReadString allocate at all) -/
theorem C12_alloc_bounded (buf : List Byte) (pos : Nat) (op : Op) (h : pos ≤ buf.length) :
    (read1 buf pos op).alloc ≤ buf.length - pos ∧
      (op ≠ .bytes → op ≠ .str → (read1 buf pos op).alloc = 0) := by
  have s := read1_spec buf pos op h
  exact ⟨s.good.alloc, s.noAllocUnlessBytes⟩

/-- the hostile prefix of the fixed defect: announces 2^27 bytes, four bytes of input -/
example : read1 [0x80#8, 0x80#8, 0x80#8, 0x40#8] 0 .bytes = ⟨.err .NotEnoughData, 4, 0⟩ := by decide

/-- the code before commit ca8102a passed the announced size to `make` first: 128 MiB for a 4-byte input -/
theorem C12_old_counterexample :
    (readBytesOld [0x80#8, 0x80#8, 0x80#8, 0x40#8] 0).alloc = 134217728 ∧
      ¬ (readBytesOld [0x80#8, 0x80#8, 0x80#8, 0x40#8] 0).alloc ≤ [0x80#8, 0x80#8, 0x80#8, 0x40#8].length - 0 := by
  decide

/-- any sequence of read calls on any input keeps the invariant: every call returns, moves the cursor forward within
    the input and allocates no more than the input that was left -/
theorem C12_seq (buf : List Byte) (ops : List Op) (pos : Nat) (h : pos ≤ buf.length) :
    SeqGood buf pos (readSeq buf pos ops) :=
  readSeq_good buf ops pos h

/-- … in particular for every single result in the sequence, relative to the start of the whole sequence -/
theorem C12_seq_all (buf : List Byte) (ops : List Op) (pos : Nat) (h : pos ≤ buf.length) :
    ∀ r ∈ readSeq buf pos ops, r.out ≠ .crash ∧ pos ≤ r.pos ∧ r.pos ≤ buf.length ∧ r.alloc ≤ buf.length - pos := by
  induction ops generalizing pos with
  | nil => intro r hr; simp [readSeq] at hr
  | cons o os ih =>
    intro r hr
    have g := (read1_spec buf pos o h).good
    simp only [readSeq, List.mem_cons] at hr
    rcases hr with hr | hr
    · subst hr; exact ⟨g.nocrash, g.mono, g.inb, g.alloc⟩
    · have := ih _ g.inb r hr
      have hm := g.mono
      exact ⟨this.1, by omega, this.2.2.1, by omega⟩

example : (readSeq [2#8, 0x61#8, 0x62#8, 0xff#8] 0 [.str, .i16, .byte, .byte]).map (·.pos) = [3, 3, 4, 4] := by decide
