import Got.Lemmas.CodecRoundtrip
import Got.Lemmas.CodecAstBytes
/-
C12 — decoding arbitrary bytes with the iox readers is total, in-bounds and allocation-bounded.

Model: `Got.Model.Codec` (`read1 buf pos op` = one call of ReadBool/ReadByte/ReadInt16/ReadInt32/ReadInt64/
Read7BitEncodedInt/ReadBytes/ReadString/Read(n) on the stream `(buf, pos)`; outcome `ok v | err e | crash`, new position,
ghost `alloc` = bytes passed to `make`). All statements quantify over EVERY byte list, every start position within it and
every call. Only theorems and non-vacuity examples live in this file.
-/
open Got.Model.Codec Got.Lemmas.Codec

/-- every call returns a value or one of the errors documented for it (never panics / hangs), and the cursor ends
    between where it started and the end of the input -/
theorem C12_total_inbounds (buf : List Byte) (pos : Nat) (op : Op) (h : pos ≤ buf.length) :
    ((∃ v, (read1 buf pos op).out = .ok v) ∨ (∃ e, (read1 buf pos op).out = .err e ∧ op.mayFail e)) ∧
      pos ≤ (read1 buf pos op).pos ∧ (read1 buf pos op).pos ≤ buf.length := by
  have s := read1_spec buf pos op h
  refine ⟨?_, s.good.mono, s.good.inb⟩
  cases ho : (read1 buf pos op).out with
  | ok v => exact Or.inl ⟨v, rfl⟩
  | err e => exact Or.inr ⟨e, rfl, s.errs e ho⟩
  | crash => exact absurd ho s.good.nocrash

example : (read1 [0x80#8, 0x80#8] 0 .v7).out = .err .NotEnoughData ∧ (read1 [0x80#8, 0x80#8] 0 .v7).pos = 2 := by decide

/-- a failed fixed-width read (bool, byte, int16, int32, int64) consumes nothing, fails with ErrNotEnoughData, and only
    when fewer bytes than its width remain; a successful one consumes exactly its width -/
theorem C12_fixed_fail_consumes_nothing (buf : List Byte) (pos : Nat) (op : Op) (w : Nat) (h : pos ≤ buf.length)
    (hw : op.width = some w) :
    (∀ e, (read1 buf pos op).out = .err e →
        (read1 buf pos op).pos = pos ∧ e = .NotEnoughData ∧ buf.length < pos + w) ∧
    (∀ v, (read1 buf pos op).out = .ok v → (read1 buf pos op).pos = pos + w) := by
  have s := read1_spec buf pos op h
  refine ⟨fun e he => ?_, fun v hv => s.fixedOk w v hw hv⟩
  have hf := s.fixedFail w e hw he
  have hm := s.errs e he
  refine ⟨hf.1, ?_, hf.2⟩
  cases op <;> simp [Op.width] at hw <;> exact hm

example : (read1 [1#8, 2#8, 3#8] 0 .i32).out = .err .NotEnoughData ∧ (read1 [1#8, 2#8, 3#8] 0 .i32).pos = 0 := by decide

/-- Read7BitEncodedInt consumes at most five bytes of any input (whatever the outcome) and allocates nothing -/
theorem C12_7bit_le5 (buf : List Byte) (pos : Nat) :
    (read7 buf pos).pos ≤ pos + 5 ∧ pos ≤ (read7 buf pos).pos ∧ (read7 buf pos).alloc = 0 := by
  by_cases h : pos ≤ buf.length
  · have b := read7_bound buf pos h
    exact ⟨b.le, b.mono, b.alloc⟩
  · rw [read7_beyond buf pos (by omega)]
    exact ⟨by simp, by simp, rfl⟩

example : (read7 [0xff#8, 0xff#8, 0xff#8, 0xff#8, 0xff#8, 0xff#8] 0).pos = 5 ∧
    (read7 [0xff#8, 0xff#8, 0xff#8, 0xff#8, 0xff#8, 0xff#8] 0).out = .err .Bad7BitInt := by decide

/-- an over-long 7-bit group is rejected, not silently truncated: four continuation bytes followed by a fifth byte
    above 15 (a value that does not fit 32 bits) give ErrBad7BitInt after exactly five bytes -/
theorem C12_7bit_rejects_overlong (buf : List Byte) (pos : Nat) (b0 b1 b2 b3 b4 : Byte) (tl : List Byte)
    (hd : buf.drop pos = b0 :: b1 :: b2 :: b3 :: b4 :: tl)
    (h0 : b0 > 127#8) (h1 : b1 > 127#8) (h2 : b2 > 127#8) (h3 : b3 > 127#8) (h4 : b4 > 15#8) :
    read7 buf pos = ⟨.err .Bad7BitInt, pos + 5, 0⟩ :=
  read7_rejects_fifth buf pos b0 b1 b2 b3 b4 tl hd (BitVec.not_le.mpr h0) (BitVec.not_le.mpr h1)
    (BitVec.not_le.mpr h2) (BitVec.not_le.mpr h3) h4

example : read7 [0x80#8, 0x80#8, 0x80#8, 0x80#8, 0x10#8] 0 = ⟨.err .Bad7BitInt, 5, 0⟩ := by decide

/-- a successful ReadBytes (= ReadString) returns exactly the announced number of bytes, taken from the input right
    behind the length prefix, and the cursor ends right behind them -/
theorem C12_readbytes_exact (buf : List Byte) (pos : Nat) (data : List Byte) (h : pos ≤ buf.length)
    (hok : (readBytes buf pos).out = .ok data) :
    ∃ size p, read7 buf pos = ⟨.ok size, p, 0⟩ ∧ 0 ≤ size.toInt ∧
      data.length = size.toInt.toNat ∧ data = (buf.drop p).take size.toInt.toNat ∧
      (readBytes buf pos).pos = p + data.length ∧ p + data.length ≤ buf.length := by
  rcases readBytes_char buf pos h with ⟨e, p, _, hr⟩ | ⟨size, p, h7, hc⟩
  · rw [hr] at hok; simp at hok
  · refine ⟨size, p, h7, ?_⟩
    have hb := read7_bound buf pos h
    rw [h7] at hb
    have hp : p ≤ buf.length := hb.inb
    cases hc with
    | negative _ hr => rw [hr] at hok; simp at hok
    | short _ _ _ hr => rw [hr] at hok; simp at hok
    | empty hz hr =>
      rw [hr] at hok ⊢
      have hd : data = [] := by simpa using hok.symm
      subst hd hz
      exact ⟨by decide, by decide, by simp, by simp, by simpa using hp⟩
    | full h0 hi hf hr =>
      rw [hr] at hok ⊢
      have hd : data = (buf.drop p).take size.toNat := by simpa using hok.symm
      have hl : data.length = size.toNat := by
        rw [hd, List.length_take, List.length_drop]; omega
      have hn : size.toInt.toNat = size.toNat := by omega
      rw [hn]
      exact ⟨by omega, hl, hd, by simp [hl], by omega⟩

/-- ReadString is ReadBytes followed by a cast that keeps the bytes: the same statement holds for it -/
theorem C12_readstring_eq_readbytes (buf : List Byte) (pos : Nat) : readString buf pos = readBytes buf pos := rfl

example : (readBytes [9#8, 2#8, 0xaa#8, 0xbb#8, 7#8] 1) = ⟨.ok [0xaa#8, 0xbb#8], 4, 2⟩ := by decide

/-- whatever a length prefix announces, a call passes at most the number of remaining input bytes to `make`
    (only ReadBytes/ReadString allocate at all) -/
theorem C12_alloc_bounded (buf : List Byte) (pos : Nat) (op : Op) (h : pos ≤ buf.length) :
    (read1 buf pos op).alloc ≤ buf.length - pos ∧
      (op ≠ .bytes → op ≠ .str → (read1 buf pos op).alloc = 0) := by
  have s := read1_spec buf pos op h
  exact ⟨s.good.alloc, s.noAllocUnlessBytes⟩

/-- the hostile prefix of the fixed defect: announces 2^27 bytes, four bytes of input -/
example : read1 [0x80#8, 0x80#8, 0x80#8, 0x40#8] 0 .bytes = ⟨.err .NotEnoughData, 4, 0⟩ := by decide

/-- the code before commit ca8102a passed the announced size to `make` first: 128 MiB for a 4-byte input -/
theorem C12_old_counterexample :
    (readBytesOld [0x80#8, 0x80#8, 0x80#8, 0x40#8] 0).alloc = 134217728 ∧
      ¬ (readBytesOld [0x80#8, 0x80#8, 0x80#8, 0x40#8] 0).alloc ≤ [0x80#8, 0x80#8, 0x80#8, 0x40#8].length - 0 := by
  decide

/-- any sequence of read calls on any input keeps the invariant: every call returns, moves the cursor forward within
    the input and allocates no more than the input that was left -/
theorem C12_seq (buf : List Byte) (ops : List Op) (pos : Nat) (h : pos ≤ buf.length) :
    SeqGood buf pos (readSeq buf pos ops) :=
  readSeq_good buf ops pos h

/-- … in particular for every single result in the sequence, relative to the start of the whole sequence -/
theorem C12_seq_all (buf : List Byte) (ops : List Op) (pos : Nat) (h : pos ≤ buf.length) :
    ∀ r ∈ readSeq buf pos ops, r.out ≠ .crash ∧ pos ≤ r.pos ∧ r.pos ≤ buf.length ∧ r.alloc ≤ buf.length - pos := by
  induction ops generalizing pos with
  | nil => intro r hr; simp [readSeq] at hr
  | cons o os ih =>
    intro r hr
    have g := (read1_spec buf pos o h).good
    simp only [readSeq, List.mem_cons] at hr
    rcases hr with hr | hr
    · subst hr; exact ⟨g.nocrash, g.mono, g.inb, g.alloc⟩
    · have := ih _ g.inb r hr
      have hm := g.mono
      exact ⟨this.1, by omega, this.2.2.1, by omega⟩

example : (readSeq [2#8, 0x61#8, 0x62#8, 0xff#8] 0 [.str, .i16, .byte, .byte]).map (·.pos) = [3, 3, 4, 4] := by decide
/-! ## the translated source (translator tie)

`Got.Generated.AstIox` holds the MiniGoBytes terms (Got/Model/MiniGoBytes.lean) that tools/srcfacts/minigo_codec.go regenerates
from /repo/iox/octets_*.go on every run; `run table "<Type>.<Method>" fuel args ⟨buffer, position, alloc⟩` interprets the
generated term.  The theorems below are re-checked against what the code says now. -/

open Got.Generated.AstIox in
/-- every method the translator is pointed at is inside the MiniGoBytes fragment (else: empty body + a note naming the
    construct, and this fails) -/
theorem C12_translation_in_fragment : notes.filter (fun p => p.2 != "ok") = [] := by decide

section translated
open Got.Model.MiniGoBytes (run St)
open Got.Generated.AstIox Got.Lemmas.CodecAst

/-- interpreting the translated `OctetsReader.Read7BitEncodedInt` on ANY bytes at ANY position gives the model's outcome
    (value / error identity), position and allocation — the loop with the variable shift, the error propagation of the
    nested `ReadByte` calls through the function table, and the fifth-byte check -/
theorem C12_translated_source_Read7BitEncodedInt_refines_model (buf : List (BitVec 8)) (pos a : Nat) (fuel : Nat)
    (hf : 90 ≤ fuel) :
    run table "OctetsReader.Read7BitEncodedInt" fuel [] ⟨buf, pos, a⟩ =
      some (readOut (.bv 32 true) (.bv 32 true 0) ⟨buf, pos, a⟩ (read7 buf pos)) :=
  r_read7_ast buf pos a fuel hf

/-- the fixed-width readers of the translated source, on any bytes -/
theorem C12_translated_source_fixed_readers_refine_model (buf : List (BitVec 8)) (pos a : Nat) (fuel : Nat)
    (hf : 10 ≤ fuel) :
    run table "OctetsReader.ReadBool" fuel [] ⟨buf, pos, a⟩ =
        some (readOut .bool (.bool false) ⟨buf, pos, a⟩ (readBool buf pos)) ∧
    run table "OctetsReader.ReadByte" fuel [] ⟨buf, pos, a⟩ =
        some (readOut (.bv 8 false) (.bv 8 false 0) ⟨buf, pos, a⟩ (readByte buf pos)) ∧
    run table "OctetsReader.ReadInt16" fuel [] ⟨buf, pos, a⟩ =
        some (readOut (.bv 16 true) (.bv 16 true 0) ⟨buf, pos, a⟩ (readInt16 buf pos)) ∧
    run table "OctetsReader.ReadInt32" fuel [] ⟨buf, pos, a⟩ =
        some (readOut (.bv 32 true) (.bv 32 true 0) ⟨buf, pos, a⟩ (readInt32 buf pos)) ∧
    run table "OctetsReader.ReadInt64" fuel [] ⟨buf, pos, a⟩ =
        some (readOut (.bv 64 true) (.bv 64 true 0) ⟨buf, pos, a⟩ (readInt64 buf pos)) :=
  ⟨r_readBool_ast buf pos a fuel hf, r_readByte_ast buf pos a fuel (by omega), r_readInt16_ast buf pos a fuel (by omega),
    r_readInt32_ast buf pos a fuel (by omega), r_readInt64_ast buf pos a fuel (by omega)⟩

/-- **The property, stated of the translated source itself.** On arbitrary bytes and any start position inside them the
    translated `Read7BitEncodedInt` never panics and never runs out of fuel: it returns a value with `nil` or the zero
    value with ErrNotEnoughData / ErrBad7BitInt, leaves the buffer alone, allocates nothing, and the cursor ends between
    where it started and the end of the input, at most five bytes further. -/
theorem C12_translated_source_Read7BitEncodedInt_total_inbounds (buf : List (BitVec 8)) (pos a : Nat) (fuel : Nat)
    (hf : 90 ≤ fuel) (hp : pos ≤ buf.length) :
    ∃ (v : BitVec 32) (e : Option Got.Model.MiniGoBytes.Err) (p : Nat),
      run table "OctetsReader.Read7BitEncodedInt" fuel [] ⟨buf, pos, a⟩ =
        some (.ret [.bv 32 true v, .err e] [] ⟨buf, (p : Int), a⟩) ∧
      pos ≤ p ∧ p ≤ buf.length ∧ p ≤ pos + 5 ∧
      (e = none ∨ (v = 0 ∧ (e = some .NotEnoughData ∨ e = some .Bad7BitInt))) := by
  have b := read7_bound buf pos hp
  rw [r_read7_ast buf pos a fuel hf]
  cases hr : read7 buf pos with
  | mk out p al =>
    rw [hr] at b
    have hal : al = 0 := b.alloc
    subst hal
    cases out with
    | ok v => exact ⟨v, none, p, by simp [readOut], b.mono, b.inb, b.le, Or.inl rfl⟩
    | err e =>
      refine ⟨0, some (cv e), p, by simp [readOut], b.mono, b.inb, b.le, Or.inr ⟨rfl, ?_⟩⟩
      rcases b.errpos e rfl with h | h <;> subst h <;> simp [cv]
    | crash => exact absurd rfl b.nocrash

/-- the same for the fixed-width `ReadInt32` of the translated source: no panic for any bytes, a failure consumes
    nothing -/
theorem C12_translated_source_ReadInt32_total_inbounds (buf : List (BitVec 8)) (pos a : Nat) (fuel : Nat)
    (hf : 10 ≤ fuel) :
    (pos + 4 ≤ buf.length → ∃ v, run table "OctetsReader.ReadInt32" fuel [] ⟨buf, pos, a⟩ =
        some (.ret [.bv 32 true v, .err none] [] ⟨buf, ((pos + 4 : Nat) : Int), a⟩)) ∧
    (¬ pos + 4 ≤ buf.length → run table "OctetsReader.ReadInt32" fuel [] ⟨buf, pos, a⟩ =
        some (.ret [.bv 32 true 0, .err (some .NotEnoughData)] [] ⟨buf, (pos : Int), a⟩)) := by
  rw [r_readInt32_ast buf pos a fuel (by omega)]
  constructor
  · intro h
    rw [readInt32_ok buf pos h]
    simp only [readOut]
    exact ⟨_, rfl⟩
  · intro h
    rw [readInt32_err buf pos h]
    simp [readOut, cv]

/-- non-vacuity: a truncated group and an over-long group, run on the generated term -/
example : run table "OctetsReader.Read7BitEncodedInt" 100 [] ⟨[0x80#8, 0x80#8], 0, 0⟩ =
    some (.ret [.bv 32 true 0#32, .err (some .NotEnoughData)] [] ⟨[0x80#8, 0x80#8], 2, 0⟩) := by
  have h := C12_translated_source_Read7BitEncodedInt_refines_model [0x80#8, 0x80#8] 0 0 100 (by omega)
  rw [show read7 [0x80#8, 0x80#8] 0 = ⟨.err .NotEnoughData, 2, 0⟩ by decide] at h
  simpa [readOut, cv] using h

example : run table "OctetsReader.Read7BitEncodedInt" 100 [] ⟨[0x80#8, 0x80#8, 0x80#8, 0x80#8, 0x10#8], 0, 0⟩ =
    some (.ret [.bv 32 true 0#32, .err (some .Bad7BitInt)] [] ⟨[0x80#8, 0x80#8, 0x80#8, 0x80#8, 0x10#8], 5, 0⟩) := by
  have h := C12_translated_source_Read7BitEncodedInt_refines_model [0x80#8, 0x80#8, 0x80#8, 0x80#8, 0x10#8] 0 0 100 (by omega)
  rw [show read7 [0x80#8, 0x80#8, 0x80#8, 0x80#8, 0x10#8] 0 = ⟨.err .Bad7BitInt, 5, 0⟩ by decide] at h
  simpa [readOut, cv] using h

/-- interpreting the translated `OctetsReader.ReadBytes` / `ReadString` on ANY bytes gives the model's outcome, position
    and ghost allocation (`make([]byte, size)` is counted by the interpreter) -/
theorem C12_translated_source_ReadBytes_refines_model (buf : List (BitVec 8)) (pos a : Nat) (fuel : Nat)
    (hf : 130 ≤ fuel) (hp : pos ≤ buf.length) :
    run table "OctetsReader.ReadBytes" fuel [] ⟨buf, pos, a⟩ =
        some (readOut .bytes (.bytes []) ⟨buf, pos, a⟩ (readBytes buf pos)) ∧
    run table "OctetsReader.ReadString" fuel [] ⟨buf, pos, a⟩ =
        some (readOut .bytes (.bytes []) ⟨buf, pos, a⟩ (readString buf pos)) :=
  ⟨r_readBytes_ast buf pos a fuel (by omega) hp, r_readString_ast buf pos a fuel hf hp⟩

/-- **The property, stated of the translated source itself (length-prefixed values).** On arbitrary bytes and any start
    position inside them the translated `ReadBytes` never panics and never runs out of fuel; it returns a byte slice with
    `nil` or an empty result with an iox error; the buffer is untouched, the cursor ends between its start and the end
    of the input, and the bytes passed to `make` during the call are at most the input that was left — whatever the
    length prefix announces. -/
theorem C12_translated_source_ReadBytes_total_inbounds_alloc (buf : List (BitVec 8)) (pos a : Nat) (fuel : Nat)
    (hf : 130 ≤ fuel) (hp : pos ≤ buf.length) :
    ∃ (data : List (BitVec 8)) (e : Option Got.Model.MiniGoBytes.Err) (p al : Nat),
      run table "OctetsReader.ReadBytes" fuel [] ⟨buf, pos, a⟩ =
        some (.ret [.bytes data, .err e] [] ⟨buf, (p : Int), a + al⟩) ∧
      pos ≤ p ∧ p ≤ buf.length ∧ al ≤ buf.length - pos ∧ (e ≠ none → data = []) := by
  have g := (readBytes_good buf pos hp).1
  rw [r_readBytes_ast buf pos a fuel (by omega) hp]
  cases hr : readBytes buf pos with
  | mk out p al =>
    rw [hr] at g
    cases out with
    | ok v => exact ⟨v, none, p, al, by simp [readOut], g.mono, g.inb, g.alloc, by simp⟩
    | err e => exact ⟨[], some (cv e), p, al, by simp [readOut], g.mono, g.inb, g.alloc, by simp⟩
    | crash => exact absurd rfl g.nocrash

/-- non-vacuity, the hostile prefix of the fixed defect (announces 2^27 bytes, four bytes of input) run on the generated
    term: ErrNotEnoughData and nothing allocated -/
example : run table "OctetsReader.ReadBytes" 200 [] ⟨[0x80#8, 0x80#8, 0x80#8, 0x40#8], 0, 0⟩ =
    some (.ret [.bytes [], .err (some .NotEnoughData)] [] ⟨[0x80#8, 0x80#8, 0x80#8, 0x40#8], 4, 0⟩) := by
  have h := (C12_translated_source_ReadBytes_refines_model [0x80#8, 0x80#8, 0x80#8, 0x40#8] 0 0 200 (by omega) (by simp)).1
  rw [show readBytes [0x80#8, 0x80#8, 0x80#8, 0x40#8] 0 = ⟨.err .NotEnoughData, 4, 0⟩ by decide] at h
  simpa [readOut, cv] using h

end translated
