/- property theorems of C13 (only theorems + non-vacuity examples live here) -/
