/- property theorems of C13 (only theorems + non-vacuity examples live here)

C13 — iox.Buffer / iox.OctetsStream are seekable FIFO byte streams for any op sequence.

Models: `Got.Model.Bytes.Buffer` (buffer.go), `Got.Model.Bytes.Stream` (octets_stream.go).
Spec:   `Got.Spec.Bytes` — ghost state `(W, r, c)`: `W` all bytes written since the last Reset, `r` retained start,
        `c` cursor, `r ≤ c ≤ |W|`; `BufferSpec` / `StreamSpec` = one step of the abstract seekable FIFO (reads return
        `W[c..]`, writes append to `W`, compaction only advances `r` up to `c`, Seek fails without change or moves `c`
        inside `[r, |W|]`, no outcome is a panic); `BufferRel` / `StreamRel` = `buf = W.drop r ∧ off = c - r`.
Domain: `BufferOpValid` = non-negative Next/Grow sizes, int64 seek offsets.  The ErrTooLarge branch of `grow` is excluded
        by the stated bound `3 * (bytes written + bytes requested by Grow) ≤ maxAlloc` (2^48, the Go runtime's allocation
        limit; beyond it `makeSlice` fails and `grow` panics with ErrTooLarge by design).
-/
import Got.Lemmas.BytesCorollaries
open Got.Model.Bytes Got.Spec.Bytes Got.Lemmas.Bytes

/-- REFINEMENT (Buffer).  For every op sequence of the domain, the model's outputs are exactly the outputs of some run of
    the abstract seekable FIFO, and the final concrete state represents the final ghost state
    (`buf = W.drop r`, `off = c - r`, `r ≤ c ≤ |W|`).  Every prefix of an op sequence is an op sequence, so this
    covers every intermediate state as well. -/
theorem C13_buffer_refines (ops : List Buffer.Op) (hv : ∀ op ∈ ops, BufferOpValid op)
    (hsize : ((3 * bufferSizes ops : Nat) : Int) ≤ maxAlloc) :
    ∃ g', BufferSpecRun Ghost.init ops (Buffer.init.run ops).2 g' ∧ BufferRel (Buffer.init.run ops).1 g' := by
  obtain ⟨g', hrun, hsim, _⟩ := buffer_run_sim ops Buffer.init Ghost.init 0 sim_init hv (by simpa using hsize)
  exact ⟨g', hrun, hsim⟩

example : ∃ g', BufferSpecRun Ghost.init [.write [1, 2, 3], .read 2, .write [4], .seek (-1) 1, .tidy, .next 5]
      (Buffer.init.run [.write [1, 2, 3], .read 2, .write [4], .seek (-1) 1, .tidy, .next 5]).2 g' ∧
    BufferRel (Buffer.init.run [.write [1, 2, 3], .read 2, .write [4], .seek (-1) 1, .tidy, .next 5]).1 g' :=
  C13_buffer_refines _ (by decide) (by decide)

/-- REFINEMENT (OctetsStream); lengths stay below 2^63 as every Go slice does. -/
theorem C13_stream_refines (ops : List Stream.Op) (hv : ∀ op ∈ ops, StreamOpValid op)
    (hsize : (streamSizes ops : Int) < 2 ^ 63) :
    ∃ g', StreamSpecRun Ghost.init ops (Stream.init.run ops).2 g' ∧ StreamRel (Stream.init.run ops).1 g' := by
  obtain ⟨g', hrun, hsim, _⟩ := stream_run_sim ops Stream.init Ghost.init 0 ssim_init hv (by simpa using hsize)
  exact ⟨g', hrun, hsim⟩

example : ∃ g', StreamSpecRun Ghost.init [.write [1, 2, 3, 4, 5], .seek 10 0, .read 4, .tidy, .writeInt32 (-2)]
      (Stream.init.run [.write [1, 2, 3, 4, 5], .seek 10 0, .read 4, .tidy, .writeInt32 (-2)]).2 g' ∧
    StreamRel (Stream.init.run [.write [1, 2, 3, 4, 5], .seek 10 0, .read 4, .tidy, .writeInt32 (-2)]).1 g' :=
  C13_stream_refines _ (by decide) (by decide)

/-- UNREAD PORTION (Buffer).  In a state representing `(W, r, c)`: `Bytes()` and `String()` do not panic and return
    `W[c..]`, `Len()` is its length. -/
theorem C13_buffer_unread (b : Buffer) (g : Ghost) (h : BufferRel b g) :
    b.bytes? = some (g.W.drop g.c) ∧ b.string? = some (g.W.drop g.c) ∧ b.len = (g.W.drop g.c).length :=
  ⟨(buffer_observers h).1, (buffer_observers h).2.1, (buffer_observers h).2.2.1⟩

/-- UNREAD PORTION (OctetsStream).  `Bytes()` returns `W[c..]` without panic, `Len()` is the retained length `|W| - r`,
    `Position()` is `c - r`, so `Len() - Position()` is the unread length. -/
theorem C13_stream_unread (s : Stream) (g : Ghost) (h : StreamRel s g) :
    s.bytes? = some (g.W.drop g.c) ∧ s.len = g.W.length - g.r ∧ s.position = g.c - g.r ∧
      s.len - s.position = (g.W.drop g.c).length :=
  stream_observers h

/-- After ANY op sequence of the domain `Bytes()` is the unread part of the write history of SOME abstract run that
    produced the same outputs (combination of the two theorems above, stated without an intermediate relation). -/
theorem C13_buffer_bytes_after_run (ops : List Buffer.Op) (hv : ∀ op ∈ ops, BufferOpValid op)
    (hsize : ((3 * bufferSizes ops : Nat) : Int) ≤ maxAlloc) :
    ∃ g', BufferSpecRun Ghost.init ops (Buffer.init.run ops).2 g' ∧
      (Buffer.init.run ops).1.bytes? = some (g'.W.drop g'.c) ∧ g'.r ≤ g'.c ∧ g'.c ≤ g'.W.length := by
  obtain ⟨g', hrun, hrel⟩ := C13_buffer_refines ops hv hsize
  exact ⟨g', hrun, (C13_buffer_unread _ _ hrel).1, hrel.1.1, hrel.1.2⟩

theorem C13_stream_bytes_after_run (ops : List Stream.Op) (hv : ∀ op ∈ ops, StreamOpValid op)
    (hsize : (streamSizes ops : Int) < 2 ^ 63) :
    ∃ g', StreamSpecRun Ghost.init ops (Stream.init.run ops).2 g' ∧
      (Stream.init.run ops).1.bytes? = some (g'.W.drop g'.c) ∧ g'.r ≤ g'.c ∧ g'.c ≤ g'.W.length := by
  obtain ⟨g', hrun, hrel⟩ := C13_stream_refines ops hv hsize
  exact ⟨g', hrun, (C13_stream_unread _ _ hrel).1, hrel.1.1, hrel.1.2⟩

/-- COMPACTION IS INVISIBLE (ghost-free form).  In every state satisfying the representation invariant
    (`C13_buffer_invariant`: every reachable state), `Write(p)` changes `Bytes()` to `Bytes() ++ p`, and `Grow(n)`
    (`n ≥ 0`) and `Tidy()` do not change `Bytes()` at all — whichever of reset-if-empty / reslice / small allocation /
    slide / reallocation the grow policy picks. -/
theorem C13_buffer_compaction_invisible (b : Buffer) (hinv : BufferInv b) (p : List Byte) (n : Nat)
    (hp : ((3 * (b.buf.length + p.length) : Nat) : Int) ≤ maxAlloc)
    (hn : ((3 * (b.buf.length + n) : Nat) : Int) ≤ maxAlloc) :
    (b.write p).1.bytes = b.bytes ++ p ∧ (b.write p).2 = .wrote p.length ∧
    (b.growOp n).1.bytes = b.bytes ∧ (b.growOp n).2 = .unit ∧ n ≤ (b.growOp n).1.cap - (b.growOp n).1.buf.length ∧
    b.tidy.bytes = b.bytes := by
  obtain ⟨b1, k1, hw, hk1, hoff1, hbuf1, _, _⟩ := write_char b p hinv (by simp only [maxAlloc_eq] at *; omega)
  obtain ⟨b2, k2, hg, hk2, hoff2, hbuf2, _, hroom⟩ :=
    growOp_char b n (by omega) hinv (by simp only [maxAlloc_eq, Int.toNat_natCast] at *; omega)
  simp only [Int.toNat_natCast] at hroom
  refine ⟨?_, by rw [hw], ?_, by rw [hg], by rw [hg]; exact hroom, ?_⟩
  · rw [hw]; simp only [Buffer.bytes, hbuf1, hoff1]
    exact drop_compact b.buf p b.off k1 hk1 hinv.1
  · rw [hg]; simp only [Buffer.bytes, hbuf2, hoff2]
    simpa using drop_compact b.buf [] b.off k2 hk2 hinv.1
  · -- Tidy: through the refinement lemma, with the trivial ghost state of `b`
    have hsim : BufferSim b { W := b.buf, r := 0, c := b.off } b.buf.length :=
      ⟨⟨⟨Nat.zero_le _, hinv.1⟩, rfl, rfl⟩, hinv, Nat.le_refl _⟩
    obtain ⟨g', ⟨_, ⟨hW, hc, _, _⟩, _⟩, hsim'⟩ := sim_tidy b _ _ hsim
    have h1 := (buffer_observers hsim'.1).2.2.2
    rw [h1]; simp [Ghost.unread, hW, hc, Buffer.bytes]

example : BufferInv (Buffer.init.run [.write [1, 2, 3], .read 2]).1 := by decide

/-- SEEK.  In a state representing `(W, r, c)` (length below 2^63), `Seek(offset, whence)` with an int64 offset either
    fails leaving the state unchanged, or returns the position `c' - r` of a cursor `c'` with `r ≤ c' ≤ |W|`, leaves the
    contents untouched, and `Bytes()` afterwards is `W[c'..]` — the bytes originally written there.  It succeeds exactly
    when whence ∈ {0,1,2} and the designated target lies in `[0, |W| - r]` (`Ghost.seekOk`). -/
theorem C13_buffer_seek (b : Buffer) (g : Ghost) (o w : Int) (ho : -(2 ^ 63 : Int) ≤ o ∧ o < 2 ^ 63)
    (hinv : BufferInv b) (hrel : BufferRel b g) (hlen : ((3 * b.buf.length : Nat) : Int) ≤ maxAlloc) :
    (¬ g.seekOk o w ∧ b.seek o w = (b, .seek 0 .invalidSeek)) ∨
    (g.seekOk o w ∧ ∃ c', g.r ≤ c' ∧ c' ≤ g.W.length ∧ (c' : Int) = g.r + g.seekTarget o w ∧
      (b.seek o w).2 = .seek (c' - g.r) .nil ∧ (b.seek o w).1.buf = b.buf ∧ (b.seek o w).1.cap = b.cap ∧
      (b.seek o w).1.bytes? = some (g.W.drop c')) := by
  obtain ⟨g', hspec, hsim'⟩ := sim_seek b g b.buf.length o w ho ⟨hrel, hinv, Nat.le_refl _⟩ hlen
  simp only [BufferSpec] at hspec
  have hretained : g.retained = g.W.length - g.r := rfl
  by_cases hok : g.seekOk o w
  · right
    simp only [hok, if_true] at hspec
    obtain ⟨hout, hg'⟩ := hspec
    obtain ⟨_, _, h3, h4⟩ := hok
    refine ⟨⟨by assumption, by assumption, h3, h4⟩, g.r + (g.seekTarget o w).toNat, by omega, ?_, ?_, ?_, ?_, ?_, ?_⟩
    · have := hrel.1.1; have := hrel.1.2; omega
    · omega
    · rw [hout]; congr 1; omega
    · exact (buffer_seek_frame b o w).1
    · exact (buffer_seek_frame b o w).2.1
    · have := (buffer_observers hsim'.1).1
      rw [this, hg']; rfl
  · left
    simp only [hok, if_false] at hspec
    refine ⟨hok, ?_⟩
    obtain ⟨hout, hg'⟩ := hspec
    have hstate : (b.seek o w).1 = b := by
      have hoff := hsim'.1.2.2
      have hoff0 := hrel.2.2
      rw [hg'] at hoff
      obtain ⟨hbuf, hcap, hnil⟩ := buffer_seek_frame b o w
      cases hb : (b.seek o w).1
      cases b
      simp_all
    exact Prod.ext hstate hout

/-- SEEK (OctetsStream), same statement; `Len()` (retained length) and contents unchanged. -/
theorem C13_stream_seek (s : Stream) (g : Ghost) (o w : Int) (ho : -(2 ^ 63 : Int) ≤ o ∧ o < 2 ^ 63)
    (hrel : StreamRel s g) (hlen : (s.buf.length : Int) < 2 ^ 63) :
    (¬ g.seekOk o w ∧ s.seek o w = (s, .seek 0 .invalidArgument)) ∨
    (g.seekOk o w ∧ ∃ c', g.r ≤ c' ∧ c' ≤ g.W.length ∧ (c' : Int) = g.r + g.seekTarget o w ∧
      (s.seek o w).2 = .seek (c' - g.r) .nil ∧ (s.seek o w).1.buf = s.buf ∧
      (s.seek o w).1.bytes? = some (g.W.drop c')) := by
  obtain ⟨g', hspec, hsim'⟩ := ssim_seek s g s.buf.length o w ho ⟨hrel, Nat.le_refl _⟩ hlen
  simp only [StreamSpec] at hspec
  have hretained : g.retained = g.W.length - g.r := rfl
  have hbuf : (s.seek o w).1.buf = s.buf := stream_seek_frame s o w
  by_cases hok : g.seekOk o w
  · right
    simp only [hok, if_true] at hspec
    obtain ⟨hout, hg'⟩ := hspec
    obtain ⟨_, _, h3, h4⟩ := hok
    refine ⟨⟨by assumption, by assumption, h3, h4⟩, g.r + (g.seekTarget o w).toNat, by omega, ?_, ?_, ?_, hbuf, ?_⟩
    · have := hrel.1.1; have := hrel.1.2; omega
    · omega
    · rw [hout]; congr 1; omega
    · have := (stream_observers hsim'.1).1
      rw [this, hg']; rfl
  · left
    simp only [hok, if_false] at hspec
    refine ⟨hok, ?_⟩
    obtain ⟨hout, hg'⟩ := hspec
    have hstate : (s.seek o w).1 = s := by
      have hoff := hsim'.1.2.2
      have hoff0 := hrel.2.2
      rw [hg'] at hoff
      cases hb : (s.seek o w).1
      cases s
      simp_all
    exact Prod.ext hstate hout

/-- NO PANIC (Buffer).  No op sequence of the domain (non-negative Next/Grow sizes, int64 offsets, total requested bytes
    below (2^63-1)/3) produces a panic outcome — in particular the ErrTooLarge branch and the slice expressions of
    Next/Tidy/grow are never out of range — and afterwards the cursor is inside the data: `off ≤ len`, so `Bytes()` and
    `String()` do not panic either. -/
theorem C13_buffer_no_panic (ops : List Buffer.Op) (hv : ∀ op ∈ ops, BufferOpValid op)
    (hsize : ((3 * bufferSizes ops : Nat) : Int) ≤ maxAlloc) :
    (∀ out ∈ (Buffer.init.run ops).2, ∀ why, out ≠ .panic why) ∧
    (Buffer.init.run ops).1.off ≤ (Buffer.init.run ops).1.buf.length ∧
    (Buffer.init.run ops).1.bytes? ≠ none ∧ (Buffer.init.run ops).1.string? ≠ none := by
  obtain ⟨g', hrun, hrel⟩ := C13_buffer_refines ops hv hsize
  have hobs := buffer_observers hrel
  refine ⟨bufferSpecRun_no_panic ops _ _ _ hrun, rel_off_le hrel, ?_, ?_⟩
  · rw [hobs.1]; simp
  · rw [hobs.2.1]; simp

/-- NO PANIC (OctetsStream): no panic outcome, `position ≤ len(buffer)`, `Bytes()` does not panic. -/
theorem C13_stream_no_panic (ops : List Stream.Op) (hv : ∀ op ∈ ops, StreamOpValid op)
    (hsize : (streamSizes ops : Int) < 2 ^ 63) :
    (∀ out ∈ (Stream.init.run ops).2, ∀ why, out ≠ .panic why) ∧
    (Stream.init.run ops).1.pos ≤ (Stream.init.run ops).1.buf.length ∧
    (Stream.init.run ops).1.bytes? ≠ none := by
  obtain ⟨g', hrun, hrel⟩ := C13_stream_refines ops hv hsize
  have hobs := stream_observers hrel
  refine ⟨streamSpecRun_no_panic ops _ _ _ hrun, ?_, ?_⟩
  · have := srel_len hrel
    obtain ⟨⟨h1, h2⟩, _, ho⟩ := hrel
    omega
  · rw [hobs.1]; simp

/-- the domain restriction is needed: negative sizes do panic (by design of bytes.Buffer) -/
example : (Buffer.init.run [.grow (-1)]).2 = [.panic "bytes.Buffer.Grow: negative count"] ∧
    (Buffer.init.run [.write [1], .next (-1)]).2 = [.wrote 1, .panic "slice bounds out of range"] := by decide

/-- CAPACITY INVARIANT (model fidelity).  In every reachable state `off ≤ len(buf) ≤ cap(buf)` and
    `buf == nil ⇔ cap(buf) = 0`; Go guarantees `len ≤ cap` for every slice, the model has to maintain it itself.
    `Cap()` is part of every compared observation, which ties the grow policy of the model to the code. -/
theorem C13_buffer_invariant (ops : List Buffer.Op) (hv : ∀ op ∈ ops, BufferOpValid op)
    (hsize : ((3 * bufferSizes ops : Nat) : Int) ≤ maxAlloc) :
    let b := (Buffer.init.run ops).1
    b.off ≤ b.buf.length ∧ b.buf.length ≤ b.cap ∧ (b.isNil = true ↔ b.cap = 0) ∧ b.buf.length ≤ bufferSizes ops := by
  obtain ⟨g', _, _, hinv, hS⟩ := buffer_run_sim ops Buffer.init Ghost.init 0 sim_init hv (by simpa using hsize)
  exact ⟨hinv.1, hinv.2.1, hinv.2.2, by simpa using hS⟩

/-- FIFO LAW.  For every op sequence of the domain without Seek and Reset: the bytes returned by all Read/Next calls, in
    order, followed by what `Bytes()` returns at the end, are exactly the bytes passed to all Write calls, in order —
    no byte is lost, duplicated or reordered by Tidy or by any branch of the grow policy. -/
theorem C13_buffer_fifo (ops : List Buffer.Op) (hv : ∀ op ∈ ops, BufferOpValid op)
    (hfree : ∀ op ∈ ops, BufSeekFree op) (hsize : ((3 * bufferSizes ops : Nat) : Int) ≤ maxAlloc) :
    bufReads (Buffer.init.run ops).2 ++ (Buffer.init.run ops).1.bytes = bufWrites ops := by
  obtain ⟨g', hrun, hrel⟩ := C13_buffer_refines ops hv hsize
  obtain ⟨hW, hT, _⟩ := buffer_fifo_gen ops Ghost.init g' _ ⟨Nat.le_refl _, Nat.le_refl _⟩ hfree hrun
  have hb := (buffer_observers hrel).2.2.2
  simp only [Ghost.init, List.nil_append, List.take_nil] at hW hT
  rw [hb, ← hT, ← hW]
  exact List.take_append_drop _ _

example : bufReads (Buffer.init.run [.write [1, 2, 3], .read 2, .grow 2, .write [4], .tidy, .next 1]).2 ++
    (Buffer.init.run [.write [1, 2, 3], .read 2, .grow 2, .write [4], .tidy, .next 1]).1.bytes = [1, 2, 3, 4] := by
  decide

/-- FIFO LAW (OctetsStream): bytes returned by Read/ReadByte, in order, followed by the final `Bytes()`, are exactly the
    bytes appended by all Write* calls, in order (seek- and reset-free sequences). -/
theorem C13_stream_fifo (ops : List Stream.Op) (hfree : ∀ op ∈ ops, StrSeekFree op)
    (hsize : (streamSizes ops : Int) < 2 ^ 63) :
    strReads (Stream.init.run ops).2 ++ (Stream.init.run ops).1.bytes = strWrites ops := by
  have hv : ∀ op ∈ ops, StreamOpValid op := by
    intro op hop
    have := hfree op hop
    cases op <;> simp_all [StreamOpValid, StrSeekFree]
  obtain ⟨g', hrun, hrel⟩ := C13_stream_refines ops hv hsize
  obtain ⟨hW, hT, _⟩ := stream_fifo_gen ops Ghost.init g' _ ⟨Nat.le_refl _, Nat.le_refl _⟩ hfree hrun
  have hb : (Stream.init.run ops).1.bytes = g'.unread := srel_unread hrel
  simp only [Ghost.init, List.nil_append, List.take_nil] at hW hT
  rw [hb, ← hT, ← hW]
  exact List.take_append_drop _ _

example : strReads (Stream.init.run [.write [1, 2, 3], .readByte, .writeInt16 (-2), .tidy, .read 2, .readByte]).2 ++
    (Stream.init.run [.write [1, 2, 3], .readByte, .writeInt16 (-2), .tidy, .read 2, .readByte]).1.bytes
      = [1, 2, 3, 254, 255] := by
  decide

/-- the defect fixed by `fix: iox OctetsStream.Seek rejects positions beyond the end of the data`:
    with the old Seek, `Seek(10, SeekStart)` on 5 bytes succeeds and `Bytes()` then panics; the current Seek fails and
    leaves the stream unchanged. -/
theorem C13_stream_old_counterexample :
    let s := (Stream.init.write [1, 2, 3, 4, 5])
    (s.seekOld 10 0).2 = .seek 10 .nil ∧ (s.seekOld 10 0).1.bytes? = none ∧
    (s.seek 10 0).2 = .seek 0 .invalidArgument ∧ (s.seek 10 0).1 = s := by
  decide
