/- property theorems of C13 (only theorems + non-vacuity examples live here)

C13 — iox.Buffer / iox.OctetsStream are seekable FIFO byte streams for any op sequence.

Models: `Got.Model.Bytes.Buffer` (buffer.go), `Got.Model.Bytes.Stream` (octets_stream.go).
Spec:   `Got.Spec.Bytes` — ghost state `(W, r, c)`: `W` all bytes written since the last Reset, `r` retained start,
        `c` cursor, `r ≤ c ≤ |W|`; `BufferSpec` / `StreamSpec` = one step of the abstract seekable FIFO (reads return
        `W[c..]`, writes append to `W`, compaction only advances `r` up to `c`, Seek fails without change or moves `c`
        inside `[r, |W|]`, no outcome is a panic); `BufferRel` / `StreamRel` = `buf = W.drop r ∧ off = c - r`.
Translator tie (OctetsStream half): `Got.Generated.AstIox` holds the MiniGoBytes terms tools/srcfacts re-translates from
        /repo/iox/octets_stream.go on every run; the `C13_translated_source_*` theorems at the end of this file are about
        the interpretation (`Got.Model.MiniGoBytes.run table "OctetsStream.<Method>"`) of exactly those terms.
        iox.Buffer is not translated (hand-written model + correspondence check only).
Domain: `BufferOpValid` = non-negative Next/Grow sizes, int64 seek offsets.  The ErrTooLarge branch of `grow` is excluded
        by the stated bound `3 * (bytes written + bytes requested by Grow) ≤ maxAlloc` (2^48, the Go runtime's allocation
        limit; beyond it `makeSlice` fails and `grow` panics with ErrTooLarge by design).
-/
import Got.Lemmas.BytesCorollaries
import Got.Lemmas.BytesStreamAst
open Got.Model.Bytes Got.Spec.Bytes Got.Lemmas.Bytes

/-- REFINEMENT (Buffer).  For every op sequence of the domain, the model's outputs are exactly the outputs of some run of
    the abstract seekable FIFO, and the final concrete state represents the final ghost state
    (`buf = W.drop r`, `off = c - r`, `r ≤ c ≤ |W|`).  Every prefix of an op sequence is an op sequence, so this
    covers every intermediate state as well. -/
theorem C13_buffer_refines (ops : List Buffer.Op) (hv : ∀ op ∈ ops, BufferOpValid op)
    (hsize : ((3 * bufferSizes ops : Nat) : Int) ≤ maxAlloc) :
    ∃ g', BufferSpecRun Ghost.init ops (Buffer.init.run ops).2 g' ∧ BufferRel (Buffer.init.run ops).1 g' := by
  obtain ⟨g', hrun, hsim, _⟩ := buffer_run_sim ops Buffer.init Ghost.init 0 sim_init hv (by simpa using hsize)
  exact ⟨g', hrun, hsim⟩

example : ∃ g', BufferSpecRun Ghost.init [.write [1, 2, 3], .read 2, .write [4], .seek (-1) 1, .tidy, .next 5]
      (Buffer.init.run [.write [1, 2, 3], .read 2, .write [4], .seek (-1) 1, .tidy, .next 5]).2 g' ∧
    BufferRel (Buffer.init.run [.write [1, 2, 3], .read 2, .write [4], .seek (-1) 1, .tidy, .next 5]).1 g' :=
  C13_buffer_refines _ (by decide) (by decide)

/-- REFINEMENT (OctetsStream); lengths stay below 2^63 as every Go slice does. -/
theorem C13_stream_refines (ops : List Stream.Op) (hv : ∀ op ∈ ops, StreamOpValid op)
    (hsize : (streamSizes ops : Int) < 2 ^ 63) :
    ∃ g', StreamSpecRun Ghost.init ops (Stream.init.run ops).2 g' ∧ StreamRel (Stream.init.run ops).1 g' := by
  obtain ⟨g', hrun, hsim, _⟩ := stream_run_sim ops Stream.init Ghost.init 0 ssim_init hv (by simpa using hsize)
  exact ⟨g', hrun, hsim⟩

example : ∃ g', StreamSpecRun Ghost.init [.write [1, 2, 3, 4, 5], .seek 10 0, .read 4, .tidy, .writeInt32 (-2)]
      (Stream.init.run [.write [1, 2, 3, 4, 5], .seek 10 0, .read 4, .tidy, .writeInt32 (-2)]).2 g' ∧
    StreamRel (Stream.init.run [.write [1, 2, 3, 4, 5], .seek 10 0, .read 4, .tidy, .writeInt32 (-2)]).1 g' :=
  C13_stream_refines _ (by decide) (by decide)

/-- UNREAD PORTION (Buffer).  In a state representing `(W, r, c)`: `Bytes()` and `String()` do not panic and return
    `W[c..]`, `Len()` is its length. -/
theorem C13_buffer_unread (b : Buffer) (g : Ghost) (h : BufferRel b g) :
    b.bytes? = some (g.W.drop g.c) ∧ b.string? = some (g.W.drop g.c) ∧ b.len = (g.W.drop g.c).length :=
  ⟨(buffer_observers h).1, (buffer_observers h).2.1, (buffer_observers h).2.2.1⟩

/-- UNREAD PORTION (OctetsStream).  `Bytes()` returns `W[c..]` without panic, `Len()` is the retained length `|W| - r`,
    `Position()` is `c - r`, so `Len() - Position()` is the unread length. -/
theorem C13_stream_unread (s : Stream) (g : Ghost) (h : StreamRel s g) :
    s.bytes? = some (g.W.drop g.c) ∧ s.len = g.W.length - g.r ∧ s.position = g.c - g.r ∧
      s.len - s.position = (g.W.drop g.c).length :=
  stream_observers h

/-- After ANY op sequence of the domain `Bytes()` is the unread part of the write history of SOME abstract run that
    produced the same outputs (combination of the two theorems above, stated without an intermediate relation). -/
theorem C13_buffer_bytes_after_run (ops : List Buffer.Op) (hv : ∀ op ∈ ops, BufferOpValid op)
    (hsize : ((3 * bufferSizes ops : Nat) : Int) ≤ maxAlloc) :
    ∃ g', BufferSpecRun Ghost.init ops (Buffer.init.run ops).2 g' ∧
      (Buffer.init.run ops).1.bytes? = some (g'.W.drop g'.c) ∧ g'.r ≤ g'.c ∧ g'.c ≤ g'.W.length := by
  obtain ⟨g', hrun, hrel⟩ := C13_buffer_refines ops hv hsize
  exact ⟨g', hrun, (C13_buffer_unread _ _ hrel).1, hrel.1.1, hrel.1.2⟩

theorem C13_stream_bytes_after_run (ops : List Stream.Op) (hv : ∀ op ∈ ops, StreamOpValid op)
    (hsize : (streamSizes ops : Int) < 2 ^ 63) :
    ∃ g', StreamSpecRun Ghost.init ops (Stream.init.run ops).2 g' ∧
      (Stream.init.run ops).1.bytes? = some (g'.W.drop g'.c) ∧ g'.r ≤ g'.c ∧ g'.c ≤ g'.W.length := by
  obtain ⟨g', hrun, hrel⟩ := C13_stream_refines ops hv hsize
  exact ⟨g', hrun, (C13_stream_unread _ _ hrel).1, hrel.1.1, hrel.1.2⟩

/-- COMPACTION IS INVISIBLE (ghost-free form).  In every state satisfying the representation invariant
    (`C13_buffer_invariant`: every reachable state), `Write(p)` changes `Bytes()` to `Bytes() ++ p`, and `Grow(n)`
    (`n ≥ 0`) and `Tidy()` do not change `Bytes()` at all — whichever of reset-if-empty / reslice / small allocation /
    slide / reallocation the grow policy picks. -/
theorem C13_buffer_compaction_invisible (b : Buffer) (hinv : BufferInv b) (p : List Byte) (n : Nat)
    (hp : ((3 * (b.buf.length + p.length) : Nat) : Int) ≤ maxAlloc)
    (hn : ((3 * (b.buf.length + n) : Nat) : Int) ≤ maxAlloc) :
    (b.write p).1.bytes = b.bytes ++ p ∧ (b.write p).2 = .wrote p.length ∧
    (b.growOp n).1.bytes = b.bytes ∧ (b.growOp n).2 = .unit ∧ n ≤ (b.growOp n).1.cap - (b.growOp n).1.buf.length ∧
    b.tidy.bytes = b.bytes := by
  obtain ⟨b1, k1, hw, hk1, hoff1, hbuf1, _, _⟩ := write_char b p hinv (by simp only [maxAlloc_eq] at *; omega)
  obtain ⟨b2, k2, hg, hk2, hoff2, hbuf2, _, hroom⟩ :=
    growOp_char b n (by omega) hinv (by simp only [maxAlloc_eq, Int.toNat_natCast] at *; omega)
  simp only [Int.toNat_natCast] at hroom
  refine ⟨?_, by rw [hw], ?_, by rw [hg], by rw [hg]; exact hroom, ?_⟩
  · rw [hw]; simp only [Buffer.bytes, hbuf1, hoff1]
    exact drop_compact b.buf p b.off k1 hk1 hinv.1
  · rw [hg]; simp only [Buffer.bytes, hbuf2, hoff2]
    simpa using drop_compact b.buf [] b.off k2 hk2 hinv.1
  · -- Tidy: through the refinement lemma, with the trivial ghost state of `b`
    have hsim : BufferSim b { W := b.buf, r := 0, c := b.off } b.buf.length :=
      ⟨⟨⟨Nat.zero_le _, hinv.1⟩, rfl, rfl⟩, hinv, Nat.le_refl _⟩
    obtain ⟨g', ⟨_, ⟨hW, hc, _, _⟩, _⟩, hsim'⟩ := sim_tidy b _ _ hsim
    have h1 := (buffer_observers hsim'.1).2.2.2
    rw [h1]; simp [Ghost.unread, hW, hc, Buffer.bytes]

example : BufferInv (Buffer.init.run [.write [1, 2, 3], .read 2]).1 := by decide

/-- SEEK.  In a state representing `(W, r, c)` (length below 2^63), `Seek(offset, whence)` with an int64 offset either
    fails leaving the state unchanged, or returns the position `c' - r` of a cursor `c'` with `r ≤ c' ≤ |W|`, leaves the
    contents untouched, and `Bytes()` afterwards is `W[c'..]` — the bytes originally written there.  It succeeds exactly
    when whence ∈ {0,1,2} and the designated target lies in `[0, |W| - r]` (`Ghost.seekOk`). -/
theorem C13_buffer_seek (b : Buffer) (g : Ghost) (o w : Int) (ho : -(2 ^ 63 : Int) ≤ o ∧ o < 2 ^ 63)
    (hinv : BufferInv b) (hrel : BufferRel b g) (hlen : ((3 * b.buf.length : Nat) : Int) ≤ maxAlloc) :
    (¬ g.seekOk o w ∧ b.seek o w = (b, .seek 0 .invalidSeek)) ∨
    (g.seekOk o w ∧ ∃ c', g.r ≤ c' ∧ c' ≤ g.W.length ∧ (c' : Int) = g.r + g.seekTarget o w ∧
      (b.seek o w).2 = .seek (c' - g.r) .nil ∧ (b.seek o w).1.buf = b.buf ∧ (b.seek o w).1.cap = b.cap ∧
      (b.seek o w).1.bytes? = some (g.W.drop c')) := by
  obtain ⟨g', hspec, hsim'⟩ := sim_seek b g b.buf.length o w ho ⟨hrel, hinv, Nat.le_refl _⟩ hlen
  simp only [BufferSpec] at hspec
  have hretained : g.retained = g.W.length - g.r := rfl
  by_cases hok : g.seekOk o w
  · right
    simp only [hok, if_true] at hspec
    obtain ⟨hout, hg'⟩ := hspec
    obtain ⟨_, _, h3, h4⟩ := hok
    refine ⟨⟨by assumption, by assumption, h3, h4⟩, g.r + (g.seekTarget o w).toNat, by omega, ?_, ?_, ?_, ?_, ?_, ?_⟩
    · have := hrel.1.1; have := hrel.1.2; omega
    · omega
    · rw [hout]; congr 1; omega
    · exact (buffer_seek_frame b o w).1
    · exact (buffer_seek_frame b o w).2.1
    · have := (buffer_observers hsim'.1).1
      rw [this, hg']; rfl
  · left
    simp only [hok, if_false] at hspec
    refine ⟨hok, ?_⟩
    obtain ⟨hout, hg'⟩ := hspec
    have hstate : (b.seek o w).1 = b := by
      have hoff := hsim'.1.2.2
      have hoff0 := hrel.2.2
      rw [hg'] at hoff
      obtain ⟨hbuf, hcap, hnil⟩ := buffer_seek_frame b o w
      cases hb : (b.seek o w).1
      cases b
      simp_all
    exact Prod.ext hstate hout

/-- SEEK (OctetsStream), same statement; `Len()` (retained length) and contents unchanged. -/
theorem C13_stream_seek (s : Stream) (g : Ghost) (o w : Int) (ho : -(2 ^ 63 : Int) ≤ o ∧ o < 2 ^ 63)
    (hrel : StreamRel s g) (hlen : (s.buf.length : Int) < 2 ^ 63) :
    (¬ g.seekOk o w ∧ s.seek o w = (s, .seek 0 .invalidArgument)) ∨
    (g.seekOk o w ∧ ∃ c', g.r ≤ c' ∧ c' ≤ g.W.length ∧ (c' : Int) = g.r + g.seekTarget o w ∧
      (s.seek o w).2 = .seek (c' - g.r) .nil ∧ (s.seek o w).1.buf = s.buf ∧
      (s.seek o w).1.bytes? = some (g.W.drop c')) := by
  obtain ⟨g', hspec, hsim'⟩ := ssim_seek s g s.buf.length o w ho ⟨hrel, Nat.le_refl _⟩ hlen
  simp only [StreamSpec] at hspec
  have hretained : g.retained = g.W.length - g.r := rfl
  have hbuf : (s.seek o w).1.buf = s.buf := stream_seek_frame s o w
  by_cases hok : g.seekOk o w
  · right
    simp only [hok, if_true] at hspec
    obtain ⟨hout, hg'⟩ := hspec
    obtain ⟨_, _, h3, h4⟩ := hok
    refine ⟨⟨by assumption, by assumption, h3, h4⟩, g.r + (g.seekTarget o w).toNat, by omega, ?_, ?_, ?_, hbuf, ?_⟩
    · have := hrel.1.1; have := hrel.1.2; omega
    · omega
    · rw [hout]; congr 1; omega
    · have := (stream_observers hsim'.1).1
      rw [this, hg']; rfl
  · left
    simp only [hok, if_false] at hspec
    refine ⟨hok, ?_⟩
    obtain ⟨hout, hg'⟩ := hspec
    have hstate : (s.seek o w).1 = s := by
      have hoff := hsim'.1.2.2
      have hoff0 := hrel.2.2
      rw [hg'] at hoff
      cases hb : (s.seek o w).1
      cases s
      simp_all
    exact Prod.ext hstate hout

/-- NO PANIC (Buffer).  No op sequence of the domain (non-negative Next/Grow sizes, int64 offsets, total requested bytes
    below (2^63-1)/3) produces a panic outcome — in particular the ErrTooLarge branch and the slice expressions of
    Next/Tidy/grow are never out of range — and afterwards the cursor is inside the data: `off ≤ len`, so `Bytes()` and
    `String()` do not panic either. -/
theorem C13_buffer_no_panic (ops : List Buffer.Op) (hv : ∀ op ∈ ops, BufferOpValid op)
    (hsize : ((3 * bufferSizes ops : Nat) : Int) ≤ maxAlloc) :
    (∀ out ∈ (Buffer.init.run ops).2, ∀ why, out ≠ .panic why) ∧
    (Buffer.init.run ops).1.off ≤ (Buffer.init.run ops).1.buf.length ∧
    (Buffer.init.run ops).1.bytes? ≠ none ∧ (Buffer.init.run ops).1.string? ≠ none := by
  obtain ⟨g', hrun, hrel⟩ := C13_buffer_refines ops hv hsize
  have hobs := buffer_observers hrel
  refine ⟨bufferSpecRun_no_panic ops _ _ _ hrun, rel_off_le hrel, ?_, ?_⟩
  · rw [hobs.1]; simp
  · rw [hobs.2.1]; simp

/-- NO PANIC (OctetsStream): no panic outcome, `position ≤ len(buffer)`, `Bytes()` does not panic. -/
theorem C13_stream_no_panic (ops : List Stream.Op) (hv : ∀ op ∈ ops, StreamOpValid op)
    (hsize : (streamSizes ops : Int) < 2 ^ 63) :
    (∀ out ∈ (Stream.init.run ops).2, ∀ why, out ≠ .panic why) ∧
    (Stream.init.run ops).1.pos ≤ (Stream.init.run ops).1.buf.length ∧
    (Stream.init.run ops).1.bytes? ≠ none := by
  obtain ⟨g', hrun, hrel⟩ := C13_stream_refines ops hv hsize
  have hobs := stream_observers hrel
  refine ⟨streamSpecRun_no_panic ops _ _ _ hrun, ?_, ?_⟩
  · have := srel_len hrel
    obtain ⟨⟨h1, h2⟩, _, ho⟩ := hrel
    omega
  · rw [hobs.1]; simp

/-- the domain restriction is needed: negative sizes do panic (by design of bytes.Buffer) -/
example : (Buffer.init.run [.grow (-1)]).2 = [.panic "bytes.Buffer.Grow: negative count"] ∧
    (Buffer.init.run [.write [1], .next (-1)]).2 = [.wrote 1, .panic "slice bounds out of range"] := by decide

/-- CAPACITY INVARIANT (model fidelity).  In every reachable state `off ≤ len(buf) ≤ cap(buf)` and
    `buf == nil ⇔ cap(buf) = 0`; Go guarantees `len ≤ cap` for every slice, the model has to maintain it itself.
    `Cap()` is part of every compared observation, which ties the grow policy of the model to the code. -/
theorem C13_buffer_invariant (ops : List Buffer.Op) (hv : ∀ op ∈ ops, BufferOpValid op)
    (hsize : ((3 * bufferSizes ops : Nat) : Int) ≤ maxAlloc) :
    let b := (Buffer.init.run ops).1
    b.off ≤ b.buf.length ∧ b.buf.length ≤ b.cap ∧ (b.isNil = true ↔ b.cap = 0) ∧ b.buf.length ≤ bufferSizes ops := by
  obtain ⟨g', _, _, hinv, hS⟩ := buffer_run_sim ops Buffer.init Ghost.init 0 sim_init hv (by simpa using hsize)
  exact ⟨hinv.1, hinv.2.1, hinv.2.2, by simpa using hS⟩

/-- FIFO LAW.  For every op sequence of the domain without Seek and Reset: the bytes returned by all Read/Next calls, in
    order, followed by what `Bytes()` returns at the end, are exactly the bytes passed to all Write calls, in order —
    no byte is lost, duplicated or reordered by Tidy or by any branch of the grow policy. -/
theorem C13_buffer_fifo (ops : List Buffer.Op) (hv : ∀ op ∈ ops, BufferOpValid op)
    (hfree : ∀ op ∈ ops, BufSeekFree op) (hsize : ((3 * bufferSizes ops : Nat) : Int) ≤ maxAlloc) :
    bufReads (Buffer.init.run ops).2 ++ (Buffer.init.run ops).1.bytes = bufWrites ops := by
  obtain ⟨g', hrun, hrel⟩ := C13_buffer_refines ops hv hsize
  obtain ⟨hW, hT, _⟩ := buffer_fifo_gen ops Ghost.init g' _ ⟨Nat.le_refl _, Nat.le_refl _⟩ hfree hrun
  have hb := (buffer_observers hrel).2.2.2
  simp only [Ghost.init, List.nil_append, List.take_nil] at hW hT
  rw [hb, ← hT, ← hW]
  exact List.take_append_drop _ _

example : bufReads (Buffer.init.run [.write [1, 2, 3], .read 2, .grow 2, .write [4], .tidy, .next 1]).2 ++
    (Buffer.init.run [.write [1, 2, 3], .read 2, .grow 2, .write [4], .tidy, .next 1]).1.bytes = [1, 2, 3, 4] := by
  decide

/-- FIFO LAW (OctetsStream): bytes returned by Read/ReadByte, in order, followed by the final `Bytes()`, are exactly the
    bytes appended by all Write* calls, in order (seek- and reset-free sequences). -/
theorem C13_stream_fifo (ops : List Stream.Op) (hfree : ∀ op ∈ ops, StrSeekFree op)
    (hsize : (streamSizes ops : Int) < 2 ^ 63) :
    strReads (Stream.init.run ops).2 ++ (Stream.init.run ops).1.bytes = strWrites ops := by
  have hv : ∀ op ∈ ops, StreamOpValid op := by
    intro op hop
    have := hfree op hop
    cases op <;> simp_all [StreamOpValid, StrSeekFree]
  obtain ⟨g', hrun, hrel⟩ := C13_stream_refines ops hv hsize
  obtain ⟨hW, hT, _⟩ := stream_fifo_gen ops Ghost.init g' _ ⟨Nat.le_refl _, Nat.le_refl _⟩ hfree hrun
  have hb : (Stream.init.run ops).1.bytes = g'.unread := srel_unread hrel
  simp only [Ghost.init, List.nil_append, List.take_nil] at hW hT
  rw [hb, ← hT, ← hW]
  exact List.take_append_drop _ _

example : strReads (Stream.init.run [.write [1, 2, 3], .readByte, .writeInt16 (-2), .tidy, .read 2, .readByte]).2 ++
    (Stream.init.run [.write [1, 2, 3], .readByte, .writeInt16 (-2), .tidy, .read 2, .readByte]).1.bytes
      = [1, 2, 3, 254, 255] := by
  decide

/-- the defect fixed by `fix: iox OctetsStream.Seek rejects positions beyond the end of the data`:
    with the old Seek, `Seek(10, SeekStart)` on 5 bytes succeeds and `Bytes()` then panics; the current Seek fails and
    leaves the stream unchanged. -/
theorem C13_stream_old_counterexample :
    let s := (Stream.init.write [1, 2, 3, 4, 5])
    (s.seekOld 10 0).2 = .seek 10 .nil ∧ (s.seekOld 10 0).1.bytes? = none ∧
    (s.seek 10 0).2 = .seek 0 .invalidArgument ∧ (s.seek 10 0).1 = s := by
  decide


/-! ## Translator tie: the OctetsStream operations as translated from the source

`mdl buf pos` = the hand-written model's stream with the bytes `buf` (held as `BitVec 8` by the embedding, as `Nat` by the
model) and cursor `pos`; a state of the embedding is `⟨buf, pos, alloc⟩ : St` (`pos : Nat`, i.e. `0 ≤ position`).
Go `int` is an unbounded integer in the embedding (positions and lengths of real slices are < 2^63), `int64` is
`BitVec 64`: `Seek`'s `num += offset` wraps and its comparisons are signed, exactly as in Go. -/
section translated
open Got.Model.MiniGoBytes (run St Val)
open Got.Generated.AstIox Got.Lemmas.BytesStreamAst
open Got.Model.BytesStreamAst (astCall outState astRun)

/-- every method used below was translated completely (no construct outside the embedded fragment) -/
theorem C13_translation_in_fragment :
    OctetsStream_WriteNote = "ok" ∧ OctetsStream_WriteByteNote = "ok" ∧ OctetsStream_ReadNote = "ok" ∧
    OctetsStream_ReadByteNote = "ok" ∧ OctetsStream_LenNote = "ok" ∧ OctetsStream_PositionNote = "ok" ∧
    OctetsStream_BytesNote = "ok" ∧ OctetsStream_TidyNote = "ok" ∧ OctetsStream_ResetNote = "ok" ∧
    OctetsStream_SeekNote = "ok" ∧ OctetsStream_WriteBoolNote = "ok" ∧ OctetsStream_WriteInt16Note = "ok" ∧
    OctetsStream_WriteInt32Note = "ok" ∧ OctetsStream_WriteInt64Note = "ok" := by decide

/-- `Write(data)`: result nil, the caller's slice unchanged, the model's `write` -/
theorem C13_translated_source_Write_refines_model (buf data : List (BitVec 8)) (pos a fuel : Nat) (hf : 5 ≤ fuel) :
    run table "OctetsStream.Write" fuel [.bytes data] ⟨buf, pos, a⟩ =
      some (wOut [some data] ((mdl buf pos).write (data.map BitVec.toNat)) a) :=
  s_write_ast' buf data pos a fuel hf

theorem C13_translated_source_WriteByte_refines_model (buf : List (BitVec 8)) (b : BitVec 8) (pos a fuel : Nat)
    (hf : 3 ≤ fuel) :
    run table "OctetsStream.WriteByte" fuel [.bv 8 false b] ⟨buf, pos, a⟩ =
      some (wOut [none] ((mdl buf pos).append [b.toNat]) a) :=
  s_writeByte_ast' buf b pos a fuel hf

/-- `Read(dst)` for every destination slice: count, error and the bytes copied into `dst` are the model's `read (len dst)` -/
theorem C13_translated_source_Read_refines_model (buf dst : List (BitVec 8)) (pos a fuel : Nat) (hf : 14 ≤ fuel)
    (hp : pos ≤ buf.length) :
    run table "OctetsStream.Read" fuel [.bytes dst] ⟨buf, pos, a⟩ =
      some (readOut' a dst ((mdl buf pos).read dst.length)) :=
  s_read_ast buf dst pos a fuel hf hp

theorem C13_translated_source_ReadByte_refines_model (buf : List (BitVec 8)) (pos a fuel : Nat) (hf : 5 ≤ fuel) :
    run table "OctetsStream.ReadByte" fuel [] ⟨buf, pos, a⟩ = some (byteOut a (mdl buf pos).readByte) :=
  s_readByte_ast' buf pos a fuel hf

theorem C13_translated_source_Len_refines_model (buf : List (BitVec 8)) (pos a fuel : Nat) (hf : 2 ≤ fuel) :
    run table "OctetsStream.Len" fuel [] ⟨buf, pos, a⟩ = some (.ret [.int (mdl buf pos).len] [] ⟨buf, pos, a⟩) :=
  s_len_ast buf pos a fuel hf

theorem C13_translated_source_Position_refines_model (buf : List (BitVec 8)) (pos a fuel : Nat) (hf : 2 ≤ fuel) :
    run table "OctetsStream.Position" fuel [] ⟨buf, pos, a⟩ =
      some (.ret [.int (mdl buf pos).position] [] ⟨buf, pos, a⟩) :=
  s_position_ast buf pos a fuel hf

/-- `Bytes()` = the model's `bytes?` in ALL states: outside the invariant (`pos > len`) both panic -/
theorem C13_translated_source_Bytes_refines_model (buf : List (BitVec 8)) (pos a fuel : Nat) (hf : 2 ≤ fuel) :
    run table "OctetsStream.Bytes" fuel [] ⟨buf, pos, a⟩ = some (bytesOut ⟨buf, pos, a⟩ (mdl buf pos).bytes?) :=
  s_bytes_ast buf pos a fuel hf

theorem C13_translated_source_Tidy_refines_model (buf : List (BitVec 8)) (pos a fuel : Nat) (hf : 8 ≤ fuel)
    (hp : pos ≤ buf.length) :
    run table "OctetsStream.Tidy" fuel [] ⟨buf, pos, a⟩ = some (unitOut (mdl buf pos).tidy a) :=
  s_tidy_ast buf pos a fuel hf hp

theorem C13_translated_source_Reset_refines_model (buf : List (BitVec 8)) (pos a fuel : Nat) (hf : 4 ≤ fuel) :
    run table "OctetsStream.Reset" fuel [] ⟨buf, pos, a⟩ = some (unitOut (mdl buf pos).reset a) :=
  s_reset_ast buf pos a fuel hf

/-- `Seek(offset, whence)` for ALL int64 offsets (also where `num += offset` overflows and wraps) and ALL `whence`
    values, in every state with `pos ≤ len buf < 2^63`: results and final state are the model's `seek` -/
theorem C13_translated_source_Seek_refines_model (buf : List (BitVec 8)) (pos a : Nat) (o : BitVec 64) (w : Int)
    (fuel : Nat) (hf : 16 ≤ fuel) (hp : pos ≤ buf.length) (hL : (buf.length : Int) < 2 ^ 63) :
    run table "OctetsStream.Seek" fuel [.bv 64 true o, .int w] ⟨buf, pos, a⟩ =
      some (seekOut a ((mdl buf pos).seek o.toInt w)) :=
  s_seek_ast buf pos a o w fuel hf hp hL

/-- non-vacuity: an overflowing case — Seek(maxInt64, SeekCurrent) at position 1 wraps to minInt64 and is rejected -/
example : run table "OctetsStream.Seek" 16 [.bv 64 true (BitVec.ofInt 64 (2 ^ 63 - 1)), .int 1] ⟨[1, 2, 3], (1 : Nat), 0⟩ =
    some (.ret [.bv 64 true 0, .err (some .InvalidArgument)] [none, none] ⟨[1, 2, 3], (1 : Nat), 0⟩) := by
  rw [C13_translated_source_Seek_refines_model _ _ _ _ _ _ (by decide) (by decide) (by decide)]; rfl

example : run table "OctetsStream.Seek" 16 [.bv 64 true (BitVec.ofInt 64 (-1)), .int 2] ⟨[1, 2, 3], (1 : Nat), 0⟩ =
    some (.ret [.bv 64 true 2, .err none] [none, none] ⟨[1, 2, 3], (2 : Nat), 0⟩) := by
  rw [C13_translated_source_Seek_refines_model _ _ _ _ _ _ (by decide) (by decide) (by decide)]; rfl

/-- SEEK NEVER LEAVES THE DATA, stated of the interpreted generated term alone: for every int64 offset and every
    `whence`, in every state with `0 ≤ pos ≤ len buf`, `Seek` does not panic and either returns `(p, nil)` with the
    cursor at `p`, `0 ≤ p ≤ len buf`, or returns `(0, ErrInvalidArgument)` with the stream exactly as it was; the buffer
    is never changed.  (This is the statement the seeded change "per-whence validation" breaks.) -/
theorem C13_translated_source_Seek_stays_in_range (buf : List (BitVec 8)) (pos a : Nat) (o : BitVec 64) (w : Int)
    (fuel : Nat) (hf : 16 ≤ fuel) (hp : pos ≤ buf.length) (hL : (buf.length : Int) < 2 ^ 63) :
    (∃ p : Nat, p ≤ buf.length ∧ run table "OctetsStream.Seek" fuel [.bv 64 true o, .int w] ⟨buf, pos, a⟩ =
        some (.ret [.bv 64 true (BitVec.ofNat 64 p), .err none] [none, none] ⟨buf, p, a⟩)) ∨
    run table "OctetsStream.Seek" fuel [.bv 64 true o, .int w] ⟨buf, pos, a⟩ =
        some (.ret [.bv 64 true 0, .err (some .InvalidArgument)] [none, none] ⟨buf, pos, a⟩) :=
  seek_in_range_ast buf pos a o w fuel hf hp hL

/-- TIDY IS INVISIBLE, stated of the interpreted generated terms alone: `Bytes()` after `Tidy()` = `Bytes()` before -/
theorem C13_translated_source_Tidy_invisible (buf : List (BitVec 8)) (pos a fuel : Nat) (hf : 8 ≤ fuel)
    (hp : pos ≤ buf.length) :
    ∃ buf', run table "OctetsStream.Tidy" fuel [] ⟨buf, pos, a⟩ = some (.ret [] [] ⟨buf', (0 : Nat), a⟩) ∧
      ∃ bs, run table "OctetsStream.Bytes" fuel [] ⟨buf, pos, a⟩ = some (.ret [.bytes bs] [] ⟨buf, pos, a⟩) ∧
        run table "OctetsStream.Bytes" fuel [] ⟨buf', (0 : Nat), a⟩ = some (.ret [.bytes bs] [] ⟨buf', (0 : Nat), a⟩) :=
  tidy_invisible_ast buf pos a fuel hf hp

/-- ONE CALL of any of the eleven operations of the model (`AstDom` = the arguments are values of the Go parameter types:
    byte payloads, int16/int32/int64 arguments and offsets), in any state with `pos ≤ len buf`: the interpreted
    generated term returns the encoding of the model's step, ends in the model's state, and keeps `pos ≤ len buf`.
    (Write, WriteByte, Read, ReadByte, Tidy, Reset, Seek: theorems above; WriteBool / WriteInt16/32/64: the codec
    family's refinement of the same generated terms, `s_writeInt16_ast` …, plus `writeInt16_bridge` …: the bytes of the
    two hand-written models agree.) -/
theorem C13_translated_source_step_refines_model (fuel : Nat) (hf : 16 ≤ fuel) (buf : List (BitVec 8)) (pos a : Nat)
    (hp : pos ≤ buf.length) (op : Stream.Op) (hop : AstDom op)
    (hL : ((buf.length + StreamOpSize op : Nat) : Int) < 2 ^ 63) :
    ∃ (buf' : List (BitVec 8)) (pos' : Nat),
      astCall fuel ⟨buf, pos, a⟩ op = some (encOut a op ((mdl buf pos).step op)) ∧
      outState (encOut a op ((mdl buf pos).step op)) = some ⟨buf', pos', a⟩ ∧
      ((mdl buf pos).step op).1 = mdl buf' pos' ∧ pos' ≤ buf'.length ∧ buf'.length ≤ buf.length + StreamOpSize op :=
  ast_step fuel hf buf pos a hp op hop hL

/-- HEADLINE.  ANY sequence of operations (all eleven ops of the model, arguments in the range of their Go types) on a fresh stream, executed by interpreting the generated terms
    call after call (`astRun`): no call panics or gets stuck; call by call the Go-level results are the encodings
    (`encRun`) of outputs that some run of the ABSTRACT seekable FIFO produces (`StreamSpecRun`); the cursor ends inside
    the data; and the interpreted `Bytes()` in the final state returns exactly the unread part `W[c..]` of that abstract
    run's write history. -/
theorem C13_translated_source_run_is_seekable_fifo (fuel : Nat) (hf : 16 ≤ fuel) (ops : List Stream.Op)
    (hdom : ∀ op ∈ ops, AstDom op) (hsize : (streamSizes ops : Int) < 2 ^ 63) :
    ∃ (buf' : List (BitVec 8)) (pos' : Nat) (g' : Ghost),
      astRun fuel ⟨[], (0 : Nat), 0⟩ ops = some (⟨buf', pos', 0⟩, encRun 0 Stream.init ops) ∧
      StreamSpecRun Ghost.init ops (Stream.init.run ops).2 g' ∧ StreamRel (mdl buf' pos') g' ∧
      pos' ≤ buf'.length ∧
      ∃ bs, run table "OctetsStream.Bytes" fuel [] ⟨buf', pos', 0⟩ = some (.ret [.bytes bs] [] ⟨buf', pos', 0⟩) ∧
        bs.map BitVec.toNat = g'.W.drop g'.c := by
  have hv : ∀ op ∈ ops, StreamOpValid op := by
    intro op hop
    have := hdom op hop
    cases op <;> simp_all [StreamOpValid, AstDom]
  obtain ⟨buf', pos', hrun, hfin, hp'⟩ := ast_run fuel hf ops [] 0 0 (Nat.le_refl _) hdom (by simpa using hsize)
  obtain ⟨g', hspec, hrel⟩ := C13_stream_refines ops hv hsize
  have hfin' : (Stream.init.run ops).1 = mdl buf' pos' := hfin
  rw [hfin'] at hrel
  refine ⟨buf', pos', g', hrun, hspec, hrel, hp', buf'.drop pos', ?_, ?_⟩
  · rw [s_bytes_ast buf' pos' 0 fuel (by omega)]
    simp [mdl, Stream.bytes?, hp', bytesOut, ← List.map_drop, map_ofNat_toNat']
  · have hb := (C13_stream_unread _ _ hrel).1
    simp only [mdl, Stream.bytes?, List.length_map, hp', if_true, Option.some.injEq, ← List.map_drop] at hb
    exact hb

/-- non-vacuity of the headline: a concrete sequence with a failing Seek, a short Read, Tidy and a wrap-free Seek -/
example : ∃ (buf' : List (BitVec 8)) (pos' : Nat) (g' : Ghost),
    astRun 16 ⟨[], (0 : Nat), 0⟩ [.write [1, 2, 3, 4, 5], .seek 10 0, .read 4, .tidy, .seek (-1) 2, .readByte, .writeInt32 (-2), .writeBool true] =
      some (⟨buf', pos', 0⟩, encRun 0 Stream.init [.write [1, 2, 3, 4, 5], .seek 10 0, .read 4, .tidy, .seek (-1) 2, .readByte, .writeInt32 (-2), .writeBool true]) ∧
    StreamSpecRun Ghost.init [.write [1, 2, 3, 4, 5], .seek 10 0, .read 4, .tidy, .seek (-1) 2, .readByte, .writeInt32 (-2), .writeBool true]
      (Stream.init.run [.write [1, 2, 3, 4, 5], .seek 10 0, .read 4, .tidy, .seek (-1) 2, .readByte, .writeInt32 (-2), .writeBool true]).2 g' ∧
    StreamRel (mdl buf' pos') g' ∧ pos' ≤ buf'.length ∧
    ∃ bs, run table "OctetsStream.Bytes" 16 [] ⟨buf', pos', 0⟩ = some (.ret [.bytes bs] [] ⟨buf', pos', 0⟩) ∧
      bs.map BitVec.toNat = g'.W.drop g'.c :=
  C13_translated_source_run_is_seekable_fifo 16 (Nat.le_refl _) _ (by decide) (by decide)

end translated
