import Got.Lemmas.TaskQ
/-
C09 — taskx.Queue hands tasks over in send order and Get returns the handler's result; close unblocks senders.

All theorems are about Got.Model.TaskQ (every finite list of actions = every number of producers, sends,
interleaving, consumer speed and position of close).  Trusted: Go channel FIFO / select / WaitGroup
semantics as encoded in the model's `step`.
-/
open Got.Model.TaskQ

/-- Order and exactly-once.  In every reachable state
    * what the consumer received followed by what is still in `C` is exactly the sequence of successful channel
      sends (nothing reordered, duplicated or lost between `C <- task` and `<-C`),
    * within it the messages of one producer carry strictly increasing send numbers (send order is kept per
      producer), hence no message occurs twice,
    * and every such message was begun by a Send* call (nothing is invented). -/
theorem C09_order_once (cap : Nat) (acts : List Act) :
    let s := run cap acts
    s.received ++ s.chan = s.puts ∧
    (s.received ++ s.chan).Pairwise (fun a b => a.prod = b.prod → a.seq < b.seq) ∧
    (s.received ++ s.chan).Nodup ∧
    (∀ m ∈ s.received ++ s.chan, m ∈ s.begun ∧ m.seq < s.nextSeq m.prod) := by
  intro s
  have h := inv_run cap acts
  have h2 := inv2_run cap acts
  refine ⟨h.fifo, ?_, ?_, ?_⟩
  · rw [h.fifo]; exact h.putsOrd
  · rw [h.fifo]; exact prodOrdered_nodup h.putsOrd
  · intro m hm
    rw [h.fifo] at hm
    exact ⟨h2.putsBegun m hm, h.putsLt m hm⟩

/-- the received sequence alone: per-producer order, no task twice -/
theorem C09_received_order_once (cap : Nat) (acts : List Act) :
    (run cap acts).received.Pairwise (fun a b => a.prod = b.prod → a.seq < b.seq) ∧ (run cap acts).received.Nodup := by
  have h := C09_order_once cap acts
  exact ⟨(List.pairwise_append.mp h.2.1).1, (List.nodup_append.mp h.2.2.1).1⟩

/-- No drop while open: as long as closeChan is not closed, every message whose Send* call has returned
    (no producer is still parked at the select with it) is in `received ++ C`. -/
theorem C09_no_drop_open (cap : Nat) (acts : List Act) :
    let s := run cap acts
    s.closed = false → ∀ m ∈ s.begun, (∀ p, s.ppc p ≠ .sel m) → m ∈ s.received ++ s.chan := by
  intro s hopen m hm hret
  have h := inv_run cap acts
  rw [h.fifo]
  rcases h.begunOk m hm with h1 | h1 | h1
  · exact h1
  · rw [h.openNoAbort hopen] at h1; cases h1
  · exact absurd h1 (hret m.prod)

/-- the buffer never exceeds its capacity, and on an open full queue the sender stays parked (it neither
    drops the task nor returns): both select branches are disabled -/
theorem C09_full_blocks_open (cap : Nat) (acts : List Act) (p : Nat) :
    let s := run cap acts
    s.chan.length ≤ s.cap ∧
    (s.closed = false → s.chan.length = s.cap → step s (.put p) = none ∧ step s (.abort p) = none) := by
  intro s
  refine ⟨(inv_run cap acts).capOk, ?_⟩
  intro hopen hfull
  constructor
  · simp only [step]; split <;> simp [hfull]
  · simp only [step]; split <;> simp [hopen]

/-- Get2 of a callback task is disabled (`none`) until the consumer has executed the task; when it returns `r`,
    `r` is a pair that the task's handler returned to the consumer; if the consumer executed the task once
    (the property's assumption), `r` is exactly that handler result. -/
theorem C09_get_is_handler_result (cap : Nat) (acts : List Act) (id : Nat) :
    let s := run cap acts
    ((∀ r, (id, r) ∉ s.execLog) → get2 s (.cb id) = none) ∧
    (∀ r, get2 s (.cb id) = some r → (id, r) ∈ s.execLog) ∧
    (∀ r r0, get2 s (.cb id) = some r → s.execLog.filter (fun e => e.1 = id) = [(id, r0)] → r = r0) := by
  intro s
  have h := inv_run cap acts
  have key : ∀ r, get2 s (.cb id) = some r → (id, r) ∈ s.execLog := by
    intro r hr
    simp only [get2] at hr
    split at hr
    · rename_i hd
      injection hr with hr; subst hr
      exact (h.doneOk id hd).2
    · cases hr
  refine ⟨?_, key, ?_⟩
  · intro hno
    cases hg : get2 s (.cb id) with
    | none => rfl
    | some r => exact absurd (key r hg) (hno r)
  · intro r r0 hr hf
    have hm : (id, r) ∈ s.execLog.filter (fun e => e.1 = id) := by
      rw [List.mem_filter]; exact ⟨key r hr, by simp⟩
    rw [hf] at hm
    simp at hm
    exact hm

/-- once released, Get2 keeps returning: `done` is never reset for an allocated task, and the value only changes
    through a further execution by the consumer (`redo`), which the property excludes -/
theorem C09_get_stable_without_redo (s s' : State) (a : Act) (id : Nat) (r : Pair)
    (hs : step s a = some s') (hid : id < s.nextTask) (hg : get2 s (.cb id) = some r)
    (hnostore : a ≠ .store) : get2 s' (.cb id) = some r := by
  have hne : id ≠ s.nextTask := by omega
  have hd : s.done id = true ∧ s.result id = r := by
    simp only [get2] at hg
    split at hg
    · rename_i hd; injection hg with hg; exact ⟨hd, hg⟩
    · cases hg
  cases a <;> simp only [step, beginSend] at hs <;> (repeat' split at hs) <;>
    first
    | contradiction
    | (injection hs with hs; subst hs
       simp only [get2, upd, hne, if_false, hd.1, hd.2, if_true]
       try (split <;> simp_all))

/-- nil handler: SendCallback(nil) returns at once (whatever the buffer and closeChan are), sends nothing, and
    the task it returns is an already-completed empty task: Get2 = (nil, nil) -/
theorem C09_nil_handler (s : State) (p : Nat) (hp : s.ppc p = .idle) :
    ∃ s', step s (.sendCallback p false) = some s' ∧ s'.ppc p = .idle ∧ s'.chan = s.chan ∧ s'.puts = s.puts ∧
      s'.returned p = .empty :: s.returned p ∧ ∀ s'' : State, get2 s'' .empty = some nilPair := by
  refine ⟨{ s with nextSeq := upd s.nextSeq p (s.nextSeq p + 1), returned := upd s.returned p (.empty :: s.returned p) },
    by simp [step, hp], hp, rfl, rfl, by simp, fun _ => rfl⟩

/-- close unblocks senders: once closeChan is closed it stays closed, and a producer parked at the select can
    always take the `<-closeChan` branch and return — whatever `len(C)` is. -/
theorem C09_close_unblocks (s : State) (p : Nat) (m : Msg) (hc : s.closed = true) (hp : s.ppc p = .sel m) :
    (∃ s', step s (.abort p) = some s' ∧ s'.ppc p = .idle ∧ s'.returned p = m.task :: s.returned p) ∧
    (∀ acts : List Act, (acts.foldl stepD s).closed = true) := by
  refine ⟨⟨{ s with aborted := s.aborted ++ [m], ppc := upd s.ppc p .idle, returned := upd s.returned p (m.task :: s.returned p) },
    by simp [step, hp, hc], by simp, by simp⟩, fun acts => closed_foldl acts hc⟩

/-- option.go: whatever options are passed (any order, repetitions, WithSize(≤ 0), nil channel, nil logger), the queue's
    capacity is positive; WithSize(n ≤ 0), WithCloseChan(nil) and WithErrorLogger(nil) leave the options unchanged, so a nil
    logger never replaces a logger set before (and the default logger is installed when none was set). -/
theorem C09_options (l : List Opt) :
    0 < effCap l ∧
    (∀ o : Opts, ∀ n : Int, n ≤ 0 → applyOpt o (.withSize n) = o) ∧
    (∀ o : Opts, applyOpt o (.withCloseChan none) = o ∧ applyOpt o (.withErrorLogger none) = o) := by
  refine ⟨?_, ?_, fun o => ⟨rfl, rfl⟩⟩
  · have key : ∀ (l : List Opt) (o : Opts), 0 < o.size → 0 < (l.foldl applyOpt o).size := by
      intro l
      induction l with
      | nil => intro o h; exact h
      | cons a rest ih =>
        intro o h
        apply ih
        cases a with
        | withSize n =>
          simp only [applyOpt]
          split
          · rename_i hn; have : sizeFloor = 0 := by decide
            simp only; omega
          · exact h
        | withCloseChan c => cases c <;> exact h
        | withErrorLogger c => cases c <;> exact h
    have := key l { size := defaultSize, closeChan := none, errLogger := none } (by decide)
    unfold effCap createOptions
    omega
  · intro o n hn
    have : sizeFloor = 0 := by decide
    simp only [applyOpt]
    split
    · omega
    · rfl

/-! non-vacuity: concrete runs -/

-- NewQueue(WithSize(3), WithErrorLogger(logger 2), WithSize(0), WithErrorLogger(nil), WithCloseChan(nil)): size 3, logger 2
example : (createOptions [.withSize 3, .withErrorLogger (some 2), .withSize 0, .withErrorLogger none, .withCloseChan none]).size = 3 := by decide
example : (createOptions [.withSize 3, .withErrorLogger (some 2), .withSize 0, .withErrorLogger none, .withCloseChan none]).errLogger = some 2 := by decide
example : effCap [] = 8 := by decide


-- two producers, capacity 1: the second send parks at the select, is released by the consumer's receive
example : (run 1 [.sendCallback 0 true, .put 0, .sendCallback 1 true, .put 1, .recv, .put 1]).chan.length = 1 := by decide
example : (run 1 [.sendCallback 0 true, .put 0, .sendCallback 1 true, .put 1, .recv, .put 1]).received.length = 1 := by decide
example : (run 1 [.sendCallback 0 true, .put 0, .sendCallback 1 true, .put 1, .recv, .put 1]).fullLogs = 1 := by decide
-- Get2 blocked before the execution, released with the handler's pair after it
example : get2 (run 2 [.sendCallback 0 true, .put 0, .recv, .call (some 7, none)]) (.cb 0) = none := by decide
example : get2 (run 2 [.sendCallback 0 true, .put 0, .recv, .call (some 7, none), .store, .finish]) (.cb 0) = some (some 7, none) := by decide
-- a parked sender on a full queue leaves through close
example : (run 1 [.sendCallback 0 true, .put 0, .sendCallback 1 true, .close, .abort 1]).aborted.length = 1 := by decide
example : (run 1 [.sendCallback 0 true, .put 0, .sendCallback 1 true, .close]).closed = true := by decide
