import Got.Model.TaskQ
/- property theorems of C09 (only theorems + non-vacuity examples live here) -/
open Got.Model.TaskQ

/-- taskEmpty.Get2 never blocks and returns (nil, nil), in every state. -/
theorem C09_empty_task_complete (s : State) : get2 s .empty = some nilPair := rfl
