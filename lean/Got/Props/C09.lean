/- property theorems of C09 (only theorems + non-vacuity examples live here) -/
