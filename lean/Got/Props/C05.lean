/- property theorems of C05 (only theorems + non-vacuity examples live here)

C05: with expiry E for a result (normal expiry for values, error expiry for errors) completed at time u:
  now-u < E          served, no new load                                      C05_fresh
  E <= now-u < 2E    served immediately; the first Load creates exactly one   C05_expired_first_load
                     refresh future (predecessor = the stale one) and job;    C05_expired_while_refreshing
                     further calls create nothing
  now-u >= 2E        never handed out again                                   C05_rotted_never_served*
  the refresh result replaces the stale one                                   C05_refresh_replaces
  the sweep changes none of these answers                                     C05_sweep_invisible*
All statements are about the step functions of the LTS `Got.Model.Cache` (the same definitions the driver executes) and
hold for EVERY state, clock value, completion time and pair of expiries – no reachability assumption is needed except
the allocation invariant `MapWF` (every stored future id has been allocated) in C05_sweep_invisible_client.
The literal 2 is the property's constant; the model takes its factor from the regenerated source facts
(`rotFactor`), so a changed source constant breaks these proofs. -/
import Got.Lemmas.CacheSweep
import Got.Lemmas.CacheInv
open Got.Model.CacheCore Got.Model.Cache Got.Spec.Cache Got.Lemmas.Cache

/-- the status function, outright: for all clocks, completion times, both expiries -/
theorem C05_status_table (now u En Ee : Nat) (hasErr resolved : Bool) :
    status now u hasErr En Ee resolved =
      if !resolved then .good
      else if now - u < expiryOf hasErr En Ee then .good
      else if now - u < 2 * expiryOf hasErr En Ee then .expired
      else .rotted := by
  cases resolved
  · simp [status]
  · simp [status_cases]

/-- C05 (fresh): while `now - u < E` (E = error expiry for an error result) the status is good for EVERY clock value,
    completion time and pair of expiries; Load then creates no future and no job and plans
    fetchIfFutureStatusGood(last); Get2 goes on to fetchIfFutureStatusGood(future).Get2(). -/
theorem C05_fresh (cfg : Cfg) (s : State) (c : Cid) (k : Key) (ld : Nat) (l : FutId) (r : Res)
    (hmap : s.map k = some l) (hres : (s.fut l).res = some r)
    (hage : s.now - (s.fut l).upd < futExpiry cfg r) :
    statusAt cfg s (some l) = .good ∧
    (loadCS cfg s c k ld).nfut = s.nfut ∧ (loadCS cfg s c k ld).map = s.map ∧
    (loadCS cfg s c k ld).chan = s.chan ∧ (loadCS cfg s c k ld).fut = s.fut ∧
    (loadCS cfg s c k ld).cpc c = .ldUnlock (cfg.shardOf k) none (.fetch l) ∧
    (∀ c', s.cpc c' = .g2Status (some l) → clStep cfg s c' = some (setPc s c' (.fetch l true))) := by
  have hst : statusAt cfg s (some l) = .good := by
    rw [statusAt_resolved cfg s l r hres, status_good_iff]; exact hage
  refine ⟨hst, ?_, ?_, ?_, ?_, ?_, ?_⟩
  all_goals first
    | (simp [loadCS, applyLoad, loadOut, hmap, hst, loadDecide]; done)
    | (intro c' hc; simp [clStep, hc, hst, get2Decide, g2Next])

example : ∃ s l r, (s : State).map 1 = some l ∧ (s.fut l).res = some r ∧ s.now - (s.fut l).upd < futExpiry exCfg r :=
  ⟨exResolved 15, 0, ⟨some 7, none⟩, by decide, by decide, by decide⟩

theorem C05_expired_first_load (cfg : Cfg) (s : State) (c : Cid) (k : Key) (ld : Nat) (l : FutId) (r : Res)
    (hmap : s.map k = some l) (hres : (s.fut l).res = some r)
    (hE : futExpiry cfg r ≤ s.now - (s.fut l).upd) (h2E : s.now - (s.fut l).upd < 2 * futExpiry cfg r) :
    let s' := loadCS cfg s c k ld
    statusAt cfg s (some l) = .expired ∧
    s'.nfut = s.nfut + 1 ∧
    s'.map k = some s.nfut ∧
    s'.fut s.nfut = newLoadFut k (some l) ∧
    s'.chan = s.chan ∧
    planOf (s'.cpc c) = some (.ret l) ∧
    jobOf (s'.cpc c) = some { key := k, fut := s.nfut, ld := ld } := by
  have hst : statusAt cfg s (some l) = .expired := by
    rw [statusAt_resolved cfg s l r hres, status_expired_iff]; exact ⟨hE, h2E⟩
  intro s'
  refine ⟨hst, ?_, ?_, ?_, ?_, ?_, ?_⟩
  all_goals (simp only [s']; cases hold : cfg.old <;> simp [loadCS, applyLoad, loadOut, hmap, hst, loadDecide, hold, planOf, jobOf])

example : ∃ s l r, (s : State).map 1 = some l ∧ (s.fut l).res = some r ∧
    futExpiry exCfg r ≤ s.now - (s.fut l).upd ∧ s.now - (s.fut l).upd < 2 * futExpiry exCfg r :=
  ⟨exResolved 25, 0, ⟨some 7, none⟩, by decide, by decide, by decide, by decide⟩

theorem C05_expired_while_refreshing (cfg : Cfg) (s : State) (c : Cid) (k : Key) (ld : Nat) (n l : FutId)
    (hmap : s.map k = some n) (hload : (s.fut n).res = none) :
    let s' := loadCS cfg s c k ld
    -- no new future, no job; the plan is fetchIfFutureStatusGood(n)
    (s'.nfut = s.nfut ∧ s'.map = s.map ∧ s'.chan = s.chan ∧ s'.fut = s.fut ∧
      s'.cpc c = .ldUnlock (cfg.shardOf k) none (.fetch n)) ∧
    -- fetchIfFutureStatusGood hands out the stale predecessor l exactly while it is merely expired
    (∀ c' g, s.cpc c' = .fetchSt n (some l) g →
      clStep cfg s c' = some (setPc s c'
        (let tgt := if statusAt cfg s (some l) = .expired then l else n
         if g then .wait tgt else .ldRet tgt))) ∧
    (∀ r, (s.fut l).res = some r →
      (statusAt cfg s (some l) = .expired ↔
        futExpiry cfg r ≤ s.now - (s.fut l).upd ∧ s.now - (s.fut l).upd < 2 * futExpiry cfg r)) := by
  have hst : statusAt cfg s (some n) = .good := statusAt_unresolved cfg s n hload
  intro s'
  refine ⟨⟨?_, ?_, ?_, ?_, ?_⟩, ?_, ?_⟩
  · simp [s', loadCS, applyLoad, loadOut, hmap, hst, loadDecide]
  · simp [s', loadCS, applyLoad, loadOut, hmap, hst, loadDecide]
  · simp [s', loadCS, applyLoad, loadOut, hmap, hst, loadDecide]
  · simp [s', loadCS, applyLoad, loadOut, hmap, hst, loadDecide]
  · simp [s', loadCS, applyLoad, loadOut, hmap, hst, loadDecide]
  · intro c' g hc
    simp only [clStep, hc, fetchChoosesPred, fetchTarget]
    cases hs : statusAt cfg s (some l) <;> simp
  · intro r hr
    rw [statusAt_resolved cfg s l r hr, status_expired_iff]; rfl

example : ∃ s n, (s : State).map 1 = some n ∧ (s.fut n).res = none ∧ (s.fut n).pred = some 0 ∧
    statusAt exCfg s (some 0) = .expired :=
  ⟨exRefreshing 25, 1, by decide, by decide, by decide, by decide⟩
-- … and once the stale one is rotted the refresh future itself is handed out
example : statusAt exCfg (exRefreshing 30) (some 0) = .rotted := by decide

/-- Load never plans to hand out a rotted future -/
theorem C05_rotted_never_served_load (cfg : Cfg) (s : State) (c : Cid) (k : Key) (ld : Nat) :
    let s' := loadCS cfg s c k ld
    ∃ p, planOf (s'.cpc c) = some p ∧
      match p with
      | .ret f => (f = s.nfut ∧ s'.nfut = s.nfut + 1 ∧ (s'.fut f).res = none ∧ s'.map k = some f)
                  ∨ (s.map k = some f ∧ statusAt cfg s (some f) = .expired)
      | .fetch f => s.map k = some f ∧ statusAt cfg s (some f) = .good := by
  intro s'
  cases hmap : s.map k with
  | none =>
    cases hold : cfg.old <;>
      simp [s', loadCS, applyLoad, loadOut, hmap, statusAt_none, loadDecide, planOf, hold, newLoadFut]
  | some l =>
    cases hst : statusAt cfg s (some l) with
    | empty => exact absurd hst (by simp [statusAt_empty_iff])
    | good => simp [s', loadCS, applyLoad, loadOut, hmap, hst, loadDecide, planOf]
    | expired => cases hold : cfg.old <;> simp [s', loadCS, applyLoad, loadOut, hmap, hst, loadDecide, planOf, hold]
    | rotted => cases hold : cfg.old <;> simp [s', loadCS, applyLoad, loadOut, hmap, hst, loadDecide, planOf, hold, newLoadFut]

/-- fetchIfFutureStatusGood returns its argument or a predecessor that is merely expired -/
theorem C05_rotted_never_served_fetch (cfg : Cfg) (s : State) (c : Cid) (f : FutId) (p : Option FutId) (g : Bool)
    (hc : s.cpc c = .fetchSt f p g) :
    ∃ tgt, clStep cfg s c = some (setPc s c (if g then .wait tgt else .ldRet tgt)) ∧
      (tgt = f ∨ (p = some tgt ∧ statusAt cfg s (some tgt) = .expired)) := by
  cases p with
  | none => exact ⟨f, by simp [clStep, hc, fetchTarget], Or.inl rfl⟩
  | some q =>
    by_cases h : statusAt cfg s (some q) = .expired
    · exact ⟨q, by simp [clStep, hc, fetchChoosesPred, fetchTarget, h], Or.inr ⟨rfl, h⟩⟩
    · refine ⟨f, ?_, Or.inl rfl⟩
      simp only [clStep, hc, fetchChoosesPred, fetchTarget]
      cases hs : statusAt cfg s (some q) <;> simp_all

/-- Get2 waits on a good future (via fetchIfFutureStatusGood), returns an expired one, and answers (nil, nil)
    for an absent or rotted entry -/
theorem C05_rotted_never_served_get2 (cfg : Cfg) (s : State) (c : Cid) (o : Option FutId)
    (hc : s.cpc c = .g2Status o) :
    ∃ pc, clStep cfg s c = some (setPc s c pc) ∧
      match statusAt cfg s o with
      | .good => ∃ f, o = some f ∧ pc = .fetch f true
      | .expired => ∃ f, o = some f ∧ pc = .wait f
      | .rotted => pc = .retNil
      | .empty => pc = .retNil := by
  cases o with
  | none => exact ⟨.retNil, by simp [clStep, hc, statusAt_none, get2Decide, g2Next], by simp [statusAt_none]⟩
  | some f =>
    cases hst : statusAt cfg s (some f) with
    | empty => exact absurd hst (by simp [statusAt_empty_iff])
    | good => exact ⟨.fetch f true, by simp [clStep, hc, hst, get2Decide, g2Next], ⟨f, rfl, rfl⟩⟩
    | expired => exact ⟨.wait f, by simp [clStep, hc, hst, get2Decide, g2Next], ⟨f, rfl, rfl⟩⟩
    | rotted => exact ⟨.retNil, by simp [clStep, hc, hst, get2Decide, g2Next], rfl⟩

/-- whatever is chosen by the three decisions above is servable: a resolved result of status good / expired is
    younger than 2E, and a result with `now - u ≥ 2E` has status rotted (for all clocks and both expiries) -/
theorem C05_rotted_never_served (cfg : Cfg) (s : State) (f : FutId) :
    (statusAt cfg s (some f) = .good ∨ statusAt cfg s (some f) = .expired → Servable cfg s f) ∧
    (∀ r, (s.fut f).res = some r → 2 * futExpiry cfg r ≤ s.now - (s.fut f).upd → statusAt cfg s (some f) = .rotted) ∧
    (statusAt cfg s (some f) = .rotted → ¬ Servable cfg s f) := by
  refine ⟨servable_of_status cfg s f, ?_, not_servable_of_rotted cfg s f⟩
  intro r hr h
  rw [statusAt_resolved cfg s f r hr, status_rotted_iff]; exact h

/-- the refresh replaces the stale result: (1) the worker's publication step stores the pair and `updateTime := now`
    into the refresh future `j.fut` without touching the map, after which its status is good (fresh, E > 0);
    (2) for a fresh future whose predecessor has been cleared, Get2 and fetchIfFutureStatusGood hand out that future
    itself – no longer the stale predecessor. -/
theorem C05_refresh_replaces (cfg : Cfg) :
    (∀ (s : State) (w : Wid) (j : Job) (r : Res), s.wpc w = .publish j r → 0 < futExpiry cfg r →
      ∃ s1, wkStep cfg s w = some s1 ∧ (s1.fut j.fut).res = some r ∧ (s1.fut j.fut).upd = s.now ∧ s1.now = s.now ∧
        s1.map = s.map ∧ s1.wpc w = .clearPred j ∧ statusAt cfg s1 (some j.fut) = .good) ∧
    (∀ (s : State) (w : Wid) (j : Job), s.wpc w = .clearPred j →
      ∃ s2, wkStep cfg s w = some s2 ∧ (s2.fut j.fut).pred = none ∧ (s2.fut j.fut).res = (s.fut j.fut).res ∧
        (s2.fut j.fut).upd = (s.fut j.fut).upd ∧ s2.now = s.now ∧ s2.map = s.map) ∧
    (∀ (s : State) (c : Cid) (n : FutId) (g : Bool), (s.fut n).pred = none →
      (s.cpc c = .fetch n g → clStep cfg s c = some (setPc s c (.fetchSt n none g))) ∧
      (s.cpc c = .fetchSt n none g → clStep cfg s c = some (setPc s c (if g then .wait n else .ldRet n)))) ∧
    (∀ (s : State) (c : Cid) (n : FutId), statusAt cfg s (some n) = .good → s.cpc c = .g2Status (some n) →
      clStep cfg s c = some (setPc s c (.fetch n true))) := by
  refine ⟨?_, ?_, ?_, ?_⟩
  · intro s w j r hw hE
    refine ⟨_, by simp only [wkStep, hw]; rfl, ?_, ?_, ?_, ?_, ?_, ?_⟩
    · simp [setWpc]
    · simp [setWpc]
    · simp [setWpc]
    · simp [setWpc]
    · simp [setWpc]
    · rw [statusAt_resolved (r := r)]
      · rw [status_good_iff]; simp [setWpc]; exact hE
      · simp [setWpc]
  · intro s w j hw
    refine ⟨_, by simp only [wkStep, hw]; rfl, ?_, ?_, ?_, ?_, ?_⟩ <;> simp [setWpc]
  · intro s c n g hp
    constructor
    · intro hc; simp [clStep, hc, hp]
    · intro hc; simp [clStep, hc, fetchTarget]
  · intro s c n hst hc
    simp [clStep, hc, hst, get2Decide, g2Next]

example : ∃ s f r, ((s : State).fut f).res = some r ∧ 2 * futExpiry exCfg r ≤ s.now - (s.fut f).upd :=
  ⟨exResolved 30, 0, ⟨some 7, none⟩, by decide, by decide⟩

/-- the sweep is invisible (1): client steps from ≈-related states are both disabled, or both enabled with
    ≈-related results (≈ ignores map entries that are rotted); in particular every value returned is the same
    (C05_sweep_invisible_outputs). -/
theorem C05_sweep_invisible_client (cfg : Cfg) (s t : State) (h : SweepEq cfg s t) (ws : MapWF s) (wt : MapWF t)
    (c : Cid) : OptRel (SweepEq cfg) (clStep cfg s c) (clStep cfg t c) :=
  sweepEq_clStep cfg s t h ws wt c

/-- the allocation hypothesis `MapWF` of C05_sweep_invisible_client holds in every reachable state -/
theorem C05_sweep_invisible_wf (cfg : Cfg) (s : State) (hr : Reachable cfg s) : MapWF s := by
  have h := inv_reachable cfg s hr
  exact ⟨h.a_map, fun c f hc => h.a_pc c f (by rw [hc]; simp [pcFuts])⟩

theorem C05_sweep_invisible_outputs (cfg : Cfg) (s t : State) (h : SweepEq cfg s t) (c : Cid) (o : Out) :
    s.cpc c = .done o ↔ t.cpc c = .done o :=
  sweepEq_out cfg s t h c o

/-- the sweep is invisible (2): removing the rotted entries of a shard yields a ≈-related state -/
theorem C05_sweep_invisible_sweep (cfg : Cfg) (s : State) (i : Nat) :
    SweepEq cfg { s with map := sweepShard cfg s i } s :=
  sweepEq_sweepShard cfg s i

/-- the sweep is invisible (3): rottedness is stable – the clock only grows – so ≈ survives the passage of time -/
theorem C05_sweep_invisible_time (cfg : Cfg) (s t : State) (h : SweepEq cfg s t) (d : Nat) :
    SweepEq cfg { s with now := s.now + d } { t with now := t.now + d } :=
  sweepEq_delay cfg s t h d

theorem C05_rotted_stable (now now' u En Ee : Nat) (e r : Bool) (hle : now ≤ now')
    (h : status now u e En Ee r = .rotted) : status now' u e En Ee r = .rotted :=
  status_rotted_mono now now' u En Ee e r hle h

-- non-vacuity: the sweep really removes something in `exResolved 30` (the entry is rotted) and the two states differ
example : (sweepShard exCfg (exResolved 30) 0) 1 = none ∧ (exResolved 30).map 1 = some 0 := by decide
