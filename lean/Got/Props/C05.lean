/- property theorems of C05 (only theorems + non-vacuity examples live here) -/
