/- property theorems of C18 (only theorems + non-vacuity examples live here) -/
