import Got.Model.Discipline
import Got.Model.DisciplineProtos
import Got.Lemmas.Discipline
import Got.Lemmas.DisciplineProtos
import Got.Lemmas.DiscMSQueue
import Got.Lemmas.DiscWheel
import Got.Lemmas.DiscWaitClose
import Got.Lemmas.DiscCache
import Got.Lemmas.DiscTaskQ
import Got.Lemmas.DiscAnts
/-
C18 — goroutine-safe APIs are free of data races (publication discipline).

What is proved here (for all thread counts, all interleavings, all lengths):
  * `C18_discipline_sound`: a trace of plain accesses / releases / acquires that the discipline monitor
    accepts is race free in the sense of the Go memory model's happens-before (declarative `HB`).
  * the three synchronisation skeletons the repository uses for its plain shared fields only produce
    accepted traces: publish-once (A), ants attempt arbitration (B), mutex-guarded (C).
  * the pre-fix code shapes are rejected, and for the cachex status check the rejected trace really
    contains a race (¬ HB between the conflicting accesses).
What is NOT proved (trusted, see DESIGN.md C18): that the compiled code performs exactly these events
(tie: srcfacts access-site table matched by drv_discipline against `Got.Model.Discipline.sites`), that the
listed primitives synchronise as the Go memory model documents, and that an acquire synchronises with
every earlier release on the same object for the objects used (WaitGroup, closed channel, mutex, CAS/Swap
chains, atomic words with ordered writers).
-/
open Got.Model.Discipline Got.Lemmas.Discipline

/-- Soundness of the discipline: accepted ⇒ no two conflicting accesses are unordered by happens-before. -/
theorem C18_discipline_sound (tr : List Ev) (h : accepts tr = true) : RaceFree tr :=
  accepts_raceFree tr h

/-- Protocol A (publish once): any creator, any number of other threads releasing/acquiring any objects in
    any order; readers read only after an acquire that observed the publication. -/
theorem C18_publish_once_accepted (c : Nat) (acts : List PubAct) (s : PubState) (evs : List Ev)
    (h : (PubState.init c).run acts = some (s, evs)) : accepts evs = true := by
  obtain ⟨m, hm, _⟩ := pub_run (pub_init c) acts s evs h
  simp [accepts, hm]

theorem C18_publish_once_race_free (c : Nat) (acts : List PubAct) (s : PubState) (evs : List Ev)
    (h : (PubState.init c).run acts = some (s, evs)) : RaceFree evs :=
  C18_discipline_sound evs (C18_publish_once_accepted c acts s evs h)

/-- Protocol C (mutex guarded): any number of threads, accesses only while holding the mutex. -/
theorem C18_mutex_accepted (acts : List MuAct) (s : MuState) (evs : List Ev)
    (h : MuState.init.run acts = some (s, evs)) : accepts evs = true := by
  obtain ⟨m, hm, _⟩ := mu_run mu_init acts s evs h
  simp [accepts, hm]

theorem C18_mutex_race_free (acts : List MuAct) (s : MuState) (evs : List Ev)
    (h : MuState.init.run acts = some (s, evs)) : RaceFree evs :=
  C18_discipline_sound evs (C18_mutex_accepted acts s evs h)

/-- Protocol B (ants): any number of attempts, either side winning each per-attempt CAS, stale inner
    workers, any number of clients calling Get/Err after Done. -/
theorem C18_ants_accepted (acts : List AntsAct) (s : AntsState) (evs : List Ev)
    (h : AntsState.init.run acts = some (s, evs)) : accepts evs = true := by
  obtain ⟨m, hm, _⟩ := ants_run ants_init acts s evs h
  simp [accepts, hm]

theorem C18_ants_race_free (acts : List AntsAct) (s : AntsState) (evs : List Ev)
    (h : AntsState.init.run acts = some (s, evs)) : RaceFree evs :=
  C18_discipline_sound evs (C18_ants_accepted acts s evs h)

/-! ### Per-component theorems derived from the fine-grained models of the other properties

The event trace of the plain field is defined by recursion over the action list of the component's own LTS
(the same LTS whose correspondence with the real code C01 / C03 / C16 check step by step), so these theorems
quantify over every execution of those models: any number of goroutines, any interleaving. -/

/-- loom.Queue: `node.value` of every node — written by the pusher at allocation, published by the linking CAS,
    read by Pop after the atomic load of the predecessor's `next` (events from the C01 model). -/
theorem C18_msqueue_value_race_free (acts : List Got.Model.MSQueue.Act) (n : Nat) :
    RaceFree (Got.Model.MSQueue.valueEvents n acts) :=
  Got.Lemmas.DiscMSQueue.value_raceFree acts n

/-- loom.Wheel: `wheelData.c` of every channel object, incl. the initial ones written by NewWheel's caller —
    written before the slot swap/publication, read by requesters after the slot load and by the ticker at close
    (events from the C03 model; any number of requesters, NewTimer/AfterFunc/Reset). -/
theorem C18_wheel_chan_race_free (n step : Nat) (hn : 0 < n) (acts : List Got.Model.Wheel.Act) (c : Nat) :
    RaceFree (Got.Model.WheelEvents.chanEvents n step c acts) :=
  Got.Lemmas.DiscWheel.chan_raceFree n step hn acts c

/-- loom.WaitClose: `closeChan` — written once under the mutex by whichever goroutine initialises or closes first,
    read after an atomic load of a non-new state or under the mutex (events from the C16 model). -/
theorem C18_waitclose_closeChan_race_free (acts : List Got.Model.WaitClose.Act) :
    RaceFree (Got.Model.WaitCloseEvents.closeChanEvents Got.Model.WaitClose.init acts) :=
  Got.Lemmas.DiscWaitClose.closeChan_raceFree acts

/-- loom.WaitClose: the plain reads of `state` inside the mutex against its (atomic) writes, all inside the mutex. -/
theorem C18_waitclose_state_race_free (acts : List Got.Model.WaitClose.Act) :
    RaceFree (Got.Model.WaitCloseEvents.stateEvents Got.Model.WaitClose.init acts) :=
  Got.Lemmas.DiscWaitClose.state_raceFree acts

/-- negative controls on the WaitClose model: dropping the atomic load before the `closeChan` read, or reading
    `state` plainly on the fast path, yields a rejected trace. -/
theorem C18_waitclose_controls :
    accepts (Got.Model.WaitCloseEvents.closeChanEventsG false Got.Model.WaitClose.init Got.Lemmas.DiscWaitClose.ctlActs) = false ∧
    accepts (Got.Model.WaitCloseEvents.stateEventsG true Got.Model.WaitClose.init Got.Lemmas.DiscWaitClose.ctlActs) = false :=
  ⟨Got.Lemmas.DiscWaitClose.ctl_closeChan_noLoad_rejected, Got.Lemmas.DiscWaitClose.ctl_state_fastPlain_rejected⟩

/-- cachex: `Future.value/err` of every future — written by the resolving worker (or Set) before the atomic
    `updateTime` store, the predecessor store and `wg.Done`; read by `Future.Get1/Get2` after `Wait` and by the
    status check only after an `updateTime` load that returned non-zero (events from the C04–C06 model; every
    configuration, every execution, every future). -/
theorem C18_cache_future_race_free (cfg : Got.Model.Cache.Cfg) (acts : List Got.Model.Cache.Act)
    (f : Got.Model.Cache.FutId) :
    RaceFree (Got.Model.CacheEvents.errEvents cfg false f Got.Model.Cache.init acts) :=
  Got.Lemmas.DiscCache.err_raceFree cfg acts f

/-- negative control on the cachex model: with the OLD status check (err read before the IsZero test) a concrete
    run of the model yields a rejected trace. -/
theorem C18_cache_old_status_rejected :
    accepts (Got.Model.CacheEvents.errEvents Got.Model.CacheEvents.ctlCfg true 0 Got.Model.Cache.init
      Got.Model.CacheEvents.oldStatusRun) = false :=
  Got.Lemmas.DiscCache.old_status_rejected

/-- taskx: `taskCallback.result/err` of every task — written by the single consumer in `Do` before `wg.Done`, read
    by clients' `Get1/Get2` after `Wait` (events from the C09 model extended by client Get actions), in the scope
    C18 states: each task is executed once (`execCount ≤ 1`). -/
theorem C18_taskq_result_race_free (cap : Nat) (acts : List Got.Model.TaskQEvents.XAct) (k : Nat)
    (honce : Got.Model.TaskQEvents.execCount k (Got.Model.TaskQEvents.xrun (Got.Model.TaskQ.init cap) acts) ≤ 1) :
    RaceFree (Got.Model.TaskQEvents.resultEvents k (Got.Model.TaskQ.init cap) acts) :=
  Got.Lemmas.DiscTaskQ.result_raceFree cap acts k honce

/-- the scope is necessary: a second `Do` of a task after a client's Get2 (documented limitation in
    task_callback.go), directly or by re-sending the task, yields a rejected trace. -/
theorem C18_taskq_second_do_rejected :
    accepts (Got.Model.TaskQEvents.resultEvents 0 (Got.Model.TaskQ.init 1) Got.Lemmas.DiscTaskQ.redoActs) = false ∧
    accepts (Got.Model.TaskQEvents.resultEvents 0 (Got.Model.TaskQ.init 1) Got.Lemmas.DiscTaskQ.resendActs) = false :=
  ⟨Got.Lemmas.DiscTaskQ.second_do_rejected, Got.Lemmas.DiscTaskQ.resend_rejected⟩

/-- ants: `taskCallback.result/err` of every task — one write per attempt by whichever side wins the per-attempt
    CAS, `close(doneChan)` → dispatcher's receive when the inner worker won, the dispatcher's reads between
    attempts, `Done` → clients' `Wait` (events from the C07/C08 model of the CURRENT code extended by client Get
    actions; every execution, every task). -/
theorem C18_ants_result_race_free (c : Got.Model.Ants.Cfg) (hc : c.old = false)
    (acts : List Got.Model.AntsEvents.XAct) (hraw : ∀ x, x ∈ acts → x.isRaw = false) (k : Nat) :
    RaceFree (Got.Model.AntsEvents.resultEvents k c Got.Model.Ants.init acts) :=
  Got.Lemmas.DiscAnts.result_raceFree c hc acts hraw k

/-- negative controls on the ants model: a client read without `Wait` (the old `Err()`), the old torn schedule and
    the old unordered double write are rejected. (The old *empty* result is a lost outcome, not a race.) -/
theorem C18_ants_controls :
    accepts (Got.Model.AntsEvents.resultEvents 0 { N := 1 } Got.Model.Ants.init Got.Lemmas.DiscAnts.rawActs) = false ∧
    accepts (Got.Model.AntsEvents.resultEvents 0 { N := 1, old := true } Got.Model.Ants.init Got.Lemmas.DiscAnts.oldTornActs) = false ∧
    accepts (Got.Model.AntsEvents.resultEvents 0 { N := 1, old := true } Got.Model.Ants.init Got.Lemmas.DiscAnts.oldWriteWriteActs) = false :=
  ⟨Got.Lemmas.DiscAnts.read_without_wait_rejected, Got.Lemmas.DiscAnts.old_torn_rejected,
   Got.Lemmas.DiscAnts.old_write_write_rejected⟩

/-- The pre-fix shapes are rejected by the discipline. -/
theorem C18_old_ants_torn_rejected : accepts oldAntsTornTrace = false := by decide
theorem C18_old_ants_err_rejected : accepts oldAntsErrTrace = false := by decide
theorem C18_old_cache_err_rejected : accepts oldCacheErrTrace = false := by decide

theorem C18_hb_lt {tr : List Ev} {i j : Nat} (h : HB tr i j) : i < j := by
  induction h with
  | po _ _ _ _ h _ _ _ => exact h
  | sw _ _ _ _ _ h _ _ => exact h
  | trans _ _ _ _ _ ih1 ih2 => omega

/-- …and the rejected cachex trace really is a data race: the worker's write of `err` and the status
    check's read are conflicting and not ordered by happens-before. -/
theorem C18_old_cache_err_race : ¬ RaceFree oldCacheErrTrace := by
  intro h
  have hb := h 0 1 (.wr 0) (.rd 1) (by omega) (by decide) (by decide) (by decide)
  -- no happens-before path from position 0 to position 1
  have key : ∀ i j, HB oldCacheErrTrace i j → i = 0 → j = 1 → False := by
    intro i j hij
    induction hij with
    | po i j e f hlt hi hj ht =>
      intro h0 h1; subst h0; subst h1
      simp [oldCacheErrTrace] at hi hj; subst hi; subst hj; simp [Ev.thr] at ht
    | sw i j t u a hlt hi hj =>
      intro h0 h1; subst h0; subst h1
      simp [oldCacheErrTrace] at hi
    | trans i j k h1 h2 _ _ =>
      intro h0 hk; subst h0; subst hk
      have := C18_hb_lt h1; have := C18_hb_lt h2; omega
  exact key 0 1 hb rfl rfl

/-! Non-vacuity: each protocol has executions that exercise every kind of step. -/
example : ((PubState.init 0).run [.write, .creatorRead, .release 0 5, .acquire 1 5, .read 1, .release 1 6,
    .acquire 2 6, .read 2]).isSome = true := by decide
example : (MuState.init.run [.lock 1, .write 1, .unlock 1, .lock 2, .read 2, .write 2, .unlock 2]).isSome = true := by
  decide
example : (AntsState.init.run [.dispatch, .take, .dispWin, .innerClose, .dispRead, .dispatch, .take, .innerWin,
    .innerClose, .dispWait, .dispRead, .finish, .clientGet 7, .clientGet 8]).isSome = true := by decide
/-- a reader that acquired BEFORE the publication does not know, so its read is not an execution -/
example : ((PubState.init 0).run [.write, .acquire 1 5, .release 0 5, .read 1]).isSome = false := by decide
