import Got.Model.Ants
import Got.Lemmas.Ants
/- property theorems of C07 (only theorems + non-vacuity examples live here) -/
open Got.Model.Ants

/-- the schedule of the torn-result defect on the code before the decided flag (N = 1, T = 1000, R = 2) -/
def c07TornActs : List Act :=
  [.send 0 { timeout := 1000, retry := 2, discard := true, hasCb := true }, .busyTest 0, .enq 0, .take 0,
   .loopTest 0, .sendCl 0, .wTake 0 0 0, .wStart 0 0 false, .hook3 0, .advance 900, .wEnd 0 0 7 .nil, .wCheck 0 0,
   .advance 1000, .fire 0 0, .selCtx 0, .hook2 0, .writeDE 0, .cancel 0, .errTest 0,
   .loopTest 0, .sendCl 0, .hook3 0, .advance 2000, .fire 0 1, .selCtx 0, .hook2 0, .writeDE 0, .cancel 0, .errTest 0,
   .loopTest 0, .onError 0, .wgDone 0,
   .hook1 0 0, .wWrite 0 0]

/-- OLD code: after onError(DeadlineExceeded) and Done (first Get2 = (nil, DE)) the first attempt's write lands:
    a later Get2 returns (7, nil). -/
theorem C07_old_torn :
    ∃ s, run { N := 1, old := true } init c07TornActs = some s ∧
      (s.task 0).pc = .done ∧ (s.task 0).got = some (0, .de) ∧ (s.task 0).onErr = [(.de, 2000)] ∧
      get2 (s.task 0) = some (7, .nil) := by
  refine ⟨(run { N := 1, old := true } init c07TornActs).getD init, run_eq_some_getD (by decide), ?_, ?_, ?_, ?_⟩ <;> decide
