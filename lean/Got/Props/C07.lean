/- property theorems of C07 (only theorems + non-vacuity examples live here) -/
