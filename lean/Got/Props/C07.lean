import Got.Model.Ants
import Got.Lemmas.AntsQueues
import Got.Lemmas.AntsLive
/-
C07 — ants: every accepted task completes once with a result matching its attempts.
Model: Got.Model.Ants (timed LTS of pool.go, pool_impl.go, task_callback_ants.go, task_option.go,
task_discard.go).  All theorems quantify over every reachable state of the current code
(`c.old = false`), i.e. over all pool sizes, all Send streams and options, all handler behaviours
(environment transitions wStart / wEnd), all interleavings and all timings.
"outcome of attempt a" = `Att.outcome`: the handler's pair if the closure won the decided flag
(`decided = 1`, possible only after its ctx check saw the context not done: `sawLive`), or
(nil, DeadlineExceeded) if the dispatcher won it (`decided = 2`).  The flag is a single word that
is written only by a successful CAS from 0, so exactly one side decides each attempt.
Liveness at quiescence (`C07_quiescent_invocations`, `C07_invoked_between_1_and_R`): `Quiescent c s`
(Got.Model.AntsLive) = no internal transition of the model is enabled (internal = everything except a client calling
Send, a handler returning, and the clock: i.e. the rest of Send, all dispatcher and inner-worker steps including
entering the handler, and the firing of a due context timer) and no handler call is in progress.  In every reachable
quiescent state the handler has been invoked exactly once for each attempt begun, so a finished accepted task's
handler ran between 1 and R times; moreover (`C07_quiescent_shape`) both channels are empty, all inner workers are
free, no context timer is armed and every task handed to Send is done or discarded.  `idle` is the executable form of
`Quiescent` (`C07_quiescent_decidable`).  Quiescence is inevitable once Sends stop and handlers return: the number of
non-clock transitions of any Send-free run is bounded (`C07_bounded_work`) and a non-quiescent state is never stuck
(`C07_progress`); from every reachable state a quiescent one is reachable without further Sends
(`C07_quiescence_reachable`).  Scope of the statement: like the whole model it assumes the pool is not
finalized while tasks are in flight (the model has no transition closing `closeChan`); what the real code does when
it is, is recorded in DESIGN.md.
-/
open Got.Model.Ants

/-- attempts and invocations: invocations ≤ attempts begun ≤ R; at most one invocation per attempt and none for
    attempts not begun; a finished accepted task made ≥ 1 attempt; attempt a+1 was begun only after attempt a was
    decided with a non-nil error. -/
theorem C07_attempts (c : Cfg) (hc : c.old = false) (s : State) (hr : Reachable c s) (k : Nat) :
    (s.task k).inv ≤ (s.task k).att ∧ (s.task k).att ≤ (s.task k).R ∧
    (∀ a, ((s.task k).at_ a).starts ≤ 1 ∧ ((s.task k).att ≤ a → ((s.task k).at_ a).starts = 0)) ∧
    ((s.task k).pc = .done → 1 ≤ (s.task k).att) ∧
    (∀ a, a + 1 < (s.task k).att → ∃ p, ((s.task k).at_ a).outcome = some p ∧ p.2 ≠ .nil) := by
  have ok := inv_reachable hc hr k
  have hst : ∀ a, ((s.task k).at_ a).starts ≤ 1 := by
    intro a; have := (ok.atts a).2.2.2.2.2.2; split at this <;> omega
  refine ⟨?_, ok.att_le, ?_, ?_, ?_⟩
  · rw [ok.inv_eq]; exact sumStarts_le _ _ hst
  · intro a; refine ⟨hst a, ?_⟩; intro h; rw [ok.beyond a h]
  · intro h; exact ok.att_pos (by simp [h, TPc.pre]) (by simp [h])
  · intro a ha
    obtain ⟨h0, _, h1⟩ := ok.past a ha
    have hle := (ok.atts a).2.2.2.2.2.1
    by_cases hd : ((s.task k).at_ a).decided = 1
    · obtain ⟨v, e, hv, he⟩ := h1 hd
      exact ⟨(v, e), by simp [Att.outcome, hd, hv], he⟩
    · have : ((s.task k).at_ a).decided = 2 := by omega
      exact ⟨(0, .de), by simp [Att.outcome, this], by simp⟩

/-- at Done the published pair is the outcome of the last attempt; a handler's pair counts only if its closure saw
    the context not done; the task stopped at the first success or after R attempts; every earlier attempt failed;
    Get2 returns that pair. -/
theorem C07_outcome (c : Cfg) (hc : c.old = false) (s : State) (hr : Reachable c s) (k : Nat)
    (hd : (s.task k).pc = .done) :
    1 ≤ (s.task k).att ∧ (s.task k).att ≤ (s.task k).R ∧
    ((s.task k).at_ (s.task k).cur).outcome = some ((s.task k).result, (s.task k).err) ∧
    (((s.task k).at_ (s.task k).cur).decided = 1 → ((s.task k).at_ (s.task k).cur).sawLive = true) ∧
    ((s.task k).err = .nil ∨ (s.task k).att = (s.task k).R) ∧
    (∀ a, a + 1 < (s.task k).att → ∃ p, ((s.task k).at_ a).outcome = some p ∧ p.2 ≠ .nil) ∧
    get2 (s.task k) = some ((s.task k).result, (s.task k).err) ∧
    (s.task k).got = some ((s.task k).result, (s.task k).err) := by
  have ok := inv_reachable hc hr k
  have hatt : 1 ≤ (s.task k).att := ok.att_pos (by simp [hd, TPc.pre]) (by simp [hd])
  have ax := ok.atts (s.task k).cur
  have hnw := no_write ok (by simp [hd, TPc.waiting]) (s.task k).cur
  have h0 : ((s.task k).at_ (s.task k).cur).decided ≠ 0 := by
    intro h; have := ok.dec0 hatt h; simp [hd, TPc.preDecide] at this
  refine ⟨hatt, ok.att_le, ?_, fun h => (ax.2.2.2.1 h).1, ok.errFin (by simp [hd, TPc.fin]),
    (C07_attempts c hc s hr k).2.2.2.2, by simp [get2, hd], ok.gotD hd⟩
  by_cases h1 : ((s.task k).at_ (s.task k).cur).decided = 1
  · have hac := (ax.2.2.2.1 h1).2.2
    have hf : ((s.task k).at_ (s.task k).cur).pc.fin = true := by
      cases hpc : ((s.task k).at_ (s.task k).cur).pc <;> simp_all [CPc.afterCas, CPc.isWrite, CPc.fin]
    simp [Att.outcome, h1, ok.pub1 hatt h1 hf]
  · have h2 : ((s.task k).at_ (s.task k).cur).decided = 2 := by have := ax.2.2.2.2.2.1; omega
    obtain ⟨hr0, he⟩ := ok.pub2 hatt h2 (by simp [hd])
    simp [Att.outcome, h2, hr0, he]

/-- once Get2 is unblocked (task done or discarded) nothing any goroutine does afterwards changes what Get2 returns,
    the onError log, or the number of attempts. -/
theorem C07_outcome_stable (c : Cfg) (hc : c.old = false) (s : State) (hr : Reachable c s) (k : Nat)
    (hd : (s.task k).pc = .done ∨ (s.task k).pc = .discarded) (acts : List Act) (s2 : State)
    (h : run c s acts = some s2) :
    get2 (s2.task k) = get2 (s.task k) ∧ (s2.task k).onErr = (s.task k).onErr ∧ (s2.task k).att = (s.task k).att := by
  have f := run_frozen hc (inv_reachable hc hr) k hd h
  obtain ⟨f1, f2, f3, f4, _, f6, _, _⟩ := f
  refine ⟨?_, f4, f6⟩
  simp [get2, f1, f2, f3]

/-- the error callback: never before the task's loop is over; from the instant before wg.Done on (stages wgDone, done)
    it has been called exactly once iff the final error is non-nil (and a callback was given), with that error. -/
theorem C07_onerror (c : Cfg) (hc : c.old = false) (s : State) (hr : Reachable c s) (k : Nat) :
    (((s.task k).pc = .wgDone ∨ (s.task k).pc = .done) →
        (s.task k).onErr.map Prod.fst =
          if (s.task k).err ≠ .nil ∧ (s.task k).hasCb then [(s.task k).err] else []) ∧
    ((s.task k).pc ≠ .discarded → (s.task k).pc ≠ .wgDone → (s.task k).pc ≠ .done → (s.task k).onErr = []) := by
  have ok := inv_reachable hc hr k
  constructor
  · intro h; exact ok.onErrF (by rcases h with h | h <;> simp [h, TPc.fin])
  · intro h1 h2 h3
    exact ok.onErr0 h1 (by cases hp : (s.task k).pc <;> simp_all [TPc.fin])

/-- a task rejected as busy: Get2 reports the discard error, the callback (if any) got exactly that error, no attempt
    was begun and the handler was never invoked. -/
theorem C07_discard (c : Cfg) (hc : c.old = false) (s : State) (hr : Reachable c s) (k : Nat)
    (hd : (s.task k).pc = .discarded) :
    get2 (s.task k) = some (0, .discard) ∧
    (s.task k).onErr.map Prod.fst = (if (s.task k).hasCb then [Err.discard] else []) ∧
    (s.task k).att = 0 ∧ (s.task k).inv = 0 ∧ ∀ a, ((s.task k).at_ a).starts = 0 := by
  have ok := inv_reachable hc hr k
  have h0 : (s.task k).att = 0 := ok.pre0 (by simp [hd, TPc.pre])
  refine ⟨by simp [get2, hd], ok.onErrD hd, h0, ?_, ?_⟩
  · rw [ok.inv_eq, h0]; rfl
  · intro a; rw [ok.beyond a (by omega)]

/-- fidelity of the model: the three guards that the model adds to channel operations (`take` requires the received
    task to be in stage `queued`, `wTake` requires the received closure to be `queued`, `sendCl` requires the current
    attempt's closure not to have been sent yet) hold in every reachable state, so they never disable a transition the
    Go code could take; both channels hold every item at most once. -/
theorem C07_model_guards_redundant (c : Cfg) (hc : c.old = false) (s : State) (hr : Reachable c s) :
    (∀ k rest, s.taskQ = k :: rest → (s.task k).pc = .queued) ∧
    (∀ k a rest, s.innerQ = (k, a) :: rest → ((s.task k).at_ a).pc = .queued) ∧
    (∀ k, (s.task k).pc = .sendCl → ((s.task k).at_ (s.task k).cur).pc = .none) ∧
    s.taskQ.Nodup ∧ s.innerQ.Nodup := by
  have hq := queueInv_reachable hc hr
  have hi := inv_reachable hc hr
  refine ⟨?_, ?_, fun k hp => ((hi k).sendCl hp).1, hq.tnd, hq.ind⟩
  · intro k rest e; exact hq.tq k (by rw [e]; simp)
  · intro k a rest e; exact hq.iq k a (by rw [e]; simp)

/-! ### liveness at quiescence -/

/-- at quiescence (no goroutine of the pool can take a step, no due timer, every started handler has returned) the
    handler has been invoked exactly once for every attempt that was begun: invocations = attempts, for every task. -/
theorem C07_quiescent_invocations (c : Cfg) (hc : c.old = false) (s : State) (hr : Reachable c s)
    (hq : Quiescent c s) (k : Nat) :
    (s.task k).inv = (s.task k).att ∧ ∀ a, a < (s.task k).att → ((s.task k).at_ a).starts = 1 :=
  quiescent_inv_eq_att (live_reachable hc hr) hq k

/-- the property as stated: once the pool has nothing left to do, the handler of a task accepted by Send (finished,
    not discarded) has been invoked between 1 and R times (R = the effective retry count). -/
theorem C07_invoked_between_1_and_R (c : Cfg) (hc : c.old = false) (s : State) (hr : Reachable c s)
    (hq : Quiescent c s) (k : Nat) (hd : (s.task k).pc = .done) :
    1 ≤ (s.task k).inv ∧ (s.task k).inv ≤ (s.task k).R := by
  have h := (C07_quiescent_invocations c hc s hr hq k).1
  have ha := C07_attempts c hc s hr k
  rw [h]
  exact ⟨ha.2.2.2.1 hd, ha.2.1⟩

/-- what "nothing left to do" amounts to: both channels empty, every inner worker free, no handler running, every
    task handed to Send finished (or, in a pool of size 0 — which NewPool never builds — blocked in the enqueue),
    every attempt's closure has closed its doneChan and no context timer is armed. So the definition of `Quiescent`
    needs no separate clause about timers, and letting time pass cannot enable anything. -/
theorem C07_quiescent_shape (c : Cfg) (hc : c.old = false) (s : State) (hr : Reachable c s) (hq : Quiescent c s) :
    s.taskQ = [] ∧ s.innerQ = [] ∧ (∀ w, s.slot w = none) ∧ s.running = 0 ∧ dispatching s = 0 ∧
    (∀ k, (s.task k).pc = .none ∨ (s.task k).pc = .discarded ∨ (s.task k).pc = .done ∨
          ((s.task k).pc = .enq ∧ c.N = 0)) ∧
    (∀ k a, a < (s.task k).att → ((s.task k).at_ a).pc = .closed ∧ ((s.task k).at_ a).ctxDone = true) ∧
    armedTimer s = false := by
  have hL := live_reachable hc hr
  refine ⟨quiescent_taskQ hL hq, quiescent_innerQ hL hq, quiescent_slots_free hL hq, quiescent_running hL hq,
    quiescent_dispatching hL hq, quiescent_tasks hL hq,
    fun k a ha => ⟨quiescent_closed hL hq k a ha, quiescent_timers hL hq k a ha⟩, ?_⟩
  cases h : armedTimer s
  · rfl
  · simp only [armedTimer, List.any_eq_true, List.mem_range] at h
    obtain ⟨k, _, a, ha, hx⟩ := h
    rw [quiescent_timers hL hq k a ha] at hx
    cases hx

/-- `Quiescent` is decidable on reachable states: the executable `idle` (a scan of the finitely many candidate
    transitions of the tasks handed to Send so far) computes it. -/
theorem C07_quiescent_decidable (c : Cfg) (hc : c.old = false) (s : State) (hr : Reachable c s) :
    Quiescent c s ↔ idle c s = true :=
  let hL := live_reachable hc hr
  quiescent_iff_idle hL.inv hL.supp

/-- where an attempt without handler invocation is, in EVERY reachable state: its closure has not been submitted yet
    and its dispatcher stands before the send into innerCallbackChan; or it is inside innerCallbackChan; or an inner
    worker w < N holds it and is about to call the handler. -/
theorem C07_uninvoked_located (c : Cfg) (hc : c.old = false) (s : State) (hr : Reachable c s) (k a : Nat)
    (ha : a < (s.task k).att) (h0 : ((s.task k).at_ a).starts = 0) :
    (((s.task k).at_ a).pc = .none ∧ (s.task k).pc = .sendCl ∧ a + 1 = (s.task k).att) ∨
    (((s.task k).at_ a).pc = .queued ∧ (k, a) ∈ s.innerQ) ∨
    (∃ w, ((s.task k).at_ a).pc = .taken w ∧ s.slot w = some (k, a) ∧ w < c.N) :=
  uninvoked_located (live_reachable hc hr) k a ha h0

/-- progress: as long as some begun attempt of some task has no handler invocation yet, the pool is not stuck — some
    internal transition is enabled, or a handler is still running (whose return is the environment's move). -/
theorem C07_progress (c : Cfg) (hc : c.old = false) (s : State) (hr : Reachable c s) (k : Nat)
    (h : (s.task k).inv < (s.task k).att) :
    (∃ act, act.internal = true ∧ (step c s act).isSome = true) ∨
    (∃ k' a w hon, ((s.task k').at_ a).pc = .running w hon) := by
  apply Classical.byContradiction
  intro hn
  have hq : Quiescent c s := by
    constructor
    · intro act hi
      cases hs : step c s act with
      | none => rfl
      | some s2 => exact absurd (Or.inl ⟨act, hi, by simp [hs]⟩) hn
    · intro k' a w hon hp
      exact hn (Or.inr ⟨k', a, w, hon, hp⟩)
  have := (C07_quiescent_invocations c hc s hr hq k).1
  omega

/-- quiescence is inevitable after the last Send: along any Send-free run from a reachable state the number of
    non-clock transitions (steps of clients inside Send, dispatchers, inner workers, timer firings AND handler returns)
    is bounded by the finite quantity `work s` (24 per attempt not yet begun + the remaining stages of every dispatcher,
    closure and timer). So under fair scheduling, once Sends stop and every started handler returns, after at most
    `work s` transitions none is possible any more, and that state is `Quiescent` (by `C07_progress`: a non-quiescent
    state has an enabled internal transition or a running handler) — where `C07_quiescent_invocations` applies. -/
theorem C07_bounded_work (c : Cfg) (hc : c.old = false) (s : State) (hr : Reachable c s) (acts : List Act) (s2 : State)
    (h : run c s acts = some s2) (hns : ∀ a, a ∈ acts → a.isSend = false) :
    (acts.filter (fun a => !a.isClock)).length + work s2 ≤ work s :=
  run_work hc (live_reachable hc hr) hns h

/-- the quiescence theorems are never vacuous: EVERY reachable state can be continued, without any further Send, to a
    quiescent one (let the pool's goroutines run and every running handler return; no time needs to pass); by
    `C07_bounded_work` every such continuation is finite. -/
theorem C07_quiescence_reachable (c : Cfg) (hc : c.old = false) (s : State) (hr : Reachable c s) :
    ∃ acts s2, run c s acts = some s2 ∧ (∀ a, a ∈ acts → a.isSend = false) ∧ Quiescent c s2 :=
  reaches_quiescent hc (work s) s (live_reachable hc hr) (Nat.le_refl _)

/-! non-vacuity: a reachable finished task with two attempts (first timed out, second succeeded), and a discarded one -/
def c07DemoActs : List Act :=
  [.send 0 { timeout := 1000, retry := 2, discard := true, hasCb := true }, .busyTest 0, .enq 0, .take 0,
   .loopTest 0, .sendCl 0, .wTake 0 0 0, .wStart 0 0 true, .hook3 0,
   .send 1 { timeout := 1000, retry := 1, discard := true, hasCb := true }, .busyTest 1, .enq 1,
   .send 2 { timeout := 1000, retry := 1, discard := true, hasCb := true }, .busyTest 2, .discardCb 2,
   .advance 1000, .fire 0 0, .selCtx 0, .hook2 0, .decide 0, .writeDE 0, .cancel 0, .errTest 0,
   .wEnd 0 0 0 (.h 999), .wCheck 0 0, .wClose 0 0,
   .loopTest 0, .sendCl 0, .wTake 0 1 0, .wStart 0 1 true, .hook3 0, .advance 1500, .wEnd 0 1 8 .nil, .wCheck 0 1,
   .hook1 0 1, .wCas 0 1, .hook4 0 1, .wWrite 0 1, .wClose 0 1, .selDone 0, .decide 0, .waitDone 0, .cancel 0, .errTest 0, .wgDone 0]

example : ∃ s, Reachable { N := 1 } s ∧ (s.task 0).pc = .done ∧ (s.task 0).att = 2 ∧
    get2 (s.task 0) = some (8, .nil) ∧ (s.task 2).pc = .discarded ∧ (s.task 2).onErr = [(.discard, 0)] := by
  refine ⟨(run { N := 1 } init c07DemoActs).getD init, ⟨c07DemoActs, run_eq_some_getD (by decide)⟩, ?_, ?_, ?_, ?_, ?_⟩ <;> decide

/-! non-vacuity of the quiescence theorems: the demo run continued until the pool has nothing left to do (task 1 is
    picked up and finishes): a reachable quiescent state with a finished task that made a retry, inv = att = 2 ≤ R = 2;
    and the demo state itself (task 1 still in taskChan) is reachable but not quiescent. -/
def c07QuietActs : List Act :=
  c07DemoActs ++
  [.take 1, .loopTest 1, .sendCl 1, .wTake 1 0 0, .wStart 1 0 true, .hook3 1, .wEnd 1 0 5 .nil, .wCheck 1 0,
   .hook1 1 0, .wCas 1 0, .hook4 1 0, .wWrite 1 0, .wClose 1 0, .selDone 1, .decide 1, .waitDone 1, .cancel 1,
   .errTest 1, .wgDone 1]

theorem C07_quiescent_witness :
    ∃ s, Reachable { N := 1 } s ∧ Quiescent { N := 1 } s ∧ (s.task 0).pc = .done ∧ (s.task 0).R = 2 ∧
      (s.task 0).inv = 2 ∧ (s.task 0).att = 2 ∧ (s.task 1).pc = .done ∧ (s.task 1).inv = 1 ∧
      (s.task 2).pc = .discarded ∧ (s.task 2).inv = 0 := by
  have hr : Reachable { N := 1 } ((run { N := 1 } init c07QuietActs).getD init) :=
    ⟨c07QuietActs, run_eq_some_getD (by decide)⟩
  refine ⟨_, hr, (C07_quiescent_decidable { N := 1 } rfl _ hr).mpr (by decide), ?_, ?_, ?_, ?_, ?_, ?_, ?_, ?_⟩ <;>
    decide

theorem C07_not_quiescent_witness :
    ∃ s, Reachable { N := 1 } s ∧ ¬ Quiescent { N := 1 } s ∧ (s.task 0).pc = .done ∧ (s.task 1).pc = .queued := by
  have hr : Reachable { N := 1 } ((run { N := 1 } init c07DemoActs).getD init) :=
    ⟨c07DemoActs, run_eq_some_getD (by decide)⟩
  refine ⟨_, hr, ?_, by decide, by decide⟩
  intro hq
  have := (C07_quiescent_decidable { N := 1 } rfl _ hr).mp hq
  revert this
  decide

/-- non-vacuity of `C07_bounded_work`: right after `Send` with R = 2 the budget is 2·24 + 14 = 62; the run of task 0 in
    the complete demo run ends with 24 left (the unused attempt budget of the discarded task 2) -/
example : work ((run { N := 1 } init [.send 0 { timeout := 1000, retry := 2, discard := true, hasCb := true }]).getD init) = 62 ∧
    work ((run { N := 1 } init c07QuietActs).getD init) = 24 := by
  constructor <;> decide

/-! ### the two defects of the code before the decided flag (`old = true`), kept as documentation -/

/-- the schedule of the torn-result defect on the code before the decided flag (N = 1, T = 1000, R = 2) -/
def c07TornActs : List Act :=
  [.send 0 { timeout := 1000, retry := 2, discard := true, hasCb := true }, .busyTest 0, .enq 0, .take 0,
   .loopTest 0, .sendCl 0, .wTake 0 0 0, .wStart 0 0 false, .hook3 0, .advance 900, .wEnd 0 0 7 .nil, .wCheck 0 0,
   .advance 1000, .fire 0 0, .selCtx 0, .hook2 0, .writeDE 0, .cancel 0, .errTest 0,
   .loopTest 0, .sendCl 0, .hook3 0, .advance 2000, .fire 0 1, .selCtx 0, .hook2 0, .writeDE 0, .cancel 0, .errTest 0,
   .loopTest 0, .onError 0, .wgDone 0,
   .hook1 0 0, .wWrite 0 0]

/-- OLD code: after onError(DeadlineExceeded) and Done (first Get2 = (nil, DE)) the first attempt's write lands:
    a later Get2 returns (7, nil). -/
theorem C07_old_torn :
    ∃ s, run { N := 1, old := true } init c07TornActs = some s ∧
      (s.task 0).pc = .done ∧ (s.task 0).got = some (0, .de) ∧ (s.task 0).onErr = [(.de, 2000)] ∧
      get2 (s.task 0) = some (7, .nil) := by
  refine ⟨(run { N := 1, old := true } init c07TornActs).getD init, run_eq_some_getD (by decide), ?_, ?_, ?_, ?_⟩ <;> decide

/-- the schedule of the empty-result defect (N = 1, T = 1000, R = 1): the handler returns at 1500, after the deadline -/
def c07EmptyActs : List Act :=
  [.send 0 { timeout := 1000, retry := 1, discard := true, hasCb := true }, .busyTest 0, .enq 0, .take 0,
   .loopTest 0, .sendCl 0, .wTake 0 0 0, .wStart 0 0 false, .advance 1000, .fire 0 0, .advance 1500,
   .wEnd 0 0 7 .nil, .wCheck 0 0, .wClose 0 0,
   .hook3 0, .selDone 0, .cancel 0, .errTest 0, .wgDone 0]

/-- OLD code: the closure skips its write (ctx done) and closes doneChan; the dispatcher's select takes the doneChan
    branch, so nobody writes: Get2 = (nil, nil) after one attempt whose handler returned after the deadline, onError
    not called. -/
theorem C07_old_empty :
    ∃ s, run { N := 1, old := true } init c07EmptyActs = some s ∧
      (s.task 0).pc = .done ∧ get2 (s.task 0) = some (0, .nil) ∧ (s.task 0).att = 1 ∧ (s.task 0).onErr = [] ∧
      ((s.task 0).at_ 0).ret = some (7, .nil) ∧ ((s.task 0).at_ 0).deadline < ((s.task 0).at_ 0).hEnd := by
  refine ⟨(run { N := 1, old := true } init c07EmptyActs).getD init, run_eq_some_getD (by decide), ?_, ?_, ?_, ?_, ?_, ?_⟩ <;> decide
