/- property theorems of C06 (only theorems + non-vacuity examples live here) -/
