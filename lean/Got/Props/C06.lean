/- property theorems of C06 (only theorems + non-vacuity examples live here) -/
import Got.Model.Cache
open Got.Model.Cache

theorem C06_placeholder_init_no_progress (cfg : Cfg) (c : Cid) : clStep cfg init c = none := rfl
