/- property theorems of C06 (only theorems + non-vacuity examples live here)

C06 (liveness): provided every loader returns, every Load/Get/Set returns and every Future resolves, for every
parallelism P ≥ 1 and job-queue size J ≥ 1.  In the LTS `Got.Model.Cache` "the loader returns" is the environment
action `wEnd`; it counts as a transition that is enabled while a worker is inside a loader.
  C06_bounded_work    a measure μ strictly decreasing on every client / worker / loader transition (so between two
                      clock / tick / invocation events only finitely many steps happen)
  C06_quiescent_done  (see below) every reachable state without an enabled client/worker/loader transition has all
                      calls returned and all futures resolved
  C06_old_deadlock    the code before the fix (job sent under the shard lock): P = 1, J = 1 reaches a state with no
                      enabled transition in which a Load is blocked for ever
-/
import Got.Lemmas.CacheLive
import Got.Lemmas.CacheQuiescent
open Got.Model.CacheCore Got.Model.Cache Got.Spec.Cache Got.Lemmas.Cache

/-- C06 measure: for every finite set of clients `cs` and workers `ws` that contains the acting agent, every
    client / worker / loader transition strictly decreases
      μ = Σ_{c∈cs} remaining steps of c (a job not yet sent counts 7) + Σ_{w∈ws} remaining steps of w
          + 6·|job queue| + (S+2 if a tick is pending).
    Holds for every state (no reachability needed), every P, J, S and both variants of Load. -/
theorem C06_bounded_work (cfg : Cfg) (s s' : State) (a : Act) (cs ws : List Nat) (hcs : cs.Nodup) (hws : ws.Nodup)
    (hprog : a.isProgress = true) (hin : actorIn cs ws a) (h : step? cfg s a = some s') :
    mu cfg cs ws s' < mu cfg cs ws s :=
  mu_decr cfg s s' a cs ws hcs hws hprog hin h

/-- the clock does not change μ (delay, tick arrival and new invocations are the only non-decreasing actions) -/
theorem C06_bounded_work_delay (cfg : Cfg) (cs ws : List Nat) (s : State) (d : Nat) :
    (∀ s', step? cfg s (.delay d) = some s' → mu cfg cs ws s' = mu cfg cs ws s) := by
  intro s' h
  simp only [step?, Option.some.injEq] at h
  subst h; rfl

-- non-vacuity: a concrete decreasing step (the Load critical section from the initial state after an invocation)
example : mu fixedCfg [0] [0] (run fixedCfg init [.invLoad 0 0 0, .cl 0]) <
          mu fixedCfg [0] [0] (run fixedCfg init [.invLoad 0 0 0]) := by decide

/-- C06 (deadlock freedom of the fixed code): for all P ≥ 1, J ≥ 1, S, clients, keys – in every reachable state in
    which no client / worker / loader transition is enabled, every issued call has returned and every future is
    resolved.  (While a loader runs, its return `wEnd` is an enabled transition: "provided every loader returns".) -/
theorem C06_quiescent_done (cfg : Cfg) (s : State) (hfix : cfg.old = false) (hP : 1 ≤ cfg.P) (hJ : 1 ≤ cfg.J)
    (hr : Reachable cfg s) (hq : ¬ CanProgress cfg s) : AllReturned s ∧ AllResolved s :=
  quiescent_done cfg s hfix hP hJ (inv_reachable cfg s hr) hq

-- non-vacuity: the initial state is reachable and quiescent; and a complete Load (critical section, unlock, send,
-- return; worker: receive, loader start / end, the three setValue steps) ends with the call returned, the future resolved
example : Reachable fixedCfg init ∧ ¬ CanProgress fixedCfg init := by
  refine ⟨⟨[], rfl⟩, ?_⟩
  rintro ⟨a, ha, hs⟩
  cases a <;> simp [Act.isProgress] at ha <;> simp [step?, clStep, wkStep, init] at hs
example :
    let s := run fixedCfg init [.invLoad 0 0 0, .cl 0, .cl 0, .cl 0, .cl 0, .wTake 0, .wStart 0, .wEnd 0 ⟨some 7, none⟩,
                                .wk 0, .wk 0, .wk 0]
    s.cpc 0 = .done (.fut 0) ∧ (s.fut 0).done = true ∧ (s.fut 0).res = some ⟨some 7, none⟩ ∧ s.wpc 0 = .idle ∧
    s.chan = [] := by decide

/-- invariant I1 (fixed code): a lock holder always has an enabled step – critical sections contain no blocking operation -/
theorem C06_lock_holder_enabled (cfg : Cfg) (s : State) (hfix : cfg.old = false) (hr : Reachable cfg s)
    (sh : Nat) (c : Cid) (hl : s.lock sh = some c) : (step? cfg s (.cl c)).isSome = true := by
  have h := inv_reachable cfg s hr
  rcases h.l_holder sh c hl with ⟨send, plan, e⟩ | ⟨j, plan, e⟩
  · cases send <;> simp [step?, clStep, e]
  · have := h.l_fixed hfix c j plan (some sh) e; cases this

/-- invariant I2: every unresolved load-future has its job in exactly one of {its creator (about to send), the job
    channel, a worker}; `jobAt` is the ghost location, the three conjuncts say that the job really is there and
    (place ⇒ location, Inv.f_*) nowhere else -/
theorem C06_job_somewhere (cfg : Cfg) (s : State) (hr : Reachable cfg s) (f : FutId) (hf : f < s.nfut)
    (hd : (s.fut f).done = false) :
    (∃ c j, s.jobAt f = .creator c ∧ jobOf (s.cpc c) = some j ∧ j.fut = f) ∨
    (∃ j, s.jobAt f = .chan ∧ j ∈ s.chan ∧ j.fut = f) ∨
    (∃ w j, s.jobAt f = .worker w ∧ wjob (s.wpc w) = some j ∧ j.fut = f) := by
  have h := inv_reachable cfg s hr
  have hst := h.stage f hf
  unfold StageOK at hst
  cases hl : s.jobAt f with
  | nowhere => rw [hl] at hst; exact absurd hst id
  | creator c =>
    obtain ⟨j, hj, e⟩ := h.j_creator f c hf hl
    exact Or.inl ⟨c, j, rfl, hj, e⟩
  | chan =>
    obtain ⟨j, hj, e⟩ := h.j_chan f hf hl
    exact Or.inr (Or.inl ⟨j, rfl, hj, e⟩)
  | worker w =>
    obtain ⟨j, hj, e⟩ := h.j_worker f w hf hl
    exact Or.inr (Or.inr ⟨w, j, rfl, hj, e⟩)
  | finished => rw [hl] at hst; simp only at hst; rw [hst.1] at hd; cases hd

/-- … exactly one: two places holding a job for the same future coincide (channel entries are pairwise distinct) -/
theorem C06_job_unique (cfg : Cfg) (s : State) (hr : Reachable cfg s) :
    (∀ c c' j j', jobOf (s.cpc c) = some j → jobOf (s.cpc c') = some j' → j.fut = j'.fut → c = c') ∧
    (∀ w w' j j', wjob (s.wpc w) = some j → wjob (s.wpc w') = some j' → j.fut = j'.fut → w = w') ∧
    (s.chan.map (·.fut)).Nodup ∧
    (∀ c j j', jobOf (s.cpc c) = some j → j' ∈ s.chan → j.fut ≠ j'.fut) ∧
    (∀ c w j j', jobOf (s.cpc c) = some j → wjob (s.wpc w) = some j' → j.fut ≠ j'.fut) ∧
    (∀ w j j', wjob (s.wpc w) = some j → j' ∈ s.chan → j.fut ≠ j'.fut) := by
  have h := inv_reachable cfg s hr
  refine ⟨?_, ?_, h.f_nodup, ?_, ?_, ?_⟩
  · intro c c' j j' h1 h2 e
    have l1 := h.f_creator c j h1; have l2 := h.f_creator c' j' h2
    rw [e, l2] at l1; exact (Loc.creator.inj l1).symm
  · intro w w' j j' h1 h2 e
    have l1 := h.f_worker w j h1; have l2 := h.f_worker w' j' h2
    rw [e, l2] at l1; exact (Loc.worker.inj l1).symm
  · intro c j j' h1 h2 e
    have l1 := h.f_creator c j h1; have l2 := h.f_chan j' h2
    rw [e, l2] at l1; cases l1
  · intro c w j j' h1 h2 e
    have l1 := h.f_creator c j h1; have l2 := h.f_worker w j' h2
    rw [e, l2] at l1; cases l1
  · intro w j j' h1 h2 e
    have l1 := h.f_worker w j h1; have l2 := h.f_chan j' h2
    rw [e, l2] at l1; cases l1

/-- contract panics do not poison the cache: a call that violates the contract (nil loader, nil key, unsupported key
    type) panics before the shard lock is taken and before any shared access – as a transition it is the identity, so
    reachability, the invariants and every theorem above are unaffected and the caller that recovers finds the cache as
    it was (in particular no lock is left held: `C06_lock_holder_enabled`) -/
theorem C06_contract_panic_harmless (cfg : Cfg) (s : State) (v : Contract) :
    contractPanic s v = s ∧ (Reachable cfg s → Reachable cfg (contractPanic s v)) ∧
    (CanProgress cfg (contractPanic s v) ↔ CanProgress cfg s) :=
  ⟨rfl, id, Iff.rfl⟩

/-- the deadlock of the code before the fix, `decide`d on the model's old variant (`cfg.old = true`: sendJob inside
    the critical section): P = 1, J = 1, two Loads over keys of distinct shards and a pending tick. -/
theorem C06_old_deadlock :
    let s := run oldCfg init deadlockActs
    -- no client / worker / loader transition is enabled …
    (∀ a : Act, a.isProgress = true → (step? oldCfg s a).isSome = false) ∧
    -- … although Load c1 is blocked in sendJob holding the lock of shard 1, the worker is blocked in the sweep
    -- before shard 1, a job is queued and its future unresolved
    s.cpc 1 = .ldSend ⟨1, 1, 1⟩ (.ret 1) (some 1) ∧ s.lock 1 = some 1 ∧ s.wpc 0 = .sweep 1 ∧
    s.chan = [⟨0, 0, 0⟩] ∧ (s.fut 0).done = false ∧ ¬ AllReturned s := by
  intro s
  have hc : ∀ c, c ≠ 0 → c ≠ 1 → s.cpc c = .idle := by
    intro c h0 h1
    have := run_cpc_frame oldCfg deadlockActs init c (by
      intro a ha
      simp only [deadlockActs, List.mem_cons, List.mem_nil_iff, or_false] at ha
      rcases ha with rfl | rfl | rfl | rfl | rfl | rfl | rfl | rfl | rfl | rfl <;> simp [actClient?] <;>
        (intro e; first | exact h0 e.symm | exact h1 e.symm))
    exact this.trans rfl
  have hw : ∀ w, w ≠ 0 → s.wpc w = .idle := by
    intro w h0
    have := run_wpc_frame oldCfg deadlockActs init w (by
      intro a ha
      simp only [deadlockActs, List.mem_cons, List.mem_nil_iff, or_false] at ha
      rcases ha with rfl | rfl | rfl | rfl | rfl | rfl | rfl | rfl | rfl | rfl <;> simp [actWorker?] <;>
        (intro e; exact h0 e.symm))
    exact this.trans rfl
  refine ⟨?_, by decide, by decide, by decide, by decide, by decide, ?_⟩
  · intro a ha
    cases a with
    | invLoad c k ld => simp [Act.isProgress] at ha
    | invGet2 c k => simp [Act.isProgress] at ha
    | invSet c k r => simp [Act.isProgress] at ha
    | invFGet c o => simp [Act.isProgress] at ha
    | tick => simp [Act.isProgress] at ha
    | delay d => simp [Act.isProgress] at ha
    | cl c =>
      by_cases h0 : c = 0
      · subst h0; decide
      · by_cases h1 : c = 1
        · subst h1; decide
        · simp [step?, clStep, hc c h0 h1]
    | wTake w =>
      by_cases h0 : w = 0
      · subst h0; decide
      · have : ¬ w < oldCfg.P := by simp [oldCfg]; omega
        simp [step?, this]
    | wTick w =>
      by_cases h0 : w = 0
      · subst h0; decide
      · have : ¬ w < oldCfg.P := by simp [oldCfg]; omega
        simp [step?, this]
    | wStart w =>
      by_cases h0 : w = 0
      · subst h0; decide
      · simp [step?, hw w h0]
    | wEnd w r =>
      by_cases h0 : w = 0
      · subst h0
        have hw0 : s.wpc 0 = .sweep 1 := by decide
        simp [step?, hw0]
      · simp [step?, hw w h0]
    | wk w =>
      by_cases h0 : w = 0
      · subst h0; decide
      · simp [step?, wkStep, hw w h0]
  · intro hall
    have h1 : s.cpc 1 = .ldSend ⟨1, 1, 1⟩ (.ret 1) (some 1) := by decide
    rcases hall 1 with h | ⟨o, h⟩ <;> rw [h1] at h <;> cases h

/-- the same schedule on the fixed code: the Load's next step is its Unlock (enabled), after which the sweeping
    worker proceeds – nobody blocks while holding a lock -/
theorem C06_fixed_schedule_progresses :
    (step? fixedCfg (run fixedCfg init deadlockActs) (.cl 1)).isSome = true ∧
    (step? fixedCfg (run fixedCfg init (deadlockActs ++ [.cl 1])) (.wk 0)).isSome = true := by decide
