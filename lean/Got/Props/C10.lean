/- property theorems of C10 (only theorems + non-vacuity examples live here) -/
