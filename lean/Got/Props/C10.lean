import Got.Lemmas.Delayed
import Got.Lemmas.HeapAstAll
import Got.Lemmas.DelayedHeapEq
/-
C10 — taskx.SendDelayed: never early, less than one tick late, in deadline order, exactly once.

All theorems are about Got.Model.Delayed (every finite list of actions = every multiset of requests, every
interleaving of senders, loop, ticker, consumers and time).  `x ∈ s.forwarded` = request `x.1` was placed on its
queue `x.1.queue` at instant `x.2`;  `x.1.trigger` = issue instant + d (the deadline),  `x.1.sent` = issue instant.
`blockedEver = false` = time never passed while the loop was parked on a full target queue (the property's
proviso "as long as the queues being targeted have room").
Trusted: Go channel / select / Ticker semantics and maximal progress as encoded in the model's `step`.
-/
open Got.Model.Delayed Got.Model.DelayedHeap

/-- the ticker period of the model is the source's literal: 1000 ms -/
theorem C10_tick_period : tickNs = 1000000000 := by decide

/-- The heap lemma for the transcription of container/heap (Less = triggerTime <): Push and Pop preserve the heap
    invariant, the root is a minimal element, Push adds exactly the pushed element and Pop removes exactly the root. -/
theorem C10_heap_lemma (h : Array Req) (hh : HeapN rkey h h.size) :
    (∀ r, HeapN rkey (push less h r) (push less h r).size ∧ (push less h r).toList.Perm (h.toList ++ [r])) ∧
    HeapN rkey (pop less h) (pop less h).size ∧
    (∀ top, h[0]? = some top → (∀ r ∈ h.toList, top.trigger ≤ r.trigger) ∧ ((pop less h).toList ++ [top]).Perm h.toList) := by
  refine ⟨fun r => ⟨?_, heap_push_perm h r⟩, ?_, fun top ht => ⟨heap_top_min h top ht hh, heap_pop_perm h top ht⟩⟩
  · rw [push_size]; exact push_heap rkey less less_iff h r hh
  · rw [pop_size]; exact pop_heap rkey less less_iff h hh

/-- the priority queue of the loop is a heap in every reachable state -/
theorem C10_heap_invariant (qcap : Nat → Nat) (acts : List Act) :
    HeapN rkey (run qcap acts).heap (run qcap acts).heap.size := (invA_run qcap acts).heapOk

/-- Never early (no proviso): a request is placed on its queue only at an instant ≥ its deadline (and, for negative
    delays, not before it was issued). -/
theorem C10_not_early (qcap : Nat → Nat) (acts : List Act) :
    ∀ x ∈ (run qcap acts).forwarded, x.1.trigger ≤ (x.2 : Int) ∧ x.1.sent ≤ x.2 :=
  fun x hx => ⟨((invA_run qcap acts).fwdOk x hx).1, ((invA_run qcap acts).fwdOk x hx).2.2⟩

/-- Less than one tick late.  While the loop was never blocked on a full target queue, a request is placed on its
    queue at a tick instant `t` (a multiple of the period) that is less than one tick after max(deadline, issue
    instant) — i.e. at the first tick ≥ both.  The only exception is the exact coincidence: a request issued exactly
    at a tick instant whose deadline is already reached (d ≤ 0) may be processed after that tick's run and is then
    placed exactly one tick later (`t = sent + tick`).
    Requests that are still outstanding are never more than one tick past max(deadline, issue instant). -/
theorem C10_lt_one_tick (qcap : Nat → Nat) (acts : List Act) (hroom : (run qcap acts).blockedEver = false) :
    let s := run qcap acts
    (∀ x ∈ s.forwarded, x.2 % tickNs = 0 ∧
      ((x.2 : Int) < x.1.trigger + tickNs ∨ (x.2 : Int) < (x.1.sent : Int) + tickNs ∨
       (x.2 = x.1.sent + tickNs ∧ x.1.sent % tickNs = 0 ∧ x.1.trigger ≤ (x.1.sent : Int)))) ∧
    (∀ r ∈ outstanding s, (s.now : Int) < r.trigger + tickNs ∨ (s.now : Int) ≤ (r.sent : Int) + tickNs) := by
  intro s
  have hA := invA_run qcap acts
  have hB := invB_run qcap acts hroom
  exact ⟨fun x hx => hB.fwdLate x hx, outstanding_not_overdue hA hB⟩

/-- hence, for a positive delay (or an issue instant that is not a tick instant): strictly less than one tick
    after the deadline -/
theorem C10_lt_one_tick_pos (qcap : Nat → Nat) (acts : List Act) (hroom : (run qcap acts).blockedEver = false) :
    ∀ x ∈ (run qcap acts).forwarded, (x.1.sent : Int) ≤ x.1.trigger →
      ((x.1.sent : Int) < x.1.trigger ∨ x.1.sent % tickNs ≠ 0) → (x.2 : Int) < x.1.trigger + tickNs := by
  intro x hx hnn hpos
  have := ((C10_lt_one_tick qcap acts hroom).1 x hx).2
  rcases this with h | h | ⟨h1, h2, h3⟩
  · exact h
  · omega
  · rcases hpos with hpos | hpos
    · omega
    · exact absurd h2 hpos

/-- Exactly once: every request id ever issued (`a < nextId`) occurs exactly once among
    parked senders ++ request channel ++ heap ++ the request being handed over ++ forwarded ++ dropped
    (`dropped` = consumed through the closeChan branch of a CLOSED target queue — the only way a request ends without
    being placed), and no other id occurs; in particular no request is placed on a queue twice. -/
theorem C10_once (qcap : Nat → Nat) (acts : List Act) :
    (∀ a, idCount (run qcap acts) a = if a < (run qcap acts).nextId then 1 else 0) ∧
    ((run qcap acts).forwarded.map (fun x => x.1.id)).Nodup := by
  have hA := invA_run qcap acts
  refine ⟨hA.ids, ?_⟩
  rw [List.nodup_iff_count]
  intro a
  have h := hA.ids a
  have e : List.count a ((run qcap acts).forwarded.map (fun x => x.1.id)) = cP a ((run qcap acts).forwarded.map (·.1)) := by
    simp only [cP, List.count_eq_countP, List.countP_map]
    congr 1
  rw [e]
  unfold idCount at h
  split at h <;> omega

/-- Deadline order.  With delays ≥ 0 and while the loop was never blocked, requests are placed on queues in
    non-decreasing order of their deadlines — globally, hence on each target queue (across ticks and within a tick). -/
theorem C10_deadline_order (qcap : Nat → Nat) (acts : List Act) (hnn : ∀ a ∈ acts, NonNeg a)
    (hroom : (run qcap acts).blockedEver = false) :
    (run qcap acts).forwarded.Pairwise (fun x y => x.1.trigger ≤ y.1.trigger) ∧
    ∀ q, (((run qcap acts).forwarded.filter (fun x => x.1.queue = q)).map (fun x => x.1.trigger)).Pairwise (· ≤ ·) := by
  have h := (invC_run qcap acts hnn hroom).sorted
  refine ⟨h, fun q => ?_⟩
  rw [List.pairwise_map]
  exact h.filter _

/-! non-vacuity: concrete runs (kernel-evaluated) -/

/-- one request with d = 5 ns issued at 0: forwarded at the first tick, 1 s -/
def C10_demo1 : List Act :=
  [.sendDelayed 0 5, .enq 0, .pushReq, .delay 1000000000, .tickFire, .tickRecv, .tickTest, .forward, .tickTest]

example : (run (fun _ => 4) C10_demo1).forwarded.map (fun x => (x.1.id, x.2)) = [(0, 1000000000)] := by decide +kernel
example : (run (fun _ => 4) C10_demo1).blockedEver = false := by decide +kernel
example : ∀ a ∈ C10_demo1, NonNeg a := by simp [C10_demo1, NonNeg]

/-- three requests on one queue, deadlines 3, 1, 2 (ns): released in deadline order at the tick -/
def C10_demo2 : List Act :=
  [.sendDelayed 0 3, .sendDelayed 0 1, .sendDelayed 0 2, .enq 0, .enq 0, .enq 0, .pushReq, .pushReq, .pushReq,
   .delay 1000000000, .tickFire, .tickRecv, .tickTest, .forward, .tickTest, .forward, .tickTest, .forward, .tickTest]

example : (run (fun _ => 4) C10_demo2).forwarded.map (fun x => (x.1.trigger, x.2)) =
    [(1, 1000000000), (2, 1000000000), (3, 1000000000)] := by decide +kernel
example : (run (fun _ => 4) C10_demo2).blockedEver = false := by decide +kernel

/-- the exact coincidence: a request with d = 0 issued exactly at the tick instant 1 s, after the tick was taken:
    placed at 2 s = issue + one tick -/
def C10_demo3 : List Act :=
  [.delay 1000000000, .tickFire, .tickRecv, .sendDelayed 0 0, .enq 0, .tickTest, .pushReq,
   .delay 1000000000, .tickFire, .tickRecv, .tickTest, .forward, .tickTest]

example : (run (fun _ => 4) C10_demo3).forwarded.map (fun x => (x.1.sent, x.1.trigger, x.2)) =
    [(1000000000, 1000000000, 2000000000)] := by decide +kernel
example : (run (fun _ => 4) C10_demo3).blockedEver = false := by decide +kernel

/-- … and the other order of the two simultaneous events: the request is pushed before the tick is taken and is
    placed at once (1 s) -/
def C10_demo4 : List Act :=
  [.delay 1000000000, .tickFire, .sendDelayed 0 0, .enq 0, .pushReq, .tickRecv, .tickTest, .forward, .tickTest]

example : (run (fun _ => 4) C10_demo4).forwarded.map (fun x => (x.1.sent, x.1.trigger, x.2)) =
    [(1000000000, 1000000000, 1000000000)] := by decide +kernel

/-- a closed target queue does not stall the tick: queue 0 is closed, its task (deadline 1) is consumed through the
    closeChan branch and the open queue 1's task (deadline 2) is placed in the same tick -/
def C10_demo6 : List Act :=
  [.sendDelayed 0 1, .sendDelayed 1 2, .enq 0, .enq 0, .pushReq, .pushReq, .closeQ 0, .delay 1000000000, .tickFire,
   .tickRecv, .tickTest, .forwardDrop, .tickTest, .forward, .tickTest]

example : (run (fun _ => 4) C10_demo6).forwarded.map (fun x => (x.1.queue, x.2)) = [(1, 1000000000)] := by decide +kernel
example : (run (fun _ => 4) C10_demo6).dropped.map (fun x => x.queue) = [0] := by decide +kernel
example : (run (fun _ => 4) C10_demo6).blockedEver = false := by decide +kernel

/-- outside the proviso: a full target queue (capacity 1, nobody receives) blocks the loop -/
def C10_demo5 : List Act :=
  [.sendDelayed 0 1, .sendDelayed 0 2, .enq 0, .enq 0, .pushReq, .pushReq, .delay 1000000000, .tickFire, .tickRecv,
   .tickTest, .forward, .tickTest, .delay 1000000000]

example : (run (fun _ => 1) C10_demo5).blockedEver = true := by decide +kernel

/-! ## the translated source of container/heap under the delayed queue

std.PriorityQueue.Push / Pop are `heap.Push(my.s, x)` / `heap.Pop(my.s)` of Go's container/heap.  Its source
(`$GOROOT/src/container/heap/heap.go` of the toolchain that builds the harness) is re-translated on every run into
`Got/Generated/AstContainerHeap.lean` (tools/srcfacts/minigo_heap.go; embedding and interpreter Got/Model/MiniGoHeap.lean);
`pushAst` / `popAst` run the generated terms over the slice-backed heap.Interface (`Got.Model.HeapAst.heapWorld`: Len = size,
Less(i, j) = `lt a[i] a[j]`, Swap, Push = append, Pop = remove last — what std's `sorter` implements).  The theorems say
that these interpretations are exactly the model's own heap transcription `DelayedHeap.push` / `DelayedHeap.pop`, so
`C10_heap_lemma` and everything built on it hold for the library source as translated.  (The same generated terms are
compared with the running library on every case of the C20 correspondence, `drv_sample ast`.) -/
section TranslatedSource
open Got.Model.HeapAst Got.Generated.AstContainerHeap

/-- the translator accepted all functions of container/heap -/
theorem C10_translation_in_fragment : notes = ["ok", "ok", "ok", "ok", "ok", "ok", "ok"] := by decide

/-- **Translator tie, heap.Push**: the translated library source computes the model's `DelayedHeap.push` -/
theorem C10_translated_source_heap_Push_refines_model {α : Type} (lt : α → α → Bool) (a : Array α) (x : α)
    (hsz : a.size + 1 < 2 ^ 62) :
    ∃ f0, ∀ fuel, f0 ≤ fuel → pushAst fuel lt a x = some (some (push lt a x)) := by
  rw [Got.Lemmas.DelayedHeapEq.push_eq]
  exact Got.Lemmas.HeapAst.pushAst_refines lt a x hsz

/-- **Translator tie, heap.Pop**: on a non-empty heap the translated library source returns some element and leaves
    the model's `DelayedHeap.pop` (on the empty heap it panics: `popAst = some none`) -/
theorem C10_translated_source_heap_Pop_refines_model {α : Type} (lt : α → α → Bool) (a : Array α)
    (hsz : a.size < 2 ^ 62) :
    (0 < a.size → ∃ x, ∃ f0, ∀ fuel, f0 ≤ fuel → popAst fuel lt a = some (some (x, pop lt a))) ∧
    (a.size = 0 → ∃ f0, ∀ fuel, f0 ≤ fuel → popAst fuel lt a = some none) := by
  obtain ⟨f0, h⟩ := Got.Lemmas.HeapAst.popAst_refines lt a hsz
  constructor
  · intro hne
    obtain ⟨x, hx⟩ := Got.Lemmas.DelayedHeapEq.pop_eq_goheap_ex lt a hne
    exact ⟨x, f0, fun fuel hf => by rw [h fuel hf, hx]⟩
  · intro h0
    exact ⟨f0, fun fuel hf => by rw [h fuel hf, Got.Lemmas.GoHeap.pop_none lt a h0]⟩

/-- the heap lemma for the queue of requests, stated of the translated library source: pushing a request with the
    interpreted heap.Push and popping with the interpreted heap.Pop keep the heap invariant; Pop removes exactly one element -/
theorem C10_translated_source_heap_lemma (h : Array Req) (hh : HeapN rkey h h.size) (hsz : h.size + 1 < 2 ^ 62) :
    (∀ r, ∃ f0, ∀ fuel, f0 ≤ fuel → ∃ h', pushAst fuel less h r = some (some h') ∧ HeapN rkey h' h'.size ∧
        h'.toList.Perm (h.toList ++ [r])) ∧
    (0 < h.size → ∃ f0, ∀ fuel, f0 ≤ fuel → ∃ x h', popAst fuel less h = some (some (x, h')) ∧ HeapN rkey h' h'.size) := by
  obtain ⟨l1, l2, _⟩ := C10_heap_lemma h hh
  constructor
  · intro r
    obtain ⟨f0, hf0⟩ := C10_translated_source_heap_Push_refines_model less h r hsz
    exact ⟨f0, fun fuel hf => ⟨_, hf0 fuel hf, (l1 r).1, (l1 r).2⟩⟩
  · intro hne
    obtain ⟨x, f0, hf0⟩ := (C10_translated_source_heap_Pop_refines_model less h (by omega)).1 hne
    exact ⟨f0, fun fuel hf => ⟨x, _, hf0 fuel hf, l2⟩⟩

end TranslatedSource
