import Got.Model.Delayed
/- property theorems of C10 (only theorems + non-vacuity examples live here) -/
open Got.Model.Delayed

/-- the ticker period of the model is the source's literal: 1000 ms -/
theorem C10_tick_period : tickNs = 1000000000 := by decide
