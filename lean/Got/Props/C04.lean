/- property theorems of C04 (only theorems + non-vacuity examples live here) -/
