/- property theorems of C04 (only theorems + non-vacuity examples live here) -/
import Got.Model.Cache
import Got.Model.Sharding
open Got.Model.CacheCore

/-- a Load that finds a loading or fresh future (status good) creates no future and no job -/
theorem C04_no_second_load_core : (loadDecide .good).create = false := rfl
