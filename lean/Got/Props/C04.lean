/- property theorems of C04 (only theorems + non-vacuity examples live here)

C04: concurrent Loads of a key share one load and agree on its result.
  C04_no_second_load*       a Load that finds a loading or fresh future creates no future and no job
  C04_one_live_loader*      invariant of every reachable state: per key at most one unresolved load-future that Set has
                            not displaced; hence at most one loader per key running unless Set intervened
  C04_future_resolves_once* a future is resolved at most once – by the worker that took its job, with the pair that
                            loader(job.key) returned, job.key being the key the future was created for – or it is
                            created resolved by Set; once resolved its result never changes, so all Get calls agree
  C04_shard_in_range*       GetShardingIndex is in [0, count) for every int64 pattern and power-of-two count;
                            convertPowerOfTwo n is the least power of two ≥ n (n ≤ 2^62)
"Reachable" = reachable in the LTS `Got.Model.Cache` by ANY finite sequence of actions (any number of clients, keys,
workers P, queue size J, loader results and durations, ticks, delays; both variants of Load).
-/
import Got.Lemmas.CacheOnce
import Got.Lemmas.CacheLive
import Got.Lemmas.CacheSharding
import Got.Lemmas.ShardingAst
open Got.Model.CacheCore Got.Model.Cache Got.Spec.Cache Got.Lemmas.Cache

/-- status good ⇔ the future is still loading or its result is fresh -/
theorem C04_good_iff (cfg : Cfg) (s : State) (l : FutId) :
    statusAt cfg s (some l) = .good ↔
      (s.fut l).res = none ∨ ∃ r, (s.fut l).res = some r ∧ s.now - (s.fut l).upd < futExpiry cfg r := by
  cases hr : (s.fut l).res with
  | none => simp [statusAt_unresolved cfg s l hr]
  | some r => rw [statusAt_resolved cfg s l r hr, status_good_iff]; simp [futExpiry]

/-- a Load that finds a future whose status is good (loading, or fresh) creates no future and no job: the future
    store, the map, the job channel and the ghost job table are unchanged and the client carries no job -/
theorem C04_no_second_load (cfg : Cfg) (s : State) (c : Cid) (k : Key) (ld : Nat) (l : FutId)
    (hmap : s.map k = some l) (hgood : statusAt cfg s (some l) = .good) :
    (loadCS cfg s c k ld).nfut = s.nfut ∧ (loadCS cfg s c k ld).fut = s.fut ∧ (loadCS cfg s c k ld).map = s.map ∧
    (loadCS cfg s c k ld).chan = s.chan ∧ (loadCS cfg s c k ld).jobAt = s.jobAt ∧
    jobOf ((loadCS cfg s c k ld).cpc c) = none ∧
    (loadCS cfg s c k ld).cpc c = .ldUnlock (cfg.shardOf k) none (.fetch l) := by
  simp [loadCS, applyLoad, loadOut, hmap, hgood, loadDecide, jobOf]

/-- … in particular while a load of the key is in flight -/
theorem C04_no_second_load_in_flight (cfg : Cfg) (s : State) (c : Cid) (k : Key) (ld : Nat) (l : FutId)
    (hmap : s.map k = some l) (hload : (s.fut l).res = none) :
    (loadCS cfg s c k ld).nfut = s.nfut ∧ (loadCS cfg s c k ld).chan = s.chan ∧
    jobOf ((loadCS cfg s c k ld).cpc c) = none := by
  have := C04_no_second_load cfg s c k ld l hmap ((C04_good_iff cfg s l).2 (Or.inl hload))
  exact ⟨this.1, this.2.2.2.1, this.2.2.2.2.2.1⟩

example : (exRefreshing 25).map 1 = some 1 ∧ ((exRefreshing 25).fut 1).res = none := by decide

/-- per key at most one unresolved load-future that has not been displaced by Set: such a future is the entry of its
    key in the map (sweep and Load replace only resolved entries) -/
theorem C04_one_live_loader (cfg : Cfg) (s : State) (hr : Reachable cfg s) (f g : FutId)
    (hf : f < s.nfut) (hg : g < s.nfut)
    (hfr : (s.fut f).res = none) (hgr : (s.fut g).res = none)
    (hfo : (s.fut f).orphan = false) (hgo : (s.fut g).orphan = false)
    (hk : (s.fut f).key = (s.fut g).key) : f = g := by
  have h := inv_reachable cfg s hr
  have h1 := h.o_map f hf hfr hfo
  have h2 := h.o_map g hg hgr hgo
  rw [hk, h2] at h1
  exact (Option.some.inj h1).symm

/-- hence at most one loader per key is running at any instant, unless Set intervened (orphaned the older load) -/
theorem C04_one_live_loader_running (cfg : Cfg) (s : State) (hr : Reachable cfg s) (w w' : Wid) (j j' : Job)
    (hw : s.wpc w = .running j) (hw' : s.wpc w' = .running j') (hk : j.key = j'.key)
    (ho : (s.fut j.fut).orphan = false) (ho' : (s.fut j'.fut).orphan = false) : w = w' ∧ j = j' := by
  have h := inv_reachable cfg s hr
  have hwj : wjob (s.wpc w) = some j := by rw [hw]; rfl
  have hwj' : wjob (s.wpc w') = some j' := by rw [hw']; rfl
  have k1 := h.k_worker w j hwj
  have k2 := h.k_worker w' j' hwj'
  have unres : ∀ w j, s.wpc w = .running j → (s.fut j.fut).res = none := by
    intro w j hw
    have hwj : wjob (s.wpc w) = some j := by rw [hw]; rfl
    have hst := h.stage j.fut (h.k_worker w j hwj).1
    unfold StageOK at hst; rw [h.f_worker w j hwj] at hst; simp only [hw, prePub] at hst
    exact hst.2.2 trivial
  have e : j.fut = j'.fut :=
    C04_one_live_loader cfg s hr j.fut j'.fut k1.1 k2.1 (unres w j hw) (unres w' j' hw') ho ho'
      (by rw [k1.2.1, k2.2.1]; exact hk)
  have l1 := h.f_worker w j hwj
  have l2 := h.f_worker w' j' hwj'
  rw [e, l2] at l1
  have ew : w = w' := (Loc.worker.inj l1).symm
  subst ew
  rw [hw] at hw'
  exact ⟨rfl, by injection hw'⟩

/-- once resolved, the result of a future never changes – along every continuation of every reachable state -/
theorem C04_future_resolves_once (cfg : Cfg) (s : State) (hr : Reachable cfg s) (f : FutId) (hf : f < s.nfut) (r : Res)
    (hres : (s.fut f).res = some r) (acts : List Act) : ((run cfg s acts).fut f).res = some r :=
  res_stable_run cfg acts s (inv_reachable cfg s hr) f hf r hres

/-- the step that resolves an allocated future is the publication step of the worker that holds its job, the job's
    key is the key the future was created for, and the future is a load-future -/
theorem C04_future_resolves_once_by_worker (cfg : Cfg) (s s' : State) (a : Act) (hr : Reachable cfg s)
    (hs : step? cfg s a = some s') (f : FutId) (hf : f < s.nfut) (r : Res)
    (h0 : (s.fut f).res = none) (h1 : (s'.fut f).res = some r) :
    ∃ w j, a = .wk w ∧ s.wpc w = .publish j r ∧ j.fut = f ∧ j.key = (s.fut f).key ∧ (s.fut f).bySet = false ∧
      (s'.fut f).key = (s.fut f).key := by
  have h := inv_reachable cfg s hr
  obtain ⟨hres, hkey⟩ := step_res cfg s s' a hs f hf
  rcases hres with e | ⟨w, j, r', ha, hw, hj, hr'⟩
  · rw [e, h0] at h1; cases h1
  · rw [h1] at hr'; simp only [Option.some.injEq] at hr'; subst hr'
    have hjok := h.k_worker w j (by rw [hw]; rfl)
    unfold JobOK at hjok
    rw [hj] at hjok
    exact ⟨w, j, ha, hw, hj, hjok.2.1.symm, hjok.2.2, hkey⟩

/-- the pair a worker publishes is the pair its loader invocation returned (`wEnd w r` while running the job) -/
theorem C04_future_resolves_once_pair (cfg : Cfg) (s s' : State) (a : Act) (hs : step? cfg s a = some s')
    (w : Wid) (j : Job) (r : Res) (h1 : s'.wpc w = .publish j r) :
    s.wpc w = .publish j r ∨ (a = .wEnd w r ∧ s.wpc w = .running j) := by
  by_cases hw : actWorker? a = some w
  · cases a <;> simp only [actWorker?, Option.some.injEq, reduceCtorEq] at hw <;> subst hw
    · simp only [step?] at hs
      split at hs <;> (try split at hs) <;> simp only [Option.some.injEq, reduceCtorEq] at hs
      subst hs; simp [setWpc] at h1
    · simp only [step?] at hs
      split at hs <;> (try split at hs) <;> (try split at hs) <;> simp only [Option.some.injEq, reduceCtorEq] at hs
      subst hs; simp [setWpc] at h1
    · simp only [step?] at hs
      split at hs <;> simp only [Option.some.injEq, reduceCtorEq] at hs
      subst hs; simp [setWpc] at h1
    · rename_i r'
      simp only [step?] at hs
      split at hs <;> simp only [Option.some.injEq, reduceCtorEq] at hs
      rename_i j' hw'
      subst hs
      simp only [setWpc, upd_same, WPc.publish.injEq] at h1
      obtain ⟨rfl, rfl⟩ := h1
      exact Or.inr ⟨rfl, hw'⟩
    · simp only [step?] at hs
      unfold wkStep at hs
      split at hs <;> (try split at hs) <;> simp only [Option.some.injEq, reduceCtorEq] at hs <;> subst hs <;>
        simp [setWpc] at h1
      all_goals (split at h1 <;> cases h1)
  · left
    have := step_wpc_frame cfg s a w hw
    unfold step at this; rw [hs] at this
    simp only [Option.getD_some] at this
    rw [← this]; exact h1

/-- Set creates its future already resolved with the pair it was given -/
theorem C04_future_resolves_once_set (s : State) (c : Cid) (k : Key) (r : Res) :
    ((setCS s c k r).fut s.nfut).res = some r ∧ ((setCS s c k r).fut s.nfut).key = k ∧
    ((setCS s c k r).fut s.nfut).done = true ∧ (setCS s c k r).map k = some s.nfut := by
  simp [setCS]

/-- all Get1/Get2 calls on one future return the same pair: what a returned call reports is the (immutable) result -/
theorem C04_gets_agree (cfg : Cfg) (s : State) (hr : Reachable cfg s) (c c' : Cid) (f : FutId) (r r' : Option Res)
    (hc : s.cpc c = .done (.pair (some f) r)) (hc' : s.cpc c' = .done (.pair (some f) r')) :
    r = r' ∧ r = (s.fut f).res ∧ r.isSome = true := by
  have h := inv_reachable cfg s hr
  obtain ⟨hf, hd, e⟩ := h.r_pair c f r hc
  obtain ⟨_, _, e'⟩ := h.r_pair c' f r' hc'
  have hst := h.stage f hf
  refine ⟨by rw [e, e'], e, ?_⟩
  unfold StageOK at hst
  cases hl : s.jobAt f with
  | nowhere => rw [hl] at hst; exact absurd hst id
  | creator c0 => rw [hl] at hst; simp only at hst; rw [hst.2] at hd; cases hd
  | chan => rw [hl] at hst; simp only at hst; rw [hst.2] at hd; cases hd
  | worker w => rw [hl] at hst; simp only at hst; rw [hst.1] at hd; cases hd
  | finished => rw [hl] at hst; simp only at hst; rw [e]; exact hst.2

/-- GetShardingIndex: `int(next) & (count-1)` lies in [0, count) for EVERY 64-bit pattern and every power-of-two
    count up to 2^62 -/
theorem C04_shard_in_range (x : BitVec 64) (e : Nat) (he : e ≤ 62) :
    0 ≤ Got.Model.Sharding.indexOfBits x (2 ^ e) ∧ Got.Model.Sharding.indexOfBits x (2 ^ e) < 2 ^ e :=
  Got.Lemmas.Sharding.index_in_range x e he

/-- … hence for every key of the ten supported kinds -/
theorem C04_shard_in_range_key (k : Got.Model.Sharding.TKey) (e : Nat) (he : e ≤ 62) :
    0 ≤ Got.Model.Sharding.shardIndex (2 ^ e) k ∧ Got.Model.Sharding.shardIndex (2 ^ e) k < 2 ^ e :=
  Got.Lemmas.Sharding.index_in_range _ e he

/-- convertPowerOfTwo n (n ≤ 2^62) terminates with the least power of two ≥ n -/
theorem C04_shard_in_range_count (n : Int) (hn : n ≤ 2 ^ 62) :
    ∃ e, e ≤ 62 ∧ Got.Model.Sharding.convertPowerOfTwo n = some (2 ^ e) ∧ n ≤ ((2 ^ e : Nat) : Int) ∧
      (e = 0 ∨ ((2 ^ (e - 1) : Nat) : Int) < n) :=
  Got.Lemmas.Sharding.convertPowerOfTwo_spec n hn

example : Got.Model.Sharding.convertPowerOfTwo 12 = some 16 ∧
    Got.Model.Sharding.shardIndex 16 (.int (-1)) = 15 ∧ Got.Model.Sharding.shardIndex 16 (.uint8 255) = 15 := by decide

/-! ### the translated source of convertPowerOfTwo

`Got.Generated.AstLoom.convertPowerOfTwo` is the MiniGo term that tools/srcfacts regenerates from
/repo/loom/sharding_option.go on every run (see Got/Model/MiniGo.lean and DESIGN.md §1.3 (a')). -/

/-- the translator accepted the function (every construct of the current source is inside the MiniGo fragment) -/
theorem C04_shard_count_translation_in_fragment : Got.Generated.AstLoom.convertPowerOfTwoNote = "ok" := by decide

/-- For every 64-bit argument n ≤ 2^62, interpreting the translated source of `convertPowerOfTwo` (64-bit wrap-around
    shift) returns the least power of two ≥ n, with any fuel ≥ 140 — the statement of `C04_shard_in_range_count` for
    the code as translated. -/
theorem C04_shard_count_translated_source (n : Int) (h0 : -9223372036854775808 ≤ n) (hn : n ≤ 2 ^ 62)
    (fuel : Nat) (hf : 140 ≤ fuel) :
    ∃ e, e ≤ 62 ∧
      Got.Generated.AstLoom.convertPowerOfTwo.run (fun _ _ => false) fuel [n] = some (.ret ((2 ^ e : Nat) : Int) []) ∧
      n ≤ ((2 ^ e : Nat) : Int) ∧ (e = 0 ∨ ((2 ^ (e - 1) : Nat) : Int) < n) := by
  obtain ⟨e, he, hm, h1, h2⟩ := C04_shard_in_range_count n hn
  refine ⟨e, he, ?_, h1, h2⟩
  exact Got.Lemmas.ShardingAst.convert_ast_refines n ⟨h0, by omega⟩ (2 ^ e) hm fuel hf

example : Got.Generated.AstLoom.convertPowerOfTwo.run (fun _ _ => false) 140 [12] = some (.ret 16 []) := by decide
