-- root of the library: every property file (and through them every model and lemma file)
import Got.Props.C14
