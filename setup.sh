#!/bin/sh
# MANIFEST.setup_cmd: build the framework from files on disk only (offline).
set -e
cd "$(dirname "$0")"
export GOFLAGS=-mod=mod GOPROXY=off GOSUMDB=off GOTOOLCHAIN=local GOCACHE="$PWD/.build/gocache"
mkdir -p .build/bin evidence replays
(cd tools/srcfacts && go build -o ../../.build/bin/srcfacts .)
.build/bin/srcfacts -repo "${VERIF_REPO:-/repo}" -json .build/facts.json -lean lean/Got/Generated || [ $? -eq 3 ]
(cd lean && lake build)
echo "setup done"
