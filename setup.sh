#!/bin/sh
# MANIFEST.setup_cmd: build the framework from files on disk only (offline).
# Builds the tools and pre-builds the Lean modules and driver executables of every claimed check, so the
# checks' own incremental `lake build` calls are fast. A failure here for one property does not stop the
# others: each check rebuilds what it needs and reports a broken obligation itself.
cd "$(dirname "$0")"
export GOFLAGS=-mod=mod GOPROXY=off GOSUMDB=off GOTOOLCHAIN=local GOCACHE="$PWD/.build/gocache"
mkdir -p .build/bin evidence replays
(cd tools/srcfacts && go build -o ../../.build/bin/srcfacts .) || exit 1
.build/bin/srcfacts -repo "${VERIF_REPO:-/repo}" -json .build/facts.json -lean lean/Got/Generated
python3 - <<'PY'
import json, subprocess, sys, importlib, os
sys.path.insert(0, os.getcwd())
m = json.load(open("MANIFEST.json"))
targets = []
for c in m["checks"]:
    pid = c["property_id"]
    targets.append("Got.Props." + pid)
    try:
        spec = importlib.import_module("checklib." + pid.lower()).SPEC
        for d in [getattr(spec, "driver", None)] + list(getattr(spec, "extra_drivers", [])):
            if d and d not in targets:
                targets.append(d)
    except Exception as e:
        print("setup: cannot import checklib.%s: %s" % (pid.lower(), e))
print("setup: lake build", " ".join(targets))
r = subprocess.run(["lake", "build"] + targets, cwd="lean")
if r.returncode != 0:
    # build target by target so one broken family does not leave the others unbuilt
    for t in targets:
        subprocess.run(["lake", "build", t], cwd="lean")
PY
echo "setup done"
