#!/usr/bin/env python3
"""Runs every seeded change under /verif/seeded/<name>/ (patch.diff + meta.json) through the check of the
property it breaks (tools/selftest, isolated scratch copy) and writes seeded/RESULTS.md.
usage: tools/seeded_table.py [name-substring ...] [--tier quick|thorough] [-j N]"""
import concurrent.futures as cf
import json
import os
import re
import subprocess
import sys
import time

V = os.path.dirname(os.path.dirname(os.path.abspath(__file__)))
args = [a for a in sys.argv[1:] if not a.startswith("-")]
tier = "quick"
jobs = 3
for i, a in enumerate(sys.argv):
    if a == "--tier":
        tier = sys.argv[i + 1]
        args = [x for x in args if x != tier]
    if a == "-j":
        jobs = int(sys.argv[i + 1])
        args = [x for x in args if x != sys.argv[i + 1]]


def one(name):
    d = os.path.join(V, "seeded", name)
    meta = json.load(open(os.path.join(d, "meta.json")))
    pid = meta["property"]
    t0 = time.time()
    p = subprocess.run([os.path.join(V, "tools", "selftest"), pid, os.path.join(d, "patch.diff"), tier],
                       capture_output=True, text=True, timeout=3600)
    out = p.stdout
    m = re.search(r"^VIOLATION property=\S+ replay=\S+(.*)$", out, re.M)
    if p.returncode == 3:
        verdict = "patch-error"
    elif m:
        verdict = "detected (no-failing-input-found)" if "no-failing-input-found" in m.group(1) else "detected (concrete replay)"
    elif p.returncode == 0:
        verdict = "passed (harmless rewrite: expected)" if ("harmless" in name or meta.get("harmless")) else "MISSED"
    else:
        verdict = "error rc=%d" % p.returncode
    why = ""
    mm = re.search(r"^\s+(failing input|broken|race:|why)[^\n]*", out, re.M)
    if mm:
        why = mm.group(0).strip()[:160]
    return name, pid, verdict, why, round(time.time() - t0, 1), out[-1500:] + p.stderr[-500:]


names = sorted(n for n in os.listdir(os.path.join(V, "seeded")) if os.path.exists(os.path.join(V, "seeded", n, "meta.json")))
if args:
    names = [n for n in names if any(a in n for a in args)]
rows = []
with cf.ThreadPoolExecutor(max_workers=jobs) as ex:
    for r in ex.map(one, names):
        rows.append(r)
        print("%-40s %-4s %-40s %6.1fs  %s" % (r[0], r[1], r[2], r[4], r[3]), flush=True)
        if r[2] in ("MISSED", "patch-error") or r[2].startswith("error"):
            print(r[5])
res = os.path.join(V, "seeded", "RESULTS.md")
old = {}
if os.path.exists(res):
    for line in open(res):
        c = [x.strip() for x in line.strip().strip("|").split("|")]
        if len(c) >= 4 and c[0] not in ("seeded change", "---"):
            old[c[0]] = c
for r in rows:
    old[r[0]] = [r[0], r[1], r[2], tier, r[3].replace("|", "/")]
with open(res, "w") as fh:
    fh.write("| seeded change | property | result of `./check <property>` on the patched copy | tier | detail |\n|---|---|---|---|---|\n")
    for k in sorted(old):
        fh.write("| " + " | ".join(old[k]) + " |\n")
