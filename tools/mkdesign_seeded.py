#!/usr/bin/env python3
"""rewrites Appendix C of DESIGN.md from seeded/*/meta.json and seeded/RESULTS.md"""
import json, os, re
V = os.path.dirname(os.path.dirname(os.path.abspath(__file__)))
res = {}
for line in open(os.path.join(V, "seeded", "RESULTS.md")):
    c = [x.strip() for x in line.strip().strip("|").split("|")]
    if len(c) >= 4 and c[0] not in ("seeded change", "---"):
        res[c[0]] = c
rows = []
for name in sorted(os.listdir(os.path.join(V, "seeded"))):
    mp = os.path.join(V, "seeded", name, "meta.json")
    if not os.path.exists(mp):
        continue
    try:
        m = json.load(open(mp))
    except Exception:
        m = {}
    mr = re.search(r"-r(\d+)-", name)
    if mr:
        origin = "independent sub-agent, round %s%s" % (mr.group(1), " (harmless refactor)" if "harmless" in name else "")
    elif "-sub-" in name:
        origin = "independent sub-agent, round 1"
    elif "-ast-" in name or "-live-" in name:
        origin = "family engineer's self-test (translator tie / liveness)"
    else:
        origin = "family engineer's self-test"
    r = res.get(name, [name, m.get("property", "?"), "not run", "", ""])
    summ = (m.get("summary") or m.get("what") or m.get("description") or "")
    summ = re.sub(r"\s+", " ", str(summ))[:170].replace("|", "/")
    rows.append((m.get("property", r[1]), name, origin, summ, r[2], (r[4] if len(r) > 4 else "")[:110]))
rows.sort()
tot = len(rows)
det_c = sum(1 for r in rows if r[4].startswith("detected (concrete"))
det_n = sum(1 for r in rows if r[4].startswith("detected (no-failing"))
harm = sum(1 for r in rows if r[4].startswith("passed (harmless"))
miss = [r[1] for r in rows if r[4] == "MISSED"]
other = [r[1] for r in rows if not (r[4].startswith("detected") or r[4].startswith("passed") or r[4] == "MISSED")]
txt = ["## Appendix C — seeded changes and which checks catch them\n",
       "How the machinery was tested against realistic breakage (all of it reproducible with\n"
       "`tools/seeded_table.py [name-substring…]`, which applies each `seeded/<name>/patch.diff` to a scratch copy of\n"
       "/repo and runs `./check <property>` on it in the isolated self-test mode; /repo itself is never modified):\n\n"
       "* **family self-tests** — written by whoever built the property's machinery (subtle off-by-ones, reverts of each\n"
       "  fix, plus deliberately *harmless* rewrites that must pass or end in `no-failing-input-found`);\n"
       "* **round 1** — fresh sub-agents that were given only the property text and a scratch worktree (nothing from\n"
       "  /verif), asked for changes that compile, pass the existing tests and need something specific to manifest; each\n"
       "  comes with a demonstration test that fails with the change and passes without (kept next to the patch);\n"
       "* **round 2** — the same, but explicitly asked for defects that a differential checker with small-scope exhaustive,\n"
       "  boundary-biased random and step-level schedule generators would *not* try (large sizes, long histories, aliasing,\n"
       "  cross-object state, rare coincidences). Round 2 found real generator gaps; they were closed by adding the missing\n"
       "  input *classes* (not the concrete mutants): counts up to MaxInt and `Next(MaxInt)`; sizes ≥ 4 KiB / ≥ 64 KiB / 1 MiB\n"
       "  and capacities > 64 KiB; aliasing of caller-owned and returned memory (source slices scribbled after every write,\n"
       "  kept strings re-checked after Tidy/Reset+Write); valid records ≥ 64 KiB at non-zero offsets; typed-nil and\n"
       "  non-scalar handler results; hundreds of entries in one cache shard and loads across many sweep ticks; handler error\n"
       "  kinds, default-option tasks mixed with overrunning timed ones and pools of ≥ 16; long-stall (ABA) and starvation\n"
       "  schedules for the lock-free code; wheels with > 65536 buckets; run-structured Unique inputs; and — for the\n"
       "  step-level models — a pinned synchronisation skeleton (checklib/skeletons.py) so that a new mechanism in the\n"
       "  transcribed functions is reported even when no sampled schedule shows a difference.\n\n"
       "Totals over %d seeded changes: %d detected with a concrete failing input, %d detected as\n"
       "`no-failing-input-found` (a broken obligation or correspondence named in the replay), %d harmless rewrites that\n"
       "pass as they should%s%s.\n\n" % (tot, det_c, det_n, harm,
                                        (", %d missed (%s)" % (len(miss), ", ".join(miss))) if miss else ", none missed",
                                        (", other: " + ", ".join(other)) if other else ""),
       "| property | seeded change | origin | what it does | result of `./check` on the patched copy | first reported input / reason |\n|---|---|---|---|---|---|\n"]
for r in rows:
    txt.append("| %s | %s | %s | %s | %s | %s |\n" % r)
txt.append("\n")
s = open(os.path.join(V, "DESIGN.md")).read()
i = s.index("## Appendix C")
j = s.index("## Appendix D")
s = s[:i] + "".join(txt) + s[j:]
open(os.path.join(V, "DESIGN.md"), "w").write(s)
print("appendix C rewritten:", tot, "rows; missed:", miss, "other:", other)
