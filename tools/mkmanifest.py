#!/usr/bin/env python3
"""regenerates /verif/MANIFEST.json from the table below (claimed checks) — properties without an
entry are listed under not_applicable with the reason given in NOT_CLAIMED."""
import json, os, subprocess
V = os.path.dirname(os.path.dirname(os.path.abspath(__file__)))

CLAIMED = {
 # id: (engine, text, note, technique, design_ref)
 "C14": ("lean-proof+differential",
         "Lean theorems over Model.Search for every count and every pair of predicates consistent with a sorted list (result = first match or complement of insertion point, probes in range, probe-count bound, termination); model tied to /repo by per-run differential comparison of result and probe log",
         "trusted: Lean kernel, axioms listed in evidence, driver compilation, harness + generators; Go int arithmetic of the midpoint related to Int by lemma",
         "machine-checked proof (Lean 4) + differential correspondence", "DESIGN.md §2 C14"),
 "C18": ("lean-proof+site-table+race-search",
         "Lean theorems: a set-based happens-before discipline monitor is sound w.r.t. the declarative happens-before of the Go memory model (accepted trace => no unordered conflicting accesses), and the three synchronisation skeletons used for the repository's plain shared fields (publish-once, ants per-attempt CAS arbitration, mutex-guarded) only produce accepted traces, for any number of goroutines and any interleaving; tie to /repo: every access site of the watched fields is re-extracted from source on each run (srcfacts) and matched by the compiled Lean site table; search for concrete races: race-detector stress (never counted as proof)",
         "partial by nature: compiler/runtime/memory-model implementation, synchronisation semantics of the primitives and completeness of the access extraction are trusted; the race detector is a search tool only",
         "machine-checked proof (Lean 4) of publication discipline + regenerated access-site table + race-detector search", "DESIGN.md §2 C18"),
 "C13": ("lean-proof+differential",
         "Lean theorems: for every operation sequence (non-negative sizes) the models of iox.Buffer (grow policy transcribed branch by branch, capacity included) and iox.OctetsStream refine an abstract seekable FIFO over the full write history (unread portion = bytes written and not consumed; compaction invisible; Seek fails unchanged or lands inside the retained data, all int64 offsets incl. overflow; no panic); models tied to /repo by per-run differential comparison of every observation (result, Bytes, Len, cursor, Cap) after every op over exhaustive short and random long sequences, plus an independent Python reference oracle",
         "trusted: Lean kernel, axioms in evidence, driver compilation, harness+generators; bytes between len and cap unobservable; ErrTooLarge excluded by a stated total-size bound; single goroutine",
         "machine-checked refinement proof (Lean 4) + differential correspondence", "DESIGN.md §2 C13"),
 "C15": ("lean-proof+differential",
         "Lean theorems over a one-to-one transcription of sortx's quickSort/doPivot/heapSort/insertionSort/medianOfThree and SliceBy: for ANY less function the (key,value) pairs on [0,min) are permuted, the suffix is untouched, every index passed to less/swap is < min, termination by construction; under a strict weak order the first min keys are sorted (insertion, heap sort, doPivot post-condition, quickSort), recursion depth <= 2*ceil(lg(n+1)) before heap sort; UniqueInt/UniqueString = run collapse (= List.eraseReps), strictly increasing on sorted input. Tied to /repo by per-run comparison of final slices and the complete less(i,j) call log (hash + full log for n<=16) incl. quicksort-killer inputs reaching the heap-sort fallback. The O(n log n) comparison COUNT is not proved (partial): monitored on every run (<= 4 n (lg n + 2))",
         "trusted: Lean kernel, axioms in evidence, driver compilation, harness+generators, reflect.Swapper contract; Go int indices modelled as Nat under guards",
         "machine-checked proof (Lean 4) + differential correspondence incl. comparison log", "DESIGN.md §2 C15"),
 "C19": ("lean-proof+differential",
         "Lean theorems over a line-by-line model of aesx on a store of backing arrays (make/append semantics): unpad(pad p)=p, Decrypt(Encrypt p)=p for CBC (any block permutation with left inverse) and CFB (any block function), Encrypt = standard CBC∘PKCS#7 / CFB-128 with the stated lengths, no array existing before the call is modified and the result never aliases one, output depends only on (key, iv, input bytes), option selection; old append-based padding counterexample. Tied to /repo per run: real aesx output compared byte for byte with an executable FIPS-197 AES-128/192/256 + CBC/CFB written in Lean (known-answer tests at driver start), backing-array snapshots, 8 goroutines sharing one cipher; oracle additionally cross-checks a Python AES and openssl",
         "trusted: crypto/aes and crypto/cipher implement the block function and the modes (cross-checked on every case, not proved); concurrency claim reduced to purity + differential run (partial); Lean kernel, axioms in evidence, driver compilation, harness",
         "machine-checked proof (Lean 4) + differential correspondence against a Lean FIPS-197 AES", "DESIGN.md §2 C19"),
 "C20": ("lean-proof+differential",
         "Lean theorems over a transcription of container/heap (up/down/Push/Pop, proved: heap invariant preserved and Pop minimal under a strict weak order; permutation for arbitrary comparisons) and of the WeightedSampling loop with the keys as inputs: for every key list and ANY comparison outcomes the result has sampleNum pairwise distinct indices < totalNum (a permutation when equal), and under a strict total order exactly the indices of the sampleNum largest keys; invalid arguments panic; old pre-filled heap counterexample. Tied to /repo per run: the harness replays math/rand's stream, sends exact key ranks (big-integer comparison, independent of the float formula) to the model and compares the index slice exactly, all permutations n<=7, weak orders with ties, weights from 5e-324 to 1e300. The probability law w_i/sum(w) is NOT proved (partial): 6-sigma statistical check on every run",
         "trusted: math/rand, float key computation outside the model (checked against exact ranks), Lean kernel, axioms in evidence, driver compilation, harness",
         "machine-checked proof (Lean 4) + differential correspondence on exact key ranks + statistical search", "DESIGN.md §2 C20"),
 "C01": ("lean-proof+controlled-scheduler",
         "Lean theorem C01_linearizable: for every list of actions (any number of goroutines, any client programs, any interleaving of the individual atomic loads/CASes of Push and Pop) the history of the Michael-Scott queue model is linearizable w.r.t. the sequential FIFO in the textbook Herlihy-Wing sense (completion, legal sequential history, per-thread order, real-time order), via a structural invariant (C01_inv, no nil dereference), linearisation-point witness (C01_lp_witness) and a generic LP-soundness meta-theorem (C01_lp_sound); corollaries: no invention, duplication, loss, FIFO order, nil only if empty at an instant inside the Pop. Tie to /repo: the real loom.Queue is driven one atomic access at a time by a cooperative scheduler through verif-tagged yield hooks; every step (thread, site, pointer class, CAS outcome) and every return value is compared with the model under schedules that cover every transition of the model's reachable state graph for small configurations plus random/PCT schedules; an independent brute-force linearizability checker judges the real histories",
         "trusted: sequentially consistent sync/atomic, garbage collection (no ABA), hook placement and scheduler, Lean kernel, axioms in evidence, driver compilation; clients never push nil",
         "machine-checked linearizability proof (Lean 4) + step-level correspondence under a controlled scheduler", "DESIGN.md §2 C01"),
 "C02": ("lean-proof+controlled-scheduler",
         "Lean theorem C02_solo_bound: from every reachable state (other goroutines frozen at arbitrary points inside Push/Pop) a running operation returns within K=13 of its own steps, by a measure bounded by K that strictly decreases on every solo step (uses the invariant that the tail lags by at most one node). Tie to /repo: for reachable states (schedule prefixes covering the model's state graph) the real code is brought to that state and one thread is run solo; its step count must equal the model's measure and be <= 13; a thread still running after 10*K steps is a violation with the prefix as replay",
         "trusted: as C01",
         "machine-checked proof (Lean 4) + solo-run correspondence under a controlled scheduler", "DESIGN.md §2 C02"),
 "C16": ("lean-proof+virtual-time",
         "Lean theorems over an LTS of WaitClose (one pc per atomic/mutex/channel access of C, WaitUtil, IsClosed, Close incl. the deferred store/unlock/recover order; callbacks and panics as environment choices; any number of goroutines): at most one callback, started by the closing call; no Close returns before it ended; a panicking callback still closes; C() never nil; at most one channel is created, never closed twice, closed once any Close returned; IsClosed stable; WaitUtil true/false vs the close instant and deadline. Tie to /repo: scripted scenarios on the real code under the Go runtime's virtual clock (faketime); the compiled model, in monitor mode, must reproduce every observed return instant and value",
         "trusted: Go mutex/channel/select/timer semantics as modelled; at an exact tie (timeout <= 0 or close at the deadline instant) either WaitUtil answer is accepted; Lean kernel, axioms in evidence, driver compilation, faketime runtime",
         "machine-checked proof (Lean 4) + trace inclusion of virtual-time runs", "DESIGN.md §2 C16"),
 "C17": ("lean-proof+controlled-scheduler",
         "Lean theorems: TryLock against a transcription of sync.Mutex's word protocol (over-approximated environment): at most one holder in every reachable state, a TryLock CAS succeeds only on a word with none of locked/woken/starving and makes the caller the holder, Unlock releases it; AddFlag/RemoveFlag take effect exactly once at their successful CAS (value = fold in CAS order; adds = OR of all flags); AddIf64's CAS sees a value satisfying the predicate, so predicate-closed invariants (never above the limit) hold in every reachable state; Count = waiters + holder for every 32-bit word. Tie to /repo: step-level correspondence under the cooperative scheduler (all interleavings of small programs, all 64 flag bits, all (init,delta,limit) in [-3,3]^3, TryLock vs the real sync.Mutex incl. constructed woken/starving words), Count on real mutexes with 0..6 parked waiters",
         "trusted: the transcription of go1.23 sync.Mutex (hash of the toolchain's mutex.go recorded in the evidence), sequentially consistent atomics, hooks/scheduler, Lean kernel, axioms in evidence, driver compilation",
         "machine-checked proof (Lean 4) + step-level correspondence under a controlled scheduler", "DESIGN.md §2 C17"),
 "C03": ("lean-proof+controlled-scheduler+virtual-time",
         "Lean theorems over an LTS of the timing wheel (one pc per atomic access of the ticker and of any number of concurrent requesters; ghost tick counters and due ticks): every channel is closed exactly once, by exactly its due tick, and never re-opened; for every execution and every completed request there is an L between the ticks completed at invocation and the ticks started at return with due = L+k+1 (also across whole revolutions during the request and for n = 1); panic iff d < 0 or d >= s*n; Reset is a fresh request; arithmetic on the tick clock: D-s < t <= D (tie case stated); ghost erasure; decide-proved counterexamples for the old store order and for dropping only the re-check. Tie to /repo: (race) the real ticker and requesters are driven one atomic access at a time under the cooperative scheduler with exhaustive/state-covering schedules and the closing tick of every returned channel is compared with the model; (timing) the real wheel with its own ticker runs under the Go runtime's virtual clock and every fire instant is compared with the model and judged by an independent oracle",
         "trusted: time.Ticker delivers tick j at j*s (the property is stated on the wheel's own tick clock); AfterFunc waiter = Go select semantics; hooks/scheduler; faketime at GOMAXPROCS=1; Lean kernel, axioms in evidence, driver compilation",
         "machine-checked proof (Lean 4) + step-level correspondence under a controlled scheduler + virtual-time trace comparison", "DESIGN.md §2 C03"),
 "C09": ("lean-proof+virtual-time",
         "Lean theorems over an LTS of taskx.Queue (bounded FIFO channel, close flag, any number of producers, one consumer, WaitGroup): received ++ channel = the successful sends, per-producer in send order, no duplicates; nothing dropped while open; a full open queue parks the sender; Get2 is disabled until the consumer executed the task and then returns exactly the handler's pair (stable without a second Do); nil handler = completed empty task; once closed the send returns regardless of the queue length. Tie to /repo: scripted multi-producer scenarios with a slow consumer and scripted close under the Go runtime's virtual clock; the compiled model in monitor mode must reproduce receive order, send return instants and Get2 values (select races resolved from the observation = trace inclusion); independent oracle on the observations",
         "trusted: Go channel FIFO, select (any ready branch) and WaitGroup semantics as modelled; faketime at GOMAXPROCS=1; Lean kernel, axioms in evidence, driver compilation",
         "machine-checked proof (Lean 4) + trace inclusion of virtual-time runs", "DESIGN.md §2 C09"),
 "C10": ("lean-proof+virtual-time",
         "Lean theorems over a model of the delayed queue (request channel, std.PriorityQueue over a transcription of container/heap whose Push/Pop are proved to keep the heap invariant with a minimal root, ticks at the period read from the source literal): a task is forwarded only at a tick instant >= its deadline (no proviso), at the first such tick, hence less than one tick late when the target queues have room (exact-coincidence case stated separately), exactly once, and in non-decreasing deadline order (for non-negative delays and unblocked targets). Tie to /repo: multisets of (send instant, delay, queue) incl. ties, d=0, bursts beyond 32/128 outstanding, all tick phases, run on the real global delayed queue under the virtual clock; arrival instants and per-queue order compared exactly with the model; independent oracle",
         "trusted: Go channel/select/ticker semantics as modelled (a ticker channel holds one tick); with a FULL target queue (outside the property's proviso) only never-early/once/model correspondence are checked - head-of-line blocking there reorders deadlines on the real code; faketime at GOMAXPROCS=1; Lean kernel, axioms in evidence, driver compilation",
         "machine-checked proof (Lean 4) + trace comparison of virtual-time runs", "DESIGN.md §2 C10"),
 "C11": ("lean-proof+differential",
         "Lean theorems over a model of the iox stream/writer/reader that mirrors the Go expressions on BitVec and reads every magic number (shift lists, masks, bounds) from literal tables regenerated from the source on each run: each writer appends exactly the little-endian / unsigned-LEB128 (1-5 bytes) / length-prefixed spec bytes (independent recursive specs), each reader inverts its writer at any offset inside any surrounding bytes returning the value and consuming exactly the bytes written, for every value of every type and every typed sequence. Tie to /repo: real writer output (bytes) and real reader results/positions compared with the model: all int16, stratified+random int32 (fixed and 7-bit), int64, byte slices/strings across the 127/128, 16383/16384 and 2^21 length boundaries, typed sequences; thorough adds CRC-folded blocks of 65536 consecutive int32 values (1.3e8 values; VERIF_C11_SWEEP=full = all 2^32); independent Python decoder as oracle",
         "trusted: convert.String/Bytes = identity on bytes; lengths < 2^31 for bytes/strings (int32 prefix) and Go int lengths < 2^63; Lean kernel, axioms in evidence, driver compilation, harness+generators",
         "machine-checked proof (Lean 4) + differential correspondence with regenerated literal tables", "DESIGN.md §2 C11"),
 "C12": ("lean-proof+differential",
         "Lean theorems over the same model for ARBITRARY byte strings and positions: every read call returns a value or one of the documented errors (the explicit crash outcome is unreachable), 0 <= pos <= pos' <= len, a failed fixed-width read consumes nothing, the 7-bit decoder consumes at most 5 bytes and rejects a 5th byte > 15, a successful ReadBytes/ReadString returns exactly the announced bytes from the right offset, the size passed to make is <= the remaining input (0 for every other call), any sequence of calls keeps the invariant; decide-proved counterexample for the pre-fix allocation. Tie to /repo: every byte string of length <= 2 x every call at every position, structured hostile inputs (truncated values, over-long 7-bit groups, prefixes up to 2^31-1, negative sizes) and random call sequences on the real reader: outcome, error identity, Position/Len and an allocation meter (runtime.MemStats) compared with the model and judged by an independent oracle",
         "trusted: MemStats allocation meter with slack 2*remaining+64 for size-class rounding; make of n <= remaining bytes does not fail; Lean kernel, axioms in evidence, driver compilation, harness+generators",
         "machine-checked proof (Lean 4) + differential correspondence on arbitrary bytes", "DESIGN.md §2 C12"),
 "C04": ("lean-proof+virtual-time",
         "Lean theorems over a timed LTS of cachex (P workers, bounded job queue, shard locks, futures with the three publication points of setValue, Load/Get2/Set/Future.Get, sweep; ghost job location): a Load that finds a loading or fresh entry creates no future and no job; in every reachable state at most one unresolved load-future per key not displaced by Set, hence at most one running loader per key unless Set intervened; a future is resolved once, by the worker holding its job with the pair its loader returned for the key it was created for (or by Set) and never changes, so all Gets agree; shard index in range for every 64-bit pattern, all ten key kinds and every power-of-two count, convertPowerOfTwo = least power of two >= n. Tie to /repo: scripted scenarios on the real cache under the Go runtime's virtual clock (loaders with scripted durations/results, all key kinds); the compiled model in monitor mode must reproduce which future each Load returns, every returned pair and instant and the loader log; stress phase with real goroutines; independent oracle",
         "trusted: a mutex critical section is one atomic step, Go channel/select semantics, the fake clock (GOMAXPROCS<=2), finalizer shutdown out of scope; Lean kernel, axioms in evidence, driver compilation, harness",
         "machine-checked proof (Lean 4) + trace inclusion of virtual-time runs", "DESIGN.md §2 C04"),
 "C05": ("lean-proof+virtual-time",
         "Lean theorems (decision logic stated outright for every state, clock and both expiries, constants 2*expire and 4*normalExpire read from the regenerated facts): status table; fresh => served without a job; expired => the stale future is returned immediately and exactly one job with it as predecessor is created; while refreshing no further job and the stale result only while < 2E; a rotted result is never returned by Load, fetchIfGood or Get2 (newer future, or (nil,nil) when nothing is in flight); the refresh replaces the entry; the sweep is invisible: bisimulation up to rotted entries for all client steps, time steps and the sweep. Tie to /repo: virtual-time scenarios with call instants at u+E, u+2E +-1ns, sweeps at multiples of 4E, value and error results, exhaustive boundary table; monitor comparison + independent oracle",
         "trusted: as C04; oracle skips a check when events tie in virtual time",
         "machine-checked proof (Lean 4) + trace inclusion of virtual-time runs", "DESIGN.md §2 C05"),
 "C06": ("lean-proof+virtual-time",
         "Lean theorems: for all P >= 1, J >= 1 every reachable state of the (fixed) model in which no client/worker/loader step is enabled has every call returned and every future resolved (invariants: a lock holder always has an enabled step; every unresolved load-future's job is in exactly one of creator-about-to-send / queue / running worker); a measure strictly decreasing on every client, worker and loader step bounds the work between clock events; decide-proved deadlock of the old send-under-lock variant (P=1, J=1) and progress of the same schedule on the fixed code. Tie to /repo: burst scenarios (J+P+3 Loads, pending sweep tick, up to 40 rounds) on the real cache under the virtual clock with hang detection, regression corpus for the fixed deadlock; monitor comparison + oracle (no hang)",
         "trusted: loaders return (hypothesis of the property); as C04",
         "machine-checked proof (Lean 4) + virtual-time burst scenarios with hang detection", "DESIGN.md §2 C06"),
}
NOT_CLAIMED = {}

def main():
    props = [json.loads(l) for l in open(os.path.join(V, "properties.jsonl"))]
    commits = subprocess.run(["git", "-C", "/repo", "log", "--format=%h %s"], capture_output=True, text=True).stdout.strip().split("\n")
    hook_commits = [c.split()[0] for c in commits if c.split(" ", 1)[1].startswith("verif:")]
    checks, na = [], []
    for p in props:
        i = p["id"]
        if i in CLAIMED:
            eng, text, note, tech, ref = CLAIMED[i]
            checks.append({
                "property_id": i,
                "quick_cmd": "./check %s --tier quick" % i,
                "thorough_cmd": "./check %s --tier thorough" % i,
                "evidence_file": "/verif/evidence/%s.json" % i,
                "replay_cmd_template": "./check %s --replay {path}" % i,
                "engine": eng,
                "level_claimed": {"category": "proof", "text": text, "design_ref": ref},
                "level_note": note,
                "technique": tech})
        else:
            na.append({"property_id": i, "reason": NOT_CLAIMED.get(i, "check not built yet (work in progress; see DESIGN.md §5 order of work)")})
    m = {"version": 1,
         "setup_cmd": "./setup.sh",
         "hooks": {"guard": "verif",
                   "enable": "go build -tags verif (harnesses under /verif/harness; virtual-time harnesses add the Go runtime's own -tags faketime)",
                   "baseline_off_cmd": "cd /repo && go test -mod=mod -vet=off -count=1 -timeout 25m ./...",
                   "source_commits": hook_commits,
                   "add_only": True},
         "engines": [{"name": "lean-proof", "path": "/verif/lean", "serves_properties": sorted(CLAIMED), "kind_free_text": "Lean 4 models + theorems (lake build, #print axioms audit, leanchecker in thorough)"},
                     {"name": "correspondence", "path": "/verif/harness", "serves_properties": sorted(CLAIMED), "kind_free_text": "Go harnesses running the real code vs compiled Lean driver, line protocol"},
                     {"name": "srcfacts", "path": "/verif/tools/srcfacts", "serves_properties": sorted(CLAIMED), "kind_free_text": "go/ast+go/types extractor regenerating Lean facts from source"}],
         "checks": checks,
         "not_applicable": na,
         "notes": "All checks: ./check <id> [--tier quick|thorough] [--replay file]; VERIF_SEED and VERIF_TIER honoured; VERIF_REPO overrides /repo for self-tests on mutated scratch copies."}
    if not na:
        del m["not_applicable"]
    json.dump(m, open(os.path.join(V, "MANIFEST.json"), "w"), indent=1)
    print("checks:", len(checks), "not_applicable:", len(na))

main()
