#!/usr/bin/env python3
"""regenerates /verif/MANIFEST.json from the table below (claimed checks) — properties without an
entry are listed under not_applicable with the reason given in NOT_CLAIMED."""
import json, os, subprocess
V = os.path.dirname(os.path.dirname(os.path.abspath(__file__)))

CLAIMED = {
 # id: (engine, text, note, technique, design_ref)
 "C14": ("lean-proof+differential",
         "Lean theorems over Model.Search for every count and every pair of predicates consistent with a sorted list (result = first match or complement of insertion point, probes in range, probe-count bound, termination); model tied to /repo by per-run differential comparison of result and probe log",
         "trusted: Lean kernel, axioms listed in evidence, driver compilation, harness + generators; Go int arithmetic of the midpoint related to Int by lemma",
         "machine-checked proof (Lean 4) + differential correspondence", "DESIGN.md §2 C14"),
 "C18": ("lean-proof+site-table+race-search",
         "Lean theorems: a set-based happens-before discipline monitor is sound w.r.t. the declarative happens-before of the Go memory model (accepted trace => no unordered conflicting accesses), and the three synchronisation skeletons used for the repository's plain shared fields (publish-once, ants per-attempt CAS arbitration, mutex-guarded) only produce accepted traces, for any number of goroutines and any interleaving; tie to /repo: every access site of the watched fields is re-extracted from source on each run (srcfacts) and matched by the compiled Lean site table; search for concrete races: race-detector stress (never counted as proof)",
         "partial by nature: compiler/runtime/memory-model implementation, synchronisation semantics of the primitives and completeness of the access extraction are trusted; the race detector is a search tool only",
         "machine-checked proof (Lean 4) of publication discipline + regenerated access-site table + race-detector search", "DESIGN.md §2 C18"),
 "C13": ("lean-proof+differential",
         "Lean theorems: for every operation sequence (non-negative sizes) the models of iox.Buffer (grow policy transcribed branch by branch, capacity included) and iox.OctetsStream refine an abstract seekable FIFO over the full write history (unread portion = bytes written and not consumed; compaction invisible; Seek fails unchanged or lands inside the retained data, all int64 offsets incl. overflow; no panic); models tied to /repo by per-run differential comparison of every observation (result, Bytes, Len, cursor, Cap) after every op over exhaustive short and random long sequences, plus an independent Python reference oracle",
         "trusted: Lean kernel, axioms in evidence, driver compilation, harness+generators; bytes between len and cap unobservable; ErrTooLarge excluded by a stated total-size bound; single goroutine",
         "machine-checked refinement proof (Lean 4) + differential correspondence", "DESIGN.md §2 C13"),
}
NOT_CLAIMED = {}

def main():
    props = [json.loads(l) for l in open(os.path.join(V, "properties.jsonl"))]
    commits = subprocess.run(["git", "-C", "/repo", "log", "--format=%h %s"], capture_output=True, text=True).stdout.strip().split("\n")
    hook_commits = [c.split()[0] for c in commits if c.split(" ", 1)[1].startswith("verif:")]
    checks, na = [], []
    for p in props:
        i = p["id"]
        if i in CLAIMED:
            eng, text, note, tech, ref = CLAIMED[i]
            checks.append({
                "property_id": i,
                "quick_cmd": "./check %s --tier quick" % i,
                "thorough_cmd": "./check %s --tier thorough" % i,
                "evidence_file": "/verif/evidence/%s.json" % i,
                "replay_cmd_template": "./check %s --replay {path}" % i,
                "engine": eng,
                "level_claimed": {"category": "proof", "text": text, "design_ref": ref},
                "level_note": note,
                "technique": tech})
        else:
            na.append({"property_id": i, "reason": NOT_CLAIMED.get(i, "check not built yet (work in progress; see DESIGN.md §5 order of work)")})
    m = {"version": 1,
         "setup_cmd": "./setup.sh",
         "hooks": {"guard": "verif",
                   "enable": "go build -tags verif (harnesses under /verif/harness; virtual-time harnesses add the Go runtime's own -tags faketime)",
                   "baseline_off_cmd": "cd /repo && go test -mod=mod -vet=off -count=1 -timeout 25m ./...",
                   "source_commits": hook_commits,
                   "add_only": True},
         "engines": [{"name": "lean-proof", "path": "/verif/lean", "serves_properties": sorted(CLAIMED), "kind_free_text": "Lean 4 models + theorems (lake build, #print axioms audit, leanchecker in thorough)"},
                     {"name": "correspondence", "path": "/verif/harness", "serves_properties": sorted(CLAIMED), "kind_free_text": "Go harnesses running the real code vs compiled Lean driver, line protocol"},
                     {"name": "srcfacts", "path": "/verif/tools/srcfacts", "serves_properties": sorted(CLAIMED), "kind_free_text": "go/ast+go/types extractor regenerating Lean facts from source"}],
         "checks": checks,
         "not_applicable": na,
         "notes": "All checks: ./check <id> [--tier quick|thorough] [--replay file]; VERIF_SEED and VERIF_TIER honoured; VERIF_REPO overrides /repo for self-tests on mutated scratch copies."}
    if not na:
        del m["not_applicable"]
    json.dump(m, open(os.path.join(V, "MANIFEST.json"), "w"), indent=1)
    print("checks:", len(checks), "not_applicable:", len(na))

main()
