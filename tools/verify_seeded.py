#!/usr/bin/env python3
"""Confirms a candidate seeded change before it is kept under /verif/seeded/<name>/.
usage: tools/verify_seeded.py <dir-with patch.diff + demo + meta.json> [...]
For each directory, in a fresh scratch worktree of /repo (removed afterwards):
  1. the demo passes on the unchanged tree;
  2. the patch applies, `go build ./...` works, the pinned baseline tests of every touched package pass;
  3. the demo fails with the patch.
Demo placement: every *_test.go file goes into the directory named by its package clause (package foo or
foo_test -> <repo>/foo/); a main program (package main) is run with `go run` from a scratch module that
replaces the library by the worktree.  Prints one verdict line per directory: CONFIRMED / REJECTED <why>."""
import json
import os
import re
import shutil
import subprocess
import sys
import tempfile

ENV = dict(os.environ, GOFLAGS="-mod=mod", GOPROXY="off", GOSUMDB="off", GOTOOLCHAIN="local")
BASE = json.load(open("/root/.vp/BASELINE.json"))["stable_pass"]
PINNED = {}
for t in BASE:
    pk, n = t.split("::")
    PINNED.setdefault(pk.split("/")[-1], []).append(n)


def sh(cmd, cwd, timeout=900):
    try:
        p = subprocess.run(cmd, cwd=cwd, env=ENV, capture_output=True, text=True, timeout=timeout)
        return p.returncode, (p.stdout + p.stderr)[-3000:]
    except subprocess.TimeoutExpired:
        return 124, "timeout"


def demo_cmds(d, wt):
    """copy demo files into the worktree; returns list of (cmd, cwd) and list of copied paths"""
    cmds, copied = [], []
    tests = {}
    extra = []
    meta = open(os.path.join(d, "meta.json")).read()
    if "-race" in json.loads(meta).get("demo", ""):
        extra.append("-race")
    for f in sorted(os.listdir(d)):
        p = os.path.join(d, f)
        if not f.endswith(".go"):
            continue
        src = open(p).read()
        m = re.search(r"^package\s+(\w+)", src, re.M)
        pkg = m.group(1) if m else ""
        if re.search(r"^//go:build verif", src, re.M) and "-tags" not in extra:
            extra += ["-tags", "verif"]
        if f.endswith("_test.go"):
            pdir = pkg[:-5] if pkg.endswith("_test") else pkg
            dst = os.path.join(wt, pdir, "zz_" + f)
            shutil.copy(p, dst)
            copied.append(dst)
            tests.setdefault(pdir, []).extend(re.findall(r"^func (Test\w+)\(", src, re.M))
        elif pkg == "main":
            md = os.path.join(wt, "zz_demo_" + f[:-3])
            os.makedirs(md, exist_ok=True)
            shutil.copy(p, os.path.join(md, "main.go"))
            copied.append(md)
            cmds.append((["go", "run", "./" + os.path.basename(md)], wt))
    for pdir, names in tests.items():
        cmds.append((["go", "test"] + extra + ["-vet=off", "-count=1", "-timeout", "300s", "-run", "^(%s)$" % "|".join(names), "./" + pdir], wt))
    return cmds, copied


def verify(d):
    d = os.path.abspath(d)
    patch = os.path.join(d, "patch.diff")
    if not os.path.exists(patch) or not os.path.exists(os.path.join(d, "meta.json")):
        return "REJECTED missing patch.diff or meta.json"
    wt = tempfile.mkdtemp(prefix="vseed-", dir="/tmp")
    os.rmdir(wt)
    subprocess.run(["git", "-C", "/repo", "worktree", "add", "-q", "--detach", wt, "HEAD"], check=True)
    try:
        touched = sorted({m.split("/")[0] for m in re.findall(r"^\+\+\+ b/(\S+)", open(patch).read(), re.M)})
        if any(re.search(r"verif_|_test\.go", m) for m in re.findall(r"^\+\+\+ b/(\S+)", open(patch).read(), re.M)):
            return "REJECTED patch touches tests or verif_ files"
        cmds, copied = demo_cmds(d, wt)
        if not cmds:
            return "REJECTED no demo found"
        for c, cwd in cmds:
            rc, out = sh(c, cwd)
            if rc != 0:
                return "REJECTED demo fails on the unchanged tree: " + out[-400:].replace("\n", " | ")
        rc, out = sh(["git", "apply", patch], wt)
        if rc != 0:
            return "REJECTED patch does not apply: " + out[-300:]
        rc, out = sh(["go", "build", "./..."], wt)
        if rc != 0:
            return "REJECTED does not build: " + out[-300:]
        # pinned tests without the demo files
        for c in copied:
            if os.path.isdir(c):
                shutil.rmtree(c)
            else:
                os.remove(c)
        for pk in touched:
            if pk in PINNED:
                rc, out = sh(["go", "test", "-vet=off", "-count=1", "-timeout", "600s", "-run", "^(%s)$" % "|".join(PINNED[pk]), "./" + pk], wt)
                if rc != 0:
                    return "REJECTED pinned tests of %s fail with the patch: %s" % (pk, out[-400:].replace("\n", " | "))
        cmds, copied = demo_cmds(d, wt)
        fails = 0
        for k in range(3):
            bad = False
            for c, cwd in cmds:
                rc, out = sh(c, cwd)
                if rc != 0:
                    bad = True
            fails += bad
        if fails < 3:
            return "REJECTED demo failed only %d of 3 runs with the patch" % fails
        return "CONFIRMED touched=%s demo fails 3/3 with the patch, passes without" % ",".join(touched)
    finally:
        subprocess.run(["git", "-C", "/repo", "worktree", "remove", "--force", wt])
        shutil.rmtree(wt, ignore_errors=True)


if __name__ == "__main__":
    import concurrent.futures as cf
    with cf.ThreadPoolExecutor(max_workers=int(os.environ.get("VS_JOBS", "4"))) as ex:
        for d, r in zip(sys.argv[1:], ex.map(verify, sys.argv[1:])):
            print(os.path.basename(os.path.normpath(d)), r, flush=True)
