// minigo.go: translation of the integer fragment of Go into the MiniGo deep embedding of
// /verif/lean/Got/Model/MiniGo.lean. The translated term is regenerated from the repository's
// current source on every run (Got/Generated/Ast<Pkg>.lean) and the Lean theorems about it are
// re-checked; a construct outside the fragment yields an empty body and a note, so that the
// obligations fail instead of silently keeping an old translation.
package main

import (
	"fmt"
	"go/ast"
	"go/constant"
	"go/token"
	"go/types"
	"strings"
)

type miniTarget struct {
	pkg, fn, leanDef string
}

// functions translated (package, Go name, Lean definition name in Got.Generated.Ast<Pkg>)
var miniTargets = []miniTarget{{"sortx", "Search", "search"}, {"loom", "convertPowerOfTwo", "convertPowerOfTwo"}}

type miniTr struct {
	info     *types.Info
	ints     map[string]bool // int-typed variables in scope (flat)
	funcs    map[string]bool // func(int) bool parameters
	declared map[string]bool
	names    map[string]string // source name -> positional name (a<k> int parameter, f<k> func parameter, v<k> local)
	nLocals  int
	err      string
}

func (t *miniTr) fail(n ast.Node, format string, a ...interface{}) {
	if t.err == "" {
		t.err = fmt.Sprintf(format, a...)
	}
}

func isIntType(ty types.Type) (ok, unsigned bool) {
	b, isb := ty.Underlying().(*types.Basic)
	if !isb {
		return false, false
	}
	switch b.Kind() {
	case types.Int, types.Int64, types.UntypedInt:
		return true, false
	case types.Uint, types.Uint64, types.Uintptr:
		return true, true
	}
	return false, false
}

func (t *miniTr) typeOf(e ast.Expr) types.Type {
	if tv, ok := t.info.Types[e]; ok && tv.Type != nil {
		return tv.Type
	}
	return nil
}

func (t *miniTr) expr(e ast.Expr) string {
	switch x := e.(type) {
	case *ast.ParenExpr:
		return t.expr(x.X)
	case *ast.BasicLit:
		if x.Kind == token.INT {
			if tv, ok := t.info.Types[e]; ok && tv.Value != nil && tv.Value.Kind() == constant.Int {
				return "(.lit " + leanInt(tv.Value.ExactString()) + ")"
			}
		}
		t.fail(e, "literal %s", x.Value)
	case *ast.Ident:
		if t.ints[x.Name] {
			return fmt.Sprintf("(.var %q)", t.names[x.Name])
		}
		t.fail(e, "identifier %s is not an int variable of the function", x.Name)
	case *ast.UnaryExpr:
		switch x.Op {
		case token.SUB:
			return "(.neg " + t.expr(x.X) + ")"
		case token.XOR:
			return "(.compl " + t.expr(x.X) + ")"
		case token.ADD:
			return t.expr(x.X)
		}
		t.fail(e, "unary operator %s", x.Op)
	case *ast.BinaryExpr:
		switch x.Op {
		case token.ADD:
			return "(.add " + t.expr(x.X) + " " + t.expr(x.Y) + ")"
		case token.SUB:
			return "(.sub " + t.expr(x.X) + " " + t.expr(x.Y) + ")"
		case token.SHL, token.SHR:
			tv, ok := t.info.Types[x.Y]
			if !ok || tv.Value == nil || tv.Value.Kind() != constant.Int {
				t.fail(e, "shift by a non-constant")
				return "(.lit 0)"
			}
			k, exact := constant.Int64Val(tv.Value)
			if !exact || k < 0 || k > 63 {
				t.fail(e, "shift count %s", tv.Value)
				return "(.lit 0)"
			}
			ty := t.typeOf(x.X)
			if ty == nil {
				t.fail(e, "untyped shift operand")
				return "(.lit 0)"
			}
			isInt, unsigned := isIntType(ty)
			if !isInt {
				t.fail(e, "shift of a non-64-bit integer type %s", ty)
				return "(.lit 0)"
			}
			if x.Op == token.SHL {
				return fmt.Sprintf("(.shl %s %d)", t.expr(x.X), k)
			}
			if unsigned {
				return fmt.Sprintf("(.shrU %s %d)", t.expr(x.X), k)
			}
			return fmt.Sprintf("(.shrS %s %d)", t.expr(x.X), k)
		}
		t.fail(e, "binary operator %s", x.Op)
	case *ast.CallExpr:
		// conversions int(x) / uint(x) between 64-bit integer types
		if tv, ok := t.info.Types[x.Fun]; ok && tv.IsType() && len(x.Args) == 1 {
			if isInt, _ := isIntType(tv.Type); isInt {
				if at := t.typeOf(x.Args[0]); at != nil {
					if argInt, _ := isIntType(at); argInt {
						return "(.conv " + t.expr(x.Args[0]) + ")"
					}
				}
			}
		}
		t.fail(e, "call in an integer expression")
	default:
		t.fail(e, "expression %T", e)
	}
	return "(.lit 0)"
}

func (t *miniTr) signedOperands(x *ast.BinaryExpr) bool {
	for _, o := range []ast.Expr{x.X, x.Y} {
		ty := t.typeOf(o)
		if ty == nil {
			return false
		}
		isInt, unsigned := isIntType(ty)
		if !isInt || unsigned {
			return false
		}
	}
	return true
}

func (t *miniTr) cond(e ast.Expr) string {
	switch x := e.(type) {
	case *ast.ParenExpr:
		return t.cond(x.X)
	case *ast.UnaryExpr:
		if x.Op == token.NOT {
			return "(.not " + t.cond(x.X) + ")"
		}
		t.fail(e, "unary operator %s in a condition", x.Op)
	case *ast.BinaryExpr:
		switch x.Op {
		case token.LOR:
			return "(.or " + t.cond(x.X) + " " + t.cond(x.Y) + ")"
		case token.LAND:
			return "(.and " + t.cond(x.X) + " " + t.cond(x.Y) + ")"
		case token.EQL, token.NEQ, token.LEQ, token.LSS, token.GEQ, token.GTR:
			if !t.signedOperands(x) {
				t.fail(e, "comparison of operands that are not signed 64-bit ints")
				return "(.eq (.lit 0) (.lit 0))"
			}
			a, b := t.expr(x.X), t.expr(x.Y)
			switch x.Op {
			case token.EQL:
				return "(.eq " + a + " " + b + ")"
			case token.NEQ:
				return "(.ne " + a + " " + b + ")"
			case token.LEQ:
				return "(.le " + a + " " + b + ")"
			case token.LSS:
				return "(.lt " + a + " " + b + ")"
			case token.GEQ:
				return "(.le " + b + " " + a + ")"
			default:
				return "(.lt " + b + " " + a + ")"
			}
		}
		t.fail(e, "binary operator %s in a condition", x.Op)
	case *ast.CallExpr:
		if id, ok := x.Fun.(*ast.Ident); ok && t.funcs[id.Name] && len(x.Args) == 1 {
			return fmt.Sprintf("(.call %q %s)", t.names[id.Name], t.expr(x.Args[0]))
		}
		t.fail(e, "call of something that is not a func(int) bool parameter")
	default:
		t.fail(e, "condition %T", e)
	}
	return "(.eq (.lit 0) (.lit 0))"
}

func (t *miniTr) declare(name string, n ast.Node) {
	if t.declared[name] {
		t.fail(n, "name %s declared twice (the flat environment of MiniGo has no shadowing)", name)
	}
	t.declared[name] = true
	t.ints[name] = true
	t.names[name] = fmt.Sprintf("v%d", t.nLocals)
	t.nLocals++
}

func (t *miniTr) block(b *ast.BlockStmt, ind string) string {
	if b == nil || len(b.List) == 0 {
		return "[]"
	}
	var parts []string
	for _, s := range b.List {
		parts = append(parts, ind+"  "+t.stmt(s, ind+"  "))
	}
	return "[\n" + strings.Join(parts, ",\n") + "\n" + ind + "]"
}

func (t *miniTr) stmt(s ast.Stmt, ind string) string {
	switch x := s.(type) {
	case *ast.ReturnStmt:
		if len(x.Results) == 1 {
			return ".ret " + t.expr(x.Results[0])
		}
		t.fail(s, "return with %d results", len(x.Results))
	case *ast.DeclStmt:
		gd, ok := x.Decl.(*ast.GenDecl)
		if ok && gd.Tok == token.VAR && len(gd.Specs) == 1 {
			vs := gd.Specs[0].(*ast.ValueSpec)
			if len(vs.Names) == 1 && len(vs.Values) == 1 {
				if ty := t.typeOf(vs.Values[0]); ty != nil {
					if isInt, unsigned := isIntType(ty); isInt && !unsigned {
						v := t.expr(vs.Values[0]) // evaluated before the name comes into scope
						t.declare(vs.Names[0].Name, s)
						return fmt.Sprintf(".decl %q %s", t.names[vs.Names[0].Name], v)
					}
				}
			}
		}
		t.fail(s, "declaration outside the fragment")
	case *ast.AssignStmt:
		if len(x.Lhs) == 1 && len(x.Rhs) == 1 {
			if id, ok := x.Lhs[0].(*ast.Ident); ok {
				if x.Tok == token.ASSIGN && t.ints[id.Name] {
					return fmt.Sprintf(".assign %q %s", t.names[id.Name], t.expr(x.Rhs[0]))
				}
				// x op= e  is  x = x op (e)
				if op, ok := map[token.Token]token.Token{token.ADD_ASSIGN: token.ADD, token.SUB_ASSIGN: token.SUB,
					token.SHL_ASSIGN: token.SHL, token.SHR_ASSIGN: token.SHR}[x.Tok]; ok && t.ints[id.Name] {
					return fmt.Sprintf(".assign %q %s", t.names[id.Name],
						t.expr(&ast.BinaryExpr{X: id, Op: op, Y: x.Rhs[0]}))
				}
				if x.Tok == token.DEFINE {
					if ty := t.typeOf(x.Rhs[0]); ty != nil {
						if isInt, unsigned := isIntType(ty); isInt && !unsigned {
							v := t.expr(x.Rhs[0])
							t.declare(id.Name, s)
							return fmt.Sprintf(".decl %q %s", t.names[id.Name], v)
						}
					}
				}
			}
		}
		t.fail(s, "assignment outside the fragment")
	case *ast.IfStmt:
		if x.Init != nil {
			t.fail(s, "if with an init statement")
			break
		}
		c := t.cond(x.Cond)
		th := t.block(x.Body, ind)
		el := "[]"
		switch e := x.Else.(type) {
		case nil:
		case *ast.BlockStmt:
			el = t.block(e, ind)
		case *ast.IfStmt:
			el = "[\n" + ind + "  " + t.stmt(e, ind+"  ") + "\n" + ind + "]"
		default:
			t.fail(s, "else branch %T", e)
		}
		return ".ite " + c + " " + th + " " + el
	case *ast.ForStmt:
		if x.Init != nil || x.Post != nil || x.Cond == nil {
			t.fail(s, "for statement that is not `for cond { }`")
			break
		}
		return ".while " + t.cond(x.Cond) + " " + t.block(x.Body, ind)
	default:
		t.fail(s, "statement %T", s)
	}
	return ".ret (.lit 0)"
}

func leanInt(v string) string {
	if strings.HasPrefix(v, "-") {
		return "(" + v + ")"
	}
	return v
}

func containsBranch(b *ast.BlockStmt) bool {
	found := false
	ast.Inspect(b, func(n ast.Node) bool {
		switch n.(type) {
		case *ast.BranchStmt, *ast.LabeledStmt, *ast.FuncLit, *ast.GoStmt, *ast.DeferStmt:
			found = true
		}
		return !found
	})
	return found
}

// Names are positional (a<k> = k-th int parameter, f<k> = k-th func parameter, v<k> = k-th local in order of
// declaration), so that renaming a variable in the source does not change the translation.
//
// translateMini renders `def <leanDef> : Fn` and `def <leanDef>Note : String`
func translateMini(tg miniTarget, fd *ast.FuncDecl, info *types.Info) string {
	t := &miniTr{info: info, ints: map[string]bool{}, funcs: map[string]bool{}, declared: map[string]bool{}, names: map[string]string{}}
	var intParams, funcParams []string
	if fd == nil {
		t.err = "function not found"
	} else {
		if fd.Recv != nil || fd.Type.TypeParams != nil {
			t.fail(fd, "method or generic function")
		}
		if fd.Type.Results == nil || len(fd.Type.Results.List) != 1 || len(fd.Type.Results.List[0].Names) != 0 {
			t.fail(fd, "result list is not one unnamed value")
		} else if ty := t.typeOf(fd.Type.Results.List[0].Type); ty == nil {
			t.fail(fd, "untyped result")
		} else if isInt, unsigned := isIntType(ty); !isInt || unsigned {
			t.fail(fd, "result type %s", ty)
		}
		for _, p := range fd.Type.Params.List {
			ty := t.typeOf(p.Type)
			for _, n := range p.Names {
				if t.declared[n.Name] {
					t.fail(fd, "parameter %s twice", n.Name)
				}
				t.declared[n.Name] = true
				if ty == nil {
					t.fail(fd, "untyped parameter %s", n.Name)
					continue
				}
				if isInt, unsigned := isIntType(ty); isInt && !unsigned {
					t.ints[n.Name] = true
					t.names[n.Name] = fmt.Sprintf("a%d", len(intParams))
					intParams = append(intParams, t.names[n.Name])
					continue
				}
				if sg, ok := ty.Underlying().(*types.Signature); ok && sg.Params().Len() == 1 && sg.Results().Len() == 1 && !sg.Variadic() {
					pi, pu := isIntType(sg.Params().At(0).Type())
					rb, isb := sg.Results().At(0).Type().Underlying().(*types.Basic)
					if pi && !pu && isb && rb.Kind() == types.Bool {
						t.funcs[n.Name] = true
						t.names[n.Name] = fmt.Sprintf("f%d", len(funcParams))
						funcParams = append(funcParams, t.names[n.Name])
						continue
					}
				}
				t.fail(fd, "parameter %s of type %s", n.Name, ty)
			}
		}
		if fd.Body != nil && containsBranch(fd.Body) {
			t.fail(fd, "break/continue/goto/label/closure/go/defer")
		}
	}
	body := "[]"
	if t.err == "" {
		body = t.block(fd.Body, "    ")
	}
	if t.err != "" {
		body = "[]"
		intParams, funcParams = nil, nil
	}
	q := func(l []string) string {
		var o []string
		for _, s := range l {
			o = append(o, fmt.Sprintf("%q", s))
		}
		return "[" + strings.Join(o, ", ") + "]"
	}
	note := "ok"
	if t.err != "" {
		note = "outside the MiniGo fragment: " + t.err
	}
	var b strings.Builder
	fmt.Fprintf(&b, "def %sNote : String := %q\n\n", tg.leanDef, note)
	fmt.Fprintf(&b, "def %s : Fn :=\n  { name := %q\n    intParams := %s\n    funcParams := %s\n    body := %s }\n",
		tg.leanDef, tg.pkg+"."+tg.fn, q(intParams), q(funcParams), body)
	return b.String()
}

func leanAstFile(pkg string, defs []string) string {
	var b strings.Builder
	b.WriteString("import Got.Model.MiniGo\n")
	b.WriteString("/- GENERATED by /verif/tools/srcfacts from the repository's current working tree on every run. Do not edit.\n")
	b.WriteString("   MiniGo translations (Got/Model/MiniGo.lean) of functions of package " + pkg + "; a construct outside the\n")
	b.WriteString("   fragment makes the body empty and is named in the `…Note` string. -/\n")
	b.WriteString("namespace Got.Generated.Ast" + strings.ToUpper(pkg[:1]) + pkg[1:] + "\nopen Got.Model.MiniGo\n\n")
	b.WriteString(strings.Join(defs, "\n"))
	b.WriteString("\nend Got.Generated.Ast" + strings.ToUpper(pkg[:1]) + pkg[1:] + "\n")
	return b.String()
}
