module verif/srcfacts

go 1.22
