// minigo_sort.go: translation of the sort code of package sortx (zfuncversion.go: insertionSort_func, siftDown_func,
// heapSort_func, medianOfThree_func, doPivot_func, quickSort_func; sort.go: maxDepth) into the MiniGoSort deep
// embedding of /verif/lean/Got/Model/MiniGoSort.lean.  The terms are regenerated from the repository's current
// source on every run (Got/Generated/AstSortxSort.lean) and the Lean theorems about them (Got/Lemmas/SortAst*.lean,
// Got/Props/C15.lean) are re-checked; a construct outside the fragment yields an empty body and a note naming it, so
// that the obligations fail instead of silently keeping an old translation.
//
// Variables are numbered: int parameters first (in order), then named results, then locals in order of declaration.
// Identifiers are resolved through go/types objects (Defs/Uses), so scopes and shadowing are the type checker's.
package main

import (
	"fmt"
	"go/ast"
	"go/constant"
	"go/token"
	"go/types"
	"path/filepath"
	"strings"
)

func init() { plugins = append(plugins, sortAstPlugin) }

// translated functions of package sortx, in the order of the generated file
var sortAstTargets = []string{"insertionSort_func", "siftDown_func", "heapSort_func", "medianOfThree_func",
	"doPivot_func", "quickSort_func", "maxDepth"}

type sortSig struct {
	dataPos  int // index of the `data lessSwap` parameter in the Go parameter list, -1 if none
	nparams  int // int parameters
	nresults int
	ok       bool
}

type sortTr struct {
	info  *types.Info
	sigs  map[string]sortSig
	data  types.Object            // the `data lessSwap` parameter
	ints  map[types.Object]int    // int variables -> number
	bools map[types.Object]int    // bool locals -> number
	next  int
	nres  int
	loops int
	err   string
}

func (t *sortTr) fail(format string, a ...interface{}) {
	if t.err == "" {
		t.err = fmt.Sprintf(format, a...)
	}
}

func (t *sortTr) typeOf(e ast.Expr) types.Type {
	if tv, ok := t.info.Types[e]; ok && tv.Type != nil {
		return tv.Type
	}
	return nil
}

func (t *sortTr) obj(id *ast.Ident) types.Object {
	if o := t.info.Defs[id]; o != nil {
		return o
	}
	return t.info.Uses[id]
}

func sortIsSignedInt(ty types.Type) bool {
	if ty == nil {
		return false
	}
	b, ok := ty.Underlying().(*types.Basic)
	return ok && (b.Kind() == types.Int || b.Kind() == types.Int64 || b.Kind() == types.UntypedInt)
}

func sortIsBool(ty types.Type) bool {
	if ty == nil {
		return false
	}
	b, ok := ty.Underlying().(*types.Basic)
	return ok && (b.Kind() == types.Bool || b.Kind() == types.UntypedBool)
}

// sortIsLessSwap: named struct type `lessSwap` with fields Less func(int,int) bool and Swap func(int,int)
func sortIsLessSwap(ty types.Type) bool {
	n, ok := ty.(*types.Named)
	if !ok || n.Obj().Name() != "lessSwap" {
		return false
	}
	st, ok := n.Underlying().(*types.Struct)
	if !ok || st.NumFields() != 2 {
		return false
	}
	check := func(f *types.Var, name string, nres int) bool {
		if f.Name() != name {
			return false
		}
		sg, ok := f.Type().Underlying().(*types.Signature)
		if !ok || sg.Variadic() || sg.Params().Len() != 2 || sg.Results().Len() != nres {
			return false
		}
		for i := 0; i < 2; i++ {
			if b, ok := sg.Params().At(i).Type().Underlying().(*types.Basic); !ok || b.Kind() != types.Int {
				return false
			}
		}
		if nres == 1 {
			return sortIsBool(sg.Results().At(0).Type())
		}
		return true
	}
	return check(st.Field(0), "Less", 1) && check(st.Field(1), "Swap", 0)
}

func (t *sortTr) constInt(e ast.Expr) (string, bool) {
	tv, ok := t.info.Types[e]
	if !ok || tv.Value == nil || tv.Value.Kind() != constant.Int {
		return "", false
	}
	if isInt, _ := isIntType(tv.Type); !isInt {
		return "", false
	}
	return tv.Value.ExactString(), true
}

func (t *sortTr) expr(e ast.Expr) string {
	if v, ok := t.constInt(e); ok {
		return "(.lit " + leanInt(v) + ")"
	}
	switch x := e.(type) {
	case *ast.ParenExpr:
		return t.expr(x.X)
	case *ast.Ident:
		if k, ok := t.ints[t.obj(x)]; ok {
			return fmt.Sprintf("(.var %d)", k)
		}
		t.fail("identifier %s is not an int variable of the function", x.Name)
	case *ast.UnaryExpr:
		switch x.Op {
		case token.SUB:
			return "(.neg " + t.expr(x.X) + ")"
		case token.ADD:
			return t.expr(x.X)
		}
		t.fail("unary operator %s", x.Op)
	case *ast.BinaryExpr:
		ty := t.typeOf(x.X)
		if ty == nil {
			t.fail("untyped operand")
			break
		}
		isInt, unsigned := isIntType(ty)
		if !isInt {
			t.fail("operand of type %s", ty)
			break
		}
		switch x.Op {
		case token.ADD:
			return "(.add " + t.expr(x.X) + " " + t.expr(x.Y) + ")"
		case token.SUB:
			return "(.sub " + t.expr(x.X) + " " + t.expr(x.Y) + ")"
		case token.MUL:
			return "(.mul " + t.expr(x.X) + " " + t.expr(x.Y) + ")"
		case token.QUO:
			tv, ok := t.info.Types[x.Y]
			if unsigned || !ok || tv.Value == nil || tv.Value.Kind() != constant.Int || constant.Sign(tv.Value) <= 0 {
				t.fail("division that is not signed / positive constant")
				break
			}
			k, exact := constant.Int64Val(tv.Value)
			if !exact {
				t.fail("divisor %s", tv.Value)
				break
			}
			return fmt.Sprintf("(.divC %s %d)", t.expr(x.X), k)
		case token.SHL, token.SHR:
			tv, ok := t.info.Types[x.Y]
			if !ok || tv.Value == nil || tv.Value.Kind() != constant.Int {
				t.fail("shift by a non-constant")
				break
			}
			k, exact := constant.Int64Val(tv.Value)
			if !exact || k < 0 || k > 63 {
				t.fail("shift count %s", tv.Value)
				break
			}
			if x.Op == token.SHL {
				return fmt.Sprintf("(.shl %s %d)", t.expr(x.X), k)
			}
			if unsigned {
				return fmt.Sprintf("(.shrU %s %d)", t.expr(x.X), k)
			}
			return fmt.Sprintf("(.shrS %s %d)", t.expr(x.X), k)
		default:
			t.fail("binary operator %s", x.Op)
		}
	case *ast.CallExpr:
		// conversions int(x) / uint(x) between 64-bit integer types
		if tv, ok := t.info.Types[x.Fun]; ok && tv.IsType() && len(x.Args) == 1 {
			if isInt, _ := isIntType(tv.Type); isInt {
				if at := t.typeOf(x.Args[0]); at != nil {
					if argInt, _ := isIntType(at); argInt {
						return "(.conv " + t.expr(x.Args[0]) + ")"
					}
				}
			}
		}
		t.fail("call in an integer expression")
	default:
		t.fail("expression %T", e)
	}
	return "(.lit 0)"
}

// dataCall recognises data.Less(e1, e2) / data.Swap(e1, e2)
func (t *sortTr) dataCall(c *ast.CallExpr, method string) (string, string, bool) {
	sel, ok := c.Fun.(*ast.SelectorExpr)
	if !ok || sel.Sel.Name != method || len(c.Args) != 2 || c.Ellipsis != token.NoPos {
		return "", "", false
	}
	id, ok := sel.X.(*ast.Ident)
	if !ok || t.data == nil || t.obj(id) != t.data {
		return "", "", false
	}
	return t.expr(c.Args[0]), t.expr(c.Args[1]), true
}

func (t *sortTr) cond(e ast.Expr) string {
	if tv, ok := t.info.Types[e]; ok && tv.Value != nil && tv.Value.Kind() == constant.Bool {
		if constant.BoolVal(tv.Value) {
			return ".tt"
		}
		return "(.not .tt)"
	}
	switch x := e.(type) {
	case *ast.ParenExpr:
		return t.cond(x.X)
	case *ast.Ident:
		if k, ok := t.bools[t.obj(x)]; ok {
			return fmt.Sprintf("(.bvar %d)", k)
		}
		t.fail("identifier %s is not a bool local of the function", x.Name)
	case *ast.UnaryExpr:
		if x.Op == token.NOT {
			return "(.not " + t.cond(x.X) + ")"
		}
		t.fail("unary operator %s in a condition", x.Op)
	case *ast.BinaryExpr:
		switch x.Op {
		case token.LOR:
			return "(.or " + t.cond(x.X) + " " + t.cond(x.Y) + ")"
		case token.LAND:
			return "(.and " + t.cond(x.X) + " " + t.cond(x.Y) + ")"
		case token.EQL, token.NEQ, token.LEQ, token.LSS, token.GEQ, token.GTR:
			if !sortIsSignedInt(t.typeOf(x.X)) || !sortIsSignedInt(t.typeOf(x.Y)) {
				t.fail("comparison of operands that are not signed 64-bit ints")
				break
			}
			a, b := t.expr(x.X), t.expr(x.Y)
			switch x.Op {
			case token.EQL:
				return "(.eq " + a + " " + b + ")"
			case token.NEQ:
				return "(.ne " + a + " " + b + ")"
			case token.LEQ:
				return "(.le " + a + " " + b + ")"
			case token.LSS:
				return "(.lt " + a + " " + b + ")"
			case token.GEQ:
				return "(.le " + b + " " + a + ")"
			default:
				return "(.lt " + b + " " + a + ")"
			}
		default:
			t.fail("binary operator %s in a condition", x.Op)
		}
	case *ast.CallExpr:
		if a, b, ok := t.dataCall(x, "Less"); ok {
			return "(.less " + a + " " + b + ")"
		}
		t.fail("call in a condition that is not data.Less(e1, e2)")
	default:
		t.fail("condition %T", e)
	}
	return ".tt"
}

func (t *sortTr) declareInt(id *ast.Ident) int {
	o := t.info.Defs[id]
	if o == nil || id.Name == "_" {
		t.fail("declaration of %s", id.Name)
		return 0
	}
	t.ints[o] = t.next
	t.next++
	return t.ints[o]
}

func (t *sortTr) declareBool(id *ast.Ident) int {
	o := t.info.Defs[id]
	if o == nil || id.Name == "_" {
		t.fail("declaration of %s", id.Name)
		return 0
	}
	t.bools[o] = t.next
	t.next++
	return t.bools[o]
}

// target of an assignment / short declaration of an int: existing variable or a new one (declare = true)
func (t *sortTr) intTarget(e ast.Expr, define bool) (int, bool) {
	id, ok := e.(*ast.Ident)
	if !ok {
		t.fail("assignment to something that is not a variable")
		return 0, false
	}
	if define && t.info.Defs[id] != nil {
		return t.declareInt(id), true
	}
	if k, ok := t.ints[t.obj(id)]; ok {
		return k, true
	}
	t.fail("assignment to %s, which is not an int variable of the function", id.Name)
	return 0, false
}

// funcCall recognises f(data, e...) of a translated function; returns name and argument terms
func (t *sortTr) funcCall(c *ast.CallExpr, nres int) (string, string, bool) {
	id, ok := c.Fun.(*ast.Ident)
	if !ok || c.Ellipsis != token.NoPos {
		return "", "", false
	}
	if _, isFunc := t.info.Uses[id].(*types.Func); !isFunc {
		return "", "", false
	}
	sg, ok := t.sigs[id.Name]
	if !ok || !sg.ok {
		t.fail("call of %s, which is not a translated function", id.Name)
		return "", "", false
	}
	if sg.nresults != nres {
		t.fail("call of %s with %d results used as %d", id.Name, sg.nresults, nres)
		return "", "", false
	}
	var args []string
	for i, a := range c.Args {
		if i == sg.dataPos {
			aid, ok := a.(*ast.Ident)
			if !ok || t.data == nil || t.obj(aid) != t.data {
				t.fail("call of %s: the lessSwap argument is not the function's own data parameter", id.Name)
				return "", "", false
			}
			continue
		}
		if !sortIsSignedInt(t.typeOf(a)) {
			t.fail("call of %s: argument %d is not an int", id.Name, i)
			return "", "", false
		}
		args = append(args, t.expr(a))
	}
	if len(args) != sg.nparams {
		t.fail("call of %s: %d int arguments for %d parameters", id.Name, len(args), sg.nparams)
		return "", "", false
	}
	return id.Name, "[" + strings.Join(args, ", ") + "]", true
}

func (t *sortTr) block(list []ast.Stmt, ind string) string {
	var parts []string
	for _, s := range list {
		for _, p := range t.stmt(s, ind+"  ") {
			parts = append(parts, ind+"  "+p)
		}
	}
	if len(parts) == 0 {
		return "[]"
	}
	return "[\n" + strings.Join(parts, ",\n") + "\n" + ind + "]"
}

var sortOpAssign = map[token.Token]token.Token{token.ADD_ASSIGN: token.ADD, token.SUB_ASSIGN: token.SUB,
	token.MUL_ASSIGN: token.MUL, token.QUO_ASSIGN: token.QUO, token.SHL_ASSIGN: token.SHL, token.SHR_ASSIGN: token.SHR}

// stmt renders one Go statement as zero or more MiniGoSort statements (`for init; …` gives init, then the loop)
func (t *sortTr) stmt(s ast.Stmt, ind string) []string {
	one := func(x string) []string { return []string{x} }
	switch x := s.(type) {
	case *ast.EmptyStmt:
		return nil
	case *ast.ReturnStmt:
		if len(x.Results) != t.nres {
			t.fail("return with %d results in a function with %d", len(x.Results), t.nres)
			break
		}
		var es []string
		for _, r := range x.Results {
			if !sortIsSignedInt(t.typeOf(r)) {
				t.fail("returned value that is not an int")
			}
			es = append(es, t.expr(r))
		}
		return one(".ret [" + strings.Join(es, ", ") + "]")
	case *ast.BranchStmt:
		if x.Tok == token.BREAK && x.Label == nil && t.loops > 0 {
			return one(".brk")
		}
		t.fail("%s statement", x.Tok)
	case *ast.IncDecStmt:
		if k, ok := t.intTarget(x.X, false); ok {
			op := "add"
			if x.Tok == token.DEC {
				op = "sub"
			}
			return one(fmt.Sprintf(".set %d (.%s (.var %d) (.lit 1))", k, op, k))
		}
	case *ast.ExprStmt:
		c, ok := x.X.(*ast.CallExpr)
		if !ok {
			t.fail("expression statement %T", x.X)
			break
		}
		if a, b, ok := t.dataCall(c, "Swap"); ok {
			return one(".swap " + a + " " + b)
		}
		if name, args, ok := t.funcCall(c, 0); ok {
			return one(fmt.Sprintf(".call %q %s []", name, args))
		}
		t.fail("call statement that is neither data.Swap(e1, e2) nor a translated function")
	case *ast.DeclStmt:
		gd, ok := x.Decl.(*ast.GenDecl)
		if !ok || gd.Tok != token.VAR {
			t.fail("declaration outside the fragment")
			break
		}
		var out []string
		for _, sp := range gd.Specs {
			vs := sp.(*ast.ValueSpec)
			if len(vs.Values) != 0 && len(vs.Values) != len(vs.Names) {
				t.fail("var declaration with a multi-valued initialiser")
				break
			}
			var vals []string
			for i, n := range vs.Names {
				o := t.info.Defs[n]
				if o == nil {
					t.fail("declaration of %s", n.Name)
					continue
				}
				switch {
				case sortIsSignedInt(o.Type()) && !sortIsBool(o.Type()):
					v := "(.lit 0)"
					if len(vs.Values) != 0 {
						v = t.expr(vs.Values[i])
					}
					vals = append(vals, "i"+v)
				case sortIsBool(o.Type()):
					v := "(.not .tt)"
					if len(vs.Values) != 0 {
						v = t.cond(vs.Values[i])
					}
					vals = append(vals, "b"+v)
				default:
					t.fail("variable %s of type %s", n.Name, o.Type())
				}
			}
			if len(vals) != len(vs.Names) {
				break
			}
			if len(vs.Names) > 1 && len(vs.Values) != 0 {
				t.fail("var declaration of several initialised names")
				break
			}
			// initialisers are evaluated before the names come into scope
			for i, n := range vs.Names {
				if vals[i][0] == 'i' {
					out = append(out, fmt.Sprintf(".set %d %s", t.declareInt(n), vals[i][1:]))
				} else {
					out = append(out, fmt.Sprintf(".setB %d %s", t.declareBool(n), vals[i][1:]))
				}
			}
		}
		return out
	case *ast.AssignStmt:
		define := x.Tok == token.DEFINE
		if define || x.Tok == token.ASSIGN {
			// x, y := f(data, …)
			if len(x.Rhs) == 1 {
				if c, ok := x.Rhs[0].(*ast.CallExpr); ok {
					if tv, isT := t.info.Types[c.Fun]; !(isT && tv.IsType()) {
						if _, _, isLess := t.dataCall(c, "Less"); !isLess {
							name, args, ok := t.funcCall(c, len(x.Lhs))
							if !ok {
								t.fail("assignment from a call that is not a translated function")
								break
							}
							var res []string
							seen := map[int]bool{}
							for _, l := range x.Lhs {
								k, ok := t.intTarget(l, define)
								if !ok || seen[k] {
									t.fail("result targets of the call of %s", name)
								}
								seen[k] = true
								res = append(res, fmt.Sprint(k))
							}
							return one(fmt.Sprintf(".call %q %s [%s]", name, args, strings.Join(res, ", ")))
						}
					}
				}
			}
			if len(x.Lhs) == 1 && len(x.Rhs) == 1 {
				rt := t.typeOf(x.Rhs[0])
				id, isId := x.Lhs[0].(*ast.Ident)
				if !isId {
					t.fail("assignment to something that is not a variable")
					break
				}
				if sortIsBool(rt) {
					c := t.cond(x.Rhs[0])
					if define && t.info.Defs[id] != nil {
						return one(fmt.Sprintf(".setB %d %s", t.declareBool(id), c))
					}
					if k, ok := t.bools[t.obj(id)]; ok {
						return one(fmt.Sprintf(".setB %d %s", k, c))
					}
					t.fail("assignment of a bool to %s", id.Name)
					break
				}
				if sortIsSignedInt(rt) {
					v := t.expr(x.Rhs[0]) // evaluated before the name comes into scope
					if k, ok := t.intTarget(id, define); ok {
						return one(fmt.Sprintf(".set %d %s", k, v))
					}
					break
				}
				t.fail("assignment of a value of type %s", rt)
				break
			}
			if len(x.Lhs) == 2 && len(x.Rhs) == 2 {
				if !sortIsSignedInt(t.typeOf(x.Rhs[0])) || !sortIsSignedInt(t.typeOf(x.Rhs[1])) {
					t.fail("parallel assignment of non-int values")
					break
				}
				v1, v2 := t.expr(x.Rhs[0]), t.expr(x.Rhs[1])
				k1, ok1 := t.intTarget(x.Lhs[0], define)
				k2, ok2 := t.intTarget(x.Lhs[1], define)
				if ok1 && ok2 && k1 != k2 {
					return one(fmt.Sprintf(".set2 %d %d %s %s", k1, k2, v1, v2))
				}
				t.fail("parallel assignment targets")
				break
			}
			t.fail("assignment with %d targets and %d values", len(x.Lhs), len(x.Rhs))
			break
		}
		if op, ok := sortOpAssign[x.Tok]; ok && len(x.Lhs) == 1 && len(x.Rhs) == 1 {
			if id, isId := x.Lhs[0].(*ast.Ident); isId {
				if k, ok := t.intTarget(id, false); ok {
					// x op= e  is  x = x op (e)
					be := &ast.BinaryExpr{X: id, Op: op, Y: x.Rhs[0]}
					return one(fmt.Sprintf(".set %d %s", k, t.binaryOf(be, id)))
				}
				break
			}
		}
		t.fail("assignment operator %s", x.Tok)
	case *ast.IfStmt:
		if x.Init != nil {
			t.fail("if with an init statement")
			break
		}
		c := t.cond(x.Cond)
		th := t.block(x.Body.List, ind)
		el := "[]"
		switch e := x.Else.(type) {
		case nil:
		case *ast.BlockStmt:
			el = t.block(e.List, ind)
		case *ast.IfStmt:
			el = t.block([]ast.Stmt{e}, ind)
		default:
			t.fail("else branch %T", e)
		}
		return one(".ite " + c + " " + th + " " + el)
	case *ast.ForStmt:
		var out []string
		if x.Init != nil {
			out = append(out, t.stmt(x.Init, ind)...)
		}
		c := ".tt"
		if x.Cond != nil {
			c = t.cond(x.Cond)
		}
		t.loops++
		body := t.block(x.Body.List, ind)
		t.loops--
		post := "[]"
		if x.Post != nil {
			l := t.loops
			t.loops = 0 // no break in a post statement
			post = t.block([]ast.Stmt{x.Post}, ind)
			t.loops = l
		}
		return append(out, ".loop "+c+" "+body+" "+post)
	default:
		t.fail("statement %T", s)
	}
	return one(".ret []")
}

// binaryOf renders `id op rhs` for an op-assignment: the synthetic node has no go/types entry, so the operand type
// is the variable's (a signed int)
func (t *sortTr) binaryOf(be *ast.BinaryExpr, id *ast.Ident) string {
	k := t.ints[t.obj(id)]
	l := fmt.Sprintf("(.var %d)", k)
	constOf := func() (int64, bool) {
		tv, ok := t.info.Types[be.Y]
		if !ok || tv.Value == nil || tv.Value.Kind() != constant.Int {
			return 0, false
		}
		return constant.Int64Val(tv.Value)
	}
	switch be.Op {
	case token.ADD:
		return "(.add " + l + " " + t.expr(be.Y) + ")"
	case token.SUB:
		return "(.sub " + l + " " + t.expr(be.Y) + ")"
	case token.MUL:
		return "(.mul " + l + " " + t.expr(be.Y) + ")"
	case token.QUO:
		if c, ok := constOf(); ok && c > 0 {
			return fmt.Sprintf("(.divC %s %d)", l, c)
		}
		t.fail("division that is not signed / positive constant")
	case token.SHL, token.SHR:
		if c, ok := constOf(); ok && c >= 0 && c <= 63 {
			if be.Op == token.SHL {
				return fmt.Sprintf("(.shl %s %d)", l, c)
			}
			return fmt.Sprintf("(.shrS %s %d)", l, c)
		}
		t.fail("shift by a non-constant or out-of-range count")
	}
	return "(.lit 0)"
}

func sortContainsForbidden(b *ast.BlockStmt) string {
	found := ""
	ast.Inspect(b, func(n ast.Node) bool {
		switch n.(type) {
		case *ast.LabeledStmt, *ast.FuncLit, *ast.GoStmt, *ast.DeferStmt, *ast.SwitchStmt, *ast.TypeSwitchStmt,
			*ast.SelectStmt, *ast.RangeStmt:
			found = fmt.Sprintf("%T", n)
		}
		return found == ""
	})
	return found
}

// sortSignature: parameter/result shape of a candidate function (needed for the calls between them)
func sortSignature(fd *ast.FuncDecl, info *types.Info) (sortSig, string) {
	sg := sortSig{dataPos: -1}
	if fd.Recv != nil || fd.Type.TypeParams != nil {
		return sg, "method or generic function"
	}
	pos := 0
	for _, p := range fd.Type.Params.List {
		tv, ok := info.Types[p.Type]
		if !ok || tv.Type == nil {
			return sg, "untyped parameter"
		}
		if len(p.Names) == 0 {
			return sg, "unnamed parameter"
		}
		for range p.Names {
			switch {
			case sortIsLessSwap(tv.Type):
				if sg.dataPos >= 0 {
					return sg, "two lessSwap parameters"
				}
				sg.dataPos = pos
			case sortIsSignedInt(tv.Type):
				sg.nparams++
			default:
				return sg, fmt.Sprintf("parameter of type %s", tv.Type)
			}
			pos++
		}
	}
	if fd.Type.Results != nil {
		for _, r := range fd.Type.Results.List {
			tv, ok := info.Types[r.Type]
			if !ok || !sortIsSignedInt(tv.Type) {
				return sg, "result that is not an int"
			}
			n := len(r.Names)
			if n == 0 {
				n = 1
			}
			sg.nresults += n
		}
	}
	if sg.nresults > 2 {
		return sg, "more than two results"
	}
	sg.ok = true
	return sg, ""
}

func translateSortFn(name string, fd *ast.FuncDecl, info *types.Info, sigs map[string]sortSig, sigErr string) string {
	t := &sortTr{info: info, sigs: sigs, ints: map[types.Object]int{}, bools: map[types.Object]int{}}
	sg := sigs[name]
	switch {
	case fd == nil:
		t.err = "function not found"
	case sigErr != "":
		t.err = sigErr
	default:
		t.nres = sg.nresults
		for _, p := range fd.Type.Params.List {
			for _, n := range p.Names {
				o := info.Defs[n]
				if o == nil || n.Name == "_" {
					t.fail("parameter %s", n.Name)
					continue
				}
				if sortIsLessSwap(o.Type()) {
					t.data = o
				} else {
					t.ints[o] = t.next
					t.next++
				}
			}
		}
		if fd.Type.Results != nil {
			for _, r := range fd.Type.Results.List {
				for _, n := range r.Names {
					if o := info.Defs[n]; o != nil && n.Name != "_" {
						t.ints[o] = t.next // named result: an int variable, zero until assigned (never read before in the fragment's use)
						t.next++
					}
				}
			}
		}
		if f := sortContainsForbidden(fd.Body); f != "" {
			t.fail("%s", f)
		}
	}
	body := "[]"
	if t.err == "" {
		// named results start as 0
		body = t.block(fd.Body.List, "    ")
		if fd.Type.Results != nil {
			var zero []string
			for _, r := range fd.Type.Results.List {
				for _, n := range r.Names {
					if o := info.Defs[n]; o != nil {
						zero = append(zero, fmt.Sprintf("      .set %d (.lit 0)", t.ints[o]))
					}
				}
			}
			if len(zero) > 0 && body != "[]" {
				body = "[\n" + strings.Join(zero, ",\n") + ",\n" + strings.TrimPrefix(body, "[\n")
			}
		}
	}
	note := "ok"
	np, nr := sg.nparams, sg.nresults
	if t.err != "" {
		body = "[]"
		note = "outside the MiniGoSort fragment: " + t.err
		np, nr = 0, 0
	}
	var b strings.Builder
	fmt.Fprintf(&b, "def %sNote : String := %q\n\n", name, note)
	fmt.Fprintf(&b, "def %s : Fn :=\n  { name := %q\n    nparams := %d\n    nresults := %d\n    body := %s }\n", name, name, np, nr, body)
	return b.String()
}

func sortAstPlugin(ctxs map[string]*PkgCtx, outLean string) {
	ctx := ctxs["sortx"]
	decls := map[string]*ast.FuncDecl{}
	sigs := map[string]sortSig{}
	sigErrs := map[string]string{}
	var info *types.Info
	if ctx != nil {
		info = ctx.Info
		for _, f := range ctx.Files {
			for _, d := range f.Decls {
				if fd, ok := d.(*ast.FuncDecl); ok && fd.Recv == nil && fd.Body != nil {
					decls[fd.Name.Name] = fd
				}
			}
		}
		for _, n := range sortAstTargets {
			if fd := decls[n]; fd != nil {
				sigs[n], sigErrs[n] = sortSignature(fd, info)
			}
		}
	}
	var b strings.Builder
	b.WriteString("import Got.Model.MiniGoSort\n")
	b.WriteString("/- GENERATED by /verif/tools/srcfacts (minigo_sort.go) from the repository's current working tree on every run.\n")
	b.WriteString("   Do not edit.  MiniGoSort translations (Got/Model/MiniGoSort.lean) of the sort functions of package sortx;\n")
	b.WriteString("   a construct outside the fragment makes the body empty and is named in the `…Note` string.\n")
	b.WriteString("   Variables are numbered: int parameters, then named results, then locals in order of declaration. -/\n")
	b.WriteString("namespace Got.Generated.AstSortxSort\nopen Got.Model.MiniGoSort\n\n")
	for _, n := range sortAstTargets {
		b.WriteString(translateSortFn(n, decls[n], info, sigs, sigErrs[n]))
		b.WriteString("\n")
	}
	b.WriteString("def fns : List Fn := [" + strings.Join(sortAstTargets, ", ") + "]\n\n")
	var notes []string
	for _, n := range sortAstTargets {
		notes = append(notes, n+"Note")
	}
	b.WriteString("def notes : List String := [" + strings.Join(notes, ", ") + "]\n\n")
	b.WriteString("/-- the program: callee lookup by Go function name -/\ndef prog : String → Option Fn := lookupFn fns\n")
	b.WriteString("\nend Got.Generated.AstSortxSort\n")
	writeIfChanged(filepath.Join(outLean, "AstSortxSort.lean"), []byte(b.String()))
	sortUniquePlugin(decls, info, outLean)
}

// ---------------------------------------------------------------------------------------------------------------
// sortx.UniqueInt / sortx.UniqueString -> MiniGoSlice (/verif/lean/Got/Model/MiniGoSlice.lean), written to
// Got/Generated/AstSortxUnique.lean.  Fragment: `func F(a []T) []T` with T = int or string (elements are only compared
// with == / !=), int locals, `len(a)`, `+ -`, comparisons, `a[e1] ==/!= a[e2]`, `a[e1] = a[e2]`, `a = a[:e]`, if/else,
// three-clause for, `return a`.

var sortUniqueTargets = []string{"UniqueInt", "UniqueString"}

type uniqTr struct {
	info  *types.Info
	slice types.Object
	ints  map[types.Object]int
	next  int
	err   string
}

func (t *uniqTr) fail(format string, a ...interface{}) {
	if t.err == "" {
		t.err = fmt.Sprintf(format, a...)
	}
}

func (t *uniqTr) obj(id *ast.Ident) types.Object {
	if o := t.info.Defs[id]; o != nil {
		return o
	}
	return t.info.Uses[id]
}

func (t *uniqTr) isSlice(e ast.Expr) bool {
	for {
		p, ok := e.(*ast.ParenExpr)
		if !ok {
			break
		}
		e = p.X
	}
	id, ok := e.(*ast.Ident)
	return ok && t.slice != nil && t.obj(id) == t.slice
}

func (t *uniqTr) intType(e ast.Expr) bool {
	tv, ok := t.info.Types[e]
	return ok && tv.Type != nil && sortIsSignedInt(tv.Type)
}

func (t *uniqTr) expr(e ast.Expr) string {
	if tv, ok := t.info.Types[e]; ok && tv.Value != nil && tv.Value.Kind() == constant.Int && sortIsSignedInt(tv.Type) {
		return "(.lit " + leanInt(tv.Value.ExactString()) + ")"
	}
	switch x := e.(type) {
	case *ast.ParenExpr:
		return t.expr(x.X)
	case *ast.Ident:
		if k, ok := t.ints[t.obj(x)]; ok {
			return fmt.Sprintf("(.var %d)", k)
		}
		t.fail("identifier %s is not an int variable of the function", x.Name)
	case *ast.BinaryExpr:
		if !t.intType(x.X) || !t.intType(x.Y) {
			t.fail("operands that are not ints")
			break
		}
		switch x.Op {
		case token.ADD:
			return "(.add " + t.expr(x.X) + " " + t.expr(x.Y) + ")"
		case token.SUB:
			return "(.sub " + t.expr(x.X) + " " + t.expr(x.Y) + ")"
		}
		t.fail("binary operator %s", x.Op)
	case *ast.CallExpr:
		if id, ok := x.Fun.(*ast.Ident); ok && len(x.Args) == 1 && t.isSlice(x.Args[0]) {
			if b, isB := t.info.Uses[id].(*types.Builtin); isB && b.Name() == "len" {
				return ".len"
			}
		}
		t.fail("call in an integer expression that is not len(a)")
	default:
		t.fail("expression %T", e)
	}
	return "(.lit 0)"
}

// elem recognises a[e] on the slice parameter and returns the index term
func (t *uniqTr) elem(e ast.Expr) (string, bool) {
	for {
		p, ok := e.(*ast.ParenExpr)
		if !ok {
			break
		}
		e = p.X
	}
	ix, ok := e.(*ast.IndexExpr)
	if !ok || !t.isSlice(ix.X) || !t.intType(ix.Index) {
		return "", false
	}
	return t.expr(ix.Index), true
}

func (t *uniqTr) cond(e ast.Expr) string {
	switch x := e.(type) {
	case *ast.ParenExpr:
		return t.cond(x.X)
	case *ast.UnaryExpr:
		if x.Op == token.NOT {
			return "(.not " + t.cond(x.X) + ")"
		}
		t.fail("unary operator %s in a condition", x.Op)
	case *ast.BinaryExpr:
		switch x.Op {
		case token.LOR:
			return "(.or " + t.cond(x.X) + " " + t.cond(x.Y) + ")"
		case token.LAND:
			return "(.and " + t.cond(x.X) + " " + t.cond(x.Y) + ")"
		case token.EQL, token.NEQ:
			if i, ok := t.elem(x.X); ok {
				if j, ok2 := t.elem(x.Y); ok2 {
					if x.Op == token.EQL {
						return "(.elemEq " + i + " " + j + ")"
					}
					return "(.elemNe " + i + " " + j + ")"
				}
				t.fail("comparison of an element with something that is not an element")
				break
			}
			fallthrough
		case token.LEQ, token.LSS, token.GEQ, token.GTR:
			if !t.intType(x.X) || !t.intType(x.Y) {
				t.fail("comparison of operands that are not signed ints / elements")
				break
			}
			a, b := t.expr(x.X), t.expr(x.Y)
			switch x.Op {
			case token.EQL:
				return "(.eq " + a + " " + b + ")"
			case token.NEQ:
				return "(.ne " + a + " " + b + ")"
			case token.LEQ:
				return "(.le " + a + " " + b + ")"
			case token.LSS:
				return "(.lt " + a + " " + b + ")"
			case token.GEQ:
				return "(.le " + b + " " + a + ")"
			default:
				return "(.lt " + b + " " + a + ")"
			}
		default:
			t.fail("binary operator %s in a condition", x.Op)
		}
	default:
		t.fail("condition %T", e)
	}
	return ".tt"
}

func (t *uniqTr) block(list []ast.Stmt, ind string) string {
	var parts []string
	for _, s := range list {
		for _, p := range t.stmt(s, ind+"  ") {
			parts = append(parts, ind+"  "+p)
		}
	}
	if len(parts) == 0 {
		return "[]"
	}
	return "[\n" + strings.Join(parts, ",\n") + "\n" + ind + "]"
}

func (t *uniqTr) declare(id *ast.Ident) int {
	o := t.info.Defs[id]
	if o == nil || id.Name == "_" {
		t.fail("declaration of %s", id.Name)
		return 0
	}
	t.ints[o] = t.next
	t.next++
	return t.ints[o]
}

func (t *uniqTr) stmt(s ast.Stmt, ind string) []string {
	one := func(x string) []string { return []string{x} }
	switch x := s.(type) {
	case *ast.EmptyStmt:
		return nil
	case *ast.ReturnStmt:
		if len(x.Results) == 1 && t.isSlice(x.Results[0]) {
			return one(".retSlice")
		}
		t.fail("return of something that is not the slice parameter")
	case *ast.IncDecStmt:
		if id, ok := x.X.(*ast.Ident); ok {
			if k, ok := t.ints[t.obj(id)]; ok {
				op := "add"
				if x.Tok == token.DEC {
					op = "sub"
				}
				return one(fmt.Sprintf(".set %d (.%s (.var %d) (.lit 1))", k, op, k))
			}
		}
		t.fail("++/-- of something that is not an int variable")
	case *ast.DeclStmt:
		gd, ok := x.Decl.(*ast.GenDecl)
		if !ok || gd.Tok != token.VAR || len(gd.Specs) != 1 {
			t.fail("declaration outside the fragment")
			break
		}
		vs := gd.Specs[0].(*ast.ValueSpec)
		if len(vs.Names) != 1 || len(vs.Values) > 1 {
			t.fail("var declaration of several names")
			break
		}
		o := t.info.Defs[vs.Names[0]]
		if o == nil || !sortIsSignedInt(o.Type()) {
			t.fail("variable %s is not an int", vs.Names[0].Name)
			break
		}
		v := "(.lit 0)"
		if len(vs.Values) == 1 {
			v = t.expr(vs.Values[0])
		}
		return one(fmt.Sprintf(".set %d %s", t.declare(vs.Names[0]), v))
	case *ast.AssignStmt:
		if len(x.Lhs) != 1 || len(x.Rhs) != 1 {
			t.fail("assignment with %d targets", len(x.Lhs))
			break
		}
		// a[e1] = a[e2]
		if i, ok := t.elem(x.Lhs[0]); ok && x.Tok == token.ASSIGN {
			if j, ok2 := t.elem(x.Rhs[0]); ok2 {
				return one(".store " + i + " " + j)
			}
			t.fail("store of something that is not an element of the slice")
			break
		}
		// a = a[:e]
		if t.isSlice(x.Lhs[0]) && x.Tok == token.ASSIGN {
			if se, ok := x.Rhs[0].(*ast.SliceExpr); ok && t.isSlice(se.X) && se.Low == nil && se.High != nil && !se.Slice3 && t.intType(se.High) {
				return one(".reslice " + t.expr(se.High))
			}
			t.fail("assignment to the slice that is not a = a[:e]")
			break
		}
		id, ok := x.Lhs[0].(*ast.Ident)
		if !ok || !t.intType(x.Rhs[0]) {
			t.fail("assignment outside the fragment")
			break
		}
		switch x.Tok {
		case token.DEFINE:
			v := t.expr(x.Rhs[0])
			if t.info.Defs[id] != nil {
				return one(fmt.Sprintf(".set %d %s", t.declare(id), v))
			}
			t.fail("redeclaration of %s", id.Name)
		case token.ASSIGN, token.ADD_ASSIGN, token.SUB_ASSIGN:
			k, ok := t.ints[t.obj(id)]
			if !ok {
				t.fail("assignment to %s, which is not an int variable", id.Name)
				break
			}
			v := t.expr(x.Rhs[0])
			if x.Tok == token.ADD_ASSIGN {
				v = fmt.Sprintf("(.add (.var %d) %s)", k, v)
			} else if x.Tok == token.SUB_ASSIGN {
				v = fmt.Sprintf("(.sub (.var %d) %s)", k, v)
			}
			return one(fmt.Sprintf(".set %d %s", k, v))
		default:
			t.fail("assignment operator %s", x.Tok)
		}
	case *ast.IfStmt:
		if x.Init != nil {
			t.fail("if with an init statement")
			break
		}
		c := t.cond(x.Cond)
		th := t.block(x.Body.List, ind)
		el := "[]"
		switch e := x.Else.(type) {
		case nil:
		case *ast.BlockStmt:
			el = t.block(e.List, ind)
		case *ast.IfStmt:
			el = t.block([]ast.Stmt{e}, ind)
		default:
			t.fail("else branch %T", e)
		}
		return one(".ite " + c + " " + th + " " + el)
	case *ast.ForStmt:
		var out []string
		if x.Init != nil {
			out = append(out, t.stmt(x.Init, ind)...)
		}
		c := ".tt"
		if x.Cond != nil {
			c = t.cond(x.Cond)
		}
		body := t.block(x.Body.List, ind)
		post := "[]"
		if x.Post != nil {
			post = t.block([]ast.Stmt{x.Post}, ind)
		}
		return append(out, ".loop "+c+" "+body+" "+post)
	default:
		t.fail("statement %T", s)
	}
	return one(".retSlice")
}

func uniqContainsForbidden(b *ast.BlockStmt) string {
	found := ""
	ast.Inspect(b, func(n ast.Node) bool {
		switch n.(type) {
		case *ast.LabeledStmt, *ast.FuncLit, *ast.GoStmt, *ast.DeferStmt, *ast.SwitchStmt, *ast.TypeSwitchStmt,
			*ast.SelectStmt, *ast.RangeStmt, *ast.BranchStmt:
			found = fmt.Sprintf("%T", n)
		}
		return found == ""
	})
	return found
}

func translateUniqueFn(name string, fd *ast.FuncDecl, info *types.Info) string {
	t := &uniqTr{info: info, ints: map[types.Object]int{}}
	elemOK := func(ty types.Type) bool { // []int or []string
		sl, ok := ty.Underlying().(*types.Slice)
		if !ok {
			return false
		}
		b, ok := sl.Elem().Underlying().(*types.Basic)
		return ok && (b.Kind() == types.Int || b.Kind() == types.String)
	}
	switch {
	case fd == nil || info == nil:
		t.err = "function not found"
	case fd.Recv != nil || fd.Type.TypeParams != nil:
		t.err = "method or generic function"
	case len(fd.Type.Params.List) != 1 || len(fd.Type.Params.List[0].Names) != 1:
		t.err = "parameter list is not one slice"
	case fd.Type.Results == nil || len(fd.Type.Results.List) != 1 || len(fd.Type.Results.List[0].Names) != 0:
		t.err = "result list is not one unnamed slice"
	default:
		pn := fd.Type.Params.List[0].Names[0]
		po := info.Defs[pn]
		rt, rok := info.Types[fd.Type.Results.List[0].Type]
		if po == nil || !elemOK(po.Type()) || !rok || !types.Identical(rt.Type, po.Type()) {
			t.err = "parameter/result is not one []int or []string"
			break
		}
		t.slice = po
		if f := uniqContainsForbidden(fd.Body); f != "" {
			t.fail("%s", f)
		}
	}
	body := "[]"
	if t.err == "" {
		body = t.block(fd.Body.List, "    ")
	}
	note := "ok"
	if t.err != "" {
		body = "[]"
		note = "outside the MiniGoSlice fragment: " + t.err
	}
	lean := strings.ToLower(name[:1]) + name[1:]
	var b strings.Builder
	fmt.Fprintf(&b, "def %sNote : String := %q\n\n", lean, note)
	fmt.Fprintf(&b, "def %s : Fn :=\n  { name := %q\n    body := %s }\n", lean, name, body)
	return b.String()
}

func sortUniquePlugin(decls map[string]*ast.FuncDecl, info *types.Info, outLean string) {
	var b strings.Builder
	b.WriteString("import Got.Model.MiniGoSlice\n")
	b.WriteString("/- GENERATED by /verif/tools/srcfacts (minigo_sort.go) from the repository's current working tree on every run.\n")
	b.WriteString("   Do not edit.  MiniGoSlice translations (Got/Model/MiniGoSlice.lean) of sortx.UniqueInt / sortx.UniqueString;\n")
	b.WriteString("   a construct outside the fragment makes the body empty and is named in the `…Note` string.\n")
	b.WriteString("   Int variables are numbered in order of declaration; the slice parameter is implicit. -/\n")
	b.WriteString("namespace Got.Generated.AstSortxUnique\nopen Got.Model.MiniGoSlice\n\n")
	var notes []string
	for _, n := range sortUniqueTargets {
		b.WriteString(translateUniqueFn(n, decls[n], info))
		b.WriteString("\n")
		notes = append(notes, strings.ToLower(n[:1])+n[1:]+"Note")
	}
	b.WriteString("def notes : List String := [" + strings.Join(notes, ", ") + "]\n")
	b.WriteString("\nend Got.Generated.AstSortxUnique\n")
	writeIfChanged(filepath.Join(outLean, "AstSortxUnique.lean"), []byte(b.String()))
}
