// srcfacts: regenerates, from the current working tree of the repository, the facts the
// Lean models depend on:
//   - every package-level integer constant (-> Got/Generated/Facts.lean, imported by models)
//   - per function: normalised source hash, literal/operator signature, called names,
//     go statements (-> facts.json, compared with expected_facts.json by ./check)
//   - every read/write of selected plain struct fields with enclosing function and whether
//     it is lexically inside a Lock()/Unlock() pair (-> facts.json, used by C18)
package main

import (
	"bytes"
	"crypto/sha256"
	"encoding/json"
	"flag"
	"fmt"
	"go/ast"
	"go/constant"
	"go/importer"
	"go/parser"
	"go/printer"
	"go/token"
	"go/types"
	"os"
	"path/filepath"
	"sort"
	"strconv"
	"strings"
)

type FuncFact struct {
	Hash  string   `json:"hash"`
	Sig   []string `json:"sig"`   // literals and operators in source order
	Calls []string `json:"calls"` // called names in source order
	Gos   int      `json:"gos"`   // number of go statements
	Lits  []string `json:"lits"`  // integer literals (decimal) in source order
}

type Access struct {
	Field  string   `json:"field"` // pkg.Type.field
	Func   string   `json:"func"`  // pkg.(Recv).Name
	Kind   string   `json:"kind"`  // r | w | a (address passed to a sync/atomic function)
	Locked bool     `json:"locked"`
	After  []string `json:"after"` // synchronising operations lexically before the access in the same function
	Then   []string `json:"then"`  // synchronising operations lexically after the access in the same function
	Line   int      `json:"-"`
}

type Facts struct {
	Consts   map[string]string   `json:"consts"`
	Funcs    map[string]FuncFact `json:"funcs"`
	Accesses []Access            `json:"accesses"`
	Errors   []string            `json:"errors,omitempty"`
}

var pkgs = []string{"aesx", "ants", "cachex", "convert", "iox", "loom", "randx", "sortx", "std", "taskx"}

// plain (non-atomic) shared fields whose access discipline C18 reasons about
var watched = map[string]bool{
	"loom.node.value": true, "loom.wheelData.c": true, "loom.WaitClose.closeChan": true, "loom.WaitClose.state": true,
	"loom.WheelTimer.C": true, "loom.LaterTimer.stoppedTime": true,
	"cachex.Future.value": true, "cachex.Future.err": true,
	"ants.taskCallback.result": true, "ants.taskCallback.err": true,
	"taskx.taskCallback.result": true, "taskx.taskCallback.err": true, "taskx.taskCallback.isHandled": true,
}

// PkgCtx is what a translator plugin gets for one parsed and type-checked package of the repository
// (absent from the map when the package did not parse).
type PkgCtx struct {
	Pkg   string
	Fset  *token.FileSet
	Files []*ast.File
	Info  *types.Info
}

// plugins are further source-to-Lean translators (one per Go file `minigo_<family>.go`, registered from its
// init()); each is called once per run with every parsed package and the output directory lean/Got/Generated and
// must (re)write its generated file(s) with writeIfChanged — also when its package is missing, with a body that
// makes the obligations fail rather than keeping an old translation.
var plugins []func(ctxs map[string]*PkgCtx, outLean string)

func main() {
	repo := flag.String("repo", "/repo", "repository root")
	outJSON := flag.String("json", "", "facts.json output")
	outLean := flag.String("lean", "", "output directory for Facts.lean and Lits<Pkg>.lean")
	flag.Parse()

	facts := Facts{Consts: map[string]string{}, Funcs: map[string]FuncFact{}}
	miniDefs := map[string][]string{}
	ctxs := map[string]*PkgCtx{}
	fset := token.NewFileSet()
	imp := importer.ForCompiler(fset, "source", nil)
	for _, p := range pkgs {
		dir := filepath.Join(*repo, p)
		parsed, err := parser.ParseDir(fset, dir, func(fi os.FileInfo) bool {
			return !strings.HasSuffix(fi.Name(), "_test.go") && !strings.HasPrefix(fi.Name(), "verif_")
		}, parser.SkipObjectResolution)
		if err != nil {
			facts.Errors = append(facts.Errors, fmt.Sprintf("%s: %v", p, err))
			continue
		}
		for _, pkg := range parsed {
			var files []*ast.File
			var names []string
			for n := range pkg.Files {
				names = append(names, n)
			}
			sort.Strings(names)
			for _, n := range names {
				files = append(files, pkg.Files[n])
			}
			info := &types.Info{Defs: map[*ast.Ident]types.Object{}, Uses: map[*ast.Ident]types.Object{}, Selections: map[*ast.SelectorExpr]*types.Selection{},
				Types: map[ast.Expr]types.TypeAndValue{}}
			conf := types.Config{Importer: &repoImporter{repo: *repo, fset: fset, std: imp, cache: map[string]*types.Package{}}, Error: func(err error) {}}
			tpkg, _ := conf.Check("github.com/lixianmin/got/"+p, fset, files, info)
			if tpkg != nil {
				sc := tpkg.Scope()
				for _, n := range sc.Names() {
					if c, ok := sc.Lookup(n).(*types.Const); ok {
						if c.Val().Kind() == constant.Int {
							facts.Consts[p+"."+n] = c.Val().ExactString()
						}
					}
				}
			}
			ctxs[p] = &PkgCtx{Pkg: p, Fset: fset, Files: files, Info: info}
			for _, tg := range miniTargets {
				if tg.pkg != p {
					continue
				}
				var found *ast.FuncDecl
				for _, f := range files {
					for _, d := range f.Decls {
						if fd, ok := d.(*ast.FuncDecl); ok && fd.Recv == nil && fd.Name.Name == tg.fn && fd.Body != nil {
							found = fd
						}
					}
				}
				miniDefs[p] = append(miniDefs[p], translateMini(tg, found, info))
			}
			for _, f := range files {
				for _, d := range f.Decls {
					fd, ok := d.(*ast.FuncDecl)
					if !ok || fd.Body == nil {
						continue
					}
					name := funcName(p, fd)
					facts.Funcs[name] = funcFact(fset, fd)
					facts.Accesses = append(facts.Accesses, accesses(fset, p, name, fd, info)...)
				}
			}
		}
	}
	sort.Slice(facts.Accesses, func(i, j int) bool {
		a, b := facts.Accesses[i], facts.Accesses[j]
		if a.Field != b.Field {
			return a.Field < b.Field
		}
		if a.Func != b.Func {
			return a.Func < b.Func
		}
		if a.Line != b.Line {
			return a.Line < b.Line
		}
		return a.Kind < b.Kind
	})
	if *outJSON != "" {
		b, _ := json.MarshalIndent(facts, "", " ")
		writeIfChanged(*outJSON, append(b, '\n'))
	}
	if *outLean != "" {
		writeIfChanged(filepath.Join(*outLean, "Facts.lean"), []byte(leanFacts(facts)))
		for _, p := range pkgs {
			name := "Lits" + strings.ToUpper(p[:1]) + p[1:] + ".lean"
			writeIfChanged(filepath.Join(*outLean, name), []byte(leanLits(facts, p)))
		}
		done := map[string]bool{}
		for _, tg := range miniTargets {
			if done[tg.pkg] {
				continue
			}
			done[tg.pkg] = true
			defs := miniDefs[tg.pkg]
			if len(defs) == 0 { // package did not parse: keep the obligations failing rather than an old translation
				for _, t2 := range miniTargets {
					if t2.pkg == tg.pkg {
						defs = append(defs, translateMini(t2, nil, nil))
					}
				}
			}
			name := "Ast" + strings.ToUpper(tg.pkg[:1]) + tg.pkg[1:] + ".lean"
			writeIfChanged(filepath.Join(*outLean, name), []byte(leanAstFile(tg.pkg, defs)))
		}
	}
	if *outLean != "" {
		for _, pl := range plugins {
			pl(ctxs, *outLean)
		}
	}
	if len(facts.Errors) > 0 {
		fmt.Fprintln(os.Stderr, strings.Join(facts.Errors, "\n"))
		os.Exit(3)
	}
}

// repoImporter resolves the repository's own packages from source (no build tags), std via "source".
type repoImporter struct {
	repo  string
	fset  *token.FileSet
	std   types.Importer
	cache map[string]*types.Package
}

func (ri *repoImporter) Import(path string) (*types.Package, error) {
	const prefix = "github.com/lixianmin/got/"
	if !strings.HasPrefix(path, prefix) {
		return ri.std.Import(path)
	}
	if p, ok := ri.cache[path]; ok {
		return p, nil
	}
	dir := filepath.Join(ri.repo, strings.TrimPrefix(path, prefix))
	parsed, err := parser.ParseDir(ri.fset, dir, func(fi os.FileInfo) bool {
		return !strings.HasSuffix(fi.Name(), "_test.go") && !strings.HasPrefix(fi.Name(), "verif_")
	}, parser.SkipObjectResolution)
	if err != nil {
		return nil, err
	}
	for _, pkg := range parsed {
		var files []*ast.File
		for _, f := range pkg.Files {
			files = append(files, f)
		}
		conf := types.Config{Importer: ri, Error: func(err error) {}}
		tp, _ := conf.Check(path, ri.fset, files, nil)
		ri.cache[path] = tp
		return tp, nil
	}
	return nil, fmt.Errorf("no package in %s", dir)
}

func funcName(pkg string, fd *ast.FuncDecl) string {
	if fd.Recv != nil && len(fd.Recv.List) > 0 {
		t := fd.Recv.List[0].Type
		if s, ok := t.(*ast.StarExpr); ok {
			t = s.X
		}
		if id, ok := t.(*ast.Ident); ok {
			return pkg + "." + id.Name + "." + fd.Name.Name
		}
	}
	return pkg + "." + fd.Name.Name
}

func funcFact(fset *token.FileSet, fd *ast.FuncDecl) FuncFact {
	var buf bytes.Buffer
	cp := *fd
	cp.Doc = nil
	// print without comments: printer only prints comments attached through ast.File, so a bare node has none
	_ = printer.Fprint(&buf, token.NewFileSet(), &cp)
	norm := strings.Join(strings.Fields(buf.String()), " ")
	sum := sha256.Sum256([]byte(norm))
	ff := FuncFact{Hash: fmt.Sprintf("%x", sum[:8]), Sig: []string{}, Calls: []string{}, Lits: []string{}}
	ast.Inspect(fd.Body, func(n ast.Node) bool {
		switch x := n.(type) {
		case *ast.BasicLit:
			ff.Sig = append(ff.Sig, x.Value)
			if x.Kind == token.INT {
				if v, err := strconv.ParseInt(x.Value, 0, 64); err == nil {
					ff.Lits = append(ff.Lits, strconv.FormatInt(v, 10))
				} else if u, err := strconv.ParseUint(x.Value, 0, 64); err == nil {
					ff.Lits = append(ff.Lits, strconv.FormatUint(u, 10))
				}
			}
		case *ast.BinaryExpr:
			ff.Sig = append(ff.Sig, x.Op.String())
		case *ast.UnaryExpr:
			ff.Sig = append(ff.Sig, "u"+x.Op.String())
		case *ast.IncDecStmt:
			ff.Sig = append(ff.Sig, x.Tok.String())
		case *ast.AssignStmt:
			if x.Tok != token.ASSIGN && x.Tok != token.DEFINE {
				ff.Sig = append(ff.Sig, x.Tok.String())
			}
		case *ast.GoStmt:
			ff.Gos++
		case *ast.CallExpr:
			switch f := x.Fun.(type) {
			case *ast.Ident:
				ff.Calls = append(ff.Calls, f.Name)
			case *ast.SelectorExpr:
				ff.Calls = append(ff.Calls, exprString(f.X)+"."+f.Sel.Name)
			default:
				ff.Calls = append(ff.Calls, "(expr)")
			}
		}
		return true
	})
	return ff
}

func exprString(e ast.Expr) string {
	var buf bytes.Buffer
	_ = printer.Fprint(&buf, token.NewFileSet(), e)
	return strings.Join(strings.Fields(buf.String()), "")
}

// accesses lists reads/writes of watched fields. "locked" = lexically after a call whose selector is
// Lock and before the matching Unlock in the same function body (statement order), or the function
// defers Unlock after Lock.
func accesses(fset *token.FileSet, pkg, fname string, fd *ast.FuncDecl, info *types.Info) []Access {
	var out []Access
	writes := map[*ast.SelectorExpr]bool{}
	atomics := map[*ast.SelectorExpr]bool{}
	type syncOp struct {
		pos  token.Pos
		name string
	}
	var syncOps []syncOp
	ast.Inspect(fd.Body, func(n ast.Node) bool {
		switch x := n.(type) {
		case *ast.CallExpr:
			name := ""
			switch f := x.Fun.(type) {
			case *ast.Ident:
				name = f.Name
			case *ast.SelectorExpr:
				name = exprString(f.X) + "." + f.Sel.Name
			}
			if strings.HasPrefix(name, "atomic.") {
				for _, a := range x.Args {
					if u, ok := a.(*ast.UnaryExpr); ok && u.Op == token.AND {
						if sel, ok := u.X.(*ast.SelectorExpr); ok {
							atomics[sel] = true
						}
					}
				}
			}
			short := name
			if i := strings.LastIndex(name, "."); i >= 0 {
				short = name[i+1:]
			}
			switch {
			case strings.HasPrefix(name, "atomic."), short == "Wait", short == "Lock", short == "Unlock", short == "Done",
				short == "getUpdateTime", short == "IsZero", short == "getPredecessor", short == "close",
				short == "queueLoad", short == "queueCas", short == "fetchWheelData", short == "checkInitSlow":
				syncOps = append(syncOps, syncOp{x.Pos(), name})
			}
		case *ast.UnaryExpr:
			if x.Op == token.ARROW {
				syncOps = append(syncOps, syncOp{x.Pos(), "<-" + exprString(x.X)})
			}
		}
		return true
	})
	ast.Inspect(fd.Body, func(n ast.Node) bool {
		switch x := n.(type) {
		case *ast.AssignStmt:
			for _, l := range x.Lhs {
				if s, ok := l.(*ast.SelectorExpr); ok {
					writes[s] = true
				}
			}
		case *ast.IncDecStmt:
			if s, ok := x.X.(*ast.SelectorExpr); ok {
				writes[s] = true
			}
		}
		return true
	})
	// lock intervals by position
	type iv struct{ from, to token.Pos }
	var ivs []iv
	var open token.Pos = token.NoPos
	ast.Inspect(fd.Body, func(n ast.Node) bool {
		if c, ok := n.(*ast.CallExpr); ok {
			if s, ok := c.Fun.(*ast.SelectorExpr); ok {
				if s.Sel.Name == "Lock" && open == token.NoPos {
					open = c.End()
				} else if s.Sel.Name == "Unlock" && open != token.NoPos {
					// an Unlock inside a deferred closure covers the rest of the function
					ivs = append(ivs, iv{open, c.Pos()})
					open = token.NoPos
				}
			}
		}
		return true
	})
	deferUnlock := false
	ast.Inspect(fd.Body, func(n ast.Node) bool {
		if d, ok := n.(*ast.DeferStmt); ok {
			ast.Inspect(d, func(m ast.Node) bool {
				if c, ok := m.(*ast.CallExpr); ok {
					if s, ok := c.Fun.(*ast.SelectorExpr); ok && s.Sel.Name == "Unlock" {
						deferUnlock = true
					}
				}
				return true
			})
		}
		return true
	})
	var lockPos token.Pos = token.NoPos
	if deferUnlock {
		ast.Inspect(fd.Body, func(n ast.Node) bool {
			if c, ok := n.(*ast.CallExpr); ok && lockPos == token.NoPos {
				if s, ok := c.Fun.(*ast.SelectorExpr); ok && s.Sel.Name == "Lock" {
					lockPos = c.End()
				}
			}
			return true
		})
	}
	ast.Inspect(fd.Body, func(n ast.Node) bool {
		s, ok := n.(*ast.SelectorExpr)
		if !ok {
			return true
		}
		sel := info.Selections[s]
		if sel == nil || sel.Kind() != types.FieldVal {
			return true
		}
		v, ok := sel.Obj().(*types.Var)
		if !ok || !v.IsField() {
			return true
		}
		recv := sel.Recv()
		if p, ok := recv.(*types.Pointer); ok {
			recv = p.Elem()
		}
		named, ok := recv.(*types.Named)
		if !ok {
			return true
		}
		key := pkg + "." + named.Obj().Name() + "." + v.Name()
		if !watched[key] {
			return true
		}
		kind := "r"
		if writes[s] {
			kind = "w"
		}
		if atomics[s] {
			kind = "a"
		}
		after := []string{}
		seenOp := map[string]bool{}
		for _, op := range syncOps {
			if op.pos < s.Pos() && !seenOp[op.name] {
				seenOp[op.name] = true
				after = append(after, op.name)
			}
		}
		sort.Strings(after)
		then := []string{}
		seenThen := map[string]bool{}
		for _, op := range syncOps {
			if op.pos > s.Pos() && !seenThen[op.name] {
				seenThen[op.name] = true
				then = append(then, op.name)
			}
		}
		sort.Strings(then)
		locked := false
		for _, i := range ivs {
			if s.Pos() >= i.from && s.Pos() < i.to {
				locked = true
			}
		}
		if deferUnlock && lockPos != token.NoPos && s.Pos() >= lockPos {
			locked = true
		}
		out = append(out, Access{Field: key, Func: fname, Kind: kind, Locked: locked, After: after, Then: then, Line: fset.Position(s.Pos()).Line})
		return true
	})
	return out
}

func leanIdent(s string) string {
	return strings.NewReplacer(".", "_", "-", "_").Replace(s)
}

func leanFacts(f Facts) string {
	var b strings.Builder
	b.WriteString("/- GENERATED by /verif/tools/srcfacts from the repository's current working tree. Do not edit. -/\n")
	b.WriteString("namespace Got.Facts\n\n")
	var names []string
	for n := range f.Consts {
		names = append(names, n)
	}
	sort.Strings(names)
	for _, n := range names {
		v := f.Consts[n]
		if strings.HasPrefix(v, "-") {
			v = "(" + v + ")"
		}
		fmt.Fprintf(&b, "def %s : Int := %s\n", leanIdent(n), v)
	}
	b.WriteString("\nend Got.Facts\n")
	return b.String()
}

// leanLits: integer literals (source order) of every function of one package
func leanLits(f Facts, pkg string) string {
	var b strings.Builder
	b.WriteString("/- GENERATED by /verif/tools/srcfacts from the repository's current working tree. Do not edit. -/\n")
	b.WriteString("namespace Got.Facts\n\n")
	var fn []string
	for n := range f.Funcs {
		if strings.HasPrefix(n, pkg+".") {
			fn = append(fn, n)
		}
	}
	sort.Strings(fn)
	for _, n := range fn {
		fmt.Fprintf(&b, "def lits_%s : List Int := [%s]\n", leanIdent(n), strings.Join(f.Funcs[n].Lits, ", "))
	}
	b.WriteString("\nend Got.Facts\n")
	return b.String()
}

func writeIfChanged(path string, data []byte) {
	old, err := os.ReadFile(path)
	if err == nil && bytes.Equal(old, data) {
		return
	}
	_ = os.MkdirAll(filepath.Dir(path), 0o755)
	if err := os.WriteFile(path, data, 0o644); err != nil {
		fmt.Fprintln(os.Stderr, err)
		os.Exit(2)
	}
}
