// minigo_sample.go: the body of randx.WeightedSampling (/repo/randx/sample.go), re-described on every run in the
// statement language of /verif/lean/Got/Model/MiniGoSampleLoop.lean (Got/Generated/AstRandxSampling.lean): integer
// control flow is translated as written; the float key computation, the heap calls and the result slice are one
// abstract statement each (see the Lean file).  Anything else gives an empty body and a note.
package main

import (
	"fmt"
	"go/ast"
	"go/constant"
	"go/token"
	"go/types"
	"path/filepath"
	"strings"
)

func init() { plugins = append(plugins, sampleAstPlugin) }

type sampTr struct {
	info    *types.Info
	ints    map[types.Object]int
	next    int
	heap    types.Object // h
	results types.Object // results
	keyVar  types.Object // ki
	weight  types.Object // getWeight
	pending string       // argument of the getWeight call seen in the float statements of the current block
	err     string
}

func (t *sampTr) fail(format string, a ...interface{}) {
	if t.err == "" {
		t.err = fmt.Sprintf(format, a...)
	}
}

func (t *sampTr) obj(id *ast.Ident) types.Object {
	if o := t.info.Defs[id]; o != nil {
		return o
	}
	return t.info.Uses[id]
}

func (t *sampTr) isObj(e ast.Expr, o types.Object) bool {
	id, ok := unparen(e).(*ast.Ident)
	return ok && o != nil && t.obj(id) == o
}

func (t *sampTr) isInt(e ast.Expr) bool {
	tv, ok := t.info.Types[e]
	return ok && tv.Type != nil && sortIsSignedInt(tv.Type)
}

func isFloat(ty types.Type) bool {
	b, ok := ty.Underlying().(*types.Basic)
	return ok && (b.Kind() == types.Float64 || b.Kind() == types.UntypedFloat)
}

// hMethod: h.<name>(args)
func (t *sampTr) hMethod(e ast.Expr, name string, nargs int) (*ast.CallExpr, bool) {
	c, ok := unparen(e).(*ast.CallExpr)
	if !ok || len(c.Args) != nargs {
		return nil, false
	}
	sel, ok := c.Fun.(*ast.SelectorExpr)
	if !ok || sel.Sel.Name != name || !t.isObj(sel.X, t.heap) {
		return nil, false
	}
	return c, true
}

// pkgCall: <pkg>.<name>(args) where pkg is an imported package with the given path
func (t *sampTr) pkgCall(e ast.Expr, path, name string) (*ast.CallExpr, bool) {
	c, ok := unparen(e).(*ast.CallExpr)
	if !ok {
		return nil, false
	}
	sel, ok := c.Fun.(*ast.SelectorExpr)
	if !ok || sel.Sel.Name != name {
		return nil, false
	}
	id, ok := sel.X.(*ast.Ident)
	if !ok {
		return nil, false
	}
	pn, ok := t.info.Uses[id].(*types.PkgName)
	return c, ok && pn.Imported().Path() == path
}

func (t *sampTr) expr(e ast.Expr) string {
	if tv, ok := t.info.Types[e]; ok && tv.Value != nil && tv.Value.Kind() == constant.Int && sortIsSignedInt(tv.Type) {
		return "(.lit " + leanInt(tv.Value.ExactString()) + ")"
	}
	switch x := unparen(e).(type) {
	case *ast.Ident:
		if k, ok := t.ints[t.obj(x)]; ok {
			return fmt.Sprintf("(.var %d)", k)
		}
		t.fail("identifier %s is not an int variable of the function", x.Name)
	case *ast.BinaryExpr:
		if t.isInt(x.X) && t.isInt(x.Y) {
			switch x.Op {
			case token.ADD:
				return "(.add " + t.expr(x.X) + " " + t.expr(x.Y) + ")"
			case token.SUB:
				return "(.sub " + t.expr(x.X) + " " + t.expr(x.Y) + ")"
			}
		}
		t.fail("binary operator %s", x.Op)
	case *ast.CallExpr:
		if _, ok := t.hMethod(x, "Len", 0); ok {
			return ".hlen"
		}
		t.fail("call in an integer expression that is not h.Len()")
	default:
		t.fail("expression %T", e)
	}
	return "(.lit 0)"
}

func (t *sampTr) cond(e ast.Expr) string {
	switch x := unparen(e).(type) {
	case *ast.UnaryExpr:
		if x.Op == token.NOT {
			return "(.not " + t.cond(x.X) + ")"
		}
	case *ast.BinaryExpr:
		switch x.Op {
		case token.LOR:
			return "(.or " + t.cond(x.X) + " " + t.cond(x.Y) + ")"
		case token.LAND:
			return "(.and " + t.cond(x.X) + " " + t.cond(x.Y) + ")"
		case token.GTR:
			// ki > h.Get(e).ki
			if t.isObj(x.X, t.keyVar) {
				if sel, ok := unparen(x.Y).(*ast.SelectorExpr); ok && sel.Sel.Name == "ki" {
					if c, ok := t.hMethod(sel.X, "Get", 1); ok && t.isInt(c.Args[0]) {
						return "(.keyGtTop " + t.expr(c.Args[0]) + ")"
					}
				}
				t.fail("comparison of the key with something that is not h.Get(e).ki")
				return ".tt"
			}
			fallthrough
		case token.EQL, token.NEQ, token.LEQ, token.LSS, token.GEQ:
			if !t.isInt(x.X) || !t.isInt(x.Y) {
				t.fail("comparison of operands that are not ints")
				return ".tt"
			}
			a, b := t.expr(x.X), t.expr(x.Y)
			switch x.Op {
			case token.EQL:
				return "(.eq " + a + " " + b + ")"
			case token.NEQ:
				return "(.ne " + a + " " + b + ")"
			case token.LEQ:
				return "(.le " + a + " " + b + ")"
			case token.LSS:
				return "(.lt " + a + " " + b + ")"
			case token.GEQ:
				return "(.le " + b + " " + a + ")"
			default:
				return "(.lt " + b + " " + a + ")"
			}
		}
	}
	t.fail("condition outside the fragment")
	return ".tt"
}

func (t *sampTr) block(list []ast.Stmt, ind string) string {
	saved := t.pending
	t.pending = ""
	var parts []string
	for _, s := range list {
		for _, p := range t.stmt(s, ind+"  ") {
			parts = append(parts, ind+"  "+p)
		}
	}
	t.pending = saved
	if len(parts) == 0 {
		return "[]"
	}
	return "[\n" + strings.Join(parts, ",\n") + "\n" + ind + "]"
}

// floatDefine: a `:=` / `var` statement that only defines float temporaries (or the int exponent of math.Frexp) from
// calls into math, math/rand, getWeight and float arithmetic.  Returns the defined objects.
func (t *sampTr) floatDefine(lhs []*ast.Ident, rhs []ast.Expr) ([]types.Object, bool) {
	var objs []types.Object
	for _, id := range lhs {
		o := t.info.Defs[id]
		if o == nil {
			return nil, false
		}
		objs = append(objs, o)
	}
	ok := true
	anyFloat := false
	for _, o := range objs {
		if isFloat(o.Type()) {
			anyFloat = true
		}
	}
	for _, r := range rhs {
		ast.Inspect(r, func(n ast.Node) bool {
			switch c := n.(type) {
			case *ast.CallExpr:
				if id, isId := c.Fun.(*ast.Ident); isId && t.weight != nil && t.obj(id) == t.weight && len(c.Args) == 1 && t.isInt(c.Args[0]) {
					arg := t.expr(c.Args[0])
					if t.pending != "" && t.pending != arg {
						ok = false
					}
					t.pending = arg
					return false
				}
				if sel, isSel := c.Fun.(*ast.SelectorExpr); isSel {
					if pid, isId := sel.X.(*ast.Ident); isId {
						if pn, isPkg := t.info.Uses[pid].(*types.PkgName); isPkg && (pn.Imported().Path() == "math" || pn.Imported().Path() == "math/rand") {
							return true
						}
					}
				}
				if tv, isT := t.info.Types[c.Fun]; isT && tv.IsType() && isFloat(tv.Type) { // float64(exp)
					return true
				}
				ok = false
				return false
			}
			return true
		})
	}
	return objs, ok && anyFloat
}

func (t *sampTr) stmt(s ast.Stmt, ind string) []string {
	one := func(x string) []string { return []string{x} }
	switch x := s.(type) {
	case *ast.EmptyStmt:
		return nil
	case *ast.ReturnStmt:
		if len(x.Results) == 1 && t.isObj(x.Results[0], t.results) {
			return one(".retResults")
		}
		t.fail("return of something that is not the result slice")
	case *ast.IncDecStmt:
		if id, ok := x.X.(*ast.Ident); ok {
			if k, ok := t.ints[t.obj(id)]; ok {
				op := "add"
				if x.Tok == token.DEC {
					op = "sub"
				}
				return one(fmt.Sprintf(".set %d (.%s (.var %d) (.lit 1))", k, op, k))
			}
		}
		t.fail("++/-- of something that is not an int variable")
	case *ast.ExprStmt:
		if c, ok := unparen(x.X).(*ast.CallExpr); ok {
			if id, isId := c.Fun.(*ast.Ident); isId && len(c.Args) == 1 {
				if b, isB := t.info.Uses[id].(*types.Builtin); isB && b.Name() == "panic" {
					return one(".panic")
				}
			}
			addrH := func(e ast.Expr) bool {
				u, ok := unparen(e).(*ast.UnaryExpr)
				return ok && u.Op == token.AND && t.isObj(u.X, t.heap)
			}
			if pc, ok := t.pkgCall(c, "container/heap", "Pop"); ok && len(pc.Args) == 1 && addrH(pc.Args[0]) {
				return one(".hpop")
			}
			if pc, ok := t.pkgCall(c, "container/heap", "Push"); ok && len(pc.Args) == 2 && addrH(pc.Args[0]) {
				if cl, ok := unparen(pc.Args[1]).(*ast.CompositeLit); ok && len(cl.Elts) == 2 {
					if tv, ok := t.info.Types[cl]; ok {
						if n, ok := tv.Type.(*types.Named); ok && n.Obj().Name() == "sampleHeapItem" {
							var kiOK bool
							var idx string
							for _, el := range cl.Elts {
								kv, ok := el.(*ast.KeyValueExpr)
								if !ok {
									continue
								}
								kn, _ := kv.Key.(*ast.Ident)
								if kn != nil && kn.Name == "ki" && t.isObj(kv.Value, t.keyVar) {
									kiOK = true
								}
								if kn != nil && kn.Name == "index" && t.isInt(kv.Value) {
									idx = t.expr(kv.Value)
								}
							}
							if kiOK && idx != "" {
								return one(".hpush " + idx)
							}
						}
					}
				}
			}
		}
		t.fail("expression statement outside the fragment")
	case *ast.DeclStmt:
		gd, ok := x.Decl.(*ast.GenDecl)
		if ok && gd.Tok == token.TYPE {
			return nil // a local type declaration has no effect
		}
		if !ok || gd.Tok != token.VAR || len(gd.Specs) != 1 {
			t.fail("declaration outside the fragment")
			break
		}
		vs := gd.Specs[0].(*ast.ValueSpec)
		return t.define(vs.Names, vs.Values, true)
	case *ast.AssignStmt:
		if x.Tok == token.DEFINE {
			var ids []*ast.Ident
			for _, l := range x.Lhs {
				id, ok := l.(*ast.Ident)
				if !ok {
					t.fail("assignment outside the fragment")
					return one(".panic")
				}
				ids = append(ids, id)
			}
			return t.define(ids, x.Rhs, false)
		}
		if x.Tok == token.ASSIGN && len(x.Lhs) == 1 && len(x.Rhs) == 1 {
			// results[e1] = h.Get(e2).index
			if ix, ok := unparen(x.Lhs[0]).(*ast.IndexExpr); ok && t.isObj(ix.X, t.results) && t.isInt(ix.Index) {
				if sel, ok := unparen(x.Rhs[0]).(*ast.SelectorExpr); ok && sel.Sel.Name == "index" {
					if c, ok := t.hMethod(sel.X, "Get", 1); ok && t.isInt(c.Args[0]) {
						return one(".setResult " + t.expr(ix.Index) + " " + t.expr(c.Args[0]))
					}
				}
			}
			if id, ok := x.Lhs[0].(*ast.Ident); ok && t.isInt(x.Rhs[0]) {
				if k, ok := t.ints[t.obj(id)]; ok {
					return one(fmt.Sprintf(".set %d %s", k, t.expr(x.Rhs[0])))
				}
			}
		}
		t.fail("assignment outside the fragment")
	case *ast.IfStmt:
		if x.Init != nil {
			t.fail("if with an init statement")
			break
		}
		c := t.cond(x.Cond)
		th := t.block(x.Body.List, ind)
		el := "[]"
		switch e := x.Else.(type) {
		case nil:
		case *ast.BlockStmt:
			el = t.block(e.List, ind)
		case *ast.IfStmt:
			el = "[\n" + ind + "  " + strings.Join(t.stmt(e, ind+"  "), ",\n"+ind+"  ") + "\n" + ind + "]"
		default:
			t.fail("else branch %T", e)
		}
		return one(".ite " + c + " " + th + " " + el)
	case *ast.ForStmt:
		var out []string
		if x.Init != nil {
			out = append(out, t.stmt(x.Init, ind)...)
		}
		c := ".tt"
		if x.Cond != nil {
			c = t.cond(x.Cond)
		}
		body := t.block(x.Body.List, ind)
		post := "[]"
		if x.Post != nil {
			post = t.block([]ast.Stmt{x.Post}, ind)
		}
		return append(out, ".loop "+c+" "+body+" "+post)
	default:
		t.fail("statement %T", s)
	}
	return one(".panic")
}

// define: `x := e`, `var x = e` for ints, strings (no effect), floats (key computation), make(...)
func (t *sampTr) define(names []*ast.Ident, values []ast.Expr, isVar bool) []string {
	one := func(x string) []string { return []string{x} }
	if len(names) == 1 && len(values) == 1 {
		o := t.info.Defs[names[0]]
		if o == nil {
			t.fail("redeclaration of %s", names[0].Name)
			return one(".panic")
		}
		if c, ok := unparen(values[0]).(*ast.CallExpr); ok {
			if id, isId := c.Fun.(*ast.Ident); isId {
				if b, isB := t.info.Uses[id].(*types.Builtin); isB && b.Name() == "make" {
					if tv, ok := t.info.Types[c.Args[0]]; ok {
						if n, ok := tv.Type.(*types.Named); ok && n.Obj().Name() == "sampleHeap" && len(c.Args) == 3 && t.heap == nil {
							if l, ok := t.info.Types[c.Args[1]]; ok && l.Value != nil && constant.Sign(l.Value) == 0 && t.isInt(c.Args[2]) {
								t.heap = o
								return one(".makeHeap " + t.expr(c.Args[2]))
							}
						}
						if sl, ok := tv.Type.(*types.Slice); ok && sortIsSignedInt(sl.Elem()) && len(c.Args) == 2 && t.results == nil && t.isInt(c.Args[1]) {
							t.results = o
							return one(".makeResults " + t.expr(c.Args[1]))
						}
					}
					t.fail("make outside the fragment")
					return one(".panic")
				}
			}
		}
		if b, ok := o.Type().Underlying().(*types.Basic); ok && b.Kind() == types.String {
			if c, ok := t.pkgCall(values[0], "fmt", "Sprintf"); ok {
				pure := true
				for _, a := range c.Args[1:] {
					if !t.isInt(a) {
						pure = false
					}
				}
				if pure {
					return nil // a message string built from ints: no effect
				}
			}
			t.fail("string definition that is not fmt.Sprintf of ints")
			return one(".panic")
		}
		if sortIsSignedInt(o.Type()) && t.isInt(values[0]) {
			v := t.expr(values[0])
			t.ints[o] = t.next
			t.next++
			return one(fmt.Sprintf(".set %d %s", t.ints[o], v))
		}
	}
	if objs, ok := t.floatDefine(names, values); ok {
		for _, o := range objs {
			if o == t.keyVar {
				if t.pending == "" {
					t.fail("the key is defined without a getWeight(e) call before it in the same block")
					return one(".panic")
				}
				return one(".key " + t.pending)
			}
		}
		return one(".float")
	}
	t.fail("definition outside the fragment")
	return one(".panic")
}

func sampleAstPlugin(ctxs map[string]*PkgCtx, outLean string) {
	ctx := ctxs["randx"]
	t := &sampTr{ints: map[types.Object]int{}}
	var fd *ast.FuncDecl
	if ctx != nil {
		t.info = ctx.Info
		for _, f := range ctx.Files {
			for _, d := range f.Decls {
				if x, ok := d.(*ast.FuncDecl); ok && x.Recv == nil && x.Name.Name == "WeightedSampling" && x.Body != nil {
					fd = x
				}
			}
		}
	}
	body := "[]"
	switch {
	case fd == nil:
		t.err = "function not found"
	default:
		for _, p := range fd.Type.Params.List {
			for _, n := range p.Names {
				o := t.info.Defs[n]
				if o == nil {
					continue
				}
				if sortIsSignedInt(o.Type()) {
					t.ints[o] = t.next
					t.next++
				} else if sg, ok := o.Type().Underlying().(*types.Signature); ok && sg.Params().Len() == 1 && sg.Results().Len() == 1 &&
					sortIsSignedInt(sg.Params().At(0).Type()) && isFloat(sg.Results().At(0).Type()) && t.weight == nil {
					t.weight = o
				} else {
					t.fail("parameter %s of type %s", n.Name, o.Type())
				}
			}
		}
		if t.next != 2 || t.weight == nil {
			t.fail("parameters are not (sampleNum int, totalNum int, getWeight func(int) float64)")
		}
		// the key variable: the value of the `ki:` field of every sampleHeapItem literal
		ast.Inspect(fd.Body, func(n ast.Node) bool {
			switch x := n.(type) {
			case *ast.FuncLit, *ast.GoStmt, *ast.DeferStmt, *ast.LabeledStmt, *ast.BranchStmt, *ast.SwitchStmt, *ast.SelectStmt, *ast.RangeStmt:
				t.fail("%T", x)
			case *ast.CompositeLit:
				if tv, ok := t.info.Types[x]; ok {
					if nm, ok := tv.Type.(*types.Named); ok && nm.Obj().Name() == "sampleHeapItem" {
						for _, el := range x.Elts {
							if kv, ok := el.(*ast.KeyValueExpr); ok {
								if kn, _ := kv.Key.(*ast.Ident); kn != nil && kn.Name == "ki" {
									if id, ok := unparen(kv.Value).(*ast.Ident); ok {
										o := t.info.Uses[id]
										if t.keyVar != nil && t.keyVar != o {
											t.fail("two different key variables")
										}
										t.keyVar = o
									} else {
										t.fail("the ki field is not a variable")
									}
								}
							}
						}
					}
				}
			}
			return true
		})
		if t.keyVar == nil {
			t.fail("no sampleHeapItem{ki: …} literal")
		}
		if t.err == "" {
			body = t.block(fd.Body.List, "    ")
		}
	}
	note := "ok"
	if t.err != "" {
		body = "[]"
		note = "outside the MiniGoSampleLoop fragment: " + t.err
	}
	var b strings.Builder
	b.WriteString("import Got.Model.MiniGoSampleLoop\n")
	b.WriteString("/- GENERATED by /verif/tools/srcfacts (minigo_sample.go) from the repository's current working tree on every run.\n")
	b.WriteString("   Do not edit.  The body of randx.WeightedSampling in the statement language of Got/Model/MiniGoSampleLoop.lean;\n")
	b.WriteString("   variables: 0 = sampleNum, 1 = totalNum, then int locals in order of declaration. -/\n")
	b.WriteString("namespace Got.Generated.AstRandxSampling\nopen Got.Model.MiniGoSampleLoop\n\n")
	fmt.Fprintf(&b, "def weightedSamplingNote : String := %q\n\n", note)
	fmt.Fprintf(&b, "def weightedSampling : Fn :=\n  { name := \"WeightedSampling\"\n    nparams := 2\n    body := %s }\n", body)
	b.WriteString("\nend Got.Generated.AstRandxSampling\n")
	writeIfChanged(filepath.Join(outLean, "AstRandxSampling.lean"), []byte(b.String()))
}
