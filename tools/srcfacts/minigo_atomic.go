// minigo_atomic.go: translation of the lock-free code of package loom (queue.go: Push, Pop with the helpers
// queueLoad/queueCas inlined; flag.go: AddFlag, RemoveFlag; atomic.go: AddIf64) into the atomic-instruction IR of
// /verif/lean/Got/Model/AtomicIR.lean. The per-thread programs are regenerated from the repository's current
// source on every run (Got/Generated/AstLoomQueue.lean, AstLoomAtomics.lean) and the Lean theorems about the LTS
// of exactly these programs are re-checked; a construct outside the fragment yields an empty body and a note,
// so that the obligations fail instead of silently keeping an old translation.
//
// Variables are positional (`.var k` = the k-th variable in scope, value parameters first), so renaming a
// variable does not change the translation. `verifYield(site, p)` is a no-op of the program; the translator only
// checks that every atomic access is immediately preceded by one (that is what makes one shared access = one step
// of the controlled scheduler).
package main

import (
	"fmt"
	"go/ast"
	"go/constant"
	"go/token"
	"go/types"
	"path/filepath"
	"strings"
)

func init() { plugins = append(plugins, atomicPlugin) }

type atomVar struct {
	name, kind string // kind: ptr (*node) | data (any) | i64 | bool
}

type atomTr struct {
	info      *types.Info
	vars      []atomVar         // variables in scope, in order of declaration
	cellAlias map[string]bool   // names that denote the *int64 the call operates on
	mutexRecv string            // name of the *Mutex receiver ("" if none): its state word is `.cell32`
	unhooked  bool              // the function has no verifYield points at all (one atomic load, e.g. Count)
	wheelRecv string            // name of the *Wheel receiver ("" if none)
	cfg       []string          // immutable receiver fields the function reads (they become its leading parameters)
	hoisted   map[ast.Expr]int  // access calls already bound to a temporary (`return f(<access>)` is `tmp := <access>; return f(tmp)`)
	queueRecv string            // name of the *Queue receiver ("" if none)
	predName  string            // name of the predicate parameter ("" if none)
	helpers   map[string]string // "load"/"cas" -> name of the checked helper function
	yielded   bool              // a verifYield statement immediately precedes the current statement
	assumes   []string
	err       string
}

func (t *atomTr) fail(format string, a ...interface{}) {
	if t.err == "" {
		t.err = fmt.Sprintf(format, a...)
	}
}

func (t *atomTr) lookup(name string) (int, string, bool) {
	for i := len(t.vars) - 1; i >= 0; i-- {
		if t.vars[i].name == name {
			return i, t.vars[i].kind, true
		}
	}
	return 0, "", false
}

func (t *atomTr) declare(name, kind string) {
	if _, _, dup := t.lookup(name); dup || t.cellAlias[name] || name == t.queueRecv || name == t.predName {
		t.fail("name %s declared twice (no shadowing in the fragment)", name)
	}
	t.vars = append(t.vars, atomVar{name, kind})
}

func kindOfType(ty types.Type) string {
	if ty == nil {
		return ""
	}
	switch u := ty.(type) {
	case *types.Pointer:
		if n, ok := u.Elem().(*types.Named); ok && n.Obj().Name() == "node" {
			return "ptr"
		}
	case *types.Named:
		if _, ok := u.Underlying().(*types.Interface); ok {
			return "data"
		}
	case *types.Alias:
		return kindOfType(types.Unalias(ty))
	case *types.Interface:
		return "data"
	case *types.Basic:
		switch u.Kind() {
		case types.Int64:
			return "i64"
		case types.Bool, types.UntypedBool:
			return "bool"
		}
	}
	return ""
}

// expr: a local expression; returns the Lean term and its kind ("nil" for the untyped nil)
func (t *atomTr) expr(e ast.Expr) (string, string) {
	if i, ok := t.hoisted[e]; ok {
		return fmt.Sprintf("(.var %d)", i), t.vars[i].kind
	}
	// a constant expression (literal, named constant, constant arithmetic): its value, typed by go/types
	if tv, ok := t.info.Types[e]; ok && tv.Value != nil && tv.Value.Kind() == constant.Int && tv.Type != nil {
		switch wordKind(tv.Type) {
		case "i32":
			return "(.lit32 " + leanInt(tv.Value.ExactString()) + ")", "i32"
		case "i64":
			return "(.lit " + leanInt(tv.Value.ExactString()) + ")", "i64"
		case "int":
			return "(.ilit " + leanInt(tv.Value.ExactString()) + ")", "int"
		}
	}
	switch x := e.(type) {
	case *ast.ParenExpr:
		return t.expr(x.X)
	case *ast.Ident:
		switch x.Name {
		case "nil":
			return ".nil", "nil"
		case "true":
			return "(.blit true)", "bool"
		case "false":
			return "(.blit false)", "bool"
		}
		if i, k, ok := t.lookup(x.Name); ok {
			return fmt.Sprintf("(.var %d)", i), k
		}
		t.fail("identifier %s is not a local variable of the function", x.Name)
	case *ast.BasicLit:
		if x.Kind == token.INT {
			if tv, ok := t.info.Types[e]; ok && tv.Value != nil {
				return "(.lit " + leanInt(tv.Value.ExactString()) + ")", "i64"
			}
		}
		t.fail("literal %s", x.Value)
	case *ast.BinaryExpr:
		var op string
		switch x.Op {
		case token.OR:
			op = ".bor"
		case token.AND:
			op = ".band"
		case token.AND_NOT:
			op = ".bandNot"
		case token.ADD:
			op = ".add"
		case token.NEQ:
			a, ka := t.expr(x.X)
			b, kb := t.expr(x.Y)
			if ka != kb || (ka != "i64" && ka != "i32" && ka != "int") {
				t.fail("comparison %s as a value", exprString(e))
			}
			return "(.ne " + a + " " + b + ")", "bool"
		case token.SUB:
			op = ".isub"
		case token.QUO:
			op = ".idiv"
		case token.REM:
			op = ".imod"
		case token.SHR:
			tv, ok := t.info.Types[x.Y]
			a, ka := t.expr(x.X)
			if !ok || tv.Value == nil || tv.Value.Kind() != constant.Int || (ka != "i32" && ka != "i64") {
				t.fail("shift %s that is not a signed word shifted by a constant", exprString(e))
				return ".nil", ""
			}
			k, exact := constant.Int64Val(tv.Value)
			if !exact || k < 0 || k > 63 {
				t.fail("shift count %s", tv.Value)
				return ".nil", ""
			}
			return fmt.Sprintf("(.shr %s %d)", a, k), ka
		default:
			t.fail("binary operator %s in a local expression", x.Op)
			return ".nil", ""
		}
		a, ka := t.expr(x.X)
		y := x.Y
		if p, ok := y.(*ast.ParenExpr); ok {
			y = p.X
		}
		if u, ok := y.(*ast.UnaryExpr); ok && u.Op == token.XOR && x.Op == token.AND { // a & ^b
			op, y = ".bandNot", u.X
		}
		b, kb := t.expr(y)
		if ka == "int" && kb == "int" {
			if op == ".add" {
				op = ".iadd"
			}
			if !strings.HasPrefix(op, ".i") {
				t.fail("operator %s on ints", x.Op)
			}
			return "(" + op + " " + a + " " + b + ")", "int"
		}
		if ka != kb || (ka != "i64" && ka != "i32") || strings.HasPrefix(op, ".i") {
			t.fail("operator %s on operands that are not both int64 or both int32", x.Op)
		}
		return "(" + op + " " + a + " " + b + ")", ka
	case *ast.CallExpr: // int(v) of an int32
		if id, ok := x.Fun.(*ast.Ident); ok && (id.Name == "int" || id.Name == "int64") && len(x.Args) == 1 {
			a, ka := t.expr(x.Args[0])
			if ka == "int" { // int(x) / int64(x) of an unbounded integer: the identity
				return a, "int"
			}
			if ka == "i32" || ka == "i64" {
				return "(.sext " + a + ")", "i64"
			}
		}
		t.fail("call %s in a local expression", exprString(e))
	case *ast.SelectorExpr: // an immutable field of the *Wheel receiver: a leading parameter
		if base, ok := x.X.(*ast.Ident); ok && base.Name == t.wheelRecv && t.wheelRecv != "" {
			if i, k, ok := t.lookup(t.wheelRecv + "." + x.Sel.Name); ok {
				return fmt.Sprintf("(.var %d)", i), k
			}
		}
		t.fail("selector %s", exprString(e))
	default:
		t.fail("expression %s", exprString(e))
	}
	return ".nil", ""
}

// addr: the address argument of an atomic access
func (t *atomTr) addr(e ast.Expr) (string, string) {
	if id, ok := e.(*ast.Ident); ok && t.cellAlias[id.Name] {
		return ".cell", "i64"
	}
	if t.mutexRecv != "" && exprString(e) == "(*int32)(unsafe.Pointer(&"+t.mutexRecv+".Mutex))" {
		return ".cell32", "i32"
	}
	u, ok := e.(*ast.UnaryExpr)
	if !ok || u.Op != token.AND {
		t.fail("address %s", exprString(e))
		return ".cell", ""
	}
	if t.wheelRecv != "" {
		if exprString(u.X) == t.wheelRecv+".position" {
			return ".pos", "int"
		}
		if ix, ok := u.X.(*ast.IndexExpr); ok && exprString(ix.X) == t.wheelRecv+".channels" {
			i, k := t.expr(ix.Index)
			if k != "int" {
				t.fail("index %s", exprString(ix.Index))
			}
			return "(.slot " + i + ")", "ptr"
		}
	}
	sel, ok := u.X.(*ast.SelectorExpr)
	if !ok {
		t.fail("address %s", exprString(e))
		return ".cell", ""
	}
	base, ok := sel.X.(*ast.Ident)
	if !ok {
		t.fail("address %s", exprString(e))
		return ".cell", ""
	}
	if base.Name == t.queueRecv && t.queueRecv != "" {
		switch sel.Sel.Name {
		case "head":
			return ".head", "ptr"
		case "tail":
			return ".tail", "ptr"
		}
		t.fail("field %s of the queue", sel.Sel.Name)
		return ".cell", ""
	}
	if i, k, ok := t.lookup(base.Name); ok && k == "ptr" && sel.Sel.Name == "next" {
		return fmt.Sprintf("(.next (.var %d))", i), "ptr"
	}
	t.fail("address %s", exprString(e))
	return ".cell", ""
}

// wordKind: int32 -> i32, int64 -> i64 (a 64-bit word), int / time.Duration / untyped -> int (an unbounded integer)
func wordKind(ty types.Type) string {
	if n, ok := ty.(*types.Named); ok {
		if n.Obj().Name() == "Duration" && n.Obj().Pkg() != nil && n.Obj().Pkg().Path() == "time" {
			return "int"
		}
		return ""
	}
	if b, ok := ty.(*types.Basic); ok {
		switch b.Kind() {
		case types.Int32:
			return "i32"
		case types.Int64:
			return "i64"
		case types.Int, types.UntypedInt:
			return "int"
		}
	}
	return ""
}

func compat(a, b string) bool {
	return a == b || (a == "nil" && b == "ptr") || (a == "ptr" && b == "nil")
}

// access: a call that is a shared-memory access; ok=false if e is not one
func (t *atomTr) access(e ast.Expr) (term, kind string, ok bool) {
	call, isCall := e.(*ast.CallExpr)
	if !isCall {
		return "", "", false
	}
	name := ""
	direct := false
	switch f := call.Fun.(type) {
	case *ast.Ident:
		name = f.Name
	case *ast.SelectorExpr:
		name = exprString(f.X) + "." + f.Sel.Name
		direct = true
	}
	switch name {
	case "atomic.StoreInt64", "atomic.SwapPointer", "atomic.LoadPointer", "close":
		if !t.yielded && !t.unhooked {
			t.fail("%s without an immediately preceding verifYield", name)
		}
		t.yielded = false
		switch {
		case name == "atomic.LoadPointer" && len(call.Args) == 1:
			a, k := t.addr(call.Args[0])
			if k != "ptr" {
				t.fail("%s on %s", name, exprString(call.Args[0]))
			}
			return "(.load " + a + ")", "ptr", true
		case name == "atomic.StoreInt64" && len(call.Args) == 2:
			a, k := t.addr(call.Args[0])
			v, kv := t.expr(call.Args[1])
			if k != "int" || kv != "int" {
				t.fail("%s", exprString(e))
			}
			return "(.store " + a + " " + v + ")", "int", true
		case name == "atomic.SwapPointer" && len(call.Args) == 2:
			a, k := t.addr(call.Args[0])
			if k != "ptr" || exprString(call.Args[1]) != "unsafe.Pointer(&wheelData{c:make(chanstruct{})})" {
				t.fail("%s", exprString(e))
			}
			return "(.swapNew " + a + ")", "ptr", true
		case name == "close" && len(call.Args) == 1:
			if sel, ok := call.Args[0].(*ast.SelectorExpr); ok && sel.Sel.Name == "c" {
				if id, ok := sel.X.(*ast.Ident); ok {
					if i, k, ok := t.lookup(id.Name); ok && k == "ptr" {
						return fmt.Sprintf("(.close (.var %d))", i), "bool", true
					}
				}
			}
		}
		t.fail("%s", exprString(e))
		return "(.load .cell)", "", true
	}
	isLoad := (name == t.helpers["load"] && name != "") || name == "atomic.LoadInt64" || name == "atomic.LoadInt32"
	isCas := (name == t.helpers["cas"] && name != "") || name == "atomic.CompareAndSwapInt64" || name == "atomic.CompareAndSwapInt32"
	want := "i64"
	if strings.HasSuffix(name, "Int32") {
		want = "i32"
	}
	if !isLoad && !isCas {
		return "", "", false
	}
	if direct {
		if !t.yielded && !t.unhooked {
			t.fail("%s without an immediately preceding verifYield", name)
		}
	} else if t.yielded {
		t.fail("verifYield before %s, which yields itself", name)
	}
	t.yielded = false
	if isLoad {
		if len(call.Args) != 1 {
			t.fail("%s with %d arguments", name, len(call.Args))
			return "(.load .cell)", "", true
		}
		a, k := t.addr(call.Args[0])
		if a == ".pos" && name == "atomic.LoadInt64" { // the position word is read as an (unbounded) int
			return "(.load .pos)", "int", true
		}
		if direct && k != want || !direct && k != "ptr" {
			t.fail("%s on %s", name, exprString(call.Args[0]))
		}
		return "(.load " + a + ")", k, true
	}
	if len(call.Args) != 3 {
		t.fail("%s with %d arguments", name, len(call.Args))
		return "(.load .cell)", "", true
	}
	a, k := t.addr(call.Args[0])
	if direct && k != want || !direct && k != "ptr" {
		t.fail("%s on %s", name, exprString(call.Args[0]))
	}
	o, ko := t.expr(call.Args[1])
	n, kn := t.expr(call.Args[2])
	if !compat(ko, k) || !compat(kn, k) {
		t.fail("operands of %s", exprString(e))
	}
	return "(.cas " + a + " " + o + " " + n + ")", "bool", true
}

// rhs: right-hand side of a declaration/assignment or operand of a comparison
func (t *atomTr) rhs(e ast.Expr) (string, string) {
	if p, ok := e.(*ast.ParenExpr); ok {
		return t.rhs(p.X)
	}
	if c, ok := e.(*ast.CallExpr); ok && len(c.Args) == 1 {
		if f := exprString(c.Fun); f == "(*wheelData)" || f == "int" {
			if _, isAcc := c.Args[0].(*ast.CallExpr); isAcc {
				if a, k, ok := t.access(c.Args[0]); ok && ((f == "int" && k == "int") || (f == "(*wheelData)" && k == "ptr")) {
					return "(.acc " + a + ")", k
				}
			}
		}
	}
	if a, k, ok := t.access(e); ok {
		return "(.acc " + a + ")", k
	}
	switch x := e.(type) {
	case *ast.UnaryExpr: // &node{value: v}
		if x.Op == token.AND {
			if cl, ok := x.X.(*ast.CompositeLit); ok {
				if id, ok := cl.Type.(*ast.Ident); ok && id.Name == "node" && len(cl.Elts) == 1 {
					if kv, ok := cl.Elts[0].(*ast.KeyValueExpr); ok {
						if key, ok := kv.Key.(*ast.Ident); ok && key.Name == "value" {
							v, kd := t.expr(kv.Value)
							if kd != "data" {
								t.fail("node value %s is not of type any", exprString(kv.Value))
							}
							return "(.alloc " + v + ")", "ptr"
						}
					}
				}
			}
		}
	case *ast.SelectorExpr: // p.value
		if base, ok := x.X.(*ast.Ident); ok && base.Name == t.wheelRecv && t.wheelRecv != "" {
			s, k := t.expr(e)
			return "(.e " + s + ")", k
		}
		if base, ok := x.X.(*ast.Ident); ok && x.Sel.Name == "value" {
			if i, k, ok := t.lookup(base.Name); ok && k == "ptr" {
				return fmt.Sprintf("(.valOf (.var %d))", i), "data"
			}
		}
		t.fail("selector %s", exprString(e))
		return "(.e .nil)", ""
	}
	s, k := t.expr(e)
	return "(.e " + s + ")", k
}

func (t *atomTr) cond(e ast.Expr) string {
	switch x := e.(type) {
	case *ast.ParenExpr:
		return t.cond(x.X)
	case *ast.UnaryExpr:
		if x.Op == token.NOT {
			return "(.not " + t.cond(x.X) + ")"
		}
	case *ast.BinaryExpr:
		if x.Op == token.LOR {
			return "(.or " + t.cond(x.X) + " " + t.cond(x.Y) + ")"
		}
		if x.Op == token.LSS || x.Op == token.LEQ || x.Op == token.GTR || x.Op == token.GEQ {
			a, ka := t.rhs(x.X)
			b, kb := t.rhs(x.Y)
			if ka != "int" || kb != "int" {
				t.fail("comparison %s of operands that are not ints", exprString(e))
			}
			switch x.Op {
			case token.LSS:
				return "(.lt " + a + " " + b + ")"
			case token.LEQ:
				return "(.le " + a + " " + b + ")"
			case token.GTR:
				return "(.lt " + b + " " + a + ")"
			default:
				return "(.le " + b + " " + a + ")"
			}
		}
		if x.Op == token.EQL || x.Op == token.NEQ {
			a, ka := t.rhs(x.X)
			b, kb := t.rhs(x.Y)
			if !compat(ka, kb) || ka == "" {
				t.fail("comparison %s of operands of different kinds", exprString(e))
			}
			if x.Op == token.EQL {
				return "(.eq " + a + " " + b + ")"
			}
			return "(.ne " + a + " " + b + ")"
		}
	case *ast.CallExpr:
		if id, ok := x.Fun.(*ast.Ident); ok && id.Name == t.predName && t.predName != "" && len(x.Args) == 1 {
			a, k := t.expr(x.Args[0])
			if k != "i64" {
				t.fail("argument of %s", t.predName)
			}
			return "(.call " + a + ")"
		}
		if a, k, ok := t.access(e); ok {
			if k != "bool" {
				t.fail("condition %s is not boolean", exprString(e))
			}
			return "(.is (.acc " + a + "))"
		}
	}
	t.fail("condition %s", exprString(e))
	return "(.is (.e (.blit false)))"
}

func isYield(s ast.Stmt) bool {
	es, ok := s.(*ast.ExprStmt)
	if !ok {
		return false
	}
	call, ok := es.X.(*ast.CallExpr)
	if !ok {
		return false
	}
	id, ok := call.Fun.(*ast.Ident)
	return ok && id.Name == "verifYield"
}

func (t *atomTr) block(b *ast.BlockStmt, ind string) string {
	if b == nil {
		return "[]"
	}
	depth := len(t.vars)
	if t.yielded {
		t.fail("verifYield that is not immediately followed by an atomic access")
		t.yielded = false
	}
	var parts []string
	for _, s := range b.List {
		if isYield(s) {
			if t.yielded {
				t.fail("two verifYield in a row")
			}
			t.yielded = true
			continue
		}
		if p := t.stmt(s, ind+"  "); p != "" {
			parts = append(parts, ind+"  "+p)
		}
		if t.yielded {
			t.fail("verifYield that is not immediately followed by an atomic access")
			t.yielded = false
		}
	}
	if t.yielded {
		t.fail("verifYield at the end of a block")
		t.yielded = false
	}
	t.vars = t.vars[:depth]
	if len(parts) == 0 {
		return "[]"
	}
	return "[\n" + strings.Join(parts, ",\n") + "\n" + ind + "]"
}

func (t *atomTr) isCellConv(e ast.Expr) bool { // (*int64)(recv)
	call, ok := e.(*ast.CallExpr)
	if !ok || len(call.Args) != 1 || exprString(call.Fun) != "(*int64)" {
		return false
	}
	id, ok := call.Args[0].(*ast.Ident)
	return ok && t.cellAlias[id.Name]
}

func (t *atomTr) stmt(s ast.Stmt, ind string) string {
	switch x := s.(type) {
	case *ast.ReturnStmt:
		switch len(x.Results) {
		case 0:
			return ".ret none"
		case 1:
			if a, k, ok := t.access(x.Results[0]); ok { // `return <access>` is `tmp := <access>; return tmp`
				t.declare(fmt.Sprintf("return#%d", len(t.vars)), k)
				return fmt.Sprintf(".decl (.acc %s),\n%s.ret (some (.var %d))", a, ind, len(t.vars)-1)
			}
			// `return f(<access>)` with exactly one access inside a local expression: `tmp := <access>; return f(tmp)`
			var calls []*ast.CallExpr
			ast.Inspect(x.Results[0], func(n ast.Node) bool {
				if c, ok := n.(*ast.CallExpr); ok && strings.HasPrefix(exprString(c.Fun), "atomic.") {
					calls = append(calls, c)
				}
				return true
			})
			if len(calls) == 1 {
				if a, k, ok := t.access(calls[0]); ok {
					t.declare(fmt.Sprintf("return#%d", len(t.vars)), k)
					if t.hoisted == nil {
						t.hoisted = map[ast.Expr]int{}
					}
					t.hoisted[calls[0]] = len(t.vars) - 1
					e, ke := t.expr(x.Results[0])
					if ke == "" {
						t.fail("return value %s", exprString(x.Results[0]))
					}
					return fmt.Sprintf(".decl (.acc %s),\n%s.ret (some %s)", a, ind, e)
				}
			}
			e, k := t.expr(x.Results[0])
			if k == "" {
				t.fail("return value %s", exprString(x.Results[0]))
			}
			return ".ret (some " + e + ")"
		}
		t.fail("return with %d results", len(x.Results))
	case *ast.BranchStmt:
		if x.Tok == token.BREAK && x.Label == nil {
			return ".brk"
		}
		t.fail("%s statement", x.Tok)
	case *ast.IncDecStmt:
		if id, ok := x.X.(*ast.Ident); ok {
			if i, k, ok := t.lookup(id.Name); ok && k == "int" {
				op := ".iadd"
				if x.Tok == token.DEC {
					op = ".isub"
				}
				return fmt.Sprintf(".assign %d (.e (%s (.var %d) (.ilit 1)))", i, op, i)
			}
		}
		t.fail("%s", exprString(x.X)+x.Tok.String())
	case *ast.ExprStmt:
		if c, ok := x.X.(*ast.CallExpr); ok && exprString(c.Fun) == "panic" {
			return ".panic"
		}
		if a, _, ok := t.access(x.X); ok {
			return ".drop (.acc " + a + ")"
		}
		t.fail("expression statement %s", exprString(x.X))
	case *ast.DeclStmt:
		gd, ok := x.Decl.(*ast.GenDecl)
		if !ok || gd.Tok != token.VAR || len(gd.Specs) != 1 {
			t.fail("declaration outside the fragment")
			break
		}
		vs := gd.Specs[0].(*ast.ValueSpec)
		if len(vs.Values) == 0 { // var a, b int64
			if vs.Type == nil || exprString(vs.Type) != "int64" {
				t.fail("variable declaration without value of a type other than int64")
				break
			}
			var parts []string
			for _, n := range vs.Names {
				t.declare(n.Name, "i64")
				parts = append(parts, ".decl (.e (.lit 0))")
			}
			return strings.Join(parts, ",\n"+ind)
		}
		if len(vs.Names) == 1 && len(vs.Values) == 1 && vs.Type == nil {
			if t.isCellConv(vs.Values[0]) { // var addr = (*int64)(my): another name of the cell, no instruction
				t.cellAlias[vs.Names[0].Name] = true
				return ""
			}
			r, k := t.rhs(vs.Values[0])
			if k == "" || k == "nil" {
				t.fail("declaration %s of an untyped value", vs.Names[0].Name)
			}
			t.declare(vs.Names[0].Name, k)
			return ".decl " + r
		}
		t.fail("declaration outside the fragment")
	case *ast.AssignStmt:
		if len(x.Lhs) != 1 || len(x.Rhs) != 1 {
			t.fail("assignment with several operands")
			break
		}
		id, ok := x.Lhs[0].(*ast.Ident)
		if !ok {
			t.fail("assignment to %s", exprString(x.Lhs[0]))
			break
		}
		r, k := t.rhs(x.Rhs[0])
		switch x.Tok {
		case token.DEFINE:
			if k == "" || k == "nil" {
				t.fail("declaration %s of an untyped value", id.Name)
			}
			t.declare(id.Name, k)
			return ".decl " + r
		case token.ASSIGN:
			i, kv, ok := t.lookup(id.Name)
			if !ok || !compat(k, kv) {
				t.fail("assignment to %s", id.Name)
			}
			return fmt.Sprintf(".assign %d %s", i, r)
		}
		t.fail("assignment operator %s", x.Tok)
	case *ast.IfStmt:
		if x.Init != nil {
			t.fail("if with an init statement")
			break
		}
		c := t.cond(x.Cond)
		th := t.block(x.Body, ind)
		el := "[]"
		switch e := x.Else.(type) {
		case nil:
		case *ast.BlockStmt:
			el = t.block(e, ind)
		default:
			t.fail("else-if")
		}
		return ".ite " + c + " " + th + " " + el
	case *ast.ForStmt:
		if x.Init != nil || x.Post != nil || x.Cond != nil {
			t.fail("for statement that is not `for { }`")
			break
		}
		return ".loop " + t.block(x.Body, ind)
	default:
		t.fail("statement %T", s)
	}
	return ".ret none"
}

// checkHelper: `func queueLoad(p *unsafe.Pointer) (n *node) { verifYield(k, unsafe.Pointer(p)); return (*node)(atomic.LoadPointer(p)) }`
// resp. `func queueCas(p *unsafe.Pointer, old, new *node) (ok bool) { verifYield(k, unsafe.Pointer(p)); return
// atomic.CompareAndSwapPointer(p, unsafe.Pointer(old), unsafe.Pointer(new)) }` — exactly one yield, then exactly the access.
func checkHelper(fd *ast.FuncDecl, cas bool) string {
	if fd == nil || fd.Body == nil {
		return "helper not found"
	}
	var ps []string
	for _, p := range fd.Type.Params.List {
		for _, n := range p.Names {
			ps = append(ps, n.Name)
		}
	}
	want := 1
	if cas {
		want = 3
	}
	if fd.Recv != nil || len(ps) != want || len(fd.Body.List) != 2 {
		return "helper " + fd.Name.Name + " has a different shape"
	}
	es, ok := fd.Body.List[0].(*ast.ExprStmt)
	if !ok {
		return "helper " + fd.Name.Name + " does not start with verifYield"
	}
	call, ok := es.X.(*ast.CallExpr)
	if !ok || exprString(call.Fun) != "verifYield" || len(call.Args) != 2 || exprString(call.Args[1]) != "unsafe.Pointer("+ps[0]+")" {
		return "helper " + fd.Name.Name + " does not start with verifYield(site, unsafe.Pointer(" + ps[0] + "))"
	}
	rs, ok := fd.Body.List[1].(*ast.ReturnStmt)
	if !ok || len(rs.Results) != 1 {
		return "helper " + fd.Name.Name + " does not return its access"
	}
	got := exprString(rs.Results[0])
	exp := "(*node)(atomic.LoadPointer(" + ps[0] + "))"
	if cas {
		exp = "atomic.CompareAndSwapPointer(" + ps[0] + ",unsafe.Pointer(" + ps[1] + "),unsafe.Pointer(" + ps[2] + "))"
	}
	if got != exp {
		return "helper " + fd.Name.Name + " returns " + got
	}
	return ""
}

type atomTarget struct {
	recv, fn, leanDef string
	unhooked          bool // no verifYield in the function: its single atomic access is not a scheduling point of the harness
}

func findFunc(ctx *PkgCtx, recv, name string) *ast.FuncDecl {
	if ctx == nil {
		return nil
	}
	for _, f := range ctx.Files {
		for _, d := range f.Decls {
			fd, ok := d.(*ast.FuncDecl)
			if !ok || fd.Body == nil || fd.Name.Name != name {
				continue
			}
			r := ""
			if fd.Recv != nil && len(fd.Recv.List) == 1 {
				ty := fd.Recv.List[0].Type
				if s, ok := ty.(*ast.StarExpr); ok {
					ty = s.X
				}
				if id, ok := ty.(*ast.Ident); ok {
					r = id.Name
				}
			}
			if r == recv {
				return fd
			}
		}
	}
	return nil
}

// translateAtomic renders `def <leanDef>Note : String`, `def <leanDef>Assumes : List String` and `def <leanDef> : Func`
func translateAtomic(ctx *PkgCtx, tg atomTarget, helpers map[string]string, helperErr string) string {
	t := &atomTr{cellAlias: map[string]bool{}, helpers: helpers}
	fd := findFunc(ctx, tg.recv, tg.fn)
	nparams := 0
	body := "[]"
	if fd == nil {
		t.err = "function not found"
	} else {
		t.info = ctx.Info
		t.unhooked = tg.unhooked
		if helperErr != "" && tg.recv == "Queue" {
			t.fail("%s", helperErr)
		}
		if fd.Type.TypeParams != nil {
			t.fail("generic function")
		}
		if fd.Recv != nil && len(fd.Recv.List) == 1 && len(fd.Recv.List[0].Names) == 1 {
			rn := fd.Recv.List[0].Names[0].Name
			switch exprString(fd.Recv.List[0].Type) {
			case "*Queue":
				t.queueRecv = rn
			case "*Flag":
				t.cellAlias[rn] = true
			case "*Mutex":
				t.mutexRecv = rn
			case "*Wheel":
				t.wheelRecv = rn
				ast.Inspect(fd.Body, func(n ast.Node) bool {
					if sel, ok := n.(*ast.SelectorExpr); ok && exprString(sel.X) == rn {
						switch sel.Sel.Name {
						case "step", "maxTimeout", "bucketsSize":
							if _, _, dup := t.lookup(rn + "." + sel.Sel.Name); !dup {
								t.vars = append(t.vars, atomVar{rn + "." + sel.Sel.Name, "int"})
								t.cfg = append(t.cfg, sel.Sel.Name)
								nparams++
							}
						}
					}
					if as, ok := n.(*ast.AssignStmt); ok { // the fields must be immutable here
						for _, l := range as.Lhs {
							if sel, ok := l.(*ast.SelectorExpr); ok && exprString(sel.X) == rn {
								t.fail("assignment to %s", exprString(l))
							}
						}
					}
					return true
				})
			default:
				t.fail("receiver type %s", exprString(fd.Recv.List[0].Type))
			}
		}
		for _, p := range fd.Type.Params.List {
			ts := exprString(p.Type)
			for _, n := range p.Names {
				switch {
				case ts == "*int64":
					if len(t.cellAlias) > 0 {
						t.fail("two *int64 operands")
					}
					t.cellAlias[n.Name] = true
				case ts == "int64":
					t.declare(n.Name, "i64")
					nparams++
				case ts == "time.Duration" || ts == "int":
					t.declare(n.Name, "int")
					nparams++
				case ts == "any" || ts == "interface{}":
					t.declare(n.Name, "data")
					nparams++
				case strings.HasPrefix(ts, "func(") && strings.HasSuffix(ts, "int64)bool") && strings.Count(ts, "int64") == 1:
					if t.predName != "" {
						t.fail("two predicate parameters")
					}
					t.predName = n.Name
				default:
					t.fail("parameter %s of type %s", n.Name, ts)
				}
			}
		}
		if fd.Type.Results != nil {
			if len(fd.Type.Results.List) != 1 || len(fd.Type.Results.List[0].Names) != 0 {
				t.fail("result list is not one unnamed value")
			}
		}
		stmts := fd.Body.List
		// `if addr == nil { return false }` on the *int64 operand: the model assumes a non-nil address
		if len(stmts) > 0 {
			if is, ok := stmts[0].(*ast.IfStmt); ok && is.Init == nil && is.Else == nil && len(is.Body.List) == 1 {
				if be, ok := is.Cond.(*ast.BinaryExpr); ok && be.Op == token.EQL && exprString(be.Y) == "nil" {
					if id, ok := be.X.(*ast.Ident); ok && t.cellAlias[id.Name] {
						if rs, ok := is.Body.List[0].(*ast.ReturnStmt); ok && len(rs.Results) == 1 && exprString(rs.Results[0]) == "false" {
							t.assumes = append(t.assumes, id.Name+" != nil (the guard `if "+id.Name+" == nil { return false }` is not translated)")
							stmts = stmts[1:]
						}
					}
				}
			}
		}
		if t.err == "" {
			body = t.block(&ast.BlockStmt{List: stmts}, "    ")
		}
	}
	note := "ok"
	if t.err != "" {
		note = "outside the AtomicIR fragment: " + t.err
		body = "[]"
		nparams = 0
	}
	var as []string
	for _, a := range t.assumes {
		as = append(as, fmt.Sprintf("%q", a))
	}
	name := "loom." + tg.fn
	if tg.recv != "" {
		name = "loom." + tg.recv + "." + tg.fn
	}
	var b strings.Builder
	fmt.Fprintf(&b, "def %sNote : String := %q\n\n", tg.leanDef, note)
	fmt.Fprintf(&b, "def %sAssumes : List String := [%s]\n\n", tg.leanDef, strings.Join(as, ", "))
	if tg.recv == "Wheel" {
		var cs []string
		if t.err == "" {
			for _, c := range t.cfg {
				cs = append(cs, fmt.Sprintf("%q", c))
			}
		}
		fmt.Fprintf(&b, "/-- immutable fields of the receiver that the function reads: its leading parameters, in this order -/\ndef %sCfg : List String := [%s]\n\n", tg.leanDef, strings.Join(cs, ", "))
	}
	fmt.Fprintf(&b, "def %s : Func :=\n  { name := %q\n    nparams := %d\n    body := %s }\n", tg.leanDef, name, nparams, body)
	return b.String()
}

func leanAtomicFile(ns, what string, defs []string) string {
	var b strings.Builder
	b.WriteString("import Got.Model.AtomicIR\n")
	b.WriteString("/- GENERATED by /verif/tools/srcfacts (minigo_atomic.go) from the repository's current working tree on every run.\n")
	b.WriteString("   Do not edit. AtomicIR translations (Got/Model/AtomicIR.lean) of " + what + "; a construct outside the\n")
	b.WriteString("   fragment makes the body empty and is named in the `…Note` string. -/\n")
	b.WriteString("namespace Got.Generated." + ns + "\nopen Got.Model.AtomicIR\n\n")
	b.WriteString(strings.Join(defs, "\n"))
	b.WriteString("\nend Got.Generated." + ns + "\n")
	return b.String()
}

func atomicPlugin(ctxs map[string]*PkgCtx, outLean string) {
	ctx := ctxs["loom"]
	helpers := map[string]string{}
	helperErr := ""
	if e := checkHelper(findFunc(ctx, "", "queueLoad"), false); e != "" {
		helperErr = e
	} else {
		helpers["load"] = "queueLoad"
	}
	if e := checkHelper(findFunc(ctx, "", "queueCas"), true); e != "" {
		if helperErr == "" {
			helperErr = e
		}
	} else {
		helpers["cas"] = "queueCas"
	}
	var q []string
	for _, tg := range []atomTarget{{"Queue", "Push", "push", false}, {"Queue", "Pop", "pop", false}} {
		q = append(q, translateAtomic(ctx, tg, helpers, helperErr))
	}
	writeIfChanged(filepath.Join(outLean, "AstLoomQueue.lean"),
		[]byte(leanAtomicFile("AstLoomQueue", "loom.Queue.Push / Pop (loom/queue.go; queueLoad and queueCas inlined)", q)))
	var a []string
	for _, tg := range []atomTarget{{"", "AddIf64", "addIf64", false}, {"Flag", "AddFlag", "addFlag", false}, {"Flag", "RemoveFlag", "removeFlag", false},
		{"Mutex", "TryLock", "tryLock", false}, {"Mutex", "Count", "count", true}, {"Flag", "HasFlag", "hasFlag", true}} {
		a = append(a, translateAtomic(ctx, tg, map[string]string{}, ""))
	}
	writeIfChanged(filepath.Join(outLean, "AstLoomAtomics.lean"),
		[]byte(leanAtomicFile("AstLoomAtomics", "loom.AddIf64 (loom/atomic.go), loom.Flag.AddFlag / RemoveFlag (loom/flag.go) and loom.Mutex.TryLock / Count (loom/mutex.go)", a)))
	var w []string
	for _, tg := range []atomTarget{{"Wheel", "fetchWheelData", "fetchWheelData", false}, {"Wheel", "onTicker", "onTicker", false}} {
		w = append(w, translateAtomic(ctx, tg, map[string]string{}, ""))
	}
	writeIfChanged(filepath.Join(outLean, "AstLoomWheel.lean"),
		[]byte(leanAtomicFile("AstLoomWheel", "loom.Wheel.fetchWheelData / onTicker (loom/wheel.go)", w)))
}
