// minigo_heap.go: translation of Go's container/heap ($GOROOT/src/container/heap/heap.go: up, down, Init, Push, Pop, Remove,
// Fix — the code randx.WeightedSampling and std.PriorityQueue run on) into the MiniGoHeap deep embedding of
// /verif/lean/Got/Model/MiniGoHeap.lean.  The file is parsed and type-checked from the GOROOT of the toolchain that
// builds the harnesses on every run and written to Got/Generated/AstContainerHeap.lean; a construct outside the
// fragment (or a missing file) yields an empty body and a note naming it, so that the obligations fail.
// Derived from minigo_sort.go (same numbering of variables through go/types objects); additions: the `h Interface`
// parameter with h.Len()/h.Less/h.Swap/h.Push(x)/h.Pop(), one `x any` parameter, bool and `any` results,
// `if init; cond`, `if !f(…)` on a translated bool function (emitted as a call into a temporary).
package main

import (
	"fmt"
	"go/ast"
	"go/build"
	"go/constant"
	"go/importer"
	"go/parser"
	"go/token"
	"go/types"
	"path/filepath"
	"strings"
)

func init() { plugins = append(plugins, heapAstPlugin) }

// translated functions of container/heap, in the order of the generated file
var heapAstTargets = []string{"up", "down", "Init", "Push", "Pop", "Remove", "Fix"}

type heapSig struct {
	dataPos  int // index of the `data lessSwap` parameter in the Go parameter list, -1 if none
	nparams  int // int parameters
	nresults int
	hasAny   bool // one `x any` parameter
	retBool  bool // result is one bool (nresults = 1)
	retAny   bool // result is one `any` (nresults = 0 ints)
	ok       bool
}

type heapTr struct {
	info  *types.Info
	sigs  map[string]heapSig
	data  types.Object            // the `data lessSwap` parameter
	ints  map[types.Object]int    // int variables -> number
	bools map[types.Object]int    // bool locals -> number
	anyObj types.Object // the `x any` parameter
	sig    heapSig
	next  int
	nres  int
	loops int
	err   string
}

func (t *heapTr) fail(format string, a ...interface{}) {
	if t.err == "" {
		t.err = fmt.Sprintf(format, a...)
	}
}

func (t *heapTr) typeOf(e ast.Expr) types.Type {
	if tv, ok := t.info.Types[e]; ok && tv.Type != nil {
		return tv.Type
	}
	return nil
}

func (t *heapTr) obj(id *ast.Ident) types.Object {
	if o := t.info.Defs[id]; o != nil {
		return o
	}
	return t.info.Uses[id]
}

// heapIsIface: the named interface type `Interface` with exactly the methods Len, Less, Swap, Push, Pop
func heapIsIface(ty types.Type) bool {
	n, ok := ty.(*types.Named)
	if !ok || n.Obj().Name() != "Interface" {
		return false
	}
	it, ok := n.Underlying().(*types.Interface)
	if !ok || it.NumMethods() != 5 {
		return false
	}
	want := map[string]string{"Len": "func() int", "Less": "func(i int, j int) bool", "Swap": "func(i int, j int)",
		"Push": "func(x any)", "Pop": "func() any"}
	for i := 0; i < it.NumMethods(); i++ {
		m := it.Method(i)
		w, ok := want[m.Name()]
		if !ok || types.TypeString(m.Type(), func(*types.Package) string { return "" }) != w {
			return false
		}
	}
	return true
}

func heapIsAny(ty types.Type) bool {
	it, ok := ty.Underlying().(*types.Interface)
	return ok && it.NumMethods() == 0 && it.NumEmbeddeds() == 0
}

// hCall recognises h.<method>(args…) on the function's Interface parameter
func (t *heapTr) hCall(c *ast.CallExpr, method string, nargs int) bool {
	sel, ok := c.Fun.(*ast.SelectorExpr)
	if !ok || sel.Sel.Name != method || len(c.Args) != nargs || c.Ellipsis != token.NoPos {
		return false
	}
	id, ok := sel.X.(*ast.Ident)
	return ok && t.data != nil && t.obj(id) == t.data
}

func (t *heapTr) constInt(e ast.Expr) (string, bool) {
	tv, ok := t.info.Types[e]
	if !ok || tv.Value == nil || tv.Value.Kind() != constant.Int {
		return "", false
	}
	if isInt, _ := isIntType(tv.Type); !isInt {
		return "", false
	}
	return tv.Value.ExactString(), true
}

func (t *heapTr) expr(e ast.Expr) string {
	if v, ok := t.constInt(e); ok {
		return "(.lit " + leanInt(v) + ")"
	}
	switch x := e.(type) {
	case *ast.ParenExpr:
		return t.expr(x.X)
	case *ast.Ident:
		if k, ok := t.ints[t.obj(x)]; ok {
			return fmt.Sprintf("(.var %d)", k)
		}
		t.fail("identifier %s is not an int variable of the function", x.Name)
	case *ast.UnaryExpr:
		switch x.Op {
		case token.SUB:
			return "(.neg " + t.expr(x.X) + ")"
		case token.ADD:
			return t.expr(x.X)
		}
		t.fail("unary operator %s", x.Op)
	case *ast.BinaryExpr:
		ty := t.typeOf(x.X)
		if ty == nil {
			t.fail("untyped operand")
			break
		}
		isInt, unsigned := isIntType(ty)
		if !isInt {
			t.fail("operand of type %s", ty)
			break
		}
		switch x.Op {
		case token.ADD:
			return "(.add " + t.expr(x.X) + " " + t.expr(x.Y) + ")"
		case token.SUB:
			return "(.sub " + t.expr(x.X) + " " + t.expr(x.Y) + ")"
		case token.MUL:
			return "(.mul " + t.expr(x.X) + " " + t.expr(x.Y) + ")"
		case token.QUO:
			tv, ok := t.info.Types[x.Y]
			if unsigned || !ok || tv.Value == nil || tv.Value.Kind() != constant.Int || constant.Sign(tv.Value) <= 0 {
				t.fail("division that is not signed / positive constant")
				break
			}
			k, exact := constant.Int64Val(tv.Value)
			if !exact {
				t.fail("divisor %s", tv.Value)
				break
			}
			return fmt.Sprintf("(.divC %s %d)", t.expr(x.X), k)
		case token.SHL, token.SHR:
			tv, ok := t.info.Types[x.Y]
			if !ok || tv.Value == nil || tv.Value.Kind() != constant.Int {
				t.fail("shift by a non-constant")
				break
			}
			k, exact := constant.Int64Val(tv.Value)
			if !exact || k < 0 || k > 63 {
				t.fail("shift count %s", tv.Value)
				break
			}
			if x.Op == token.SHL {
				return fmt.Sprintf("(.shl %s %d)", t.expr(x.X), k)
			}
			if unsigned {
				return fmt.Sprintf("(.shrU %s %d)", t.expr(x.X), k)
			}
			return fmt.Sprintf("(.shrS %s %d)", t.expr(x.X), k)
		default:
			t.fail("binary operator %s", x.Op)
		}
	case *ast.CallExpr:
		if t.hCall(x, "Len", 0) {
			return ".len"
		}
		// conversions int(x) / uint(x) between 64-bit integer types
		if tv, ok := t.info.Types[x.Fun]; ok && tv.IsType() && len(x.Args) == 1 {
			if isInt, _ := isIntType(tv.Type); isInt {
				if at := t.typeOf(x.Args[0]); at != nil {
					if argInt, _ := isIntType(at); argInt {
						return "(.conv " + t.expr(x.Args[0]) + ")"
					}
				}
			}
		}
		t.fail("call in an integer expression")
	default:
		t.fail("expression %T", e)
	}
	return "(.lit 0)"
}

// dataCall recognises h.Less(e1, e2) / h.Swap(e1, e2)
func (t *heapTr) dataCall(c *ast.CallExpr, method string) (string, string, bool) {
	sel, ok := c.Fun.(*ast.SelectorExpr)
	if !ok || sel.Sel.Name != method || len(c.Args) != 2 || c.Ellipsis != token.NoPos {
		return "", "", false
	}
	id, ok := sel.X.(*ast.Ident)
	if !ok || t.data == nil || t.obj(id) != t.data {
		return "", "", false
	}
	return t.expr(c.Args[0]), t.expr(c.Args[1]), true
}

func (t *heapTr) cond(e ast.Expr) string {
	if tv, ok := t.info.Types[e]; ok && tv.Value != nil && tv.Value.Kind() == constant.Bool {
		if constant.BoolVal(tv.Value) {
			return ".tt"
		}
		return "(.not .tt)"
	}
	switch x := e.(type) {
	case *ast.ParenExpr:
		return t.cond(x.X)
	case *ast.Ident:
		if k, ok := t.bools[t.obj(x)]; ok {
			return fmt.Sprintf("(.bvar %d)", k)
		}
		t.fail("identifier %s is not a bool local of the function", x.Name)
	case *ast.UnaryExpr:
		if x.Op == token.NOT {
			return "(.not " + t.cond(x.X) + ")"
		}
		t.fail("unary operator %s in a condition", x.Op)
	case *ast.BinaryExpr:
		switch x.Op {
		case token.LOR:
			return "(.or " + t.cond(x.X) + " " + t.cond(x.Y) + ")"
		case token.LAND:
			return "(.and " + t.cond(x.X) + " " + t.cond(x.Y) + ")"
		case token.EQL, token.NEQ, token.LEQ, token.LSS, token.GEQ, token.GTR:
			if !sortIsSignedInt(t.typeOf(x.X)) || !sortIsSignedInt(t.typeOf(x.Y)) {
				t.fail("comparison of operands that are not signed 64-bit ints")
				break
			}
			a, b := t.expr(x.X), t.expr(x.Y)
			switch x.Op {
			case token.EQL:
				return "(.eq " + a + " " + b + ")"
			case token.NEQ:
				return "(.ne " + a + " " + b + ")"
			case token.LEQ:
				return "(.le " + a + " " + b + ")"
			case token.LSS:
				return "(.lt " + a + " " + b + ")"
			case token.GEQ:
				return "(.le " + b + " " + a + ")"
			default:
				return "(.lt " + b + " " + a + ")"
			}
		default:
			t.fail("binary operator %s in a condition", x.Op)
		}
	case *ast.CallExpr:
		if a, b, ok := t.dataCall(x, "Less"); ok {
			return "(.less " + a + " " + b + ")"
		}
		t.fail("call in a condition that is not h.Less(e1, e2)")
	default:
		t.fail("condition %T", e)
	}
	return ".tt"
}

func (t *heapTr) declareInt(id *ast.Ident) int {
	o := t.info.Defs[id]
	if o == nil || id.Name == "_" {
		t.fail("declaration of %s", id.Name)
		return 0
	}
	t.ints[o] = t.next
	t.next++
	return t.ints[o]
}

func (t *heapTr) declareBool(id *ast.Ident) int {
	o := t.info.Defs[id]
	if o == nil || id.Name == "_" {
		t.fail("declaration of %s", id.Name)
		return 0
	}
	t.bools[o] = t.next
	t.next++
	return t.bools[o]
}

// target of an assignment / short declaration of an int: existing variable or a new one (declare = true)
func (t *heapTr) intTarget(e ast.Expr, define bool) (int, bool) {
	id, ok := e.(*ast.Ident)
	if !ok {
		t.fail("assignment to something that is not a variable")
		return 0, false
	}
	if define && t.info.Defs[id] != nil {
		return t.declareInt(id), true
	}
	if k, ok := t.ints[t.obj(id)]; ok {
		return k, true
	}
	t.fail("assignment to %s, which is not an int variable of the function", id.Name)
	return 0, false
}

// funcCall recognises f(data, e...) of a translated function; returns name and argument terms
func (t *heapTr) funcCall(c *ast.CallExpr, nres int) (string, string, bool) {
	id, ok := c.Fun.(*ast.Ident)
	if !ok || c.Ellipsis != token.NoPos {
		return "", "", false
	}
	if _, isFunc := t.info.Uses[id].(*types.Func); !isFunc {
		return "", "", false
	}
	sg, ok := t.sigs[id.Name]
	if !ok || !sg.ok {
		t.fail("call of %s, which is not a translated function", id.Name)
		return "", "", false
	}
	if sg.hasAny || sg.retAny {
		t.fail("call of %s, which takes or returns an `any`", id.Name)
		return "", "", false
	}
	if sg.nresults != nres {
		t.fail("call of %s with %d results used as %d", id.Name, sg.nresults, nres)
		return "", "", false
	}
	var args []string
	for i, a := range c.Args {
		if i == sg.dataPos {
			aid, ok := a.(*ast.Ident)
			if !ok || t.data == nil || t.obj(aid) != t.data {
				t.fail("call of %s: the lessSwap argument is not the function's own data parameter", id.Name)
				return "", "", false
			}
			continue
		}
		if !sortIsSignedInt(t.typeOf(a)) {
			t.fail("call of %s: argument %d is not an int", id.Name, i)
			return "", "", false
		}
		args = append(args, t.expr(a))
	}
	if len(args) != sg.nparams {
		t.fail("call of %s: %d int arguments for %d parameters", id.Name, len(args), sg.nparams)
		return "", "", false
	}
	return id.Name, "[" + strings.Join(args, ", ") + "]", true
}

func (t *heapTr) block(list []ast.Stmt, ind string) string {
	var parts []string
	for _, s := range list {
		for _, p := range t.stmt(s, ind+"  ") {
			parts = append(parts, ind+"  "+p)
		}
	}
	if len(parts) == 0 {
		return "[]"
	}
	return "[\n" + strings.Join(parts, ",\n") + "\n" + ind + "]"
}

var heapOpAssign = map[token.Token]token.Token{token.ADD_ASSIGN: token.ADD, token.SUB_ASSIGN: token.SUB,
	token.MUL_ASSIGN: token.MUL, token.QUO_ASSIGN: token.QUO, token.SHL_ASSIGN: token.SHL, token.SHR_ASSIGN: token.SHR}

// stmt renders one Go statement as zero or more MiniGoSort statements (`for init; …` gives init, then the loop)
func (t *heapTr) stmt(s ast.Stmt, ind string) []string {
	one := func(x string) []string { return []string{x} }
	switch x := s.(type) {
	case *ast.EmptyStmt:
		return nil
	case *ast.ReturnStmt:
		if t.sig.retAny {
			if len(x.Results) == 1 {
				if c, ok := x.Results[0].(*ast.CallExpr); ok && t.hCall(c, "Pop", 0) {
					return one(".retPop")
				}
			}
			t.fail("return of something that is not h.Pop()")
			break
		}
		if t.sig.retBool {
			if len(x.Results) == 1 && sortIsBool(t.typeOf(x.Results[0])) {
				return one(".retB " + t.cond(x.Results[0]))
			}
			t.fail("return in a bool function")
			break
		}
		if len(x.Results) != t.nres {
			t.fail("return with %d results in a function with %d", len(x.Results), t.nres)
			break
		}
		var es []string
		for _, r := range x.Results {
			if !sortIsSignedInt(t.typeOf(r)) {
				t.fail("returned value that is not an int")
			}
			es = append(es, t.expr(r))
		}
		return one(".ret [" + strings.Join(es, ", ") + "]")
	case *ast.BranchStmt:
		if x.Tok == token.BREAK && x.Label == nil && t.loops > 0 {
			return one(".brk")
		}
		t.fail("%s statement", x.Tok)
	case *ast.IncDecStmt:
		if k, ok := t.intTarget(x.X, false); ok {
			op := "add"
			if x.Tok == token.DEC {
				op = "sub"
			}
			return one(fmt.Sprintf(".set %d (.%s (.var %d) (.lit 1))", k, op, k))
		}
	case *ast.ExprStmt:
		c, ok := x.X.(*ast.CallExpr)
		if !ok {
			t.fail("expression statement %T", x.X)
			break
		}
		if a, b, ok := t.dataCall(c, "Swap"); ok {
			return one(".swap " + a + " " + b)
		}
		if t.hCall(c, "Push", 1) {
			if id, ok := c.Args[0].(*ast.Ident); ok && t.anyObj != nil && t.obj(id) == t.anyObj {
				return one(".hpush")
			}
			t.fail("h.Push of something that is not the function's `any` parameter")
			break
		}
		if id, ok := c.Fun.(*ast.Ident); ok {
			if sg, known := t.sigs[id.Name]; known && sg.ok && sg.nresults == 1 {
				// result of a bool/int function discarded: call into a fresh temporary
				if name, args, ok := t.funcCall(c, 1); ok {
					tmp := t.next
					t.next++
					return one(fmt.Sprintf(".call %q %s [%d]", name, args, tmp))
				}
				break
			}
		}
		if name, args, ok := t.funcCall(c, 0); ok {
			return one(fmt.Sprintf(".call %q %s []", name, args))
		}
		t.fail("call statement that is neither h.Swap(e1, e2), h.Push(x) nor a translated function")
	case *ast.DeclStmt:
		gd, ok := x.Decl.(*ast.GenDecl)
		if !ok || gd.Tok != token.VAR {
			t.fail("declaration outside the fragment")
			break
		}
		var out []string
		for _, sp := range gd.Specs {
			vs := sp.(*ast.ValueSpec)
			if len(vs.Values) != 0 && len(vs.Values) != len(vs.Names) {
				t.fail("var declaration with a multi-valued initialiser")
				break
			}
			var vals []string
			for i, n := range vs.Names {
				o := t.info.Defs[n]
				if o == nil {
					t.fail("declaration of %s", n.Name)
					continue
				}
				switch {
				case sortIsSignedInt(o.Type()) && !sortIsBool(o.Type()):
					v := "(.lit 0)"
					if len(vs.Values) != 0 {
						v = t.expr(vs.Values[i])
					}
					vals = append(vals, "i"+v)
				case sortIsBool(o.Type()):
					v := "(.not .tt)"
					if len(vs.Values) != 0 {
						v = t.cond(vs.Values[i])
					}
					vals = append(vals, "b"+v)
				default:
					t.fail("variable %s of type %s", n.Name, o.Type())
				}
			}
			if len(vals) != len(vs.Names) {
				break
			}
			if len(vs.Names) > 1 && len(vs.Values) != 0 {
				t.fail("var declaration of several initialised names")
				break
			}
			// initialisers are evaluated before the names come into scope
			for i, n := range vs.Names {
				if vals[i][0] == 'i' {
					out = append(out, fmt.Sprintf(".set %d %s", t.declareInt(n), vals[i][1:]))
				} else {
					out = append(out, fmt.Sprintf(".setB %d %s", t.declareBool(n), vals[i][1:]))
				}
			}
		}
		return out
	case *ast.AssignStmt:
		define := x.Tok == token.DEFINE
		if define || x.Tok == token.ASSIGN {
			// x, y := f(data, …)
			if len(x.Rhs) == 1 {
				if c, ok := x.Rhs[0].(*ast.CallExpr); ok {
					if tv, isT := t.info.Types[c.Fun]; !(isT && tv.IsType()) {
						if _, _, isLess := t.dataCall(c, "Less"); !isLess && !t.hCall(c, "Len", 0) {
							name, args, ok := t.funcCall(c, len(x.Lhs))
							if !ok {
								t.fail("assignment from a call that is not a translated function")
								break
							}
							var res []string
							seen := map[int]bool{}
							for _, l := range x.Lhs {
								k, ok := t.intTarget(l, define)
								if !ok || seen[k] {
									t.fail("result targets of the call of %s", name)
								}
								seen[k] = true
								res = append(res, fmt.Sprint(k))
							}
							return one(fmt.Sprintf(".call %q %s [%s]", name, args, strings.Join(res, ", ")))
						}
					}
				}
			}
			if len(x.Lhs) == 1 && len(x.Rhs) == 1 {
				rt := t.typeOf(x.Rhs[0])
				id, isId := x.Lhs[0].(*ast.Ident)
				if !isId {
					t.fail("assignment to something that is not a variable")
					break
				}
				if sortIsBool(rt) {
					c := t.cond(x.Rhs[0])
					if define && t.info.Defs[id] != nil {
						return one(fmt.Sprintf(".setB %d %s", t.declareBool(id), c))
					}
					if k, ok := t.bools[t.obj(id)]; ok {
						return one(fmt.Sprintf(".setB %d %s", k, c))
					}
					t.fail("assignment of a bool to %s", id.Name)
					break
				}
				if sortIsSignedInt(rt) {
					v := t.expr(x.Rhs[0]) // evaluated before the name comes into scope
					if k, ok := t.intTarget(id, define); ok {
						return one(fmt.Sprintf(".set %d %s", k, v))
					}
					break
				}
				t.fail("assignment of a value of type %s", rt)
				break
			}
			if len(x.Lhs) == 2 && len(x.Rhs) == 2 {
				if !sortIsSignedInt(t.typeOf(x.Rhs[0])) || !sortIsSignedInt(t.typeOf(x.Rhs[1])) {
					t.fail("parallel assignment of non-int values")
					break
				}
				v1, v2 := t.expr(x.Rhs[0]), t.expr(x.Rhs[1])
				k1, ok1 := t.intTarget(x.Lhs[0], define)
				k2, ok2 := t.intTarget(x.Lhs[1], define)
				if ok1 && ok2 && k1 != k2 {
					return one(fmt.Sprintf(".set2 %d %d %s %s", k1, k2, v1, v2))
				}
				t.fail("parallel assignment targets")
				break
			}
			t.fail("assignment with %d targets and %d values", len(x.Lhs), len(x.Rhs))
			break
		}
		if op, ok := heapOpAssign[x.Tok]; ok && len(x.Lhs) == 1 && len(x.Rhs) == 1 {
			if id, isId := x.Lhs[0].(*ast.Ident); isId {
				if k, ok := t.intTarget(id, false); ok {
					// x op= e  is  x = x op (e)
					be := &ast.BinaryExpr{X: id, Op: op, Y: x.Rhs[0]}
					return one(fmt.Sprintf(".set %d %s", k, t.binaryOf(be, id)))
				}
				break
			}
		}
		t.fail("assignment operator %s", x.Tok)
	case *ast.IfStmt:
		var pre []string
		if x.Init != nil {
			pre = append(pre, t.stmt(x.Init, ind)...)
		}
		var c string
		// `if f(…)` / `if !f(…)` on a translated bool function: call into a fresh temporary, then test it
		inner, neg := x.Cond, false
		for {
			if p, ok := inner.(*ast.ParenExpr); ok {
				inner = p.X
			} else if u, ok := inner.(*ast.UnaryExpr); ok && u.Op == token.NOT {
				inner, neg = u.X, !neg
			} else {
				break
			}
		}
		if ce, ok := inner.(*ast.CallExpr); ok {
			if id, isId := ce.Fun.(*ast.Ident); isId {
				if sg, known := t.sigs[id.Name]; known && sg.retBool {
					if name, args, ok := t.funcCall(ce, 1); ok {
						tmp := t.next
						t.next++
						pre = append(pre, fmt.Sprintf(".call %q %s [%d]", name, args, tmp))
						c = fmt.Sprintf("(.bvar %d)", tmp)
						if neg {
							c = "(.not " + c + ")"
						}
					}
				}
			}
		}
		if c == "" {
			c = t.cond(x.Cond)
		}
		th := t.block(x.Body.List, ind)
		el := "[]"
		switch e := x.Else.(type) {
		case nil:
		case *ast.BlockStmt:
			el = t.block(e.List, ind)
		case *ast.IfStmt:
			el = t.block([]ast.Stmt{e}, ind)
		default:
			t.fail("else branch %T", e)
		}
		return append(pre, ".ite "+c+" "+th+" "+el)
	case *ast.ForStmt:
		var out []string
		if x.Init != nil {
			out = append(out, t.stmt(x.Init, ind)...)
		}
		c := ".tt"
		if x.Cond != nil {
			c = t.cond(x.Cond)
		}
		t.loops++
		body := t.block(x.Body.List, ind)
		t.loops--
		post := "[]"
		if x.Post != nil {
			l := t.loops
			t.loops = 0 // no break in a post statement
			post = t.block([]ast.Stmt{x.Post}, ind)
			t.loops = l
		}
		return append(out, ".loop "+c+" "+body+" "+post)
	default:
		t.fail("statement %T", s)
	}
	return one(".ret []")
}

// binaryOf renders `id op rhs` for an op-assignment: the synthetic node has no go/types entry, so the operand type
// is the variable's (a signed int)
func (t *heapTr) binaryOf(be *ast.BinaryExpr, id *ast.Ident) string {
	k := t.ints[t.obj(id)]
	l := fmt.Sprintf("(.var %d)", k)
	constOf := func() (int64, bool) {
		tv, ok := t.info.Types[be.Y]
		if !ok || tv.Value == nil || tv.Value.Kind() != constant.Int {
			return 0, false
		}
		return constant.Int64Val(tv.Value)
	}
	switch be.Op {
	case token.ADD:
		return "(.add " + l + " " + t.expr(be.Y) + ")"
	case token.SUB:
		return "(.sub " + l + " " + t.expr(be.Y) + ")"
	case token.MUL:
		return "(.mul " + l + " " + t.expr(be.Y) + ")"
	case token.QUO:
		if c, ok := constOf(); ok && c > 0 {
			return fmt.Sprintf("(.divC %s %d)", l, c)
		}
		t.fail("division that is not signed / positive constant")
	case token.SHL, token.SHR:
		if c, ok := constOf(); ok && c >= 0 && c <= 63 {
			if be.Op == token.SHL {
				return fmt.Sprintf("(.shl %s %d)", l, c)
			}
			return fmt.Sprintf("(.shrS %s %d)", l, c)
		}
		t.fail("shift by a non-constant or out-of-range count")
	}
	return "(.lit 0)"
}

func heapContainsForbidden(b *ast.BlockStmt) string {
	found := ""
	ast.Inspect(b, func(n ast.Node) bool {
		switch n.(type) {
		case *ast.LabeledStmt, *ast.FuncLit, *ast.GoStmt, *ast.DeferStmt, *ast.SwitchStmt, *ast.TypeSwitchStmt,
			*ast.SelectStmt, *ast.RangeStmt:
			found = fmt.Sprintf("%T", n)
		}
		return found == ""
	})
	return found
}

// heapSignature: parameter/result shape of a candidate function (needed for the calls between them)
func heapSignature(fd *ast.FuncDecl, info *types.Info) (heapSig, string) {
	sg := heapSig{dataPos: -1}
	if fd.Recv != nil || fd.Type.TypeParams != nil {
		return sg, "method or generic function"
	}
	pos := 0
	for _, p := range fd.Type.Params.List {
		tv, ok := info.Types[p.Type]
		if !ok || tv.Type == nil {
			return sg, "untyped parameter"
		}
		if len(p.Names) == 0 {
			return sg, "unnamed parameter"
		}
		for range p.Names {
			switch {
			case heapIsIface(tv.Type):
				if sg.dataPos >= 0 {
					return sg, "two lessSwap parameters"
				}
				sg.dataPos = pos
			case sortIsSignedInt(tv.Type):
				sg.nparams++
			case heapIsAny(tv.Type):
				if sg.hasAny {
					return sg, "two `any` parameters"
				}
				sg.hasAny = true
			default:
				return sg, fmt.Sprintf("parameter of type %s", tv.Type)
			}
			pos++
		}
	}
	if fd.Type.Results != nil {
		for _, r := range fd.Type.Results.List {
			tv, ok := info.Types[r.Type]
			if ok && len(fd.Type.Results.List) == 1 && len(r.Names) == 0 && sortIsBool(tv.Type) {
				sg.retBool = true
				sg.nresults = 1
				continue
			}
			if ok && len(fd.Type.Results.List) == 1 && len(r.Names) == 0 && heapIsAny(tv.Type) {
				sg.retAny = true
				continue
			}
			if !ok || !sortIsSignedInt(tv.Type) {
				return sg, "result that is not an int"
			}
			n := len(r.Names)
			if n == 0 {
				n = 1
			}
			sg.nresults += n
		}
	}
	if sg.nresults > 2 {
		return sg, "more than two results"
	}
	sg.ok = true
	return sg, ""
}

func translateHeapFn(name string, fd *ast.FuncDecl, info *types.Info, sigs map[string]heapSig, sigErr string) string {
	t := &heapTr{info: info, sigs: sigs, ints: map[types.Object]int{}, bools: map[types.Object]int{}}
	sg := sigs[name]
	switch {
	case fd == nil:
		t.err = "function not found"
	case sigErr != "":
		t.err = sigErr
	default:
		t.nres = sg.nresults
		t.sig = sg
		for _, p := range fd.Type.Params.List {
			for _, n := range p.Names {
				o := info.Defs[n]
				if o == nil || n.Name == "_" {
					t.fail("parameter %s", n.Name)
					continue
				}
				if heapIsIface(o.Type()) {
					t.data = o
				} else if heapIsAny(o.Type()) {
					t.anyObj = o
				} else {
					t.ints[o] = t.next
					t.next++
				}
			}
		}
		if fd.Type.Results != nil {
			for _, r := range fd.Type.Results.List {
				for _, n := range r.Names {
					if o := info.Defs[n]; o != nil && n.Name != "_" {
						t.ints[o] = t.next // named result: an int variable, zero until assigned (never read before in the fragment's use)
						t.next++
					}
				}
			}
		}
		if f := heapContainsForbidden(fd.Body); f != "" {
			t.fail("%s", f)
		}
	}
	body := "[]"
	if t.err == "" {
		// named results start as 0
		body = t.block(fd.Body.List, "    ")
		if fd.Type.Results != nil {
			var zero []string
			for _, r := range fd.Type.Results.List {
				for _, n := range r.Names {
					if o := info.Defs[n]; o != nil {
						zero = append(zero, fmt.Sprintf("      .set %d (.lit 0)", t.ints[o]))
					}
				}
			}
			if len(zero) > 0 && body != "[]" {
				body = "[\n" + strings.Join(zero, ",\n") + ",\n" + strings.TrimPrefix(body, "[\n")
			}
		}
	}
	note := "ok"
	np, nr, ha := sg.nparams, sg.nresults, sg.hasAny
	if t.err != "" {
		body = "[]"
		note = "outside the MiniGoHeap fragment: " + t.err
		np, nr, ha = 0, 0, false
	}
	var b strings.Builder
	fmt.Fprintf(&b, "def h_%sNote : String := %q\n\n", name, note)
	fmt.Fprintf(&b, "def h_%s : Fn :=\n  { name := %q\n    nparams := %d\n    nresults := %d\n    hasAny := %v\n    body := %s }\n", name, name, np, nr, ha, body)
	return b.String()
}

func heapAstPlugin(ctxs map[string]*PkgCtx, outLean string) {
	decls := map[string]*ast.FuncDecl{}
	sigs := map[string]heapSig{}
	sigErrs := map[string]string{}
	var info *types.Info
	src := filepath.Join(build.Default.GOROOT, "src", "container", "heap", "heap.go")
	fset := token.NewFileSet()
	if f, err := parser.ParseFile(fset, src, nil, parser.SkipObjectResolution); err == nil {
		info = &types.Info{Defs: map[*ast.Ident]types.Object{}, Uses: map[*ast.Ident]types.Object{},
			Selections: map[*ast.SelectorExpr]*types.Selection{}, Types: map[ast.Expr]types.TypeAndValue{}}
		conf := types.Config{Importer: importer.ForCompiler(fset, "source", nil), Error: func(error) {}}
		_, _ = conf.Check("container/heap", fset, []*ast.File{f}, info)
		for _, d := range f.Decls {
			if fd, ok := d.(*ast.FuncDecl); ok && fd.Recv == nil && fd.Body != nil {
				decls[fd.Name.Name] = fd
			}
		}
		for _, n := range heapAstTargets {
			if fd := decls[n]; fd != nil {
				sigs[n], sigErrs[n] = heapSignature(fd, info)
			}
		}
	}
	var b strings.Builder
	b.WriteString("import Got.Model.MiniGoHeap\n")
	b.WriteString("/- GENERATED by /verif/tools/srcfacts (minigo_heap.go) on every run from $GOROOT/src/container/heap/heap.go of the\n")
	b.WriteString("   toolchain that builds the harnesses.  Do not edit.  MiniGoHeap translations (Got/Model/MiniGoHeap.lean);\n")
	b.WriteString("   a construct outside the fragment (or a missing file) makes the body empty and is named in the `…Note` string.\n")
	b.WriteString("   Variables are numbered: int parameters, then locals and call temporaries in order of appearance. -/\n")
	b.WriteString("namespace Got.Generated.AstContainerHeap\nopen Got.Model.MiniGoHeap\n\n")
	var names, notes []string
	for _, n := range heapAstTargets {
		b.WriteString(translateHeapFn(n, decls[n], info, sigs, sigErrs[n]))
		b.WriteString("\n")
		names = append(names, "h_"+n)
		notes = append(notes, "h_"+n+"Note")
	}
	b.WriteString("def fns : List Fn := [" + strings.Join(names, ", ") + "]\n\n")
	b.WriteString("def notes : List String := [" + strings.Join(notes, ", ") + "]\n\n")
	b.WriteString("/-- the program: callee lookup by Go function name -/\ndef prog : String → Option Fn := lookupFn fns\n")
	b.WriteString("\nend Got.Generated.AstContainerHeap\n")
	writeIfChanged(filepath.Join(outLean, "AstContainerHeap.lean"), []byte(b.String()))
}
