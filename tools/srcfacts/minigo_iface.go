// minigo_iface.go: the methods by which randx.sampleHeap implements heap.Interface (Len, Less, Swap, Push, Pop, and Get),
// read from /repo/randx/sample.go on every run and described in the MiniGoIface language of
// /verif/lean/Got/Model/MiniGoIface.lean (Got/Generated/AstRandxSampleHeap.lean).  Each method body must have exactly one
// of the one-line shapes listed there; anything else becomes `.other "<what>"`, so that the obligations fail.
package main

import (
	"fmt"
	"go/ast"
	"go/constant"
	"go/token"
	"go/types"
	"path/filepath"
	"strings"
)

func init() { plugins = append(plugins, ifaceAstPlugin) }

type ifaceTr struct {
	info   *types.Info
	recv   types.Object   // the receiver h
	params []types.Object // int parameters in order
	elem   types.Type     // element type of the slice
}

func (t *ifaceTr) obj(id *ast.Ident) types.Object {
	if o := t.info.Defs[id]; o != nil {
		return o
	}
	return t.info.Uses[id]
}

func unparen(e ast.Expr) ast.Expr {
	for {
		p, ok := e.(*ast.ParenExpr)
		if !ok {
			return e
		}
		e = p.X
	}
}

// derefRecv: `*h`
func (t *ifaceTr) derefRecv(e ast.Expr) bool {
	s, ok := unparen(e).(*ast.StarExpr)
	if !ok {
		return false
	}
	id, ok := unparen(s.X).(*ast.Ident)
	return ok && t.obj(id) == t.recv
}

// lenExpr: `len(*h)` or `h.Len()`
func (t *ifaceTr) lenExpr(e ast.Expr) bool {
	c, ok := unparen(e).(*ast.CallExpr)
	if !ok {
		return false
	}
	if id, ok := c.Fun.(*ast.Ident); ok && len(c.Args) == 1 {
		if b, isB := t.info.Uses[id].(*types.Builtin); isB && b.Name() == "len" {
			return t.derefRecv(c.Args[0])
		}
	}
	if sel, ok := c.Fun.(*ast.SelectorExpr); ok && len(c.Args) == 0 && sel.Sel.Name == "Len" {
		if id, ok := unparen(sel.X).(*ast.Ident); ok && t.obj(id) == t.recv {
			return true
		}
	}
	return false
}

// idx: a parameter, or len - c
func (t *ifaceTr) idx(e ast.Expr) (string, bool) {
	e = unparen(e)
	if id, ok := e.(*ast.Ident); ok {
		for k, p := range t.params {
			if t.obj(id) == p {
				return fmt.Sprintf("(.param %d)", k), true
			}
		}
		return "", false
	}
	if t.lenExpr(e) {
		return "(.lenMinus 0)", true
	}
	if b, ok := e.(*ast.BinaryExpr); ok && b.Op == token.SUB && t.lenExpr(b.X) {
		if tv, ok := t.info.Types[b.Y]; ok && tv.Value != nil && tv.Value.Kind() == constant.Int {
			if c, exact := constant.Int64Val(tv.Value); exact && c >= 0 {
				return fmt.Sprintf("(.lenMinus %d)", c), true
			}
		}
	}
	return "", false
}

// elemAt: `(*h)[idx]`
func (t *ifaceTr) elemAt(e ast.Expr) (string, bool) {
	ix, ok := unparen(e).(*ast.IndexExpr)
	if !ok || !t.derefRecv(ix.X) {
		return "", false
	}
	return t.idx(ix.Index)
}

func (t *ifaceTr) method(name string, fd *ast.FuncDecl) string {
	other := func(format string, a ...interface{}) string {
		return fmt.Sprintf("(.other %q)", name+": "+fmt.Sprintf(format, a...))
	}
	if fd == nil || fd.Body == nil {
		return other("method not found")
	}
	st := fd.Body.List
	ret1 := func() (ast.Expr, bool) {
		if len(st) == 1 {
			if r, ok := st[0].(*ast.ReturnStmt); ok && len(r.Results) == 1 {
				return r.Results[0], true
			}
		}
		return nil, false
	}
	switch name {
	case "Len":
		if e, ok := ret1(); ok && t.lenExpr(e) && len(t.params) == 0 {
			return ".len"
		}
	case "Less":
		if e, ok := ret1(); ok && len(t.params) == 2 {
			if b, ok := unparen(e).(*ast.BinaryExpr); ok && b.Op == token.LSS {
				sa, oka := unparen(b.X).(*ast.SelectorExpr)
				sb, okb := unparen(b.Y).(*ast.SelectorExpr)
				if oka && okb && sa.Sel.Name == sb.Sel.Name {
					ia, ok1 := t.elemAt(sa.X)
					ib, ok2 := t.elemAt(sb.X)
					if ok1 && ok2 {
						return fmt.Sprintf("(.lessField %q %s %s)", sa.Sel.Name, ia, ib)
					}
				}
			}
		}
	case "Swap":
		if len(st) == 1 && len(t.params) == 2 {
			if as, ok := st[0].(*ast.AssignStmt); ok && as.Tok == token.ASSIGN && len(as.Lhs) == 2 && len(as.Rhs) == 2 {
				l1, a := t.elemAt(as.Lhs[0])
				l2, b := t.elemAt(as.Lhs[1])
				r1, c := t.elemAt(as.Rhs[0])
				r2, d := t.elemAt(as.Rhs[1])
				if a && b && c && d {
					return fmt.Sprintf("(.swap %s %s %s %s)", l1, l2, r1, r2)
				}
			}
		}
	case "Get":
		if e, ok := ret1(); ok && len(t.params) == 1 {
			if i, ok := t.elemAt(e); ok {
				return "(.get " + i + ")"
			}
		}
	case "Push":
		// *h = append(*h, v.(E))
		if len(st) == 1 && len(t.params) == 0 && len(fd.Type.Params.List) == 1 && len(fd.Type.Params.List[0].Names) == 1 {
			v := t.info.Defs[fd.Type.Params.List[0].Names[0]]
			if as, ok := st[0].(*ast.AssignStmt); ok && as.Tok == token.ASSIGN && len(as.Lhs) == 1 && len(as.Rhs) == 1 && t.derefRecv(as.Lhs[0]) {
				if c, ok := unparen(as.Rhs[0]).(*ast.CallExpr); ok && len(c.Args) == 2 && c.Ellipsis == token.NoPos && t.derefRecv(c.Args[0]) {
					if id, ok := c.Fun.(*ast.Ident); ok {
						if b, isB := t.info.Uses[id].(*types.Builtin); isB && b.Name() == "append" {
							if ta, ok := unparen(c.Args[1]).(*ast.TypeAssertExpr); ok && ta.Type != nil {
								if vid, ok := unparen(ta.X).(*ast.Ident); ok && v != nil && t.obj(vid) == v {
									if tv, ok := t.info.Types[ta.Type]; ok && types.Identical(tv.Type, t.elem) {
										return ".pushAppend"
									}
								}
							}
						}
					}
				}
			}
		}
	case "Pop":
		// *h, v = (*h)[:hi], (*h)[vi]; return      with the named result v
		if len(st) == 2 && len(t.params) == 0 && fd.Type.Results != nil && len(fd.Type.Results.List) == 1 && len(fd.Type.Results.List[0].Names) == 1 {
			res := t.info.Defs[fd.Type.Results.List[0].Names[0]]
			r, isRet := st[1].(*ast.ReturnStmt)
			as, isAs := st[0].(*ast.AssignStmt)
			if isRet && len(r.Results) == 0 && isAs && as.Tok == token.ASSIGN && len(as.Lhs) == 2 && len(as.Rhs) == 2 && t.derefRecv(as.Lhs[0]) {
				if vid, ok := unparen(as.Lhs[1]).(*ast.Ident); ok && res != nil && t.obj(vid) == res {
					if se, ok := unparen(as.Rhs[0]).(*ast.SliceExpr); ok && t.derefRecv(se.X) && se.Low == nil && se.High != nil && !se.Slice3 {
						hi, ok1 := t.idx(se.High)
						vi, ok2 := t.elemAt(as.Rhs[1])
						if ok1 && ok2 {
							return fmt.Sprintf("(.popReslice %s %s)", hi, vi)
						}
					}
				}
			}
		}
	}
	return other("body does not have the expected one-line shape")
}

func ifaceAstPlugin(ctxs map[string]*PkgCtx, outLean string) {
	const typ = "sampleHeap"
	names := []string{"Len", "Less", "Swap", "Push", "Pop", "Get"}
	out := map[string]string{}
	ctx := ctxs["randx"]
	for _, n := range names {
		out[n] = fmt.Sprintf("(.other %q)", n+": package randx not found")
	}
	if ctx != nil {
		decls := map[string]*ast.FuncDecl{}
		for _, f := range ctx.Files {
			for _, d := range f.Decls {
				fd, ok := d.(*ast.FuncDecl)
				if !ok || fd.Recv == nil || len(fd.Recv.List) != 1 || len(fd.Recv.List[0].Names) != 1 {
					continue
				}
				if s, ok := fd.Recv.List[0].Type.(*ast.StarExpr); ok {
					if id, ok := s.X.(*ast.Ident); ok && id.Name == typ {
						decls[fd.Name.Name] = fd
					}
				}
			}
		}
		for _, n := range names {
			fd := decls[n]
			t := &ifaceTr{info: ctx.Info}
			if fd != nil {
				t.recv = ctx.Info.Defs[fd.Recv.List[0].Names[0]]
				if t.recv != nil {
					if p, ok := t.recv.Type().(*types.Pointer); ok {
						if sl, ok := p.Elem().Underlying().(*types.Slice); ok {
							t.elem = sl.Elem()
						}
					}
				}
				for _, p := range fd.Type.Params.List {
					for _, pn := range p.Names {
						if o := ctx.Info.Defs[pn]; o != nil && sortIsSignedInt(o.Type()) {
							t.params = append(t.params, o)
						}
					}
				}
			}
			if fd != nil && (t.recv == nil || t.elem == nil) {
				out[n] = fmt.Sprintf("(.other %q)", n+": receiver is not a pointer to a slice type")
				continue
			}
			out[n] = t.method(n, fd)
		}
	}
	var b strings.Builder
	b.WriteString("import Got.Model.MiniGoIface\n")
	b.WriteString("/- GENERATED by /verif/tools/srcfacts (minigo_iface.go) from the repository's current working tree on every run.\n")
	b.WriteString("   Do not edit.  The heap.Interface methods of randx.sampleHeap in the MiniGoIface description language\n")
	b.WriteString("   (Got/Model/MiniGoIface.lean); a body outside the expected shapes is `.other \"<what>\"`. -/\n")
	b.WriteString("namespace Got.Generated.AstRandxSampleHeap\nopen Got.Model.MiniGoIface\n\n")
	fmt.Fprintf(&b, "def sampleHeap : Impl :=\n  { typ := %q\n    mLen := %s\n    mLess := %s\n    mSwap := %s\n    mPush := %s\n    mPop := %s\n    mGet := %s }\n",
		typ, out["Len"], out["Less"], out["Swap"], out["Push"], out["Pop"], out["Get"])
	b.WriteString("\nend Got.Generated.AstRandxSampleHeap\n")
	writeIfChanged(filepath.Join(outLean, "AstRandxSampleHeap.lean"), []byte(b.String()))
}
