// minigo_codec.go: translation of the iox byte codec (OctetsStream / OctetsWriter / OctetsReader) into the
// MiniGoBytes deep embedding of /verif/lean/Got/Model/MiniGoBytes.lean. The terms are regenerated from the
// repository's current source on every run (Got/Generated/AstIox.lean) and the Lean theorems about them
// (Got/Lemmas/CodecAst*.lean, Got/Props/C11.lean, C12.lean) are re-checked; a construct outside the fragment
// yields an empty body and a note, so that the obligations fail instead of silently keeping an old translation.
//
// What the translator itself decides (= trusted):
//   - every subexpression's type and every constant's value and type come from go/types (untyped constants carry
//     the type they were converted to; `const readSize = 4` is inlined as the constant 4 of type int);
//   - variables are named by declaration order of their types.Object (a<k> parameters, v<k> locals), so Go's
//     scoping is resolved by the type checker and renaming a variable does not change the term;
//   - `x op= e` is `x = x op e`, `x++` is `x = x + 1`; the init statement of `if`/`for` is emitted in front of it
//     (sound because every object has its own name); `a > b` is `b < a`, `a >= b` is `b <= a` (expressions are pure);
//   - `switch tag { case c: … default: … }` without fallthrough is the chain `if tag == c {…} else {…}`;
//   - a call of a zero-parameter method whose body is a single `return e` (Len, Position) inside an expression is
//     replaced by `e`; every other method call is a `call` statement resolved by name in the generated table;
//   - convert.Bytes / convert.String are the identity on the byte sequence (strings are byte lists).
package main

import (
	"fmt"
	"go/ast"
	"go/constant"
	"go/token"
	"go/types"
	"path/filepath"
	"strings"
)

func init() { plugins = append(plugins, codecPlugin) }

var codecTypes = []string{"OctetsStream", "OctetsWriter", "OctetsReader"}

// methods translated, in the order of the generated file
var codecTargets = []string{
	"OctetsStream.ReadBool", "OctetsStream.ReadByte", "OctetsStream.ReadInt16", "OctetsStream.ReadInt32", "OctetsStream.ReadInt64",
	"OctetsStream.Read", "OctetsStream.WriteBool", "OctetsStream.WriteByte", "OctetsStream.WriteInt16", "OctetsStream.WriteInt32",
	"OctetsStream.WriteInt64", "OctetsStream.Write", "OctetsStream.Len", "OctetsStream.Position", "OctetsStream.Bytes",
	"OctetsStream.Tidy", "OctetsStream.Reset", "OctetsStream.Seek",
	"OctetsWriter.WriteBool", "OctetsWriter.WriteByte", "OctetsWriter.WriteInt16", "OctetsWriter.WriteInt32", "OctetsWriter.WriteInt64",
	"OctetsWriter.WriteString", "OctetsWriter.WriteBytes", "OctetsWriter.Write7BitEncodedInt",
	"OctetsReader.ReadBool", "OctetsReader.ReadByte", "OctetsReader.ReadInt16", "OctetsReader.ReadInt32", "OctetsReader.ReadInt64",
	"OctetsReader.ReadString", "OctetsReader.ReadBytes", "OctetsReader.Read7BitEncodedInt",
}

var codecErrs = map[string]bool{"ErrNotEnoughData": true, "ErrBad7BitInt": true, "ErrNegativeSize": true, "ErrInvalidArgument": true}

type cdTr struct {
	info     *types.Info
	recv     types.Object
	recvType string
	names    map[types.Object]string
	nLocals  int
	nTemps   int
	err      string
	decls    map[string]*ast.FuncDecl
	depth    int
	results  []types.Type
}

func (t *cdTr) fail(format string, a ...interface{}) {
	if t.err == "" {
		t.err = fmt.Sprintf(format, a...)
	}
}

func (t *cdTr) typeOf(e ast.Expr) types.Type {
	if tv, ok := t.info.Types[e]; ok && tv.Type != nil {
		return tv.Type
	}
	if id, ok := e.(*ast.Ident); ok {
		if o := t.info.Uses[id]; o != nil {
			return o.Type()
		}
		if o := t.info.Defs[id]; o != nil {
			return o.Type()
		}
	}
	return nil
}

// cdLeanTy: the MiniGoBytes type of a Go integer type
func cdLeanTy(ty types.Type) (string, bool) {
	b, ok := ty.Underlying().(*types.Basic)
	if !ok {
		return "", false
	}
	switch b.Kind() {
	case types.Int, types.UntypedInt:
		return ".int", true
	case types.Int8:
		return "(.bv 8 true)", true
	case types.Uint8:
		return "(.bv 8 false)", true
	case types.Int16:
		return "(.bv 16 true)", true
	case types.Uint16:
		return "(.bv 16 false)", true
	case types.Int32:
		return "(.bv 32 true)", true
	case types.Uint32:
		return "(.bv 32 false)", true
	case types.Int64:
		return "(.bv 64 true)", true
	case types.Uint64, types.Uint:
		return "(.bv 64 false)", true
	}
	return "", false
}

func cdIsByteSeq(ty types.Type) bool {
	if ty == nil {
		return false
	}
	switch u := ty.Underlying().(type) {
	case *types.Slice:
		b, ok := u.Elem().Underlying().(*types.Basic)
		return ok && b.Kind() == types.Uint8
	case *types.Basic:
		return u.Kind() == types.String || u.Kind() == types.UntypedString
	}
	return false
}

func cdIsBool(ty types.Type) bool {
	b, ok := ty.Underlying().(*types.Basic)
	return ok && (b.Kind() == types.Bool || b.Kind() == types.UntypedBool)
}

func cdIsError(ty types.Type) bool {
	return ty != nil && ty.String() == "error"
}

func (t *cdTr) valueType(ty types.Type) bool {
	if ty == nil {
		return false
	}
	if _, ok := cdLeanTy(ty); ok {
		return true
	}
	return cdIsBool(ty) || cdIsError(ty) || cdIsByteSeq(ty)
}

func cdUnparen(e ast.Expr) ast.Expr {
	for {
		p, ok := e.(*ast.ParenExpr)
		if !ok {
			return e
		}
		e = p.X
	}
}

// isStream: e denotes the one stream object (the receiver of an OctetsStream method, or `recv.stream`)
func (t *cdTr) isStream(e ast.Expr) bool {
	e = cdUnparen(e)
	switch x := e.(type) {
	case *ast.Ident:
		return t.recvType == "OctetsStream" && t.recv != nil && t.info.Uses[x] == t.recv
	case *ast.SelectorExpr:
		if id, ok := cdUnparen(x.X).(*ast.Ident); ok && t.recv != nil && t.info.Uses[id] == t.recv && t.recvType != "OctetsStream" && x.Sel.Name == "stream" {
			ty := t.typeOf(e)
			return ty != nil && strings.HasSuffix(ty.String(), "iox.OctetsStream")
		}
	}
	return false
}

func (t *cdTr) isRecv(e ast.Expr) bool {
	id, ok := cdUnparen(e).(*ast.Ident)
	return ok && t.recv != nil && t.info.Uses[id] == t.recv
}

// callee: name of the translated method a call expression invokes ("" = not one)
func (t *cdTr) callee(c *ast.CallExpr) string {
	sel, ok := c.Fun.(*ast.SelectorExpr)
	if !ok {
		return ""
	}
	name := ""
	if t.isStream(sel.X) {
		name = "OctetsStream." + sel.Sel.Name
	} else if t.isRecv(sel.X) {
		name = t.recvType + "." + sel.Sel.Name
	}
	if name == "" || t.decls[name] == nil {
		return ""
	}
	for _, tg := range codecTargets {
		if tg == name {
			return name
		}
	}
	return ""
}

// cdInlinable: zero parameters, body = one `return e`
func cdInlinable(fd *ast.FuncDecl) ast.Expr {
	if fd == nil || fd.Body == nil || len(fd.Body.List) != 1 || fd.Type.Params.NumFields() != 0 {
		return nil
	}
	r, ok := fd.Body.List[0].(*ast.ReturnStmt)
	if !ok || len(r.Results) != 1 || fd.Type.Results == nil || fd.Type.Results.NumFields() != 1 {
		return nil
	}
	if c, isCall := cdUnparen(r.Results[0]).(*ast.CallExpr); isCall {
		if _, isSel := c.Fun.(*ast.SelectorExpr); isSel {
			return nil // a method / package call: stays a call statement
		}
	}
	return r.Results[0]
}

func cdRecvOf(fd *ast.FuncDecl, info *types.Info) (types.Object, string) {
	if fd.Recv == nil || len(fd.Recv.List) != 1 {
		return nil, ""
	}
	ty := fd.Recv.List[0].Type
	if s, ok := ty.(*ast.StarExpr); ok {
		ty = s.X
	}
	id, ok := ty.(*ast.Ident)
	if !ok {
		return nil, ""
	}
	var obj types.Object
	if len(fd.Recv.List[0].Names) == 1 {
		obj = info.Defs[fd.Recv.List[0].Names[0]]
	}
	return obj, id.Name
}

func cdLeanIntLit(v constant.Value) string {
	s := v.ExactString()
	if strings.HasPrefix(s, "-") {
		return "(" + s + ")"
	}
	return s
}

func (t *cdTr) constExpr(e ast.Expr, tv types.TypeAndValue) (string, bool) {
	switch tv.Value.Kind() {
	case constant.Int:
		if ty, ok := cdLeanTy(tv.Type); ok {
			return "(.lit " + ty + " " + cdLeanIntLit(tv.Value) + ")", true
		}
	case constant.Bool:
		if constant.BoolVal(tv.Value) {
			return "(.blit true)", true
		}
		return "(.blit false)", true
	case constant.String:
		if constant.StringVal(tv.Value) == "" {
			return ".nilBytes", true
		}
	}
	return "", false
}

// exprAs: like expr, but an untyped `nil` takes the type the context wants
func (t *cdTr) exprAs(e ast.Expr, want types.Type) string {
	if tv, ok := t.info.Types[unparen0(e)]; ok && tv.IsNil() && want != nil {
		if cdIsByteSeq(want) {
			return ".nilBytes"
		}
		if cdIsError(want) {
			return ".nil"
		}
	}
	return t.expr(e)
}

func unparen0(e ast.Expr) ast.Expr { return cdUnparen(e) }

func (t *cdTr) isNil(e ast.Expr) bool {
	tv, ok := t.info.Types[cdUnparen(e)]
	return ok && tv.IsNil()
}

func (t *cdTr) expr(e ast.Expr) string {
	e = cdUnparen(e)
	if tv, ok := t.info.Types[e]; ok && tv.Value != nil {
		if s, ok := t.constExpr(e, tv); ok {
			return s
		}
		t.fail("constant %s of type %s", tv.Value, tv.Type)
		return ".nil"
	}
	if tv, ok := t.info.Types[e]; ok && tv.IsNil() {
		if cdIsByteSeq(tv.Type) {
			return ".nilBytes"
		}
		if cdIsError(tv.Type) {
			return ".nil"
		}
		t.fail("nil of type %s", tv.Type)
		return ".nil"
	}
	switch x := e.(type) {
	case *ast.Ident:
		obj := t.info.Uses[x]
		if v, ok := obj.(*types.Var); ok {
			if n, ok := t.names[obj]; ok {
				return fmt.Sprintf("(.var %q)", n)
			}
			if v.Pkg() != nil && v.Parent() == v.Pkg().Scope() && codecErrs[v.Name()] && cdIsError(v.Type()) {
				return "(.errc ." + strings.TrimPrefix(v.Name(), "Err") + ")"
			}
		}
		t.fail("identifier %s is not a local variable, parameter or iox error constant", x.Name)
	case *ast.SelectorExpr:
		if t.isStream(x.X) {
			switch x.Sel.Name {
			case "buffer":
				return ".buf"
			case "position":
				return ".pos"
			}
		}
		t.fail("selector %s", exprString(x))
	case *ast.IndexExpr:
		if !cdIsByteSeq(t.typeOf(x.X)) {
			t.fail("index of a non-byte sequence")
			break
		}
		return "(.index " + t.expr(x.X) + " " + t.expr(x.Index) + ")"
	case *ast.SliceExpr:
		if x.Slice3 || !cdIsByteSeq(t.typeOf(x.X)) {
			t.fail("slice expression %s", exprString(x))
			break
		}
		s := t.expr(x.X)
		switch {
		case x.Low != nil && x.High != nil:
			return "(.slice " + s + " " + t.expr(x.Low) + " " + t.expr(x.High) + ")"
		case x.Low != nil:
			return "(.sliceFrom " + s + " " + t.expr(x.Low) + ")"
		case x.High != nil:
			return "(.sliceTo " + s + " " + t.expr(x.High) + ")"
		}
		return s
	case *ast.UnaryExpr:
		switch x.Op {
		case token.NOT:
			return "(.not " + t.expr(x.X) + ")"
		case token.ADD:
			return t.expr(x.X)
		}
		t.fail("unary operator %s", x.Op)
	case *ast.BinaryExpr:
		a := ".nil"
		if !t.isNil(x.X) {
			a = t.expr(x.X)
		}
		switch x.Op {
		case token.SHL, token.SHR:
			if _, ok := cdLeanTy(t.typeOf(x.X)); !ok || t.typeOf(x.X).Underlying().(*types.Basic).Kind() == types.Int {
				t.fail("shift of a value of type %s", t.typeOf(x.X))
				break
			}
			k := ""
			if tv, ok := t.info.Types[x.Y]; ok && tv.Value != nil && tv.Value.Kind() == constant.Int {
				k = "(.lit .int " + cdLeanIntLit(tv.Value) + ")"
			} else {
				if _, ok := cdLeanTy(t.typeOf(x.Y)); !ok {
					t.fail("shift count of type %s", t.typeOf(x.Y))
					break
				}
				k = t.expr(x.Y)
			}
			if x.Op == token.SHL {
				return "(.shl " + a + " " + k + ")"
			}
			return "(.shr " + a + " " + k + ")"
		}
		if t.err != "" {
			break
		}
		b := t.exprAs(x.Y, t.typeOf(x.X))
		if t.isNil(x.X) {
			a = t.exprAs(x.X, t.typeOf(x.Y))
		}
		switch x.Op {
		case token.ADD:
			return "(.add " + a + " " + b + ")"
		case token.SUB:
			return "(.sub " + a + " " + b + ")"
		case token.OR:
			return "(.or " + a + " " + b + ")"
		case token.AND:
			return "(.and " + a + " " + b + ")"
		case token.EQL:
			return "(.eq " + a + " " + b + ")"
		case token.NEQ:
			return "(.ne " + a + " " + b + ")"
		case token.LSS:
			return "(.lt " + a + " " + b + ")"
		case token.LEQ:
			return "(.le " + a + " " + b + ")"
		case token.GTR:
			return "(.lt " + b + " " + a + ")"
		case token.GEQ:
			return "(.le " + b + " " + a + ")"
		case token.LOR:
			return "(.lor " + a + " " + b + ")"
		case token.LAND:
			return "(.land " + a + " " + b + ")"
		}
		t.fail("binary operator %s", x.Op)
	case *ast.CallExpr:
		// conversion between integer types
		if tv, ok := t.info.Types[x.Fun]; ok && tv.IsType() && len(x.Args) == 1 {
			if ty, ok := cdLeanTy(tv.Type); ok {
				if _, ok := cdLeanTy(t.typeOf(x.Args[0])); ok {
					return "(.conv " + ty + " " + t.expr(x.Args[0]) + ")"
				}
			}
			t.fail("conversion %s", exprString(x))
			break
		}
		if id, ok := x.Fun.(*ast.Ident); ok {
			if b, ok := t.info.Uses[id].(*types.Builtin); ok && b.Name() == "len" && len(x.Args) == 1 && cdIsByteSeq(t.typeOf(x.Args[0])) {
				return "(.len " + t.expr(x.Args[0]) + ")"
			}
		}
		if sel, ok := x.Fun.(*ast.SelectorExpr); ok && len(x.Args) == 1 {
			if pk, ok := sel.X.(*ast.Ident); ok {
				if pn, ok := t.info.Uses[pk].(*types.PkgName); ok && pn.Imported().Path() == "github.com/lixianmin/got/convert" &&
					(sel.Sel.Name == "Bytes" || sel.Sel.Name == "String") && cdIsByteSeq(t.typeOf(x.Args[0])) {
					return t.expr(x.Args[0]) // identity on the byte sequence
				}
			}
		}
		if name := t.callee(x); name != "" && len(x.Args) == 0 {
			if body := cdInlinable(t.decls[name]); body != nil && t.depth < 4 {
				fd := t.decls[name]
				ro, rt := cdRecvOf(fd, t.info)
				sub := &cdTr{info: t.info, recv: ro, recvType: rt, names: map[types.Object]string{}, decls: t.decls, depth: t.depth + 1}
				s := sub.expr(body)
				if sub.err != "" {
					t.fail("inlined %s: %s", name, sub.err)
				}
				return s
			}
		}
		t.fail("call %s inside an expression", exprString(x.Fun))
	default:
		t.fail("expression %T", e)
	}
	return ".nil"
}

func (t *cdTr) declare(id *ast.Ident) string {
	if id.Name == "_" {
		return "_"
	}
	obj := t.info.Defs[id]
	if obj == nil {
		t.fail("no object for %s", id.Name)
		return "_"
	}
	if !t.valueType(obj.Type()) {
		t.fail("variable %s of type %s", id.Name, obj.Type())
	}
	n := fmt.Sprintf("v%d", t.nLocals)
	t.nLocals++
	t.names[obj] = n
	return n
}

func (t *cdTr) lhsName(e ast.Expr) (string, bool) {
	id, ok := cdUnparen(e).(*ast.Ident)
	if !ok {
		return "", false
	}
	if id.Name == "_" {
		return "_", true
	}
	if n, ok := t.names[t.info.Uses[id]]; ok {
		return n, true
	}
	return "", false
}

func cdQlist(l []string) string {
	var o []string
	for _, s := range l {
		o = append(o, fmt.Sprintf("%q", s))
	}
	return "[" + strings.Join(o, ", ") + "]"
}

func (t *cdTr) args(c *ast.CallExpr) string {
	var as []string
	for _, a := range c.Args {
		if !t.valueType(t.typeOf(a)) {
			t.fail("argument %s of type %s", exprString(a), t.typeOf(a))
		}
		as = append(as, t.expr(a))
	}
	return "[" + strings.Join(as, ", ") + "]"
}

func (t *cdTr) nResults(name string) int {
	fd := t.decls[name]
	if fd == nil || fd.Type.Results == nil {
		return 0
	}
	return fd.Type.Results.NumFields()
}

// callStmt: `xs = f(args)` for a translated, non-inlined method
func (t *cdTr) callStmt(xs []string, c *ast.CallExpr, name string) string {
	if len(xs) != t.nResults(name) {
		t.fail("call of %s binds %d of %d results", name, len(xs), t.nResults(name))
	}
	return fmt.Sprintf(".call %s %q %s", cdQlist(xs), name, t.args(c))
}

// methodCall: e is a call of a translated method that is not inlined
func (t *cdTr) methodCall(e ast.Expr) (*ast.CallExpr, string) {
	c, ok := cdUnparen(e).(*ast.CallExpr)
	if !ok {
		return nil, ""
	}
	name := t.callee(c)
	if name == "" {
		return nil, ""
	}
	if len(c.Args) == 0 && cdInlinable(t.decls[name]) != nil {
		return nil, ""
	}
	return c, name
}

func (t *cdTr) isBuiltin(c *ast.CallExpr, name string) bool {
	id, ok := c.Fun.(*ast.Ident)
	if !ok {
		return false
	}
	b, ok := t.info.Uses[id].(*types.Builtin)
	return ok && b.Name() == name
}

// define: `var names = values` / `names := values`
func (t *cdTr) define(names []*ast.Ident, values []ast.Expr, declType ast.Expr) []string {
	if len(values) == 0 { // zero values
		var out []string
		for _, n := range names {
			ty := t.typeOf(declType)
			if ty == nil {
				t.fail("untyped declaration of %s", n.Name)
				return nil
			}
			z := ""
			if lt, ok := cdLeanTy(ty); ok {
				z = "(.lit " + lt + " 0)"
			} else if cdIsBool(ty) {
				z = "(.blit false)"
			} else if cdIsError(ty) {
				z = ".nil"
			} else if cdIsByteSeq(ty) {
				z = ".nilBytes"
			} else {
				t.fail("zero value of type %s", ty)
				return nil
			}
			out = append(out, fmt.Sprintf(".decl %q %s", t.declare(n), z))
		}
		return out
	}
	if len(values) == 1 {
		if c, name := t.methodCall(values[0]); c != nil {
			st := t.args(c) // evaluated before the names come into scope
			_ = st
			var xs []string
			for _, n := range names {
				xs = append(xs, t.declare(n))
			}
			return []string{t.callStmt(xs, c, name)}
		}
		if c, ok := cdUnparen(values[0]).(*ast.CallExpr); ok && len(names) == 1 && t.isBuiltin(c, "make") {
			if len(c.Args) == 2 && cdIsByteSeq(t.typeOf(c.Args[0])) {
				if _, ok := cdLeanTy(t.typeOf(c.Args[1])); ok {
					n := t.expr(c.Args[1])
					return []string{fmt.Sprintf(".make %q %s", t.declare(names[0]), n)}
				}
			}
			t.fail("make outside the fragment: %s", exprString(c))
			return nil
		}
	}
	if len(names) != len(values) {
		t.fail("declaration of %d names from %d values", len(names), len(values))
		return nil
	}
	// all right-hand sides are evaluated before any name comes into scope
	var vs []string
	for _, v := range values {
		vs = append(vs, t.expr(v))
	}
	var out []string
	for i, n := range names {
		out = append(out, fmt.Sprintf(".decl %q %s", t.declare(n), vs[i]))
	}
	if len(names) > 1 {
		t.fail("parallel declaration of several names")
	}
	return out
}

var cdOpAssign = map[token.Token]token.Token{token.ADD_ASSIGN: token.ADD, token.SUB_ASSIGN: token.SUB, token.OR_ASSIGN: token.OR,
	token.AND_ASSIGN: token.AND, token.SHL_ASSIGN: token.SHL, token.SHR_ASSIGN: token.SHR}

func (t *cdTr) assignTo(lhs ast.Expr, rhs ast.Expr) []string {
	if n, ok := t.lhsName(lhs); ok {
		if c, name := t.methodCall(rhs); c != nil {
			return []string{t.callStmt([]string{n}, c, name)}
		}
		if n == "_" {
			t.fail("assignment of a non-call to _")
			return nil
		}
		return []string{fmt.Sprintf(".assign %q %s", n, t.expr(rhs))}
	}
	if sel, ok := cdUnparen(lhs).(*ast.SelectorExpr); ok && t.isStream(sel.X) {
		switch sel.Sel.Name {
		case "position":
			return []string{".setPos " + t.expr(rhs)}
		case "buffer":
			if c, ok := cdUnparen(rhs).(*ast.CallExpr); ok && t.isBuiltin(c, "append") {
				if len(c.Args) < 1 {
					break
				}
				if s, ok := cdUnparen(c.Args[0]).(*ast.SelectorExpr); !ok || !t.isStream(s.X) || s.Sel.Name != "buffer" {
					t.fail("append to something other than the stream's own buffer")
					return nil
				}
				if c.Ellipsis != token.NoPos {
					if len(c.Args) != 2 || !cdIsByteSeq(t.typeOf(c.Args[1])) {
						t.fail("append(buffer, x...) of a non-byte sequence")
						return nil
					}
					return []string{".appendSlice " + t.expr(c.Args[1])}
				}
				var es []string
				for _, a := range c.Args[1:] {
					es = append(es, t.expr(a))
				}
				return []string{".appendBuf [" + strings.Join(es, ", ") + "]"}
			}
			if cdIsByteSeq(t.typeOf(rhs)) {
				return []string{".setBuf " + t.expr(rhs)}
			}
		}
	}
	t.fail("assignment to %s", exprString(lhs))
	return nil
}

func (t *cdTr) block(list []ast.Stmt, ind string) string {
	var parts []string
	for _, s := range list {
		for _, r := range t.stmt(s, ind+"  ") {
			parts = append(parts, ind+"  "+r)
		}
	}
	if len(parts) == 0 {
		return "[]"
	}
	return "[\n" + strings.Join(parts, ",\n") + "\n" + ind + "]"
}

func (t *cdTr) stmt(s ast.Stmt, ind string) []string {
	switch x := s.(type) {
	case *ast.EmptyStmt:
		return nil
	case *ast.BlockStmt:
		var out []string
		for _, y := range x.List {
			out = append(out, t.stmt(y, ind)...)
		}
		return out
	case *ast.ReturnStmt:
		if len(x.Results) == 1 {
			if c, name := t.methodCall(x.Results[0]); c != nil {
				var xs, vs []string
				for i := 0; i < t.nResults(name); i++ {
					xs = append(xs, fmt.Sprintf("r%d", i))
					vs = append(vs, fmt.Sprintf("(.var \"r%d\")", i))
				}
				return []string{t.callStmt(xs, c, name), ".ret [" + strings.Join(vs, ", ") + "]"}
			}
		}
		var es []string
		for i, r := range x.Results {
			var want types.Type
			if i < len(t.results) {
				want = t.results[i]
			}
			if !t.isNil(r) && !t.valueType(t.typeOf(r)) {
				t.fail("result %s of type %s", exprString(r), t.typeOf(r))
			}
			es = append(es, t.exprAs(r, want))
		}
		return []string{".ret [" + strings.Join(es, ", ") + "]"}
	case *ast.DeclStmt:
		gd, ok := x.Decl.(*ast.GenDecl)
		if !ok {
			break
		}
		if gd.Tok == token.CONST {
			return nil // constants are inlined at their uses (go/types gives every use its value)
		}
		if gd.Tok == token.VAR {
			var out []string
			for _, sp := range gd.Specs {
				vs := sp.(*ast.ValueSpec)
				out = append(out, t.define(vs.Names, vs.Values, vs.Type)...)
			}
			return out
		}
	case *ast.AssignStmt:
		if x.Tok == token.DEFINE {
			for _, l := range x.Lhs {
				if id, ok := l.(*ast.Ident); !ok || (id.Name != "_" && t.info.Defs[id] == nil) {
					t.fail("`:=` that redeclares an existing variable")
					return nil
				}
			}
			var ids []*ast.Ident
			for _, l := range x.Lhs {
				ids = append(ids, l.(*ast.Ident))
			}
			return t.define(ids, x.Rhs, nil)
		}
		if x.Tok == token.ASSIGN {
			if len(x.Rhs) == 1 && len(x.Lhs) > 1 {
				if c, name := t.methodCall(x.Rhs[0]); c != nil {
					var xs []string
					for _, l := range x.Lhs {
						n, ok := t.lhsName(l)
						if !ok {
							t.fail("assignment to %s", exprString(l))
							return nil
						}
						xs = append(xs, n)
					}
					return []string{t.callStmt(xs, c, name)}
				}
			}
			if len(x.Lhs) == 1 && len(x.Rhs) == 1 {
				return t.assignTo(x.Lhs[0], x.Rhs[0])
			}
			t.fail("parallel assignment")
			return nil
		}
		if op, ok := cdOpAssign[x.Tok]; ok && len(x.Lhs) == 1 && len(x.Rhs) == 1 {
			bin := &ast.BinaryExpr{X: x.Lhs[0], Op: op, Y: x.Rhs[0]}
			return t.assignTo(x.Lhs[0], bin)
		}
	case *ast.IncDecStmt:
		if ty := t.typeOf(x.X); ty != nil {
			if lt, ok := cdLeanTy(ty); ok {
				one := "(.lit " + lt + " 1)"
				op := ".add"
				if x.Tok == token.DEC {
					op = ".sub"
				}
				val := "(" + op + " " + t.expr(x.X) + " " + one + ")"
				if n, ok := t.lhsName(x.X); ok && n != "_" {
					return []string{fmt.Sprintf(".assign %q %s", n, val)}
				}
				if sel, ok := cdUnparen(x.X).(*ast.SelectorExpr); ok && t.isStream(sel.X) && sel.Sel.Name == "position" {
					return []string{".setPos " + val}
				}
			}
		}
	case *ast.ExprStmt:
		if c, ok := cdUnparen(x.X).(*ast.CallExpr); ok {
			if t.isBuiltin(c, "copy") && len(c.Args) == 2 && cdIsByteSeq(t.typeOf(c.Args[1])) {
				if n, ok := t.lhsName(c.Args[0]); ok && n != "_" {
					return []string{fmt.Sprintf(".copy %q %s", n, t.expr(c.Args[1]))}
				}
				if sel, ok := cdUnparen(c.Args[0]).(*ast.SelectorExpr); ok && t.isStream(sel.X) && sel.Sel.Name == "buffer" {
					return []string{".copyBuf " + t.expr(c.Args[1])}
				}
			}
			if name := t.callee(c); name != "" {
				var xs []string
				for i := 0; i < t.nResults(name); i++ {
					xs = append(xs, "_")
				}
				return []string{t.callStmt(xs, c, name)}
			}
		}
	case *ast.IfStmt:
		var out []string
		if x.Init != nil {
			out = append(out, t.stmt(x.Init, ind)...)
		}
		c := t.expr(x.Cond)
		th := t.block(x.Body.List, ind)
		el := "[]"
		switch e := x.Else.(type) {
		case nil:
		case *ast.BlockStmt:
			el = t.block(e.List, ind)
		case *ast.IfStmt:
			el = t.block([]ast.Stmt{e}, ind)
		default:
			t.fail("else branch %T", e)
		}
		return append(out, ".ite "+c+" "+th+" "+el)
	case *ast.ForStmt:
		var out []string
		if x.Init != nil {
			out = append(out, t.stmt(x.Init, ind)...)
		}
		c := "(.blit true)"
		if x.Cond != nil {
			c = t.expr(x.Cond)
		}
		post := "[]"
		if x.Post != nil {
			post = t.block([]ast.Stmt{x.Post}, ind)
		}
		return append(out, ".loop "+c+" "+post+" "+t.block(x.Body.List, ind))
	case *ast.SwitchStmt:
		var out []string
		if x.Init != nil {
			out = append(out, t.stmt(x.Init, ind)...)
		}
		if x.Tag == nil {
			t.fail("switch without a tag")
			return nil
		}
		tag := t.expr(x.Tag)
		var def *ast.CaseClause
		var cases []*ast.CaseClause
		for _, cc := range x.Body.List {
			c := cc.(*ast.CaseClause)
			if c.List == nil {
				def = c
			} else {
				cases = append(cases, c)
			}
		}
		var build func(i int, ind string) string
		build = func(i int, ind string) string {
			if i == len(cases) {
				if def == nil {
					return "[]"
				}
				return t.block(def.Body, ind)
			}
			c := cases[i]
			cond := ""
			for _, v := range c.List {
				eq := "(.eq " + tag + " " + t.expr(v) + ")"
				if cond == "" {
					cond = eq
				} else {
					cond = "(.lor " + cond + " " + eq + ")"
				}
			}
			return "[\n" + ind + "  .ite " + cond + " " + t.block(c.Body, ind+"  ") + " " + build(i+1, ind+"  ") + "\n" + ind + "]"
		}
		if len(cases) == 0 {
			t.fail("switch without cases")
			return nil
		}
		c := cases[0]
		cond := ""
		for _, v := range c.List {
			eq := "(.eq " + tag + " " + t.expr(v) + ")"
			if cond == "" {
				cond = eq
			} else {
				cond = "(.lor " + cond + " " + eq + ")"
			}
		}
		return append(out, ".ite "+cond+" "+t.block(c.Body, ind)+" "+build(1, ind))
	}
	t.fail("statement %T outside the fragment: %s", s, cdStmtHead(s))
	return nil
}

func cdStmtHead(s ast.Stmt) string {
	str := cdExprStringNode(s)
	if len(str) > 60 {
		str = str[:60]
	}
	return str
}

func cdExprStringNode(n ast.Node) string {
	defer func() { _ = recover() }()
	if e, ok := n.(ast.Expr); ok {
		return exprString(e)
	}
	return fmt.Sprintf("%T", n)
}

func containsBranchCodec(b *ast.BlockStmt) string {
	found := ""
	ast.Inspect(b, func(n ast.Node) bool {
		switch x := n.(type) {
		case *ast.BranchStmt:
			found = x.Tok.String()
		case *ast.LabeledStmt:
			found = "label"
		case *ast.FuncLit:
			found = "closure"
		case *ast.GoStmt:
			found = "go"
		case *ast.DeferStmt:
			found = "defer"
		case *ast.RangeStmt:
			found = "range"
		case *ast.SelectStmt:
			found = "select"
		}
		return found == ""
	})
	return found
}

func codecLeanName(name string) string { return strings.Replace(name, ".", "_", 1) }

func translateCodec(name string, fd *ast.FuncDecl, info *types.Info, decls map[string]*ast.FuncDecl, why string) string {
	t := &cdTr{info: info, names: map[types.Object]string{}, decls: decls}
	var params []string
	if fd == nil {
		t.err = why
	} else {
		t.recv, t.recvType = cdRecvOf(fd, info)
		if t.recv == nil {
			t.fail("receiver without a name")
		}
		if fd.Type.TypeParams != nil {
			t.fail("generic method")
		}
		if fd.Type.Results != nil {
			for _, r := range fd.Type.Results.List {
				if len(r.Names) != 0 {
					t.fail("named results")
				}
				if !t.valueType(t.typeOf(r.Type)) {
					t.fail("result type %s", exprString(r.Type))
				}
				t.results = append(t.results, t.typeOf(r.Type))
			}
		}
		for _, p := range fd.Type.Params.List {
			ty := t.typeOf(p.Type)
			for _, n := range p.Names {
				if !t.valueType(ty) {
					t.fail("parameter %s of type %s", n.Name, exprString(p.Type))
					continue
				}
				pn := fmt.Sprintf("a%d", len(params))
				params = append(params, pn)
				if obj := info.Defs[n]; obj != nil {
					t.names[obj] = pn
				}
			}
			if len(p.Names) == 0 {
				t.fail("unnamed parameter")
			}
		}
		if b := containsBranchCodec(fd.Body); b != "" {
			t.fail("%s statement", b)
		}
		// a slice parameter may be read and be the target of copy(), never reassigned (the caller sees element writes only)
		ast.Inspect(fd.Body, func(n ast.Node) bool {
			if as, ok := n.(*ast.AssignStmt); ok {
				for _, l := range as.Lhs {
					if id, ok := l.(*ast.Ident); ok {
						if pn, ok := t.names[info.Uses[id]]; ok && strings.HasPrefix(pn, "a") && cdIsByteSeq(info.Uses[id].Type()) {
							t.fail("slice parameter %s is reassigned", id.Name)
						}
					}
					if ix, ok := l.(*ast.IndexExpr); ok {
						t.fail("element assignment %s", exprString(ix))
					}
				}
			}
			return true
		})
	}
	body := "[]"
	if t.err == "" {
		body = t.block(fd.Body.List, "    ")
	}
	note := "ok"
	if t.err != "" {
		body = "[]"
		params = nil
		note = "outside the MiniGoBytes fragment: " + t.err
	}
	var b strings.Builder
	ln := codecLeanName(name)
	fmt.Fprintf(&b, "def %sNote : String := %q\n\n", ln, note)
	fmt.Fprintf(&b, "def %s : Fn :=\n  { name := %q\n    params := %s\n    body := %s }\n", ln, name, cdQlist(params), body)
	return b.String()
}

func codecPlugin(ctxs map[string]*PkgCtx, outLean string) {
	ctx := ctxs["iox"]
	decls := map[string]*ast.FuncDecl{}
	why := "package iox did not parse"
	var info *types.Info
	if ctx != nil {
		why = "function not found"
		info = ctx.Info
		for _, f := range ctx.Files {
			for _, d := range f.Decls {
				if fd, ok := d.(*ast.FuncDecl); ok && fd.Recv != nil && fd.Body != nil {
					_, rt := cdRecvOf(fd, info)
					for _, ct := range codecTypes {
						if rt == ct {
							decls[rt+"."+fd.Name.Name] = fd
						}
					}
				}
			}
		}
	}
	var b strings.Builder
	b.WriteString("import Got.Model.MiniGoBytes\n")
	b.WriteString("/- GENERATED by /verif/tools/srcfacts (minigo_codec.go) from the repository's current working tree on every run.\n")
	b.WriteString("   Do not edit. MiniGoBytes translations (Got/Model/MiniGoBytes.lean) of the methods of iox.OctetsStream /\n")
	b.WriteString("   OctetsWriter / OctetsReader; a construct outside the fragment makes the body empty and is named in the\n")
	b.WriteString("   `…Note` string. Names are positional: a<k> = k-th parameter, v<k> = k-th local in order of declaration,\n")
	b.WriteString("   r<k> = k-th result of a call that is returned directly. -/\n")
	b.WriteString("namespace Got.Generated.AstIox\nopen Got.Model.MiniGoBytes\n\n")
	for _, name := range codecTargets {
		b.WriteString(translateCodec(name, decls[name], info, decls, why))
		b.WriteString("\n")
	}
	b.WriteString("def fns : List (String × Fn) := [\n")
	for i, name := range codecTargets {
		sep := ","
		if i == len(codecTargets)-1 {
			sep = ""
		}
		fmt.Fprintf(&b, "  (%q, %s)%s\n", name, codecLeanName(name), sep)
	}
	b.WriteString("]\n\n/-- the function table the `call` statements are resolved in -/\ndef table (name : String) : Option Fn := fns.lookup name\n\n")
	b.WriteString("def notes : List (String × String) := [\n")
	for i, name := range codecTargets {
		sep := ","
		if i == len(codecTargets)-1 {
			sep = ""
		}
		fmt.Fprintf(&b, "  (%q, %sNote)%s\n", name, codecLeanName(name), sep)
	}
	b.WriteString("]\n\nend Got.Generated.AstIox\n")
	writeIfChanged(filepath.Join(outLean, "AstIox.lean"), []byte(b.String()))
}
