"""C02: loom.Queue is lock-free — an operation running alone from any reachable state returns within
K = 13 of its own steps (same harness/model as C01, `solo` lines)."""
import re

from . import common as C
from .runner import Spec
from .c01 import helping_or_failed, translator_extra, TRANSLATOR_TIE

K = 13


class C02(Spec):
    id = "C02"
    anchors = ["loom.Queue.Push", "loom.Queue.Pop", "loom.queueLoad", "loom.queueCas", "loom.NewQueue"]
    harness = "c02"
    tags = "verif"
    driver = "drv_msqueue"
    driver_args = ["run"]
    harness_env = {"GOMAXPROCS": "1", "MSQ_DRIVER": C.driver_path("drv_msqueue")}
    shrink_sep = " "
    rule = ("one case = program + schedule prefix (a reachable state of the real queue with the other threads frozen "
            "mid-operation) + one busy thread that is then run alone; for the explored configurations every reachable "
            "model state (shortest prefix) × every busy thread, plus STARVATION prefixes (the victim loses its link/head CAS k = 1..20 (thorough: ..64) times in a row "
            "to completing adversaries, the last one suspended between its two CASes), LONG-STALL-THEN-SOLO prefixes (the "
            "solo thread slept before a CAS / load while 130-300 (thorough: ..1100) operations completed), FROZEN-HELPERS "
            "prefixes (a pusher frozen between link and swing + k = 3..8 operations frozen before their next CAS; a fresh "
            "Push, a fresh Pop, a helper and the owner each run solo), HOT-QUEUE prefixes (1100 (thorough: ..3300) lost "
            "link-CAS races on the one queue object first), REUSED-OBJECT prefixes (long random runs on one queue) and "
            "random prefixes of larger shapes; compared: the "
            "step log of prefix and solo run and the number of solo steps (the model's measure mu must bound it). "
            "non-trivial = the solo run contains a failed CAS or a helping CAS (needs more than one loop iteration)")
    trusted_base = ["controlled scheduler harness/csched + verifYield hooks in loom/queue.go (build tag verif)",
                    "freezing the other goroutines at yield points = suspending them between two shared-memory accesses",
                    TRANSLATOR_TIE]
    assumptions = ["the scheduler is fair to the solo thread only (all other goroutines suspended)",
                   "allocation and garbage collection do not block"]

    def compare(self, impl, model):
        parts = model.split(" || ")
        if parts[0] != impl:
            return False
        if len(parts) >= 2:
            m = re.search(r"mu=(\d+)", parts[1])
            k = re.search(r"steps=(\d+)", impl)
            if m and k and not (int(k.group(1)) <= int(m.group(1)) <= K):
                return False
            if "wf=ok" not in parts[1]:
                return False
        return True

    def oracle(self, script, impl):
        if impl.startswith("panic") or impl.startswith("<"):
            return ("panic", "the harness/real code panicked or died: " + impl[:200])
        m = re.search(r" \| solo (\d+) steps=(\d+) (returned|spinning)", impl)
        if not m:
            return None
        t, k, res = int(m.group(1)), int(m.group(2)), m.group(3)
        if ":crash" in impl.partition(" | solo ")[2]:
            return ("crash", "the solo operation of thread %d panicked" % t)
        if res == "spinning":
            return ("solo-thread-spins", "thread %d, running alone from the state reached by the schedule prefix, did not "
                                         "return within %d of its own steps (others frozen)" % (t, k))
        if k > K:
            return ("solo-bound-exceeded", "thread %d needed %d own steps to return, more than K = %d" % (t, k, K))
        return None

    def extra(self, ctx):
        ex = ctx.get("ex")
        if ex and ex.get("stats", {}).get("explore_failed"):
            ctx["broken"].append({"layer": "L2", "what": "drv_msqueue explore did not produce the schedule sets "
                                                          "(transition coverage of the model's state graph not exercised)"})
        translator_extra(self, ctx)

    def nontrivial(self, script, impl):
        solo = impl.partition(" : ")[2]
        return helping_or_failed(solo.split())


SPEC = C02()
