import os

from . import common as C
from .runner import Spec


def ceil_lg(n1):  # ceil(log2(n1)) for n1 >= 1
    return (n1 - 1).bit_length()


class C14(Spec):
    id = "C14"
    anchors = ["sortx.Search"]
    harness = "c14"
    driver = "drv_search"
    rule = ("one case = one Search call on synthetic predicates (mono: sorted list given by boundary b and run of "
            "equals e; bits: arbitrary predicate bitmasks); compared: result and full probe log. distinct by script "
            "line; non-trivial = count > 0 and at least one probe")
    trusted_base = ["Go int arithmetic of `int(uint(i+j)>>1)` related to Int division by lemma C14_mid_bitvec",
                    "translator tie: tools/srcfacts (go/ast + go/types -> MiniGo term, regenerated every run) and the MiniGo "
                    "interpreter's 64-bit semantics (Got/Model/MiniGo.lean); the interpreter run on the generated term is "
                    "compared with the real code on every case of the correspondence (driver mode `ast`)"]
    assumptions = ["less/equal are pure functions of the index", "count <= 2^62 in sampled cases"]

    def oracle(self, script, impl):
        w = script.split()
        if impl.startswith("panic") or impl.startswith("<"):
            return ("panic", "Search panicked or did not return: " + impl[:200])
        parts = impl.split()
        if len(parts) < 3 or parts[0] != "r":
            return ("malformed", "unexpected harness output")
        r = int(parts[1])
        probes = parts[3:]
        n = int(w[1])
        if w[0] == "mono":
            b, e = int(w[2]), int(w[3])
            less = lambda k: k < b
            equal = lambda k: b <= k < b + e
            consistent = True
            ip_direct = max(0, min(b, n))
        else:
            lm, em = int(w[2]), int(w[3])
            ip_direct = None
            less = lambda k: (lm >> k) & 1 == 1
            equal = lambda k: (em >> k) & 1 == 1
            # consistent with a sorted list: less is a prefix; equal only on a prefix of the non-less part
            ks = list(range(n))
            lp = sum(1 for k in ks if less(k))
            consistent = all(less(k) for k in range(lp)) and not any(less(k) for k in range(lp, n))
            if consistent:
                ep = 0
                while lp + ep < n and equal(lp + ep):
                    ep += 1
                consistent = not any(equal(k) for k in range(0, lp)) and not any(equal(k) for k in range(lp + ep, n))
        for p in probes:
            k = int(p[1:])
            if not (0 <= k < max(n, 0)):
                return ("probe-out-of-range", "predicate evaluated at invalid index %d (count %d)" % (k, n))
        # "only O(log n) times": the theorem gives <= ceil(lg(n+1)) less-probes + 1 equal-probe for the current code;
        # the oracle judges the PROPERTY, so it allows a constant factor (a harmless variant with a different
        # constant is then reported by the correspondence as no-failing-input-found, not as a failing input)
        if len(probes) > 4 * ceil_lg(max(n, 0) + 1) + 8:
            return ("too-many-probes", "%d predicate evaluations for count %d (allowed 4*ceil(lg(n+1))+8 = %d)" % (
                len(probes), n, 4 * ceil_lg(max(n, 0) + 1) + 8))
        if consistent:
            if n <= 0:
                exp = -1
            else:
                ip = ip_direct
                if ip is None:
                    ip = 0
                    while ip < n and less(ip):
                        ip += 1
                exp = ip if (ip < n and equal(ip)) else -ip - 1
            if r != exp:
                return ("wrong-result", "Search returned %d, first match / ^insertion point is %d" % (r, exp))
        return None

    def extra(self, ctx):
        """second correspondence: the MiniGo interpreter on the term regenerated from /repo's source (driver mode `ast`)
        must print what the real code printed, line by line (validates translator + interpreter semantics; the Lean
        theorem C14_translated_source_refines_model ties that term to the model)."""
        ex = ctx.get("ex")
        cov = ctx["coverage"]
        note = ""
        gen = os.path.join(C.LEAN, "Got", "Generated", "AstSortx.lean")
        if os.path.exists(gen):
            for line in open(gen):
                if line.startswith("def searchNote"):
                    note = line.split(":=", 1)[1].strip().strip('"')
        cov["translation_note"] = note
        if note != "ok":
            ctx["broken"].append({"layer": "L2", "what": "translator: sortx.Search is no longer inside the MiniGo fragment (%s)" % note})
        if not ex or "build_error" in ex or not ex.get("script") or not os.path.exists(C.driver_path(self.driver)):
            return
        d = os.path.join(C.OUT, "run", "C14-ast-%d" % os.getpid())
        C.fresh_dir(d)
        try:
            sp, op = os.path.join(d, "script.txt"), os.path.join(d, "ast.txt")
            open(sp, "w").write("".join(x + "\n" for x in ex["script"]))
            rc, err = C.run_driver(self.driver, ["ast"], sp, op)
            out = open(op, errors="replace").read().split("\n")[:-1]
            bad = [(i, s, a, b) for i, (s, a, b) in enumerate(zip(ex["script"], ex["impl"], out)) if a != b]
            cov["ast_interpreter_lines"] = len(out)
            cov["ast_interpreter_mismatches"] = len(bad)
            if rc != 0 or len(out) != len(ex["script"]):
                ctx["broken"].append({"layer": "L2", "what": "driver (ast mode) failed rc=%s, %d of %d lines: %s" % (rc, len(out), len(ex["script"]), (err or "")[-300:])})
            elif bad:
                ctx["broken"].append({"layer": "L2", "what": "translated source (MiniGo interpreter) and implementation differ on %d of %d lines" % (len(bad), len(out)),
                                      "first": [{"script": s, "impl": a[:200], "ast": b[:200]} for _, s, a, b in bad[:5]]})
        finally:
            import shutil
            shutil.rmtree(d, ignore_errors=True)

    def nontrivial(self, script, impl):
        return int(script.split()[1]) > 0 and len(impl.split()) > 3


SPEC = C14()
