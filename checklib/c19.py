import hashlib
import os
import re
import shutil
import subprocess

from . import common as C
from .runner import Spec

COMMON_IV = bytes(range(16))


def unhex(s):
    return b"" if s == "-" else bytes.fromhex(s)


def parse_opts(s):
    """documented API semantics: options applied in order; empty IV ignored; default CBC + commonIV"""
    mode, iv = "cbc", COMMON_IV
    if s != "-":
        for o in s.split(","):
            if o in ("cbc", "cfb"):
                mode = o
            elif o.startswith("iv:"):
                v = bytes.fromhex(o[3:])
                if len(v) != 0:
                    iv = v
    return mode, iv


# ---- a third, pure-Python AES (FIPS-197), independent of Go's crypto/aes and of the Lean Spec.Aes ----------

def _xt(b):
    b <<= 1
    return (b ^ 0x11B) & 0xFF if b & 0x100 else b


def _gm(a, b):
    r = 0
    while b:
        if b & 1:
            r ^= a
        a = _xt(a)
        b >>= 1
    return r


def _mk_sbox():
    sb = [0] * 256
    for a in range(256):
        inv = 0
        if a:
            inv = next(x for x in range(1, 256) if _gm(a, x) == 1)
        s = inv
        for k in range(1, 5):
            s ^= ((inv << k) | (inv >> (8 - k))) & 0xFF
        sb[a] = s ^ 0x63
    return sb


_SBOX = _mk_sbox()
_M2 = [_gm(2, x) for x in range(256)]
_M3 = [_gm(3, x) for x in range(256)]


def _expand(key):
    nk = len(key) // 4
    w = [list(key[4 * i:4 * i + 4]) for i in range(nk)]
    rc = 1
    for i in range(nk, 4 * (nk + 7)):
        t = list(w[i - 1])
        if i % nk == 0:
            t = [_SBOX[t[1]] ^ rc, _SBOX[t[2]], _SBOX[t[3]], _SBOX[t[0]]]
            rc = _xt(rc)
        elif nk > 6 and i % nk == 4:
            t = [_SBOX[x] for x in t]
        w.append([w[i - nk][k] ^ t[k] for k in range(4)])
    return [sum(w[4 * r:4 * r + 4], []) for r in range(nk + 7)]


def _enc_block(rk, blk):
    s = [blk[i] ^ rk[0][i] for i in range(16)]
    nr = len(rk) - 1
    for r in range(1, nr + 1):
        s = [_SBOX[x] for x in s]
        s = [s[(i % 4) + 4 * ((i // 4 + i % 4) % 4)] for i in range(16)]
        if r != nr:
            t = []
            for c in range(4):
                a = s[4 * c:4 * c + 4]
                t += [_M2[a[0]] ^ _M3[a[1]] ^ a[2] ^ a[3], a[0] ^ _M2[a[1]] ^ _M3[a[2]] ^ a[3],
                      a[0] ^ a[1] ^ _M2[a[2]] ^ _M3[a[3]], _M3[a[0]] ^ a[1] ^ a[2] ^ _M2[a[3]]]
            s = t
        s = [s[i] ^ rk[r][i] for i in range(16)]
    return bytes(s)


def py_aes_encrypt(mode, key, iv, pt):
    """AES-CBC with PKCS#7 padding / AES-CFB128, straight from FIPS-197 and SP 800-38A"""
    rk = _expand(key)
    prev, out = iv, b""
    if mode == "cbc":
        pad = 16 - len(pt) % 16
        pt = pt + bytes([pad]) * pad
        for i in range(0, len(pt), 16):
            prev = _enc_block(rk, bytes(a ^ b for a, b in zip(pt[i:i + 16], prev)))
            out += prev
    else:
        for i in range(0, len(pt), 16):
            ks = _enc_block(rk, prev)
            prev = bytes(a ^ b for a, b in zip(pt[i:i + 16], ks))
            out += prev
    return out


assert py_aes_encrypt("cbc", bytes(range(16)), bytes(16), b"")[:0] == b"" and _enc_block(
    _expand(bytes(range(16))), bytes.fromhex("00112233445566778899aabbccddeeff")).hex() == "69c4e0d86a7b0430d8cdb78070b4c55a"  # FIPS-197 C.1


def gen_pt(n, seed):
    """plaintext of the `big` lines: pt[i] = byte(i*167 + seed*13 + (i>>8)*31)"""
    base = seed * 13
    return bytes(((i * 167 + base + (i >> 8) * 31) & 0xFF) for i in range(n))


def fnv64(b):
    h = 0xcbf29ce484222325
    for x in b:
        h = ((h ^ x) * 0x100000001b3) & 0xFFFFFFFFFFFFFFFF
    return "%016x" % h


class C19(Spec):
    id = "C19"
    anchors = ["aesx.*"]
    harness = "c19"
    driver = "drv_aes"
    shrink_sep = " ; "
    rule = ("one case = NewCipher(key, options) + Encrypt of a plaintext that is a 3-index window of a larger backing "
            "array (prefix, spare capacity, tail filled with sentinels) + Decrypt of the ciphertext placed in the same "
            "layout + 8 goroutines sharing the cipher; compared with the Lean FIPS-197 AES-CBC-PKCS7 / CFB-128: "
            "ciphertext, round trip, full backing arrays. distinct by script line; non-trivial = legal key and IV "
            "(the property's domain). `dec` lines (arbitrary ciphertexts) exercise pkcs5Trimming off the round-trip path. "
            "`big` lines: the same case for LARGE plaintexts (65535 .. 1 MiB, thorough up to 3 MiB, generated from a seed; "
            "spare capacity 0, 1, pad-1, pad, 16, 64), ciphertext compared by length + FNV-1a hash. `seq` lines and the family `enc` "
            "pairs: related keys (differing in the last byte / last 8 bytes / bytes 16.. / first byte / only in length), IVs and "
            "modes used by several cipher objects alive in one process, older ciphers re-used after newer ones were created")
    trusted_base = [
        "crypto/aes, crypto/cipher: modelled by contract (block permutation E/D; CryptBlocks = CBC, XORKeyStream = CFB-128); "
        "checked on every case against the Lean FIPS-197 implementation (known-answer tests at driver start-up), and on "
        "samples against a pure-Python FIPS-197 in checklib/c19.py (1 case in 8) and the openssl command line tool when present",
        "Go slice semantics (make = fresh array, append in place iff it fits) as encoded in Got.Model.Aes.append",
        "shared-by-goroutines: Encrypt/Decrypt are pure functions of (key, iv, input) in the model; on the code side: no "
        "assignment to a receiver field in aesx/*_cipher.go (checked textually on every run) + concurrent differential run",
    ]
    assumptions = ["the caller does not mutate the IV slice passed to WithInitialVector nor the input during the call",
                   "crypto/cipher stream objects are created per call (as in the anchored code) and not shared"]

    def __init__(self):
        self.openssl = shutil.which("openssl")
        self.openssl_checked = 0
        self.openssl_budget = 0
        self.pyaes_checked = 0
        self.openssl_big = 0
        self.pyaes_big = 0

    # ---- L3
    def oracle(self, script, impl):
        w = script.split()
        if impl.startswith("<"):
            return ("crash-or-hang", "harness produced no observation: " + impl[:200])
        if w[0] == "dec":
            return None  # arbitrary ciphertexts: outside the property (model fidelity only)
        if w[0] == "big" and len(w) == 8:
            return self.oracle_big(w, script, impl)
        if script.startswith("seq | "):
            return self.oracle_seq(script, impl)
        if w[0] != "enc" or len(w) != 7:
            return None
        mode, iv = parse_opts(w[1])
        key, pt = unhex(w[2]), unhex(w[4])
        if len(key) not in (16, 24, 32) or len(iv) != 16:
            return None  # outside the property's domain (NewCipher / the stream constructors panic)
        if impl.startswith("panic"):
            return ("panic", "Encrypt/Decrypt panicked on legal key/IV: " + impl[:200])
        f = impl.split()
        if len(f) != 12 or f[0] != "ct" or f[2] != "in" or f[4] != "arr" or f[6] != "rt" or f[8] != "darr" or f[10] != "conc":
            return ("malformed", "unexpected harness output")
        ct, rt = unhex(f[1]), unhex(f[7])
        if rt != pt:
            return ("roundtrip", "Decrypt(Encrypt(p)) != p: p=%s got %s" % (w[4], f[7]))
        want = 16 * (len(pt) // 16 + 1) if mode == "cbc" else len(pt)
        if len(ct) != want:
            return ("length", "ciphertext has %d bytes, the standard construction gives %d (%s)" % (len(ct), want, mode))
        if f[3] != "same":
            return ("input-modified", "Encrypt changed the caller's slice contents")
        if f[5] != "same":
            return ("input-modified", "Encrypt wrote to the caller's backing array outside the slice: after = " + f[5][:200])
        if f[9] != "same":
            return ("input-modified", "Decrypt wrote to the caller's backing array: after = " + f[9][:200])
        if f[11] != "ok":
            return ("concurrent-differs", "8 goroutines sharing the cipher did not reproduce the sequential answers")
        # independent implementations on deterministic samples of the cases: pure-Python FIPS-197 (1 case in 8, at most
        # 64 blocks) and the openssl command line tool when present
        if (hashlib.md5(script.encode()).digest()[1] < 32 and len(pt) <= 1024) or len(pt) <= 48:
            self.pyaes_checked += 1
            want_ct = py_aes_encrypt(mode, key, iv, pt)
            if want_ct != ct:
                return ("not-standard", "ciphertext differs from the standard AES-%d-%s construction (independent Python FIPS-197): %s vs %s"
                        % (len(key) * 8, mode.upper(), f[1][:80], want_ct.hex()[:80]))
        if self.openssl and self.openssl_checked < self.openssl_budget and hashlib.md5(script.encode()).digest()[0] < 8:
            self.openssl_checked += 1
            alg = "-aes-%d-%s" % (len(key) * 8, mode)
            try:
                p = subprocess.run([self.openssl, "enc", alg, "-K", key.hex(), "-iv", iv.hex()], input=pt,
                                   stdout=subprocess.PIPE, stderr=subprocess.PIPE, timeout=20)
                if p.returncode == 0 and p.stdout != ct:
                    return ("not-standard", "ciphertext differs from `openssl enc %s`: %s vs %s" % (alg, f[1][:80], p.stdout.hex()[:80]))
            except Exception:
                pass
        return None

    def oracle_seq(self, script, impl):
        """several ciphers alive in one process: every `use` must give the standard ciphertext for the key/IV/mode of ITS
        cipher (pure-Python FIPS-197, every use) and round-trip, whatever other ciphers were created before or after"""
        ops = script[6:].split(" ; ")
        toks = impl.split()
        if len(toks) != len(ops):
            return ("malformed", "unexpected harness output: " + impl[:200])
        env = {}
        for op, tok in zip(ops, toks):
            w = op.split()
            if len(w) == 4 and w[0] == "new":
                mode, iv = parse_opts(w[2])
                key = unhex(w[3])
                if len(key) in (16, 24, 32):
                    env[w[1]] = (mode, iv, key)
                    if tok != "n:ok":
                        return ("panic", "NewCipher failed for a legal key: " + tok)
                else:
                    env.pop(w[1], None)
            elif len(w) == 3 and w[0] == "use" and w[1] in env:
                mode, iv, key = env[w[1]]
                if len(iv) != 16:
                    continue
                pt = unhex(w[2])
                f = tok.split(":")
                if len(f) != 3 or f[0] != "u":
                    return ("panic", "Encrypt/Decrypt on cipher %s (legal key/IV) gave %s" % (w[1], tok))
                if f[2] != "same":
                    return ("roundtrip", "cipher %s: Decrypt(Encrypt(p)) != p: p=%s got %s" % (w[1], w[2], f[2]))
                self.pyaes_checked += 1
                want = py_aes_encrypt(mode, key, iv, pt)
                if unhex(f[1]) != want:
                    return ("not-standard", "cipher %s (AES-%d-%s, key %s): ciphertext %s is not the standard one %s — another cipher "
                            "object created in the same process changed the answer" % (w[1], len(key) * 8, mode.upper(), key.hex(), f[1][:64], want.hex()[:64]))
        return None

    def oracle_big(self, w, script, impl):
        """large inputs: same property, observations abbreviated (length + FNV-1a hash of the ciphertext)"""
        mode, iv = parse_opts(w[1])
        key, n, seed = unhex(w[2]), int(w[4]), int(w[5])
        if len(key) not in (16, 24, 32) or len(iv) != 16:
            return None
        if impl.startswith("panic"):
            return ("panic", "Encrypt/Decrypt panicked on legal key/IV: " + impl[:200])
        f = impl.split()
        try:
            i_in, i_arr, i_rt, i_darr, i_conc = f.index("in"), f.index("arr"), f.index("rt"), f.index("darr"), f.index("conc")
            ctlen, cthash = int(f[1]), f[2]
        except (ValueError, IndexError):
            return ("malformed", "unexpected harness output")
        desc = "%d-byte plaintext, %d bytes of spare capacity" % (n, len(unhex(w[6])))
        if f[i_rt + 1] != "ok":
            return ("roundtrip", "Decrypt(Encrypt(p)) != p for a " + desc)
        want = 16 * (n // 16 + 1) if mode == "cbc" else n
        if ctlen != want:
            return ("length", "ciphertext has %d bytes, the standard construction gives %d (%s)" % (ctlen, want, mode))
        if f[i_in + 1] != "same":
            return ("input-modified", "Encrypt changed the caller's slice contents (" + desc + ")")
        if f[i_arr + 1] != "same":
            return ("input-modified", "Encrypt wrote to the caller's backing array outside the slice (%s): first change at array "
                    "offset %s" % (desc, f[i_arr + 1][8:120]))
        if f[i_darr + 1] != "same":
            return ("input-modified", "Decrypt wrote to the caller's backing array (%s): %s" % (desc, f[i_darr + 1][:120]))
        if f[i_conc + 1] != "ok":
            return ("concurrent-differs", "8 goroutines sharing the cipher did not reproduce the sequential answers (" + desc + ")")
        # independent implementations: openssl on every large case (fast), pure-Python FIPS-197 on a few of the smaller ones
        pt = None
        if self.openssl and self.openssl_big < 200:
            self.openssl_big += 1
            pt = gen_pt(n, seed)
            alg = "-aes-%d-%s" % (len(key) * 8, mode)
            try:
                p = subprocess.run([self.openssl, "enc", alg, "-K", key.hex(), "-iv", iv.hex()], input=pt,
                                   stdout=subprocess.PIPE, stderr=subprocess.PIPE, timeout=60)
                if p.returncode == 0 and fnv64(p.stdout) != cthash:
                    return ("not-standard", "ciphertext of a %s differs from `openssl enc %s`" % (desc, alg))
            except Exception:
                pass
        if n <= 100000 and self.pyaes_big < 3 and hashlib.md5(script.encode()).digest()[1] < 64:
            self.pyaes_big += 1
            pt = pt or gen_pt(n, seed)
            if fnv64(py_aes_encrypt(mode, key, iv, pt)) != cthash:
                return ("not-standard", "ciphertext of a %s differs from the standard AES-%d-%s construction (independent Python FIPS-197)"
                        % (desc, len(key) * 8, mode.upper()))
        return None

    def nontrivial(self, script, impl):
        if script.startswith("seq | "):
            return True
        w = script.split()
        if w[0] == "big" and len(w) == 8:
            return len(unhex(w[2])) in (16, 24, 32) and len(parse_opts(w[1])[1]) == 16
        if w[0] != "enc" or len(w) != 7:
            return False
        mode, iv = parse_opts(w[1])
        return len(unhex(w[2])) in (16, 24, 32) and len(iv) == 16

    # ---- structural fact behind the "shared by goroutines" part
    def extra(self, ctx):
        self_assign = re.compile(r"\bmy\.\w+(\[[^\]]*\])?\s*(=[^=]|\+=|-=|\+\+|--|\^=|\|=|&=)")
        hits = []
        d = os.path.join(C.REPO, "aesx")
        for fn in sorted(os.listdir(d)):
            if fn.endswith(".go") and not fn.endswith("_test.go"):
                for i, line in enumerate(open(os.path.join(d, fn), errors="replace")):
                    code = line.split("//")[0]
                    if self_assign.search(code):
                        hits.append("%s:%d %s" % (fn, i + 1, code.strip()))
        ctx["coverage"]["receiver_field_writes"] = hits
        ctx["coverage"]["openssl_cross_checked"] = self.openssl_checked
        ctx["coverage"]["python_fips197_cross_checked"] = self.pyaes_checked
        ctx["coverage"]["large_inputs_cross_checked"] = {"openssl": self.openssl_big, "python_fips197": self.pyaes_big}
        if hits:
            ctx["broken"].append({"layer": "L2", "what": "a cipher method assigns to a receiver field (the model assumes Encrypt/Decrypt "
                                  "are pure, which is what makes sharing between goroutines safe): %s" % hits[:3]})


SPEC = C19()


def run(spec, tier, seed, replay):
    from . import runner
    spec.openssl_budget = 60 if tier == "quick" else 600
    return runner.run(spec, tier, seed, replay)
