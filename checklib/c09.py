from .runner import Spec


def _sections(impl):
    secs = {}
    for part in impl.split(" | "):
        w = part.split()
        if w:
            secs[w[0]] = w[1:]
    return secs


def pair_of(code, v):
    return "%s/%s" % (v if code % 2 == 1 else "nil", v if (code // 2) % 2 == 1 else "nil")


class C09(Spec):
    id = "C09"
    anchors = ["taskx.Queue.SendTask", "taskx.Queue.SendCallback", "taskx.Queue.checkQueueFull", "taskx.NewQueue",
               "taskx.taskCallback.*", "taskx.taskEmpty.*", "taskx.createOptions", "taskx.WithSize", "taskx.WithCloseChan"]
    harness = "c09"
    tags = "faketime"
    driver = "drv_taskq"
    monitor = True
    harness_env = {"GOMAXPROCS": "1"}
    shrink_sep = " ; "
    rule = ("one case = one timed scenario under the Go runtime's virtual clock: K in 1..8, 1-4 producer goroutines x <= 20 sends "
            "(queue built by NewQueue from an explicit option list — WithSize(<=0/1/n, repeated), WithCloseChan(nil/real), WithErrorLogger(nil/real/omitted) in random order, effective capacity / close channel / logger computed by Got.Model.TaskQ.createOptions —; SendCallback with handler results of 4 scalar and 13 typed shapes — typed nil pointer/map/slice/chan/func, pointer, struct, array, string, error-typed, slice, map, each without/with err; nil handler, SendTask(user task), SendTask(nil), SendTask of a task sent before (possibly already executed) and of a taskEmpty, double Do) at scripted instants, one "
            "consumer with a scripted delay per task, optional close (mid-run, exactly at a send instant, early) and optional consumer "
            "stop. compared: every send's begin/return instant and branch, receive sequence with instants, handler executions, Get2 "
            "values rendered with dynamic type / pointer identity and the instants they unblock, Get1 vs Get2, late Get2, panics inside Do, number of 'queue is full' log lines, tasks left in C. The driver runs the "
            "same scenario as a timed execution of Got.Model.TaskQ (every transition through TaskQ.step); where the model is "
            "nondeterministic (select with both branches ready) the branch is taken from the observation (trace inclusion). "
            "Additional ORACLE-ONLY class `stress`: real goroutines on 4 Ps (still under the fake clock), s senders released from a "
            "spin barrier against a queue with 0/1/2 free slots, stopped or slow consumer, then close; per round: no sender stuck "
            "after close, accepted-while-open tasks come out exactly once, Get2 correct; the model allows every outcome of this "
            "race, the driver answers `ok oracle-only`; rounds and outcome distribution are in the statistics (stress_*). "
            "non-trivial = at least one send blocked on a full buffer or a close happened with sends after it")
    trusted_base = ["Go channel FIFO, select and WaitGroup semantics as encoded in Got.Model.TaskQ (modelled, not verified)",
                    "Go runtime faketime clock; blocked senders are served in the order they blocked (driver scheduling policy only; "
                    "the LTS allows any order)"]
    assumptions = ["each producer goroutine sends sequentially", "one consumer goroutine; it calls Do once per received task "
                   "(twice in the cd scenarios, where only the first result is promised to getters)",
                   "handlers do not panic"]

    # ---- L3: the property itself, judged on the implementation's observation only
    def oracle(self, script, impl):
        if impl.startswith("panic") or impl.startswith("<"):
            return ("panic", "harness panicked or hung: " + impl[:200])
        if script.startswith("stress "):
            # oracle-only class: real goroutines on several Ps race for the last free slots, then close
            f = dict(x.split("=", 1) for x in impl.split() if "=" in x)
            if not impl.startswith("stress rounds="):
                return ("malformed", "unexpected stress output: " + impl[:200])
            for key, sig, what in (("stuck", "stuck-after-close", "a sender had not returned after close (blocked for good)"),
                                   ("dropped", "dropped-open", "a task whose send returned while the queue was open never came out of C"),
                                   ("twice", "twice", "a task came out of C twice"),
                                   ("getwrong", "get-wrong", "Get2 of an executed task did not return the handler's result"),
                                   ("overfull", "overfull", "more sends were accepted than there were free slots")):
                if int(f.get(key, "0")) > 0:
                    return (sig, "%s in %s of %s rounds; first: %s" % (what, f[key], f.get("rounds"), f.get("first")))
            return None
        if " | " not in script:
            return None
        head, body = script.split(" | ", 1)
        hw = head.split()
        try:
            close = None if hw[4] == "-" else int(hw[4])
        except (IndexError, ValueError):
            return ("malformed", "bad script")
        sec = _sections(impl)
        if "S" not in sec or "R" not in sec:
            return ("malformed", "unexpected harness output: " + impl[:200])
        sends = {}
        order = []
        for w in sec["S"]:
            t, kind, tb, tr, out = w.split(":")
            sends[t] = dict(kind=kind, tb=None if tb == "-" else int(tb), tr=None if tr == "-" else int(tr), out=out)
            order.append(t)
            if out == "panic":
                return ("send-panic", "send %s (%s) begun at %s panicked; the task was never handed over" % (t, kind, tb))
        # every send carries a task: the one it created, or (rs<j>) the one created by the same producer's send #j;
        # re<j> re-sends a taskEmpty, which has no identity (label E)
        def task_of(t):
            k = sends[t]["kind"]
            if k.startswith("rs"):
                return "%s.%s" % (t.split(".")[0], k[2:])
            if k.startswith("re"):
                return "E"
            return t
        recv = []
        for w in sec["R"]:
            lab, at = w.split("@")
            recv.append((lab.split("^")[0], int(at), "^" in lab))
        left = sec.get("L", [])
        arrivals = {}
        for t, _, _ in recv:
            arrivals[t] = arrivals.get(t, 0) + 1
        for t in left:
            arrivals[t] = arrivals.get(t, 0) + 1
        sent_all, sent_open = {}, {}
        for t in order:
            s = sends[t]
            if s["kind"] in ("nil", "tn") or s["tb"] is None:
                continue
            k = task_of(t)
            sent_all[k] = sent_all.get(k, 0) + 1
            if s["tr"] is not None and (close is None or s["tr"] < close):
                sent_open[k] = sent_open.get(k, 0) + 1
        # exactly once per send, nothing invented
        for k, n in arrivals.items():
            if k != "E" and k not in sends:
                return ("unknown-task", "received %s which was never sent" % k)
            if n > sent_all.get(k, 0):
                return ("twice", "task %s came out of the channel %d times but was sent %d time(s)" % (k, n, sent_all.get(k, 0)))
        # none dropped while open (also a re-sent, already executed task and a re-sent taskEmpty go through C again)
        for k, n in sent_open.items():
            if arrivals.get(k, 0) < n:
                return ("dropped-open", "task %s: %d send(s) returned while the queue was open (close=%s) but it came out of C only %d time(s)"
                        % (k, n, close, arrivals.get(k, 0)))
        # per-producer order of what came out of the channel (first arrivals of tasks created by the producer)
        last = {}
        for t in [x for x, _, again in recv if not again and x != "E"] + [x for x in left if x != "E"]:
            p, i = t.split(".")
            i = int(i)
            if p in last and i < last[p]:
                return ("order", "producer %s: send #%d came out of the channel after #%d" % (p, i, last[p]))
            last[p] = max(last.get(p, -1), i)
        # a send never blocks after close
        for t in order:
            s = sends[t]
            if s["kind"] in ("nil", "tn"):
                if s["tr"] != s["tb"]:
                    return ("nil-blocked", "send %s (%s) did not return at once" % (t, s["kind"]))
                continue
            if s["tb"] is None:
                continue
            if s["tr"] is None:
                if close is not None and s["out"] != "notask":
                    return ("blocked-after-close", "send %s begun at %d never returned although the queue was closed at %d" % (t, s["tb"], close))
                continue
            if close is not None and s["tr"] > max(close, s["tb"]):
                return ("blocked-after-close", "send %s begun at %d returned only at %d; closed at %d" % (t, s["tb"], s["tr"], close))
        # Get1/Get2 = EXACTLY what the handler returned (dynamic type, value, pointer identity), not before the execution.
        # X entries are rendered by the handler itself at its return; G/H by the clients from what Get1/Get2 gave them.
        execs = {}
        for w in sec.get("X", []):
            t, rest = w.split("@", 1)
            if t == "E":
                continue
            if rest.endswith("!panic"):
                return ("do-panic", "Do panicked while the consumer executed task %s (at %s)" % (t, rest[:-6]))
            at, val = rest.split("=", 1)
            execs.setdefault(t, []).append((int(at), val))
        for w in sec.get("G", []):
            t, rest = w.split("@", 1)
            if t not in sends:
                return ("malformed", "G entry for unknown send")
            kind = sends[t]["kind"]
            if kind == "nil":
                if not rest.endswith("=nil/nil"):
                    return ("nil-handler", "SendCallback(nil) did not yield an already-completed empty task: " + w)
                continue
            if rest == "-":
                if t in execs:
                    return ("get-blocked", "Get2 of %s never returned although the task was executed at %d" % (t, execs[t][0][0]))
                continue
            at, val = rest.split("=", 1)
            at = int(at)
            if t not in execs:
                return ("get-early", "Get2 of %s returned %s at %d but the consumer never executed the task" % (t, val, at))
            e_at, e_val = execs[t][0]
            if at < e_at:
                return ("get-early", "Get2 of %s returned at %d, before the handler finished at %d" % (t, at, e_at))
            if "~get1:" in val:
                return ("get1-differs", "Get1 of %s returned %s, Get2 returned %s" % (t, val.split("~get1:")[1], val.split("~get1:")[0]))
            if val != e_val and not (kind.startswith("cd") and len(execs[t]) > 1 and val == execs[t][1][1]):
                return ("get-wrong", "Get2 of %s returned %s, the handler returned %s" % (t, val, e_val))
            if at != e_at:
                return ("get-late", "Get2 of %s returned at %d, the handler finished at %d" % (t, at, e_at))
        for w in sec.get("H", []):
            t, val = w.split("=", 1)
            if val == "-" or t not in execs:
                continue
            if val != execs[t][-1][1]:
                return ("get-wrong", "final Get2 of %s returned %s, last execution returned %s" % (t, val, execs[t][-1][1]))
        return None

    def extra(self, ctx):
        """count the lines the monitor did not judge: `ok unchecked …` (an exploration / search limit of the driver was
        reached — such a line is never rejected, only the oracle judged it) and `ok oracle-only` (stress lines)"""
        ex = ctx.get("ex") or {}
        model = ex.get("model") or []
        ctx["coverage"]["monitor_unchecked_lines"] = sum(1 for m in model if m.startswith("ok unchecked"))
        ctx["coverage"]["monitor_oracle_only_lines"] = sum(1 for m in model if m.startswith("ok oracle-only"))
        ctx["coverage"]["monitor_tie_order_lines"] = sum(1 for m in model if m.startswith("ok tie-order"))

    def nontrivial(self, script, impl):
        if script.startswith("stress "):
            return True
        sec = _sections(impl)
        for w in sec.get("S", []):
            f = w.split(":")
            if len(f) == 5 and f[2] != "-" and f[3] != "-" and f[2] != f[3]:
                return True
            if len(f) == 5 and f[4] == "abort":
                return True
        return False


SPEC = C09()
