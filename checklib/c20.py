import functools
import math
import struct
from fractions import Fraction

from .runner import Spec

def f64(bits_hex):
    return struct.unpack(">d", int(bits_hex, 16).to_bytes(8, "big"))[0]


def fields(words):
    d = {}
    for t in words:
        if "=" in t:
            k, v = t.split("=", 1)
            d[k] = v
    return d


def flist(s):
    return [f64(t) for t in s.split(",")] if s else []


def mant_exp(u):
    fr, e = math.frexp(u)           # u = fr * 2^e exactly, fr in [0.5, 1)
    return int(fr * (1 << 53)), e - 53


def cmp_exact(ui, ci, uj, cj):
    """sign of u_i^(1/(c_i s)) - u_j^(1/(c_j s)) = sign of u_i^c_j - u_j^c_i (exact integer arithmetic)"""
    mi, ei = mant_exp(ui)
    mj, ej = mant_exp(uj)
    a, b = mi ** cj, mj ** ci
    ea, eb = ei * cj, ej * ci
    if ea > eb:
        a <<= ea - eb
    else:
        b <<= eb - ea
    return (a > b) - (a < b)


def sigma_ok(count, trials, p):
    pf = float(p)
    tol = 6 * math.sqrt(trials * pf * (1 - pf)) + 6
    return abs(count - trials * pf) <= tol, trials * pf, tol


class C20(Spec):
    id = "C20"
    anchors = ["randx.WeightedSampling", "randx.sampleHeap.*"]
    harness = "c20"
    driver = "drv_sample"
    shrink_sep = " ; "
    rule = ("one ws case = one WeightedSampling(m, n, w) call on a re-seeded math/rand stream whose n uniform draws the "
            "harness reproduces; the Lean model gets the ORDER RANKS of the n keys and must return the same index slice. "
            "kind=ex: ranks computed exactly (big integers, u_i^c_j vs u_j^c_i for w_i = c_i*scale, scale over 12 magnitudes "
            "from 5e-324 to 1e300), near-ties dropped; kind=perm/tie: weights arranged so that the float keys realise a "
            "prescribed strict / weak order (every permutation and every weak order exhaustively for small n, all m); "
            "kind=off: weights 0/+Inf/negative (keys -Inf/+Inf/NaN). wseq lines: a call whose getWeight panics at index 0/1/k/n-1 "
            "(or nil callback, or invalid arguments), recovered by the caller, followed in the same process by valid calls, every "
            "valid call judged and compared as a ws case (the model is stateless). stat lines: seeded frequency test, 6 sigma. "
            "distinct by script line; non-trivial = 1 <= m <= n and n >= 2")
    trusted_base = [
        "container/heap: transcribed in Got.Model.GoHeap (not trusted by contract); math/rand, math.Log: outside the model — "
        "the keys are inputs of the model, the float key computation is covered by the exact-rank comparison and the statistical test only",
        "the Efraimidis–Spirakis law (P[index i] = w_i/sum w for m = 1) is NOT proved in Lean; it is checked statistically (6 sigma, seeded)",
    ]
    assumptions = ["getWeight returns strictly positive finite weights (property domain); other weights only exercise model fidelity",
                   "math/rand global stream is not used concurrently during a call (harness is single-threaded)"]

    def compare(self, impl, model):
        if model == "freq ok":
            return impl.startswith("freq ")   # the model has nothing to say about frequencies; the oracle judges them
        return impl == model

    # ---- L3
    def oracle(self, script, impl):
        w = script.split()
        if impl.startswith("<"):
            return ("crash-or-hang", "harness produced no observation: " + impl[:200])
        if w[0] == "stat":
            return self.oracle_stat(w, impl)
        if script.startswith("wseq | "):
            return self.oracle_seq(script, impl)
        if w[0] != "ws":
            return None
        return self.oracle_ws(w, impl)

    def oracle_seq(self, script, impl):
        """calls made one after the other in one process: every VALID call is judged exactly like a `ws` line, whatever
        happened before it (a recovered panic in an earlier call must not influence it)"""
        calls = script[7:].split(" ; ")
        answers = impl.split(" ; ")
        if len(answers) != len(calls):
            return ("malformed", "unexpected harness output: " + impl[:200])
        before = []
        for call, ans in zip(calls, answers):
            w = call.split()
            if w and w[0] == "v":
                o = self.oracle_ws(["ws"] + w[1:], ans)
                if o is not None:
                    ctx = (" [call #%d of the line; earlier calls in the same process: %s]" % (len(before) + 1, "; ".join(before))) if before else ""
                    return (o[0], "WeightedSampling(%s, %d, ..) returned `%s`: %s%s" % (w[2], len(w[3][2:].split(",")), ans, o[1], ctx))
                before.append("valid call -> " + ans)
            else:
                before.append("%s -> %s" % (" ".join(w[:1] + w[2:] if w and w[0] == "pw" else w), ans))
        return None

    def oracle_ws(self, w, impl):
        f = fields(w[3:])
        m = int(w[2])
        weights, us = flist(f.get("w", "")), flist(f.get("u", ""))
        n = int(f["n"]) if "n" in f else len(weights)
        if not (1 <= m <= n):
            return None  # outside the property's domain (the code panics)
        if impl == "stream-mismatch":
            return ("harness-stream", "math/rand did not reproduce the recorded uniform draws (rand.Seed ineffective?)")
        if not impl.startswith("r"):
            return ("panic", "WeightedSampling(%d, %d, ..) did not return a result: %s" % (m, n, impl[:200]))
        try:
            res = [int(x) for x in impl.split()[1:]]
        except ValueError:
            return ("malformed", "unexpected harness output")
        if len(res) != m:
            return ("invalid-result", "returned %d indices, sampleNum = %d" % (len(res), m))
        if any(not (0 <= x < n) for x in res):
            return ("invalid-result", "index out of [0,%d): %s" % (n, res))
        if len(set(res)) != len(res):
            return ("invalid-result", "duplicate index in %s" % res)
        kind = f.get("kind", "")
        if kind == "off" or any(not (x > 0 and math.isfinite(x)) for x in weights) or any(not (0 < u < 1) for u in us):
            return None  # weights outside the property's domain: validity only
        sig = "not-top-m"
        if kind == "ex" and "c" in f:
            cs = [int(x) for x in f["c"].split(",")]
            # self-consistency of the line: weights proportional to c
            if any(abs(weights[i] * cs[0] - weights[0] * cs[i]) > 1e-12 * abs(weights[0] * cs[i]) for i in range(n)):
                return None
            order = sorted(range(n), key=functools.cmp_to_key(lambda i, j: cmp_exact(us[i], cs[i], us[j], cs[j])))
            top = set(order[n - m:])
            if set(res) != top:
                return (sig, "result %s is not the set of the %d largest exact keys u_i^(1/w_i): %s" % (sorted(res), m, sorted(top)))
            return None
        # prescribed-order kinds: judge with an independent float evaluation, only outside a safety margin
        try:
            K = [math.log(weights[i]) - math.log(-math.log(us[i])) for i in range(n)]
        except ValueError:
            return None
        thr = sorted(K)[n - m]
        must = {i for i in range(n) if K[i] > thr + 1e-6}
        mustnot = {i for i in range(n) if K[i] < thr - 1e-6}
        if not must <= set(res) or set(res) & mustnot:
            return (sig, "result %s: indices %s have keys clearly above the %d-th largest and must be selected, %s clearly below and must not"
                    % (sorted(res), sorted(must), m, sorted(set(res) & mustnot)))
        return None

    def oracle_stat(self, w, impl):
        f = fields(w[4:])
        trials, m = int(w[2]), int(w[3])
        weights = flist(f.get("w", ""))
        n = len(weights)
        if not impl.startswith("freq "):
            return ("panic", "statistical run did not complete: " + impl[:200])
        fi = fields(impl.split())
        counts = {}
        if fi.get("c", "-") != "-":
            for t in fi["c"].split(","):
                k, v = t.split(":")
                counts[int(k)] = int(v)
        if sum(counts.values()) != trials:
            return ("invalid-result", "statistical run aborted: " + impl[:200])
        W = sum(Fraction(x) for x in weights)
        p = [Fraction(x) / W for x in weights]
        exp = {}
        if m == 1:
            for i in range(n):
                exp[1 << i] = p[i]
        elif m == 2:
            for i in range(n):
                for j in range(i + 1, n):
                    exp[(1 << i) | (1 << j)] = p[i] * p[j] / (1 - p[i]) + p[j] * p[i] / (1 - p[j])
        else:
            return None
        sig = "law-frequency"
        for k in sorted(set(exp) | set(counts)):
            if k not in exp:
                return ("invalid-result", "index set %s (bitmask) is not a valid result for m=%d n=%d" % (bin(k), m, n))
            ok, want, tol = sigma_ok(counts.get(k, 0), trials, exp[k])
            if not ok:
                return (sig, "weights %s, m=%d, %d seeded draws: index set %s returned %d times, expected %.1f +- %.1f (6 sigma); counts %s"
                        % (weights, m, trials, bin(k), counts.get(k, 0), want, tol, fi.get("c")))
        return None

    def nontrivial(self, script, impl):
        w = script.split()
        if w[0] == "stat" or w[0] == "wseq":
            return True
        if w[0] != "ws":
            return False
        f = fields(w[3:])
        n = int(f["n"]) if "n" in f else (len(f.get("w", "").split(",")) if f.get("w") else 0)
        return 1 <= int(w[2]) <= n and n >= 2


SPEC = C20()
