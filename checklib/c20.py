import functools
import math
import os
import re
import struct
from fractions import Fraction

from . import common as C
from .runner import Spec

def f64(bits_hex):
    return struct.unpack(">d", int(bits_hex, 16).to_bytes(8, "big"))[0]


def fields(words):
    d = {}
    for t in words:
        if "=" in t:
            k, v = t.split("=", 1)
            d[k] = v
    return d


def flist(s):
    return [f64(t) for t in s.split(",")] if s else []


def mant_exp(u):
    fr, e = math.frexp(u)           # u = fr * 2^e exactly, fr in [0.5, 1)
    return int(fr * (1 << 53)), e - 53


def cmp_exact(ui, ci, uj, cj):
    """sign of u_i^(1/(c_i s)) - u_j^(1/(c_j s)) = sign of u_i^c_j - u_j^c_i (exact integer arithmetic)"""
    mi, ei = mant_exp(ui)
    mj, ej = mant_exp(uj)
    a, b = mi ** cj, mj ** ci
    ea, eb = ei * cj, ej * ci
    if ea > eb:
        a <<= ea - eb
    else:
        b <<= eb - ea
    return (a > b) - (a < b)


def sigma_ok(count, trials, p):
    pf = float(p)
    tol = 6 * math.sqrt(trials * pf * (1 - pf)) + 6
    return abs(count - trials * pf) <= tol, trials * pf, tol


class C20(Spec):
    id = "C20"
    anchors = ["randx.WeightedSampling", "randx.sampleHeap.*"]
    harness = "c20"
    driver = "drv_sample"
    shrink_sep = " ; "
    rule = ("one ws case = one WeightedSampling(m, n, w) call on a re-seeded math/rand stream whose n uniform draws the "
            "harness reproduces; the Lean model gets the ORDER RANKS of the n keys and must return the same index slice. "
            "kind=ex: ranks computed exactly (big integers, u_i^c_j vs u_j^c_i for w_i = c_i*scale, scale over 12 magnitudes "
            "from 5e-324 to 1e300), near-ties dropped; kind=perm/tie: weights arranged so that the float keys realise a "
            "prescribed strict / weak order (every permutation and every weak order exhaustively for small n, all m); "
            "kind=off: weights 0/+Inf/negative (keys -Inf/+Inf/NaN). wseq lines: a call whose getWeight panics at index 0/1/k/n-1 "
            "(or nil callback, or invalid arguments), recovered by the caller, followed in the same process by valid calls, every "
            "valid call judged and compared as a ws case (the model is stateless). stat lines: seeded frequency test, 6 sigma. "
            "distinct by script line; non-trivial = 1 <= m <= n and n >= 2")
    trusted_base = [
        "container/heap: transcribed in Got.Model.GoHeap (not trusted by contract); math/rand, math.Log: outside the model — "
        "the keys are inputs of the model, the float key computation is covered by the exact-rank comparison and the statistical test only",
        "the Efraimidis–Spirakis law (P[index i] = w_i/sum w for m = 1) is NOT proved in Lean; it is checked statistically (6 sigma, seeded)",
        "translator tie of container/heap: tools/srcfacts/minigo_heap.go (go/ast + go/types on $GOROOT/src/container/heap/heap.go of the "
        "toolchain that builds the harness -> MiniGoHeap terms of up, down, Init, Push, Pop, Remove, Fix, regenerated every run into "
        "Got/Generated/AstContainerHeap.lean), the MiniGoHeap interpreter's reading of Go (Got/Model/MiniGoHeap.lean) and the slice-backed "
        "heap.Interface world (Got/Model/HeapAstWorld.lean); the WeightedSampling loop over the INTERPRETED heap terms "
        "(Got/Model/SampleAst.lean, loop glue hand-written) is compared with the real code on every valid call (driver mode `ast`); "
        "the world itself is built from the methods of randx.sampleHeap re-read every run (tools/srcfacts/minigo_iface.go -> "
        "Got/Generated/AstRandxSampleHeap.lean, semantics Got/Model/MiniGoIface.lean) and proved equal to the slice-backed world; "
        "the body of WeightedSampling is re-described every run as well (tools/srcfacts/minigo_sample.go -> Got/Generated/AstRandxSampling.lean, "
        "interpreter Got/Model/MiniGoSampleLoop.lean: integer control flow as written, the float key computation = the input key of that index, "
        "heap calls and result slice as abstract statements); `drv_sample ast` runs exactly this composition",
    ]
    assumptions = ["getWeight returns strictly positive finite weights (property domain); other weights only exercise model fidelity",
                   "math/rand global stream is not used concurrently during a call (harness is single-threaded)"]

    def compare(self, impl, model):
        if model == "freq ok":
            return impl.startswith("freq ")   # the model has nothing to say about frequencies; the oracle judges them
        return impl == model

    # ---- L3
    def oracle(self, script, impl):
        w = script.split()
        if impl.startswith("<"):
            return ("crash-or-hang", "harness produced no observation: " + impl[:200])
        if w[0] == "stat":
            return self.oracle_stat(w, impl)
        if script.startswith("wseq | "):
            return self.oracle_seq(script, impl)
        if w[0] != "ws":
            return None
        return self.oracle_ws(w, impl)

    def oracle_seq(self, script, impl):
        """calls made one after the other in one process: every VALID call is judged exactly like a `ws` line, whatever
        happened before it (a recovered panic in an earlier call must not influence it)"""
        calls = script[7:].split(" ; ")
        answers = impl.split(" ; ")
        if len(answers) != len(calls):
            return ("malformed", "unexpected harness output: " + impl[:200])
        before = []
        for call, ans in zip(calls, answers):
            w = call.split()
            if w and w[0] == "v":
                o = self.oracle_ws(["ws"] + w[1:], ans)
                if o is not None:
                    ctx = (" [call #%d of the line; earlier calls in the same process: %s]" % (len(before) + 1, "; ".join(before))) if before else ""
                    return (o[0], "WeightedSampling(%s, %d, ..) returned `%s`: %s%s" % (w[2], len(w[3][2:].split(",")), ans, o[1], ctx))
                before.append("valid call -> " + ans)
            else:
                before.append("%s -> %s" % (" ".join(w[:1] + w[2:] if w and w[0] == "pw" else w), ans))
        return None

    def oracle_ws(self, w, impl):
        f = fields(w[3:])
        m = int(w[2])
        weights, us = flist(f.get("w", "")), flist(f.get("u", ""))
        n = int(f["n"]) if "n" in f else len(weights)
        if not (1 <= m <= n):
            return None  # outside the property's domain (the code panics)
        if impl == "stream-mismatch":
            return ("harness-stream", "math/rand did not reproduce the recorded uniform draws (rand.Seed ineffective?)")
        if not impl.startswith("r"):
            return ("panic", "WeightedSampling(%d, %d, ..) did not return a result: %s" % (m, n, impl[:200]))
        try:
            res = [int(x) for x in impl.split()[1:]]
        except ValueError:
            return ("malformed", "unexpected harness output")
        if len(res) != m:
            return ("invalid-result", "returned %d indices, sampleNum = %d" % (len(res), m))
        if any(not (0 <= x < n) for x in res):
            return ("invalid-result", "index out of [0,%d): %s" % (n, res))
        if len(set(res)) != len(res):
            return ("invalid-result", "duplicate index in %s" % res)
        kind = f.get("kind", "")
        # ---- BEGIN large populations (kind=big: compact weight description, harness/cmd/c20/big.go), judged in c20_big.py
        if kind == "big":
            from . import c20_big
            return c20_big.oracle_big(w, f, impl, res)
        # ---- END large populations
        if kind == "off" or any(not (x > 0 and math.isfinite(x)) for x in weights) or any(not (0 < u < 1) for u in us):
            return None  # weights outside the property's domain: validity only
        sig = "not-top-m"
        if kind == "ex" and "c" in f:
            cs = [int(x) for x in f["c"].split(",")]
            # self-consistency of the line: weights proportional to c
            if any(abs(weights[i] * cs[0] - weights[0] * cs[i]) > 1e-12 * abs(weights[0] * cs[i]) for i in range(n)):
                return None
            order = sorted(range(n), key=functools.cmp_to_key(lambda i, j: cmp_exact(us[i], cs[i], us[j], cs[j])))
            top = set(order[n - m:])
            if set(res) != top:
                return (sig, "result %s is not the set of the %d largest exact keys u_i^(1/w_i): %s" % (sorted(res), m, sorted(top)))
            return None
        # prescribed-order kinds: judge with an independent float evaluation, only outside a safety margin
        try:
            K = [math.log(weights[i]) - math.log(-math.log(us[i])) for i in range(n)]
        except ValueError:
            return None
        thr = sorted(K)[n - m]
        must = {i for i in range(n) if K[i] > thr + 1e-6}
        mustnot = {i for i in range(n) if K[i] < thr - 1e-6}
        if not must <= set(res) or set(res) & mustnot:
            return (sig, "result %s: indices %s have keys clearly above the %d-th largest and must be selected, %s clearly below and must not"
                    % (sorted(res), sorted(must), m, sorted(set(res) & mustnot)))
        return None

    def oracle_stat(self, w, impl):
        f = fields(w[4:])
        trials, m = int(w[2]), int(w[3])
        weights = flist(f.get("w", ""))
        n = len(weights)
        if not impl.startswith("freq "):
            return ("panic", "statistical run did not complete: " + impl[:200])
        fi = fields(impl.split())
        counts = {}
        if fi.get("c", "-") != "-":
            for t in fi["c"].split(","):
                k, v = t.split(":")
                counts[int(k)] = int(v)
        if sum(counts.values()) != trials:
            return ("invalid-result", "statistical run aborted: " + impl[:200])
        W = sum(Fraction(x) for x in weights)
        p = [Fraction(x) / W for x in weights]
        exp = {}
        if m == 1:
            for i in range(n):
                exp[1 << i] = p[i]
        elif m == 2:
            for i in range(n):
                for j in range(i + 1, n):
                    exp[(1 << i) | (1 << j)] = p[i] * p[j] / (1 - p[i]) + p[j] * p[i] / (1 - p[j])
        else:
            return None
        sig = "law-frequency"
        for k in sorted(set(exp) | set(counts)):
            if k not in exp:
                return ("invalid-result", "index set %s (bitmask) is not a valid result for m=%d n=%d" % (bin(k), m, n))
            ok, want, tol = sigma_ok(counts.get(k, 0), trials, exp[k])
            if not ok:
                return (sig, "weights %s, m=%d, %d seeded draws: index set %s returned %d times, expected %.1f +- %.1f (6 sigma); counts %s"
                        % (weights, m, trials, bin(k), counts.get(k, 0), want, tol, fi.get("c")))
        return None

    AST_FUNCS = ("h_up", "h_down", "h_Init", "h_Push", "h_Pop", "h_Remove", "h_Fix")

    def extra(self, ctx):
        """second correspondence: WeightedSampling over the MiniGoHeap interpretation of the container/heap terms regenerated
        from GOROOT (driver mode `ast`) must print what the real code printed on every line (validates translator +
        interpreter; the Lean theorems C20_translated_source_* tie those terms to the model)."""
        ex = ctx.get("ex")
        cov = ctx["coverage"]
        notes = {}
        gen = os.path.join(C.LEAN, "Got", "Generated", "AstContainerHeap.lean")
        if os.path.exists(gen):
            for m in re.finditer(r'^def (\w+)Note : String := "((?:[^"\\]|\\.)*)"', open(gen).read(), re.M):
                notes[m.group(1)] = m.group(2)
        bad_notes = {f: notes.get(f, "<no translation>") for f in self.AST_FUNCS if notes.get(f) != "ok"}
        geni = os.path.join(C.LEAN, "Got", "Generated", "AstRandxSampleHeap.lean")
        others = re.findall(r'\(\.other "((?:[^"\\]|\\.)*)"\)', open(geni).read()) if os.path.exists(geni) else ["<no translation>"]
        if others:
            bad_notes["sampleHeap methods"] = others
        genl = os.path.join(C.LEAN, "Got", "Generated", "AstRandxSampling.lean")
        ml = re.search(r'^def weightedSamplingNote : String := "((?:[^"\\]|\\.)*)"', open(genl).read(), re.M) if os.path.exists(genl) else None
        if not ml or ml.group(1) != "ok":
            bad_notes["WeightedSampling body"] = ml.group(1) if ml else "<no translation>"
        cov["translation_notes"] = "ok" if not bad_notes else bad_notes
        if bad_notes:
            ctx["broken"].append({"layer": "L2", "what": "translator: container/heap / sampleHeap methods no longer inside the fragments: %s" % bad_notes})
        if not ex or "build_error" in ex or not ex.get("script") or not os.path.exists(C.driver_path(self.driver)):
            return
        d = os.path.join(C.OUT, "run", "C20-ast-%d" % os.getpid())
        C.fresh_dir(d)
        try:
            sp, op = os.path.join(d, "script.txt"), os.path.join(d, "ast.txt")
            open(sp, "w").write("".join(x + "\n" for x in ex["script"]))
            rc, err = C.run_driver(self.driver, ["ast"], sp, op)
            out = open(op, errors="replace").read().split("\n")[:-1]
            impl = ex["impl"]
            pairs = [(s, impl[i] if i < len(impl) else "<none>", a) for i, (s, a) in enumerate(zip(ex["script"], out))]
            bad = [(s, a, b) for s, a, b in pairs if not self.compare(a, b)]
            cov["ast_interpreter_lines"] = len(pairs)
            cov["ast_interpreter_mismatches"] = len(bad)
            if rc != 0 or len(out) != len(ex["script"]):
                ctx["broken"].append({"layer": "L2", "what": "driver (ast mode) failed rc=%s, %d of %d lines: %s" % (rc, len(out), len(ex["script"]), (err or "")[-300:])})
            elif bad:
                ctx["broken"].append({"layer": "L2", "what": "WeightedSampling over the interpreted container/heap terms and the implementation differ on %d of %d lines" % (len(bad), len(pairs)),
                                      "first": [{"script": s[:300], "impl": a[:200], "ast": b[:200]} for s, a, b in bad[:5]]})
        finally:
            import shutil
            shutil.rmtree(d, ignore_errors=True)

    def nontrivial(self, script, impl):
        w = script.split()
        if w[0] == "stat" or w[0] == "wseq":
            return True
        if w[0] != "ws":
            return False
        f = fields(w[3:])
        n = int(f["n"]) if "n" in f else (len(f.get("w", "").split(",")) if f.get("w") else 0)
        return 1 <= int(w[2]) <= n and n >= 2


SPEC = C20()
