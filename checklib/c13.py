"""C13 — iox.Buffer / iox.OctetsStream are seekable FIFO byte streams for any op sequence.

L3 oracle = a pure reference that never looks at the Lean model: it keeps the full write history W since
the last Reset, the cursor c (index into W of the next unread byte) and the retained start r (index into W
of position 0), and judges the implementation's own observations:
  * unread portion (Bytes / String / Len, and the data every Read / Next / ReadByte returns) == W[c:...]
  * Write / Grow / Tidy (and reads) may move r forward (compaction) but never change W[c:]
  * Seek either fails with nothing changed, or reports a position p with 0 <= p <= |W|-r and then the
    unread portion is W[r+p:]
  * no call panics (non-negative sizes), the cursor stays inside the retained data.
r is not predicted (that would be the grow policy = the model's job); it is inferred from the observed
cursor after each op and only required to be monotone and <= c.
"""
import array
import os
import re
import sys
import zlib

from . import common as C
from .runner import Spec


def rd(b):
    if len(b) == 0:
        return "-"
    if len(b) <= 16:
        return bytes(b).hex()
    return "%d:%08x" % (len(b), zlib.crc32(bytes(b)) & 0xFFFFFFFF)


def payload(tok):
    if tok == "-":
        return b""
    if tok.startswith("#"):
        n, s = tok[1:].split(":")
        n, s = int(n), int(s)
        return bytes((s + j) % 256 for j in range(n))
    if tok.startswith("@"):
        n, s = tok[1:].split(":")
        n, s = int(n), int(s)
        words = array.array("I", range(s << 22, (s << 22) + n // 4 + 1))
        if words.itemsize != 4:
            words = array.array("L", words)
        if sys.byteorder != "little":
            words.byteswap()
        return words.tobytes()[:n]
    return bytes.fromhex(tok)


def split_script(script):
    head, body = script.split(" | ", 1)
    return head.strip(), [o.strip() for o in body.split(";") if o.strip()]


MAX_EXPANDED_OPS = 50000


def expand(items):
    """`rep <k> ( op , op , ... )` -> k copies of the body, `$` = round number mod 251 (same rule as harness and driver)"""
    out = []
    for it in items:
        w = it.split()
        if not w:
            continue
        if w[0] != "rep":
            out.append(it)
            continue
        if len(w) < 5 or w[2] != "(" or w[-1] != ")" or not w[1].isdigit():
            return None
        k = int(w[1])
        body = [x.strip() for x in " ".join(w[3:-1]).split(",") if x.strip()]
        if k > MAX_EXPANDED_OPS or len(out) + k * len(body) > MAX_EXPANDED_OPS:
            return None
        for i in range(k):
            rnd = str(i % 251)
            out.extend(part.replace("$", rnd) for part in body)
    return out


WRITE_INT = {"wi16": 2, "wi32": 4, "wi64": 8}
HUGE = 1 << 47   # Grow(n) beyond this cannot be satisfied by any allocator: the documented ErrTooLarge panic is legitimate


class C13(Spec):
    id = "C13"
    anchors = ["iox.Buffer.*", "iox.makeSlice", "iox.OctetsStream.Write*", "iox.OctetsStream.Read", "iox.OctetsStream.ReadByte",
               "iox.OctetsStream.Bytes", "iox.OctetsStream.Len", "iox.OctetsStream.Position", "iox.OctetsStream.Tidy",
               "iox.OctetsStream.Reset", "iox.OctetsStream.Seek"]
    harness = "c13"
    driver = "drv_bytes"
    shrink_sep = " ; "
    rule = ("one case = one op sequence on a fresh iox.Buffer / iox.OctetsStream, observed after every op (result, Bytes, Len, "
            "String, cursor, Cap). Generated: every sequence of exactly 3 ops over the full alphabet (writes of 0/1/3 bytes, "
            "read/next 0/1/2/100, seeks aiming at -1/0/1/len/len+1 through whence 0/1/2 plus invalid whence, tidy, reset, grow "
            "0/1/70), longer exhaustive sequences (quick: length 4 over a reduced 12-op alphabet; thorough: length 4 over the full "
            "alphabet, length 5 over the reduced one), random "
            "sequences of up to 60 ops with sizes at 31..33/63..65/127..129/255..257 and at the state-dependent boundaries "
            "cap-len and cap/2-unread (+-1), int64-extreme seek offsets, LARGE-SIZE sequences (write/grow/read sizes 4095..4097, 8192, "
            "65535..65537, 70000, 131072, 200000, 1 MiB: deterministic skeletons fill - drain to 0/1/64/65/4096 left - Tidy/Grow - read, "
            "consume a prefix - large write - Seek back - read, large write into fresh/reset/drained object; plus random sequences "
            "with seeks back into the consumed region followed by reads), and a small off-domain class with negative Next/Grow. "
            "Caller-memory discipline: one source scratch slice for all writes, overwritten with 0xEE after each Write (canary behind "
            "the chunk, chunk checksum), one destination scratch for all reads, overwritten after rendering: aliasing of caller "
            "memory shows as wrong content. LONG-RUNNING objects: a burst of >= 4 KiB, then k in {255,256,257,300,600,1100} rounds "
            "of small write/read/tidy (variants with seek, grow, rbyte, reset) written as `rep k ( ... )`, observed after every op. "
            "DOCUMENTED PANICS THEN CONTINUE: Grow(2^62 / 2^48+1 / maxInt-2cap+-1 / maxInt), Grow(-1), Next(-1) inside exhaustive, random and "
            "skeleton sequences; the object is used further and the unread portion must be unchanged by the panicking op. TWO OBJECTS "
            "in one case (`a:` / `b:` selectors, independent model instances): interleaved fill(large)/release/small-traffic life cycles. "
            "distinct by script line; non-trivial = some read returned data after a write")
    trusted_base = ["model of Go slices: (contents, len, cap, nil-ness); bytes between len and cap are not modelled (shown unobservable by "
                    "inspection: Write overwrites, Grow truncates them)",
                    "translator tie (OctetsStream half): tools/srcfacts/minigo_codec.go (go/ast + go/types -> MiniGoBytes terms of "
                    "OctetsStream.Write/WriteByte/Read/ReadByte/Len/Position/Bytes/Tidy/Reset/Seek, regenerated every run into "
                    "Got/Generated/AstIox.lean) and the MiniGoBytes interpreter semantics (Go `int` = unbounded integer, int64 = BitVec 64); "
                    "the theorems C13_translated_source_* are about the interpretation of those terms, and the interpreter on those "
                    "terms (driver mode `ast`, Got.Model.BytesStreamAst.astCall) is compared with the real code on every `stream` case; "
                    "iox.Buffer is not translated (hand-written model only)",
                    "64-bit int; Go runtime maxAlloc = 2^48 (linux/amd64): make([]byte, n) panics for n > 2^48 (-> ErrTooLarge), "
                    "an allocation of at most 2^48 bytes is assumed to succeed"]
    assumptions = ["sizes passed to Next/Grow are non-negative (negative ones panic by design)",
                   "C13_buffer_no_panic: 3 * (total bytes written or grown) <= maxAlloc (2^48) excludes the ErrTooLarge branches",
                   "single goroutine (the types are not concurrency-safe)"]

    # ------------------------------------------------------------------ oracle
    def oracle(self, script, impl):
        if " | " not in script:
            return None
        kind, ops = split_script(script)
        if kind not in ("buffer", "stream"):
            return None
        if impl.startswith("<"):
            return ("crash-or-hang", "no observation: " + impl[:200])
        ops = expand(ops)
        if not ops:
            return None
        obs = impl.split(" ; ")
        objs = {}   # object selector -> [W, r, c]
        for i, op in enumerate(ops):
            w = op.split()
            sel = "a"
            if len(w[0]) == 2 and w[0][1] == ":" and w[0][0].islower():
                sel, w = w[0][0], w[1:]
                if not w:
                    return None
            W, r, c = objs.setdefault(sel, [bytearray(), 0, 0])
            name = w[0]
            where = "op %d (%s)" % (i + 1, op if len(op) < 60 else op[:57] + "...")
            if i >= len(obs):
                return ("malformed", "no observation for " + where)
            o = obs[i]
            if " / " not in o:
                return ("malformed", "unexpected observation %r at %s" % (o[:80], where))
            res, state = o.split(" / ", 1)
            res = res.split()
            st = state.split()
            panicked = bool(res) and res[0] == "panic"
            size = int(w[1]) if kind == "buffer" and name in ("next", "grow") else 0
            if panicked:
                # documented panics: Grow(n<0), Grow(n) that cannot be allocated (ErrTooLarge), Next(n<0) (slice bounds).
                # They are outside the no-panic claim, but a caller may recover: the stream must be what it was.
                if not ((name == "grow" and (size < 0 or size > HUGE)) or (name == "next" and size < 0)):
                    return ("panic", "%s panicked" % where)
            elif size < 0:
                return None  # a negative size that did not panic: behaviour unspecified, outside the property's domain
            if "panic" in st:
                return ("panic", "an observer (Bytes/Len/String/Seek/Cap) panicked after %s: %s" % (where, state))
            if "bad" in st:
                return ("cursor-outside", "Seek(0, SeekCurrent) failed after %s: the implementation itself rejects the current cursor "
                                          "as a position inside the data" % where)
            if kind == "buffer":
                if len(st) != 5:
                    return ("malformed", "unexpected observation %r" % state[:80])
                o_bytes, o_len, o_str, o_pos, _o_cap = st[0], int(st[1]), st[2], int(st[3]), int(st[4])
            else:
                if len(st) != 3:
                    return ("malformed", "unexpected observation %r" % state[:80])
                o_bytes, o_total, o_pos = st[0], int(st[1]), int(st[2])
                o_len, o_str = o_total - o_pos, o_bytes

            unread = W[c:]
            seek_ok = None
            # ---- effect of the op on (W, c) and judgement of its result
            if panicked:
                pass  # no effect on the history or the cursor (the retained start may move: reset-if-empty precedes the panic)
            elif name in ("write", "wbyte", "wbool") or name in WRITE_INT:
                if name == "write":
                    p = payload(w[1])
                elif name == "wbyte":
                    p = bytes([int(w[1]) % 256])
                elif name == "wbool":
                    p = bytes([1 if int(w[1]) != 0 else 0])
                else:
                    p = int(w[1]).to_bytes(WRITE_INT[name], "little", signed=True)
                if "clobber" in res or "srcmod" in res:
                    return ("caller-memory", "%s modified the caller's slice or wrote behind it (%s)" % (where, " ".join(res)))
                if kind == "buffer":
                    if res != ["w", str(len(p))]:
                        return ("write-result", "%s returned %s, expected (%d, nil)" % (where, " ".join(res), len(p)))
                elif res != ["w", "nil"]:
                    return ("write-result", "%s returned error %s" % (where, " ".join(res)))
                W += p
            elif name in ("read", "next"):
                k = int(w[1])
                n = min(k, len(unread))
                exp = rd(unread[:n])
                tag = "r" if name == "read" else "x"
                if len(res) < 2 or res[0] != tag or res[1] != exp:
                    return ("read-data", "%s returned %s, the next %d unread bytes are %s" % (where, " ".join(res), n, exp))
                if name == "read" and n > 0 and (len(res) < 3 or res[2] != "nil"):
                    return ("read-data", "%s returned data together with an error: %s" % (where, " ".join(res)))
                c += n
            elif name == "rbyte":
                if len(unread) > 0:
                    if res != ["b", "%02x" % unread[0], "nil"]:
                        return ("read-data", "%s returned %s, the next unread byte is %02x" % (where, " ".join(res), unread[0]))
                    c += 1
                elif len(res) != 3 or res[2] == "nil":
                    return ("read-data", "%s on an empty stream returned %s" % (where, " ".join(res)))
            elif name == "seek":
                if len(res) != 3 or res[0] != "s":
                    return ("malformed", "unexpected seek result %r" % (" ".join(res)))
                if res[2] == "nil":
                    ret = int(res[1])
                    if ret < 0 or ret > len(W) - r:
                        return ("seek-outside", "%s succeeded with position %d outside the retained data [0,%d]" % (where, ret, len(W) - r))
                    c = r + ret
                    seek_ok = True
                else:
                    seek_ok = False
            elif name == "reset":
                W = objs[sel][0] = bytearray()
                r = c = 0
            elif name in ("tidy", "grow"):
                pass
            else:
                return None

            # ---- the state observed after the op
            if o_pos < 0:
                return ("cursor-outside", "negative cursor %d after %s" % (o_pos, where))
            if seek_ok is not None:
                # Seek never compacts: failed -> nothing changed; succeeded -> cursor == returned position
                if o_pos != c - r:
                    return ("seek-state", "after %s the cursor is %d, expected %d (%s)" % (
                        where, o_pos, c - r, "Seek reported success" if seek_ok else "Seek failed, stream must be unchanged"))
            else:
                # compaction may have advanced the retained start, but never beyond the cursor and never backwards
                if o_pos > c - r:
                    return ("cursor-outside", "after %s the cursor is %d but only %d bytes precede the next unread byte in the retained data" % (
                        where, o_pos, c - r))
                r = c - o_pos
            objs[sel][1], objs[sel][2] = r, c
            exp = rd(W[c:])
            if panicked and (o_bytes != exp or o_str != exp or o_len != len(W) - c):
                return ("unread-changed-by-panicking-op", "%s panicked (a documented panic) and a caller that recovers finds the unread portion "
                        "changed: Bytes() = %s, Len() = %d, but the bytes written and not yet consumed are %s" % (where, o_bytes, o_len, exp))
            if o_bytes != exp:
                return ("unread-mismatch", "after %s Bytes() = %s but the bytes written and not yet consumed are %s" % (where, o_bytes, exp))
            if o_str != exp:
                return ("unread-mismatch", "after %s String() = %s but the unread bytes are %s" % (where, o_str, exp))
            if o_len != len(W) - c:
                return ("unread-mismatch", "after %s the unread length is reported as %d, expected %d" % (where, o_len, len(W) - c))
        if len(obs) > len(ops):
            return ("malformed", "more observations than ops")
        return None

    # ------------------------------------------------------------------ translator tie
    AST_METHODS = ["Write", "WriteByte", "WriteBool", "WriteInt16", "WriteInt32", "WriteInt64", "Read", "ReadByte", "Len",
                   "Position", "Bytes", "Tidy", "Reset", "Seek"]

    AST_MAX_LINES = 200000

    def extra(self, ctx):
        """second correspondence: the MiniGoBytes interpreter on the terms regenerated from /repo/iox/octets_stream.go (driver
        mode `ast`) must print what the real code printed on every `stream` line (validates translator + interpreter
        semantics; the Lean theorems C13_translated_source_* tie those terms to the model and to the abstract FIFO)."""
        ex = ctx.get("ex")
        cov = ctx["coverage"]
        notes = {}
        gen = os.path.join(C.LEAN, "Got", "Generated", "AstIox.lean")
        if os.path.exists(gen):
            for m in re.finditer(r'^def OctetsStream_(\w+)Note : String := "(.*)"$', open(gen).read(), re.M):
                notes[m.group(1)] = m.group(2)
        bad_notes = {m: notes.get(m, "missing") for m in self.AST_METHODS if notes.get(m) != "ok"}
        cov["translation_notes_ok"] = len(self.AST_METHODS) - len(bad_notes)
        if bad_notes:
            ctx["broken"].append({"layer": "L2", "what": "translator: OctetsStream methods no longer inside the MiniGoBytes fragment: %s" % bad_notes})
        if not ex or "build_error" in ex or not ex.get("script") or not os.path.exists(C.driver_path(self.driver)):
            return
        idx = [i for i, s in enumerate(ex["script"]) if s.startswith("stream |") and i < len(ex["impl"])]
        if not idx:
            return
        cov["ast_interpreter_stream_lines_total"] = len(idx)
        if len(idx) > self.AST_MAX_LINES:
            # thorough tier: an evenly strided subset (every class of the generators is spread over the whole script)
            step = -(-len(idx) // self.AST_MAX_LINES)
            idx = idx[::step]
        d = os.path.join(C.OUT, "run", "C13-ast-%d" % os.getpid())
        C.fresh_dir(d)
        try:
            sp, op = os.path.join(d, "script.txt"), os.path.join(d, "ast.txt")
            open(sp, "w").write("".join(ex["script"][i] + "\n" for i in idx))
            rc, err = C.run_driver(self.driver, ["ast"], sp, op)
            out = open(op, errors="replace").read().split("\n")[:-1]
            bad = [(ex["script"][i], ex["impl"][i], b) for i, b in zip(idx, out) if ex["impl"][i] != b]
            cov["ast_interpreter_lines"] = len(out)
            cov["ast_interpreter_mismatches"] = len(bad)
            if rc != 0 or len(out) != len(idx):
                ctx["broken"].append({"layer": "L2", "what": "driver (ast mode) failed rc=%s, %d of %d lines: %s" % (rc, len(out), len(idx), (err or "")[-300:])})
            elif bad:
                ctx["broken"].append({"layer": "L2", "what": "translated source (MiniGoBytes interpreter) and implementation differ on %d of %d stream lines" % (len(bad), len(out)),
                                      "first": [{"script": s[:300], "impl": a[:200], "ast": b[:200]} for s, a, b in bad[:5]]})
        finally:
            import shutil
            shutil.rmtree(d, ignore_errors=True)

    def nontrivial(self, script, impl):
        if " | " not in script:
            return False
        seen_write = False
        for o in impl.split(" ; "):
            t = o.split()
            if not t:
                continue
            if t[0] == "w" and t[1] not in ("0",):
                seen_write = True
            if seen_write and t[0] in ("r", "x", "b") and t[1] not in ("-",) and (t[0] != "b" or t[2] == "nil"):
                return True
        return False


SPEC = C13()
