"""C01: loom.Queue is a linearizable FIFO (controlled scheduler, step-level correspondence with the
Lean LTS `Got.Model.MSQueue`; the oracle is a brute-force linearizability check of the implementation's
own invoke/return history against a sequential FIFO, independent of the model)."""
import os
import re

from . import common as C
from .runner import Spec

INF = 10 ** 9


def parse_history(impl):
    """impl line -> (events, flags). events: list of ('inv', tid, 'push'|'pop', v) / ('ret', tid, result)
    in the order they happened; the final API pops (rest=…) are appended as a sequential client."""
    flags = set()
    body, _, fin = impl.partition(" | final ")
    evs = []
    for tok in body.split():
        if tok == "/":
            continue
        if tok == "stuck":
            flags.add("stuck")
            continue
        p = tok.split(":")
        if len(p) < 2:
            flags.add("malformed")
            continue
        tid = p[0]
        if p[1] == "inv":
            if p[2] == "push":
                evs.append(("inv", tid, "push", int(p[3])))
            else:
                evs.append(("inv", tid, "pop", None))
        elif p[1] == "ret":
            if p[2] == "push":
                evs.append(("ret", tid, "ack"))
            else:
                r = p[2].split("=", 1)[1]
                if r == "nil":
                    evs.append(("ret", tid, None))
                elif re.fullmatch(r"-?\d+", r):
                    evs.append(("ret", tid, int(r)))
                else:
                    evs.append(("ret", tid, r))  # a value that is not an int: certainly invented
        elif p[1] == "crash":
            flags.add("crash")
        elif p[1] == "blocked":
            flags.add("blocked")
    m = re.search(r"rest=(\S*)", fin)
    if m:
        for r in m.group(1).split(","):
            if r == "stuck":
                flags.add("stuck")
            elif r == "crash":
                flags.add("crash")
            elif r == "nil":
                evs += [("inv", "rest", "pop", None), ("ret", "rest", None)]
                flags.add("drained")
            elif re.fullmatch(r"-?\d+", r):
                evs += [("inv", "rest", "pop", None), ("ret", "rest", int(r))]
            elif r:
                evs += [("inv", "rest", "pop", None), ("ret", "rest", r)]
    return evs, flags


def operations(evs):
    """-> list of dict(tid, kind, v, inv, ret, res); ret = INF for pending operations"""
    ops, open_ = [], {}
    for i, e in enumerate(evs):
        if e[0] == "inv":
            o = {"tid": e[1], "kind": e[2], "v": e[3], "inv": i, "ret": INF, "res": None}
            open_[e[1]] = o
            ops.append(o)
        else:
            o = open_.pop(e[1], None)
            if o is None:
                return None
            o["ret"], o["res"] = i, e[2]
    return ops


def linearizable(ops):
    """Wing–Gong search with memoisation over (set of linearised ops, queue contents)."""
    n = len(ops)
    completed = [i for i in range(n) if ops[i]["ret"] < INF]
    full = 0
    for i in completed:
        full |= 1 << i
    seen = set()
    stack = [(0, ())]
    while stack:
        done, q = stack.pop()
        if done & full == full:
            return True
        if (done, q) in seen:
            continue
        seen.add((done, q))
        # an op may be linearised next iff no other not-yet-linearised op returned before it was invoked
        minret = min([ops[i]["ret"] for i in range(n) if not done >> i & 1] or [INF])
        for i in range(n):
            if done >> i & 1:
                continue
            o = ops[i]
            if o["inv"] > minret:
                continue
            pending = o["ret"] == INF
            if o["kind"] == "push":
                stack.append((done | 1 << i, q + (o["v"],)))
            else:
                if q:
                    if pending or o["res"] == q[0]:
                        stack.append((done | 1 << i, q[1:]))
                else:
                    if pending or o["res"] is None:
                        stack.append((done | 1 << i, q))
    return False


def cheap_conditions(ops, drained=True):
    pushed = {}
    for o in ops:
        if o["kind"] == "push":
            pushed[o["v"]] = o
    popped = {}
    for o in ops:
        if o["kind"] == "pop" and o["ret"] < INF and o["res"] is not None:
            v = o["res"]
            if v not in pushed:
                return ("invented-value", "Pop returned %r, which no Push was ever invoked with" % (v,))
            if v in popped:
                return ("duplicated-value", "value %r was returned by two Pops" % (v,))
            if pushed[v]["inv"] > o["ret"]:
                return ("value-from-the-future", "Pop returned %r before Push(%r) was invoked" % (v, v))
            popped[v] = o
    # per-producer order: a before b pushed by the same thread, pop(b) returned before pop(a) was invoked
    for a, pa in popped.items():
        for b, pb in popped.items():
            if a != b and pushed[a]["tid"] == pushed[b]["tid"] and pushed[a]["inv"] < pushed[b]["inv"] and pb["ret"] < pa["inv"]:
                return ("fifo-order", "thread %s pushed %r before %r but %r was popped strictly earlier" % (pushed[a]["tid"], a, b, b))
    # no loss: once every operation has finished and the final client has drained the queue, every pushed value was popped
    if drained and all(o["ret"] < INF for o in ops):
        lost = [v for v in pushed if v not in popped]
        if lost:
            return ("lost-value", "value(s) %r pushed (Push returned) but never popped although the queue was drained to nil" % (lost,))
    return None


def helping_or_failed(tokens):
    """does the step log contain a failed CAS or a helping CAS (CAS on tail not preceded by the thread's own link CAS)?"""
    last = {}
    hit = False
    for tok in tokens:
        p = tok.split(":")
        if len(p) < 3:
            continue
        if p[1] == "cas":
            if p[-1] == "fail":
                hit = True
            if p[2] == "tail" and last.get(p[0]) != "link":
                hit = True
            last[p[0]] = "link" if (p[2].endswith(".next") and p[-1] == "ok") else "cas"
        else:
            last[p[0]] = p[1]
    return hit


def stress_oracle(script, impl):
    """real-parallel stress line: conditions on the returned values that every linearizable FIFO satisfies"""
    f = dict(re.findall(r"(\w+)=(-?\d+)", impl.split(" first: ")[0]))
    first = impl.partition(" first: ")[2]
    mode = re.search(r"mode=(\w+)", impl).group(1)
    g = lambda k: int(f.get(k, 0))
    where = "%s [%s]" % (script, first)
    if g("panics"):
        return ("crash", "an operation panicked in the real-parallel stress run " + where)
    if g("unknown"):
        return ("invented-value", "a Pop returned a value that was never pushed: " + where)
    if g("dup"):
        return ("duplicated-value", "a value left the queue twice: " + where)
    if g("order") or g("drainorder"):
        return ("fifo-order", "two values of one producer left the queue in the wrong order: " + where)
    if g("pushes") != g("popped") + g("drained"):
        return ("lost-value", "%d Pushes returned but only %d values were popped and %d found by the final drain: %s"
                % (g("pushes"), g("popped"), g("drained"), where))
    if mode == "pairs" and g("nil"):
        return ("empty-on-nonempty", "Pop reported empty although the queue cannot have been empty: " + where)
    return None


def translator_extra(spec, ctx, gen_file="AstLoomQueue.lean", notes=("pushNote", "popNote"), what="loom.Queue.Push/Pop",
                     mode="ast", skip=lambda script, impl: impl.startswith("stress ")):
    """second correspondence (translator tie): the LTS GENERATED from the source — the AtomicIR semantics
    (Got/Model/AtomicIR.lean) of the programs tools/srcfacts re-translates from /repo on every run — replays
    every schedule of the correspondence (driver mode `ast`) and must print what the real code printed under the controlled
    scheduler, step by step. Validates translator + IR semantics; the Lean theorems C01_translated_source_* tie the
    generated LTS to the hand-written model."""
    import shutil
    ex = ctx.get("ex")
    cov = ctx["coverage"]
    notes_found = {}
    gen = os.path.join(C.LEAN, "Got", "Generated", gen_file)
    if os.path.exists(gen):
        for line in open(gen):
            for n in notes:
                if line.startswith("def %s " % n):
                    notes_found[n] = line.split(":=", 1)[1].strip().strip('"')
    bad_notes = {n: notes_found.get(n, "missing") for n in notes if notes_found.get(n) != "ok"}
    cov["translation_note"] = "ok" if not bad_notes else "; ".join("%s: %s" % kv for kv in sorted(bad_notes.items()))
    if bad_notes:
        ctx["broken"].append({"layer": "L2", "what": "translator: %s is no longer inside the AtomicIR fragment (%s)" % (what, cov["translation_note"])})
    if bad_notes:      # no translation to replay (the generated bodies are empty)
        return
    if not ex or "build_error" in ex or not ex.get("script") or not os.path.exists(C.driver_path(spec.driver)):
        return
    d = os.path.join(C.OUT, "run", "%s-ast-%d" % (spec.id, os.getpid()))
    C.fresh_dir(d)
    try:
        sp, op = os.path.join(d, "script.txt"), os.path.join(d, "ast.txt")
        open(sp, "w").write("".join(x + "\n" for x in ex["script"]))
        rc, err = C.run_driver(spec.driver, [mode], sp, op)
        out = open(op, errors="replace").read().split("\n")[:-1]
        bad = [(i, s, a, b) for i, (s, a, b) in enumerate(zip(ex["script"], ex["impl"], out)) if a != b and not skip(s, a)]
        cov["ast_interpreter_lines"] = sum(1 for s, a in zip(ex["script"][:len(out)], ex["impl"]) if not skip(s, a))
        cov["ast_interpreter_mismatches"] = len(bad)
        if rc != 0 or len(out) != len(ex["script"]):
            ctx["broken"].append({"layer": "L2", "what": "driver (ast mode) failed rc=%s, %d of %d lines: %s" % (rc, len(out), len(ex["script"]), (err or "")[-300:])})
        elif bad:
            ctx["broken"].append({"layer": "L2", "what": "translated source (LTS generated from %s by the AtomicIR semantics) and implementation differ on %d of %d lines"
                                                          % (what, len(bad), cov["ast_interpreter_lines"]),
                                  "first": [{"script": s[:300], "impl": a[:300], "ast": b[:300]} for _, s, a, b in bad[:5]]})
    finally:
        shutil.rmtree(d, ignore_errors=True)


TRANSLATOR_TIE = ("translator tie: tools/srcfacts/minigo_atomic.go (go/ast -> AtomicIR programs of Push/Pop with queueLoad/queueCas "
                  "inlined, regenerated every run into Got/Generated/AstLoomQueue.lean) and the AtomicIR semantics' reading of the "
                  "Go constructs (Got/Model/AtomicIR.lean: block scoping, `for {}`/`if`, nil dereference, one atomic access per "
                  "scheduler step); the LTS generated from the translated source is replayed on every schedule of the "
                  "correspondence (driver mode `ast`) and must print what the real code printed (ast_interpreter_mismatches)")


class C01(Spec):
    id = "C01"
    anchors = ["loom.Queue.Push", "loom.Queue.Pop", "loom.queueLoad", "loom.queueCas", "loom.NewQueue"]
    harness = "c01"
    tags = "verif"
    driver = "drv_msqueue"
    driver_args = ["run"]
    harness_env = {"GOMAXPROCS": "1", "MSQ_DRIVER": C.driver_path("drv_msqueue")}
    shrink_sep = " "
    rule = ("one case = a program (2-4 threads, 1-4 Push/Pop each) + a schedule (list of thread ids, one entry = one "
            "shared-memory access of the real code = one model transition); schedule sets with transition coverage of the "
            "model's reachable state graph for the small configurations (from `drv_msqueue explore`) + random/bursty/PCT "
            "schedules of larger shapes + LONG-STALL schedules (one operation suspended before each of its shared accesses "
            "in turn while the other threads complete 40-260 operations, then resumed; histories > 20 ops are judged by "
            "the cheap conditions: every popped value pushed exactly once, per-producer FIFO, final drain accounts for "
            "everything; N = 130/300/1100 operations with the victim parked before each kind of CAS (link, swing, helping "
            "swing, head) and each load, the victim being resumed at once when the cell it sleeps before shows A-B-A) + "
            "FROZEN-HELPERS lines (a pusher frozen between link and swing, 3-8 operations frozen before their next CAS, "
            "all resumed in random order) + HOT-QUEUE lines (1100 (thorough: ..3300) lost link-CAS races on the one queue "
            "object before the scenario) + REUSED-OBJECT lines (3-4 threads x 30-120 operations on one queue) "
            "+ REAL-PARALLEL stress lines (4/16/64 goroutines on all Ps, no hooks; ORACLE ONLY, the model is "
            "not consulted because the interleaving is not observable; counted separately as stress_lines); compared per step: thread, load/CAS, address class (head|tail|n<k>.next), loaded "
            "node / CAS outcome, return values, final list, final API pops. distinct by script line; non-trivial = the "
            "run contains a failed CAS or a helping CAS")
    trusted_base = ["controlled scheduler harness/csched + verifYield hooks in loom/queue.go (build tag verif): one hook per "
                    "atomic access, sequentially consistent atomics (Go memory model for sync/atomic)",
                    "the oracle's brute-force linearizability checker (checklib/c01.py) for L3",
                    TRANSLATOR_TIE]
    assumptions = ["clients never push nil (a pushed nil is indistinguishable from the empty answer of Pop)",
                   "garbage collection: a node's address is not reused while a thread still holds it (no ABA)"]

    def compare(self, impl, model):
        if impl.startswith("stress "):      # real-parallel stress: oracle only, the model is not consulted
            return model.startswith("stress")
        parts = model.split(" || ")
        if parts[0] != impl:
            return False
        return len(parts) < 2 or "wf=ok" in parts[1]

    def oracle(self, script, impl):
        if impl in ("bad-line", "bad-solo") or " | solo " in impl:
            return None
        if impl.startswith("stress "):
            return stress_oracle(script, impl)
        if impl.startswith("panic") or impl.startswith("<"):
            return ("panic", "the harness/real code panicked or died: " + impl[:200])
        evs, flags = parse_history(impl)
        if "crash" in flags:
            return ("crash", "an operation panicked (nil dereference inside Pop/Push)")
        ops = operations(evs)
        if ops is None or "malformed" in flags:
            return ("malformed", "unexpected harness output")
        c = cheap_conditions(ops, "drained" in flags)
        if c:
            return c
        if len(ops) <= 20 and not linearizable(ops):
            return ("not-linearizable", "no sequential FIFO order of the %d operations is consistent with the results and "
                                        "the real-time order of this history" % len(ops))
        return None

    def extra(self, ctx):
        ex = ctx.get("ex")
        if ex and ex.get("stats", {}).get("explore_failed"):
            ctx["broken"].append({"layer": "L2", "what": "drv_msqueue explore did not produce the schedule sets "
                                                          "(transition coverage of the model's state graph not exercised)"})
        translator_extra(self, ctx)

    def nontrivial(self, script, impl):
        if impl.startswith("stress "):
            return True
        return helping_or_failed(impl.partition(" | ")[0].split())


SPEC = C01()
