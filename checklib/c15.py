import math
import os
import re

from . import common as C
from .runner import Spec


def ceil_lg(n1):  # ceil(log2(n1)) for n1 >= 1
    return (n1 - 1).bit_length()


def parse_ints(s):
    return [] if s == "-" else [int(x) for x in s.split(",")]


def collapse(xs):
    out = []
    for x in xs:
        if not out or out[-1] != x:
            out.append(x)
    return out


class C15(Spec):
    id = "C15"
    anchors = ["sortx.SliceBy", "sortx.maxDepth", "sortx.insertionSort_func", "sortx.siftDown_func",
               "sortx.heapSort_func", "sortx.medianOfThree_func", "sortx.doPivot_func", "sortx.quickSort_func",
               "sortx.UniqueInt", "sortx.UniqueString"]
    harness = "c15"
    driver = "drv_sort"
    rule = ("one case = one SliceBy call (keys given explicitly, values identified by original index, lengths may differ; "
            "less = keys[i]<keys[j] on []int or []string keys (independent strings or substrings of one shared string), or an "
            "inconsistent hash-based less; float64/float32 keys and values given as bit-pattern tokens incl. -0/+0/NaN/denormals, "
            "compared bitwise), or several SliceBy calls re-slicing the same backing arrays (multi; with et=K/V the key / value "
            "elements are multi-word types: 24-byte struct, [3]int32, struct{string;int}, 40-byte struct with a pointer, every field "
            "carrying the key / original index so that torn elements show; small lengths and BIG inputs of 2^16+1, 131072+k, "
            "200003 (thorough: also 300007, 2^19) elements, shapes random / few distinct keys / sorted / organ-pipe, "
            "GOMAXPROCS >= 4), or one Unique* call; "
            "compared with the model: final keys, final value permutation, number and hash of all Less(i,j)->r calls "
            "(full call log for min<=16), Unique result and backing array. distinct by script line; non-trivial = "
            "at least 2 elements in the common prefix / in the Unique input")
    trusted_base = ["reflect.Swapper(slice)(i,j) swaps elements i and j of that slice and panics iff an index is out of range",
                    "Go int index arithmetic modelled on Nat (each subtraction sits under a guard that keeps it non-negative; "
                    "the correspondence compares every index passed to less)",
                    "translator tie: tools/srcfacts/minigo_sort.go (go/ast + go/types -> MiniGoSort terms of insertionSort_func, "
                    "siftDown_func, heapSort_func, medianOfThree_func, doPivot_func, quickSort_func, maxDepth, regenerated every run "
                    "into Got/Generated/AstSortxSort.lean) and the MiniGoSort interpreter's reading of Go (64-bit wrap-around, "
                    "truncated division, shifts, short-circuit conditions, for/break/return, calls; Got/Model/MiniGoSort.lean); "
                    "the interpreter run on the generated terms is compared with the real code on every SliceBy case of the "
                    "correspondence (driver mode `ast`); the SliceBy glue (min of the lengths, length<=1 guard) is hand-written; "
                    "UniqueInt/UniqueString likewise (MiniGoSlice terms in Got/Generated/AstSortxUnique.lean, interpreter "
                    "Got/Model/MiniGoSlice.lean with Go's index and reslice checks, every `unique` line compared in `ast` mode)"]
    assumptions = ["less is a deterministic function of slice contents, call history and the two indices",
                   "sortedness clause: the key order is a strict weak order"]

    def compare(self, impl, model):
        # the part after " ; " is measured from the Go call stack (nesting depth, heapSort seen): not modelled;
        # a `multi` line is a " | "-joined list of such observations
        return " | ".join(p.split(" ; ")[0] for p in impl.split(" | ")) == model

    def oracle(self, script, impl):
        w = script.split()
        if not w:
            return None
        if impl.startswith("<"):
            return ("crash-or-hang", "no observation: " + impl[:200])
        if w[0] == "unique":
            xs = parse_ints(w[2])
            if impl.startswith("panic"):
                return ("panic", "Unique panicked")
            p = impl.split()
            if len(p) != 4 or p[0] != "r" or p[2] != "b":
                return ("malformed", "unexpected harness output " + impl[:100])
            r = parse_ints(p[1])
            exp = collapse(xs)
            if r != exp:
                return ("unique-wrong", "Unique returned %s, runs collapsed to their first element give %s" % (p[1][:200], ",".join(map(str, exp))[:200]))
            if xs == sorted(xs) and any(r[i] >= r[i + 1] for i in range(len(r) - 1)):
                return ("unique-not-strict", "sorted input but result not strictly increasing")
            return None
        if w[0] == "multi":
            # several SliceBy calls on the same backing arrays: every step is judged like a single call
            steps = script.split(" | ")[1:]
            obs = impl.split(" | ")
            # `multi <kcap> <vcap> et=<K>/<V>`: element types of the key / value slices (interpreted by the harness only;
            # every element carries its key / original index in all of its fields, torn elements are listed by the harness)
            et = " (element types %s)" % w[3][3:] if len(w) > 3 and w[3].startswith("et=") else ""
            if len(obs) != len(steps):
                return ("malformed", "multi: %d steps, %d observations: %s" % (len(steps), len(obs), impl[:100]))
            for k, (st, ob) in enumerate(zip(steps, obs)):
                sw = st.split()
                o = self.oracle_slice(sw[0], parse_ints(sw[1]), int(sw[2]), ob)
                if o is not None:
                    if et and len(steps) == 1:
                        return (o[0], "%d keys%s: %s" % (sw[1].count(",") + 1, et, o[1]))
                    return (o[0], "step %d of %d (same backing arrays reused)%s: %s" % (k + 1, len(steps), et, o[1]))
            return None
        if w[0] != "slice":
            return None
        return self.oracle_slice(w[1], parse_ints(w[2]), int(w[4]), impl)

    CONSISTENT = ("int", "str", "intb", "strb", "spre", "ssuf", "swin", "smix", "vf64", "vf32")
    FLOATKEYS = ("f64", "f32", "ff")

    @staticmethod
    def flt_rank(t):
        """order class of a float token (bit pattern) under <; None = NaN"""
        if t in (8, 9):
            return None
        return {3: 3, 4: 3, 5: 4, 6: 5, 7: 1 << 62}.get(t, t)

    def oracle_slice(self, mode, keys, nv, impl):
        mode = mode.split("=")[0]
        n = min(len(keys), nv)
        if impl.startswith("toomany"):
            return ("too-many-less-calls", "SliceBy made more than 64*n*(lg n+2)+1000 less calls (cut off): " + impl)
        if impl.startswith("panic"):
            return ("panic", "SliceBy panicked or passed an index >= min(len keys, len values) = %d to less" % n)
        head, _, tail = impl.partition(" ; ")
        p = head.split()
        if len(p) < 8 or p[0] != "k" or p[2] != "v" or p[4] != "n" or p[6] != "h":
            return ("malformed", "unexpected harness output " + impl[:100])
        k, v, cnt = parse_ints(p[1]), parse_ints(p[3]), int(p[5])
        if len(k) != len(keys) or len(v) != nv:
            return ("length-changed", "slice lengths changed")
        if " torn " in " " + tail + " ":
            # multi-word elements: some element's fields do not all belong to ONE original element
            t = tail.split()
            return ("torn-element", "elements torn (fields of one element come from different original elements): "
                    + " ".join(t[t.index("torn") + 1:]) + " (count@first positions)")
        if k[n:] != keys[n:]:
            return ("suffix-touched", "keys beyond the common prefix (index >= %d) were modified" % n)
        if v[n:] != list(range(n, nv)):
            return ("suffix-touched", "values beyond the common prefix (index >= %d) were modified" % n)
        # pairing + permutation: the value ids on the prefix are a permutation of 0..n-1 and slot i holds the key
        # that originally sat next to value id v[i]
        if sorted(v[:n]) != list(range(n)):
            seen = {}
            for i in range(n):
                seen.setdefault(v[i], []).append(i)
            dup = [(x, ps) for x, ps in seen.items() if len(ps) > 1]
            lost = [x for x in range(n) if x not in seen]
            more = ""
            if dup:
                more += "; %d value(s) occur more than once, e.g. #%d at positions %s" % (len(dup), dup[0][0], dup[0][1][:4])
            if lost:
                more += "; %d original value(s) are lost, e.g. #%s" % (len(lost), ",#".join(map(str, lost[:4])))
            return ("values-not-permutation", "values on the prefix are not a permutation of the original values" + more)
        for i in range(n):
            if k[i] != keys[v[i]]:
                return ("pairing-broken", "slot %d holds key %d with value #%d whose original key was %d" % (i, k[i], v[i], keys[v[i]]))
        consistent = mode in self.CONSISTENT
        if mode in self.FLOATKEYS:
            # elements are float bit patterns (tokens): pairing / permutation above are checked bitwise; order by rank,
            # unless a NaN key makes < inconsistent
            ranks = [self.flt_rank(t) for t in keys[:n]]
            if None not in ranks:
                consistent = True
                rk = [self.flt_rank(t) for t in k[:n]]
                for i in range(n - 1):
                    if rk[i] is None or rk[i + 1] is None or rk[i] > rk[i + 1]:
                        return ("not-sorted", "float keys (tokens) %d,%d at %d,%d out of order within the first %d" % (k[i], k[i + 1], i, i + 1, n))
        elif consistent:
            for i in range(n - 1):
                if k[i] > k[i + 1]:
                    return ("not-sorted", "keys[%d]=%d > keys[%d]=%d within the first %d" % (i, k[i], i + 1, k[i + 1], n))
        if len(p) > 8 and p[8] == "log":
            for e in p[9:]:
                i, j, _ = e.split(":")
                if not (0 <= int(i) < n and 0 <= int(j) < n):
                    return ("index-out-of-range", "less called with (%s,%s), common prefix is %d" % (i, j, n))
        if n >= 2:
            factor = 4 if consistent else 8   # inconsistent less: only O(n log n) with a looser constant
            bound = factor * n * (math.log2(n) + 2)
            if cnt > bound:
                return ("too-many-less-calls", "%d less calls > %d*n*(lg n + 2) = %.0f for n=%d" % (cnt, factor, bound, n))
        elif cnt != 0:
            return ("too-many-less-calls", "less called although the common prefix has %d elements" % n)
        if tail:
            t = tail.split()
            d = int(t[1])
            if d > 2 * ceil_lg(n + 1) + 1:
                # nesting depth counts the outermost call too (maxDepth levels below it)
                return ("depth-exceeded", "quickSort_func nested %d deep > 2*ceil(lg(n+1))+1 = %d" % (d, 2 * ceil_lg(n + 1) + 1))
        return None

    AST_FUNCS = ("insertionSort_func", "siftDown_func", "heapSort_func", "medianOfThree_func", "doPivot_func",
                 "quickSort_func", "maxDepth")

    def extra(self, ctx):
        """second correspondence: the MiniGoSort interpreter on the terms regenerated from /repo's source (driver mode
        `ast`) must print what the real code printed on every slice/multi/unique line (validates translator + interpreter
        semantics; the Lean theorems C15_translated_source_*_refines_model tie those terms to the model)."""
        ex = ctx.get("ex")
        cov = ctx["coverage"]
        notes = {}
        gen = os.path.join(C.LEAN, "Got", "Generated", "AstSortxSort.lean")
        if os.path.exists(gen):
            for m in re.finditer(r'^def (\w+)Note : String := "((?:[^"\\]|\\.)*)"', open(gen).read(), re.M):
                notes[m.group(1)] = m.group(2)
        genu = os.path.join(C.LEAN, "Got", "Generated", "AstSortxUnique.lean")
        if os.path.exists(genu):
            for m in re.finditer(r'^def (\w+)Note : String := "((?:[^"\\]|\\.)*)"', open(genu).read(), re.M):
                notes[m.group(1)] = m.group(2)
        bad_notes = {f: notes.get(f, "<no translation>") for f in self.AST_FUNCS + ("uniqueInt", "uniqueString") if notes.get(f) != "ok"}
        cov["translation_notes"] = "ok" if not bad_notes else bad_notes
        if bad_notes:
            ctx["broken"].append({"layer": "L2", "what": "translator: no longer inside the MiniGoSort fragment: %s" % bad_notes})
        if not ex or "build_error" in ex or not ex.get("script") or not os.path.exists(C.driver_path(self.driver)):
            return
        d = os.path.join(C.OUT, "run", "C15-ast-%d" % os.getpid())
        C.fresh_dir(d)
        try:
            sp, op = os.path.join(d, "script.txt"), os.path.join(d, "ast.txt")
            open(sp, "w").write("".join(x + "\n" for x in ex["script"]))
            rc, err = C.run_driver(self.driver, ["ast"], sp, op)
            out = open(op, errors="replace").read().split("\n")[:-1]
            impl = ex["impl"]
            pairs = [(s, impl[i] if i < len(impl) else "<none>", a) for i, (s, a) in enumerate(zip(ex["script"], out)) if a != "n/a"]
            bad = [(s, a, b) for s, a, b in pairs if not self.compare(a, b)]
            cov["ast_interpreter_lines"] = len(pairs)
            cov["ast_interpreter_mismatches"] = len(bad)
            if rc != 0 or len(out) != len(ex["script"]):
                ctx["broken"].append({"layer": "L2", "what": "driver (ast mode) failed rc=%s, %d of %d lines: %s" % (rc, len(out), len(ex["script"]), (err or "")[-300:])})
            elif bad:
                ctx["broken"].append({"layer": "L2", "what": "translated source (MiniGoSort interpreter) and implementation differ on %d of %d lines" % (len(bad), len(pairs)),
                                      "first": [{"script": s[:300], "impl": a[:200], "ast": b[:200]} for s, a, b in bad[:5]]})
        finally:
            import shutil
            shutil.rmtree(d, ignore_errors=True)

    def nontrivial(self, script, impl):
        w = script.split()
        if not w:
            return False
        if w[0] == "unique":
            return w[2].count(",") >= 1
        if w[0] == "slice":
            return min(w[2].count(",") + 1 if w[2] != "-" else 0, int(w[4])) >= 2
        if w[0] == "multi":
            return True
        return False


SPEC = C15()
