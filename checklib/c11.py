"""C11: iox codec round trip + wire format.
Oracle (independent of the Lean model): the bytes produced by the real writer must equal the documented wire format
computed here (little-endian two's complement, unsigned LEB128 of the 32-bit pattern, LEB128 length prefix + raw bytes),
an independent Python decoder applied to those bytes must give back the written values, and the real reader's read-back
must return every written value with Position() advancing by exactly the encoded size."""
from .runner import Spec

WIDTH = {"h": 2, "i": 4, "l": 8}


def leb128(n):
    out = bytearray()
    while n > 127:
        out.append((n & 0x7F) | 0x80)
        n >>= 7
    out.append(n)
    return bytes(out)


def unleb128(data, pos):
    """unsigned LEB128 decode, at most 5 bytes -> (value, new pos) or None"""
    val = 0
    for k in range(5):
        if pos >= len(data):
            return None
        b = data[pos]
        pos += 1
        val |= (b & 0x7F) << (7 * k)
        if b < 0x80:
            return val, pos
    return None


def unhex(s):
    return b"" if s == "-" else bytes.fromhex(s)


def encode(t, p):
    """documented wire format of one typed value -> bytes"""
    if t == "b":
        return b"\x01" if p == "1" else b"\x00"
    if t == "y":
        return unhex(p)
    if t in WIDTH:
        return int(p).to_bytes(WIDTH[t], "little", signed=True)
    if t == "v":
        return leb128(int(p) & 0xFFFFFFFF)
    if t in ("B", "S"):
        d = unhex(p)
        return leb128(len(d)) + d
    if t == "R":
        return unhex(p)
    raise ValueError(t)


def decode(t, p, data, pos):
    """independent decoder: canonical text of the value of type t at data[pos:] and the new position (None = malformed)"""
    if t == "b":
        return ("1" if data[pos] == 1 else "0"), pos + 1
    if t == "y":
        return "%02x" % data[pos], pos + 1
    if t in WIDTH:
        w = WIDTH[t]
        if pos + w > len(data):
            return None
        return str(int.from_bytes(data[pos:pos + w], "little", signed=True)), pos + w
    if t == "v":
        r = unleb128(data, pos)
        if r is None:
            return None
        v, q = r
        return str(v - (1 << 32) if v >= 1 << 31 else v), q
    if t in ("B", "S"):
        r = unleb128(data, pos)
        if r is None:
            return None
        n, q = r
        if q + n > len(data):
            return None
        d = data[q:q + n]
        return (d.hex() if d else "-"), q + n
    if t == "R":
        n = len(unhex(p))
        d = data[pos:pos + n]
        return (d.hex() if d else "-"), pos + n
    raise ValueError(t)


def parse_script(script):
    head, body = script.split("|", 1)
    toks = []
    for f in body.split(";"):
        f = f.strip()
        if f:
            t, p = f.split(":", 1)
            toks.append((t, p))
    return toks


class C11(Spec):
    id = "C11"
    anchors = ["iox.OctetsStream.Read*", "iox.OctetsStream.Write*", "iox.OctetsWriter.*", "iox.OctetsReader.*",
               "convert.String", "convert.Bytes"]
    harness = "c11"
    driver = "drv_codec"
    driver_args = ["c11"]
    rule = ("one case = one sequence of typed writes (bool, byte, int16, int32, int64, 7-bit int32, bytes, string, raw) on a "
            "fresh stream with the real writer, Bytes() printed, then the matching reads with the real reader (value and "
            "Position() after each). Generated: all bool/byte/int16 values; int32 (fixed and 7-bit of the same value): "
            "boundaries 2^(7k)+-2, 2^(8k)+-2, all 7-bit group patterns over boundary digits, values with <= 2 non-trivial byte "
            "lanes over 00/ff background (quick: 1/2 sample, thorough: all 786432), random; int64 boundary/lane/random; "
            "bytes/strings with lengths across 127/128, 16383/16384 (thorough also 2^21) and non-UTF-8 content; random typed "
            "sequences. distinct by script line; non-trivial = at least one value whose encoding has more than one byte")
    trusted_base = ["convert.String/convert.Bytes modelled as identity on the byte sequence (unsafe cast, not verified)",
                    "Go int (positions, lengths) modelled as unbounded naturals: streams shorter than 2^63 bytes"]
    assumptions = ["len(data) < 2^31 for WriteBytes/WriteString (int32 length prefix)",
                   "raw stream.Read round trip only for buffers of length >= 1 (Read rejects empty buffers by contract)"]
    shrink_sep = " ; "

    def oracle(self, script, impl):
        if impl.startswith("panic") or impl.startswith("<"):
            return ("panic", "codec panicked or did not return: " + impl[:200])
        toks = parse_script(script)
        parts = impl.split(" | ")
        if len(parts) != 3 or not parts[0].startswith("bytes="):
            return ("malformed", "unexpected harness output: " + impl[:200])
        hx = parts[0][6:]
        try:
            data = unhex(hx)
        except ValueError:
            return ("write-failed", "writer did not produce bytes: " + hx[:100])
        # 1. wire format: bytes must be exactly the documented encoding of the sequence
        pos = 0
        ends = []
        for t, p in toks:
            e = encode(t, p)
            if data[pos:pos + len(e)] != e:
                return ("wire-format", "value %s:%s encoded as %s, documented wire format is %s (offset %d)" % (
                    t, p[:40], data[pos:pos + len(e)].hex()[:60], e.hex()[:60], pos))
            pos += len(e)
            ends.append(pos)
        if pos != len(data):
            return ("wire-format", "writer produced %d bytes, documented encoding has %d" % (len(data), pos))
        # 2. independent decoder on the produced bytes gives the written values back
        q = 0
        for (t, p) in toks:
            r = decode(t, p, data, q)
            canon = p if t not in ("B", "S", "R", "y") else (p.lower() if p != "-" else "-")
            if r is None or r[0] != canon:
                return ("wire-format", "independent decoder reads %s for written %s:%s" % (r, t, p[:40]))
            q = r[1]
        # 3. read-back of the real reader
        items = parts[1].split()
        if len(items) != len(toks):
            return ("malformed", "read-back has %d items for %d values" % (len(items), len(toks)))
        for (t, p), it, end in zip(toks, items, ends):
            val, _, at = it.rpartition("@")
            rt, _, rv = val.partition(":")
            want = p.lower() if t in ("B", "S", "R", "y") else p
            if t == "R" and p == "-":
                want = "err-InvalidArgument"  # Read with an empty buffer is rejected by contract
            if rt != t or rv != want:
                return ("round-trip", "wrote %s:%s, read back %s" % (t, p[:60], val[:80]))
            if int(at) != end:
                return ("round-trip", "after reading %s:%s Position() = %s, bytes written up to %d" % (t, p[:40], at, end))
        tail = dict(x.split("=") for x in parts[2].split())
        if int(tail["len"]) != len(data) or int(tail["pos"]) != len(data):
            return ("round-trip", "final Len/Position %s, %d bytes were written" % (parts[2], len(data)))
        return None

    def nontrivial(self, script, impl):
        return any(t not in ("b", "y") for t, _ in parse_script(script))


SPEC = C11()
