"""C11: iox codec round trip + wire format.
Oracle (independent of the Lean model): the bytes produced by the real writer must equal the documented wire format
computed here (little-endian two's complement, unsigned LEB128 of the 32-bit pattern, LEB128 length prefix + raw bytes),
an independent Python decoder applied to those bytes must give back the written values, and the real reader's read-back
must return every written value with Position() advancing by exactly the encoded size. The harness additionally keeps every
decoded string / byte slice across Tidy()/Reset() + later writes and overwrites the caller's input buffers after the writes
(`alias=ok|FAIL ...`): a kept value that changes, or stream bytes that change with the caller's buffer, is a violation."""
import os
import random
import struct
import subprocess
import time
import zlib

from . import common as C
from . import runner as R
from .runner import Spec

WIDTH = {"h": 2, "i": 4, "l": 8}


def leb128(n):
    out = bytearray()
    while n > 127:
        out.append((n & 0x7F) | 0x80)
        n >>= 7
    out.append(n)
    return bytes(out)


def unleb128(data, pos):
    """unsigned LEB128 decode, at most 5 bytes -> (value, new pos) or None"""
    val = 0
    for k in range(5):
        if pos >= len(data):
            return None
        b = data[pos]
        pos += 1
        val |= (b & 0x7F) << (7 * k)
        if b < 0x80:
            return val, pos
    return None


def unhex(s):
    return b"" if s == "-" else bytes.fromhex(s)


def encode(t, p):
    """documented wire format of one typed value -> bytes"""
    if t == "b":
        return b"\x01" if p == "1" else b"\x00"
    if t == "y":
        return unhex(p)
    if t in WIDTH:
        return int(p).to_bytes(WIDTH[t], "little", signed=True)
    if t == "v":
        return leb128(int(p) & 0xFFFFFFFF)
    if t in ("B", "S"):
        d = unhex(p)
        return leb128(len(d)) + d
    if t == "R":
        return unhex(p)
    raise ValueError(t)


def decode(t, p, data, pos):
    """independent decoder: canonical text of the value of type t at data[pos:] and the new position (None = malformed)"""
    if t == "b":
        return ("1" if data[pos] == 1 else "0"), pos + 1
    if t == "y":
        return "%02x" % data[pos], pos + 1
    if t in WIDTH:
        w = WIDTH[t]
        if pos + w > len(data):
            return None
        return str(int.from_bytes(data[pos:pos + w], "little", signed=True)), pos + w
    if t == "v":
        r = unleb128(data, pos)
        if r is None:
            return None
        v, q = r
        return str(v - (1 << 32) if v >= 1 << 31 else v), q
    if t in ("B", "S"):
        r = unleb128(data, pos)
        if r is None:
            return None
        n, q = r
        if q + n > len(data):
            return None
        d = data[q:q + n]
        return (d.hex() if d else "-"), q + n
    if t == "R":
        n = len(unhex(p))
        d = data[pos:pos + n]
        return (d.hex() if d else "-"), pos + n
    raise ValueError(t)


def block_crc(block):
    """CRC-32 of the documented observations of the 2^16 int32 patterns of a block (harness/cmd/c11/range.go):
    per value: wire bytes (LE32 + LEB128) | value LE32 | position 4 | value LE32 | position 4+len(LEB128)"""
    parts = []
    base = block << 16
    pk = struct.pack
    for k in range(65536):
        u = base | k
        f = pk("<I", u)
        l = leb128(u)
        parts.append(f + l + f + b"\x04" + f + bytes([4 + len(l)]))
    return zlib.crc32(b"".join(parts))


def block_lines(block):
    """the 2^16 values of a block as per-value script lines (16 values, fixed + 7-bit, per line)"""
    out, toks = [], []
    for k in range(65536):
        u = (block << 16) | k
        v = u - (1 << 32) if u >= 1 << 31 else u
        toks.append("i:%d ; v:%d" % (v, v))
        if len(toks) == 16:
            out.append("seq | " + " ; ".join(toks))
            toks = []
    return out


def parse_script(script):
    head, body = script.split("|", 1)
    toks = []
    for f in body.split(";"):
        f = f.strip()
        if f:
            t, p = f.split(":", 1)
            toks.append((t, p))
    return toks


# ---------------------------------------------------------------- translator tie (shared with C12)
AST_TRUSTED = ("translator tie: tools/srcfacts/minigo_codec.go (go/ast + go/types -> MiniGoBytes terms, "
               "Got/Generated/AstIox.lean regenerated from /repo on every run) and the interpreter Got/Model/MiniGoBytes.lean "
               "(Go `int` arithmetic without wrap-around: positions/lengths < 2^63); the interpreter run on the generated terms is "
               "compared with the real code on every case of the correspondence (driver modes ast11 / ast12; `range32` and "
               "`giant` lines of C11 are answered by the hand-written model in that mode)")


def _ast_relevant(name):
    """generated definition name (OctetsStream_ReadInt16) -> Go method name if it is one of the anchored methods"""
    if "_" not in name:
        return None
    typ, meth = name.split("_", 1)
    if typ in ("OctetsWriter", "OctetsReader"):
        return typ + "." + meth
    if typ == "OctetsStream" and (meth.startswith("Read") or meth.startswith("Write") or meth in ("Len", "Position")):
        return typ + "." + meth
    return None


def _ast_limits():
    import resource
    lim = 6 << 30  # a variant without a bounds check can make the interpreter `make` 2^31 bytes
    resource.setrlimit(resource.RLIMIT_AS, (lim, lim))


def ast_tie(spec, ctx, mode):
    """second correspondence (as C14's): (a) every anchored iox method must still be inside the MiniGoBytes fragment
    (translation note "ok" in the regenerated Got/Generated/AstIox.lean); (b) the MiniGoBytes interpreter on the terms
    regenerated from /repo's source (driver mode ast11 / ast12) must print what the real code printed, line by line."""
    import re
    import shutil
    ex = ctx.get("ex")
    cov = ctx["coverage"]
    gen = os.path.join(C.LEAN, "Got", "Generated", "AstIox.lean")
    notes = {}
    if os.path.exists(gen):
        for m in re.finditer(r'^def (\w+)Note : String := "(.*)"\s*$', open(gen, errors="replace").read(), re.M):
            notes[m.group(1)] = m.group(2)
    rel = {}
    for name, note in notes.items():
        go = _ast_relevant(name)
        if go is not None:
            rel[go] = note
    cov["translated_methods"] = len(rel)
    not_ok = sorted("%s: %s" % (g, n) for g, n in rel.items() if n != "ok")
    cov["translation_notes_not_ok"] = not_ok
    if not rel:
        ctx["broken"].append({"layer": "L2", "what": "translator: no translated iox method found in Got/Generated/AstIox.lean"})
    for g, n in sorted(rel.items()):
        if n != "ok":
            ctx["broken"].append({"layer": "L2", "what": "translator: %s is no longer inside the MiniGoBytes fragment (%s)" % (g, n)})
    if not ex or "build_error" in ex or not ex.get("script") or not os.path.exists(C.driver_path(spec.driver)):
        return
    d = os.path.join(C.OUT, "run", "%s-ast-%d" % (spec.id, os.getpid()))
    C.fresh_dir(d)
    t0 = time.time()
    try:
        script = ex["script"]
        # the driver is stateless per line: round-robin shards, run in parallel, re-interleaved afterwards
        nshard = max(1, min(C.NCPU // 2, 4, len(script)))
        procs = []
        for k in range(nshard):
            sp, op = os.path.join(d, "script%d.txt" % k), os.path.join(d, "ast%d.txt" % k)
            with open(sp, "w") as fh:
                fh.write("".join(x + "\n" for x in script[k::nshard]))
            fin, fout = open(sp), open(op, "w")
            procs.append((subprocess.Popen([C.driver_path(spec.driver), mode], stdin=fin, stdout=fout, stderr=subprocess.PIPE,
                                           preexec_fn=_ast_limits), fin, fout, op))
        rc, err = 0, ""
        outs = []
        deadline = t0 + 900
        for p, fin, fout, op in procs:
            try:
                _, e = p.communicate(timeout=max(1, deadline - time.time()))
            except subprocess.TimeoutExpired:
                p.kill()
                _, e = p.communicate()
                e = (e or b"") + b" <timeout 900 s>"
            fin.close()
            fout.close()
            if p.returncode != 0:
                rc = p.returncode
                err += (e or b"").decode(errors="replace")[-300:]
            outs.append(open(op, errors="replace").read().split("\n")[:-1])
        complete = all(len(o) == len(script[k::nshard]) for k, o in enumerate(outs))
        out = [None] * len(script)
        for k, o in enumerate(outs):
            for j, line in enumerate(o):
                if k + j * nshard < len(out):
                    out[k + j * nshard] = line
        nout = sum(len(o) for o in outs)
        bad = [(i, s, a, b) for i, (s, a, b) in enumerate(zip(script, ex["impl"], out)) if b is not None and a != b]
        cov["ast_interpreter_lines"] = nout
        cov["ast_interpreter_mismatches"] = len(bad)
        cov["ast_interpreter_wall_s"] = round(time.time() - t0, 1)
        if rc != 0 or not complete:
            ctx["broken"].append({"layer": "L2", "what": "driver (%s mode) failed rc=%s, %d of %d lines: %s" % (
                mode, rc, nout, len(script), (err or "")[-300:]),
                "first": [{"script": s[:200], "impl": a[:200], "ast": b[:200]} for _, s, a, b in bad[:5]]})
        elif bad:
            ctx["broken"].append({"layer": "L2", "what": "translated source (MiniGoBytes interpreter) and implementation differ on %d of %d lines" % (
                len(bad), nout), "first": [{"script": s[:200], "impl": a[:200], "ast": b[:200]} for _, s, a, b in bad[:5]]})
    finally:
        shutil.rmtree(d, ignore_errors=True)


class C11(Spec):
    id = "C11"
    anchors = ["iox.OctetsStream.Read*", "iox.OctetsStream.Write*", "iox.OctetsWriter.*", "iox.OctetsReader.*",
               "convert.String", "convert.Bytes"]
    harness = "c11"
    driver = "drv_codec"
    driver_args = ["c11"]
    rule = ("one case = one sequence of typed writes (bool, byte, int16, int32, int64, 7-bit int32, bytes, string, raw) on a "
            "fresh stream with the real writer, Bytes() printed, then the matching reads with the real reader (value and "
            "Position() after each). Generated: all bool/byte/int16 values; int32 (fixed and 7-bit of the same value): "
            "boundaries 2^(7k)+-2, 2^(8k)+-2, all 7-bit group patterns over boundary digits, values with <= 2 non-trivial byte "
            "lanes over 00/ff background (quick: 1/2 sample, thorough: all 786432), random; whole blocks of 2^16 consecutive int32 "
            "patterns folded into one CRC per block (quick 20, thorough 64 in the compared script + 2048 more in parallel shards; "
            "VERIF_C11_SWEEP=full sweeps all 2^32); int64 boundary/lane/random; "
            "bytes/strings with lengths across 127/128, 16383/16384, 65535/65536/65537, 70000, 2^20 (thorough also 2^21) placed "
            "behind and in front of other values, non-UTF-8 content; every case also runs the alias phase; hash-collision sets (distinct equal-length strings of length 3..16, 17, 24, 33, 64 "
            "colliding under FNV-1a/FNV-1/CRC-32/Adler-32/djb2/sdbm/31h+c and their 16-bit truncations, brute-forced at start-up) "
            "written and read back-to-back and interleaved as strings and byte slices; conc lines: 8 goroutines with private "
            "streams repeat their own sequences 10000-30000 times concurrently and must reproduce the sequential bytes and values "
            "(quick 16, thorough 120 lines); records of 127/128/129, 16383/16384/16385, 2097151/2097152/2097153 bytes as bytes and as string in the compact "
            "giant form (every prefix-width boundary +-1); thorough only, when >= 3 GiB are available: records of 2^28-1, 2^28, 2^28+1 bytes (5-byte "
            "prefix boundary; the driver does not materialise them: expected prefix = spec leb128 of the length, lengths, and a "
            "CRC-32 streamed over the payload formula, by C11_wire_bytes / C11_roundtrip_bytes); random typed "
            "sequences. distinct by script line; non-trivial = at least one value whose encoding has more than one byte")
    trusted_base = ["convert.String/convert.Bytes modelled as identity on the byte sequence (unsafe cast, not verified)",
                    "Go int (positions, lengths) modelled as unbounded naturals: streams shorter than 2^63 bytes",
                    AST_TRUSTED]
    assumptions = ["independence of streams used by different goroutines is outside the sequential Lean model; it is searched for by "
                   "the conc phase (probabilistic: needs >= 2 CPUs) and judged by the oracle only (L3)",
                   "aliasing (decoded values / input buffers sharing memory with the stream) is outside the value-semantics Lean "
                   "model; it is searched for by the harness alias phase and judged by the oracle only (L3)",
                   "len(data) < 2^31 for WriteBytes/WriteString (int32 length prefix)",
                   "raw stream.Read round trip only for buffers of length >= 1 (Read rejects empty buffers by contract)"]
    shrink_sep = " ; "

    def oracle(self, script, impl):
        if impl.startswith("panic") or impl.startswith("<"):
            return ("panic", "codec panicked or did not return: " + impl[:200])
        if script.startswith("range32 "):
            block = int(script.split()[1])
            want = "crc=%08x" % block_crc(block)
            if impl != want:
                return ("block-hash", "some int32 in [%d, %d] (bit patterns of block %d) is not written in the documented wire "
                        "format or not read back: block CRC %s, documented %s" % (
                            (block << 16) - ((1 << 32) if block >= 32768 else 0),
                            ((block << 16) | 0xFFFF) - ((1 << 32) if block >= 32768 else 0), block, impl[:40], want))
            return None
        if script.startswith("conc "):
            return self.oracle_conc(script, impl)
        if script.startswith("giant "):
            return self.oracle_giant(script, impl)
        toks = parse_script(script)
        parts = impl.split(" | ")
        if len(parts) != 4 or not parts[0].startswith("bytes=") or not parts[3].startswith("alias="):
            return ("malformed", "unexpected harness output: " + impl[:200])
        hx = parts[0][6:]
        try:
            data = unhex(hx)
        except ValueError:
            return ("write-failed", "writer did not produce bytes: " + hx[:100])
        # 1. wire format: bytes must be exactly the documented encoding of the sequence
        pos = 0
        ends = []
        for t, p in toks:
            e = encode(t, p)
            if data[pos:pos + len(e)] != e:
                return ("wire-format", "value %s:%s encoded as %s, documented wire format is %s (offset %d)" % (
                    t, p[:40], data[pos:pos + len(e)].hex()[:60], e.hex()[:60], pos))
            pos += len(e)
            ends.append(pos)
        if pos != len(data):
            return ("wire-format", "writer produced %d bytes, documented encoding has %d" % (len(data), pos))
        # 2. independent decoder on the produced bytes gives the written values back
        q = 0
        for (t, p) in toks:
            r = decode(t, p, data, q)
            canon = p if t not in ("B", "S", "R", "y") else (p.lower() if p != "-" else "-")
            if r is None or r[0] != canon:
                return ("wire-format", "independent decoder reads %s for written %s:%s" % (r, t, p[:40]))
            q = r[1]
        # 3. read-back of the real reader
        items = parts[1].split()
        if len(items) != len(toks):
            return ("malformed", "read-back has %d items for %d values" % (len(items), len(toks)))
        for (t, p), it, end in zip(toks, items, ends):
            val, _, at = it.rpartition("@")
            rt, _, rv = val.partition(":")
            want = p.lower() if t in ("B", "S", "R", "y") else p
            if t == "R" and p == "-":
                want = "err-InvalidArgument"  # Read with an empty buffer is rejected by contract
            if rt != t or rv != want:
                return ("round-trip", "wrote %s:%s, read back %s" % (t, p[:60], val[:80]))
            if int(at) != end:
                return ("round-trip", "after reading %s:%s Position() = %s, bytes written up to %d" % (t, p[:40], at, end))
        tail = dict(x.split("=") for x in parts[2].split())
        if int(tail["len"]) != len(data) or int(tail["pos"]) != len(data):
            return ("round-trip", "final Len/Position %s, %d bytes were written" % (parts[2], len(data)))
        # 4. values the caller keeps stay what was written; the stream does not keep the caller's buffers
        if parts[3] != "alias=ok":
            what = parts[3][6:]
            idx = what.rsplit("#", 1)[1] if "#" in what else "?"
            val = ("%s:%s" % toks[int(idx)])[:60] if idx.isdigit() and int(idx) < len(toks) else "?"
            return ("aliasing", "value #%s (%s) did not stay equal to what was written / the stream shares memory with the "
                    "caller: %s (write-input: caller reused its input buffer after the write; tidy+write, reset+write, "
                    "tidy-memmove: decoded value held across Tidy()/Reset() and later writes)" % (idx, val, what))
        return None

    def oracle_conc(self, script, impl):
        """conc R | body || body ...: every body's sequential observation is judged like a seq line; the concurrent repetition
        on private streams must not have changed any byte or value"""
        bodies = [b.strip() for b in script.split("|", 1)[1].split("||") if b.strip()]
        outs = impl.split(" || ")
        if len(outs) != len(bodies) + 1 or not outs[-1].startswith("conc="):
            return ("malformed", "unexpected harness output: " + impl[:200])
        for b, o in zip(bodies, outs):
            r = self.oracle("seq | " + b, o + " | alias=ok")
            if r is not None:
                return r
        if outs[-1] != "conc=ok":
            return ("concurrency", "%d goroutines, each encoding and decoding its own sequence on its OWN private stream at the "
                    "same time: a goroutine saw bytes / values different from the sequential run of the same sequence "
                    "(independent streams influence each other): %s" % (len(bodies), outs[-1][5:400]))
        return None

    def oracle_giant(self, script, impl):
        """giant <B|S> <n> <seed>: 0xA5, a record of n >= 2^28 payload bytes, int16 -2"""
        _, kind, n, seed = script.split()
        n, seed = int(n), int(seed)
        pre = leb128(n)
        k = len(pre)
        block = bytes((((j * 0x9E3779B1 + seed) & 0xFFFFFFFFFFFFFFFF) >> 16) & 0xFF for j in range(65536))
        crc = 0
        full, rem = divmod(n, 65536)
        for _ in range(full):
            crc = zlib.crc32(block, crc)
        crc = "%08x" % zlib.crc32(block[:rem], crc)
        f = dict(x.split("=", 1) for x in impl.replace(" | ", " ").split() if "=" in x)
        total = 1 + k + n + 2
        if "head" not in f or "len" not in f:
            return ("wire-format", "writing a %d-byte %s failed: %s" % (n, "string" if kind == "S" else "byte slice", impl[:200]))
        want_head = (pre + block[:5])[:5].hex()
        if f["head"][:2 * k] != pre.hex() or int(f["len"]) != total:
            return ("wire-format", "payload of %d bytes: stream starts (behind the first byte) with %s and has %s bytes; the documented "
                    "format is the %d-byte LEB128 prefix %s followed by the payload, %d bytes in total" % (
                        n, f["head"], f["len"], k, pre.hex(), total))
        if f["head"] != want_head or f.get("crc") != crc:
            return ("wire-format", "payload of %d bytes was not written unchanged behind the prefix (head %s crc %s, expected %s %s)" % (
                n, f["head"], f.get("crc"), want_head, crc))
        if " y:a5@1 " not in impl or f.get("rlen") != str(n) or f.get("rcrc") != crc or f.get("pos") != str(1 + k + n) \
                or f.get("next") != "-2@%d" % total:
            return ("round-trip", "payload of %d bytes read back as %s (expected rlen=%d rcrc=%s pos=%d next=-2@%d)" % (
                n, impl.split(" | ", 1)[-1][:200], n, crc, 1 + k + n, total))
        return None

    def nontrivial(self, script, impl):
        if script.startswith(("range32 ", "conc ", "giant ")):
            return True
        return any(t not in ("b", "y") for t, _ in parse_script(script))

    # ---------------------------------------------------------------- range protocol: pinpointing and the parallel sweep
    def _sweep(self, ctx, blocks):
        """run `range32` lines for the given blocks on harness and driver in parallel shards; returns (mismatching blocks, info)"""
        t0 = time.time()
        binp, err = C.build_harness(self.harness, self.tags)
        if binp is None:
            return [], {"error": "harness does not build"}
        nshard = max(1, min(C.NCPU, 16, len(blocks)))
        base = C.fresh_dir(os.path.join(C.BUILD, "run", self.id + "-sweep"))
        dirs = []
        procs = []
        for k in range(nshard):
            d = os.path.join(base, "s%02d" % k)
            os.makedirs(d)
            with open(os.path.join(d, "in.txt"), "w") as fh:
                fh.write("".join("range32 %d\n" % b for b in blocks[k::nshard]))
            dirs.append(d)
            procs.append(subprocess.Popen([binp, "-seed", "1", "-tier", "quick", "-out", d, "-replay", os.path.join(d, "in.txt")],
                                          env=C.GOENV, stdout=subprocess.DEVNULL, stderr=subprocess.DEVNULL))
        for p in procs:
            p.wait()
        procs = []
        for d in dirs:
            fin = open(os.path.join(d, "script.txt"))
            fout = open(os.path.join(d, "model.txt"), "w")
            procs.append((subprocess.Popen([C.driver_path(self.driver)] + self.driver_args, stdin=fin, stdout=fout,
                                           stderr=subprocess.DEVNULL), fin, fout))
        for p, fin, fout in procs:
            p.wait()
            fin.close()
            fout.close()
        bad, checked, oracle_checked = [], 0, 0
        oracle_budget = int(os.environ.get("VERIF_C11_SWEEP_ORACLE", "128"))
        for d in dirs:
            sc = R._read_lines(os.path.join(d, "script.txt"))
            im = R._read_lines(os.path.join(d, "impl.txt"))
            mo = R._read_lines(os.path.join(d, "model.txt"))
            for i, s in enumerate(sc):
                b = int(s.split()[1])
                a = im[i] if i < len(im) else "<none>"
                m = mo[i] if i < len(mo) else "<none>"
                checked += 1
                if a != m:
                    bad.append(b)
                elif oracle_checked < oracle_budget and i % max(1, len(sc) * nshard // max(1, oracle_budget)) == 0:
                    oracle_checked += 1
                    if self.oracle(s, a) is not None:
                        bad.append(b)
        info = {"blocks": checked, "values": checked * 65536, "shards": nshard, "mismatching_blocks": bad[:20],
                "blocks_also_checked_by_python_oracle": oracle_checked, "wall_s": round(time.time() - t0, 1)}
        return bad, info

    def extra(self, ctx):
        ast_tie(self, ctx, "ast11")
        ex = ctx.get("ex")
        if ex is None or "build_error" in ex:
            return
        bad = []
        for i, s in enumerate(ex.get("script", [])):
            if s.startswith("range32 "):
                im = ex["impl"][i] if i < len(ex["impl"]) else ""
                mo = ex["model"][i] if i < len(ex["model"]) else ""
                if im != mo or self.oracle(s, im) is not None:
                    bad.append(int(s.split()[1]))
        # thorough tier: parallel sweep over more blocks (VERIF_C11_SWEEP=full: all 65536 = every int32 value, about
        # 9 CPU-hours of the Lean model = half an hour on 16 idle cores; VERIF_C11_SWEEP=<n>: n blocks; default 2048 blocks
        # = 1.3e8 values, 16 CPU-minutes; 0 = off)
        if ctx["tier"] == "thorough" and os.path.exists(C.driver_path(self.driver)):
            mode = os.environ.get("VERIF_C11_SWEEP", "2048")
            if mode == "full":
                blocks = list(range(65536))
            else:
                n = max(0, min(65536, int(mode)))
                blocks = random.Random(ctx["seed"] * 7919 + 11).sample(range(65536), n)
            if blocks:
                sbad, info = self._sweep(ctx, blocks)
                ctx["coverage"]["int32_block_sweep"] = info
                if sbad:
                    ctx["broken"].append({"layer": "L2", "what": "range sweep: implementation and model (or the documented format) "
                                          "differ on int32 blocks %s" % sbad[:10]})
                    bad += sbad
        # pinpoint: re-run a failing block value by value to obtain the concrete failing value
        for b in bad[:2]:
            path = os.path.join(C.BUILD, "block-%s-%d.txt" % (self.id, b))
            with open(path, "w") as fh:
                fh.write("\n".join(block_lines(b)) + "\n")
            ex2 = R.execute(self, os.path.join(C.BUILD, "run", self.id + "-block"), "quick", ctx["seed"], replay=path)
            if "build_error" in ex2:
                break
            _, fails, _, _ = R.analyse(self, ex2)
            if fails:
                ctx["concrete"][:0] = fails[:5]
                break


SPEC = C11()
