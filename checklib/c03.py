"""C03 — loom.Wheel timers fire exactly once, never late and less than one step early.

One harness binary (tags "verif faketime") serves three kinds of script lines:
  race  controlled-scheduler runs (loom.VerifNewWheelNoLoop + VerifTick): step log + the tick that releases every timer
  time  the real wheel with its own ticker under the Go runtime's virtual clock: fire instants in ns
  pure  range check / bucket index / Reset interval selection
The driver (drv_wheel) works in monitor mode: deterministic lines (race, pure) must equal the model's line, timed
lines must be one of the model's allowed outcomes (a request issued exactly at a tick instant may be ordered
before or after that tick).

The oracle below re-derives everything from the property statement and the harness' own counters; it does not
use the Lean model.
"""
from .runner import Spec


def sel_interval(step, base, arg):
    """WheelTimer.Reset: the argument replaces the timer's interval only when it is >= step"""
    if arg is not None and arg >= step:
        return arg
    return base


def out_of_range(step, n, d):
    return d < 0 or d >= step * n


def offset(step, d):
    """k with k+1 = max(floor(d/step), 1)"""
    return max(d // step, 1) - 1


def parse_ops(s):
    ops = []
    for w in s.split(","):
        if w[0] in "na":
            ops.append((w[0], int(w[1:])))
        elif w == "r":
            ops.append(("r", None))
        else:
            ops.append(("r", int(w[1:])))
    return ops


class C03(Spec):
    id = "C03"
    anchors = ["loom.Wheel.fetchWheelData", "loom.Wheel.onTicker", "loom.WheelTimer.Reset", "loom.Wheel.NewTimer",
               "loom.Wheel.AfterFunc", "loom.Wheel.goLoop", "loom.NewWheel", "loom.laterImpl.NewTicker"]
    harness = "c03"
    tags = "verif faketime"
    driver = "drv_wheel"
    driver_args = []
    monitor = True
    shrink_sep = " "
    harness_timeout = {"quick": 900, "thorough": 3600}
    # the runtime's faketime clock can live-lock with many Ps (all goroutines asleep, clock not advancing);
    # main() also calls runtime.GOMAXPROCS(1)
    harness_env = {"GOMAXPROCS": "1"}
    rule = ("race line = wheel config + per-thread op chains + schedule (thread ids; 0 = ticker), executed on the real "
            "code under the controlled scheduler; compared: the access log (thread, hook site, position/slot/channel) and "
            "for every request the counters at invocation/return, the returned channel and the tick that closes it. "
            "Schedules: every joint state and transition (thorough: every interleaving) of one tick x one request for "
            "n in 1..4, every bucket offset, every wheel phase; state/transition coverage for up to n+1 (thorough 2n+1) "
            "ticks x one request, two requests, Reset chains, AfterFunc; random schedules for n <= 8 with up to 4 threads. "
            "time line = (step, buckets) + up to 64 concurrent timer programs (arm instant, interval, Reset chain) on the "
            "real wheel under virtual time; compared: every fire instant in ns. pure line = NewTimer/Reset range check and "
            "bucket index (also on huge wheels). huge line = sequential NewTimer/Reset chain on wheels of 65535..200000 buckets "
            "(ring-size boundaries 65535/65536/65537 steps, longest interval, half ring), ticked until the timer is released; "
            "compared: the releasing tick. distinct by script line; non-trivial = a race line in which some request overlaps at least one "
            "ticker access, a time line with at least one fire, a pure line that does not panic")
    trusted_base = ["harness/csched (controlled scheduler) and the verifYield hook sites of loom/verif_on.go",
                    "Go runtime faketime clock (GOMAXPROCS=1): time.Ticker delivers tick j at j*step",
                    "one transition = one sync/atomic access or the close (sequentially consistent)",
                    "translator tie (race part): tools/srcfacts/minigo_atomic.go (go/ast + go/types -> AtomicIR programs of "
                    "fetchWheelData and onTicker, regenerated every run into Got/Generated/AstLoomWheel.lean; Go ints as unbounded "
                    "integers; NewWheel, goLoop and WheelTimer.Reset's interval choice are not translated) and the AtomicIR semantics "
                    "(Got/Model/AtomicIR.lean); the generated LTS is replayed on every race line of the correspondence (driver mode "
                    "`ast`) and must print what the real code printed (ast_interpreter_mismatches)"]
    assumptions = ["onTicker is called by one goroutine only (goLoop)",
                   "the wheel's ticker is not late: tick j happens at j*step (the property is stated on the wheel's own tick clock)",
                   "step * buckets does not overflow int64"]

    # ------------------------------------------------------------------ oracle
    def oracle(self, script, impl):
        w = script.split()
        if not w:
            return None
        if impl.startswith("panic") or impl.startswith("<"):
            return ("crash", "harness reported: " + impl[:200])
        try:
            if w[0] == "race":
                return self.oracle_race(w[1:], impl)
            if w[0] == "time":
                return self.oracle_time(w[1:], impl)
            if w[0] == "pure":
                return self.oracle_pure(w[1:], impl)
            if w[0] == "huge":
                return self.oracle_huge(w[1:], impl)
            if w[0] == "ctor":
                exp = "P" if int(w[1]) <= 0 or int(w[2]) <= 0 else "ok"
                if impl != exp:
                    return ("ctor", "NewWheel(%s, %s): expected %s, got %s" % (w[1], w[2], exp, impl))
                return None
        except (ValueError, IndexError, KeyError) as e:
            return ("malformed", "cannot parse observation (%s): %s" % (e, impl[:200]))
        return None

    def oracle_race(self, w, impl):
        bar = w.index("|")
        n, step = int(w[0]), int(w[1])
        threads = [parse_ops(x) for x in w[2:bar]]
        if " | " not in impl + " ":
            return ("malformed", "no result part")
        logpart, respart = impl.split(" | ", 1) if " | " in impl else (impl.rstrip(" |"), "")
        rw = respart.split()
        if any(x.startswith("tickerpanic") for x in rw):
            return ("ticker-panic", "onTicker panicked (close of a closed channel?): " + respart[-200:])
        if "blocked" in rw:
            return ("blocked", "a thread did not reach its next access")
        # every channel is closed at most once, by consecutive ticks
        closes = [e.split(".")[2] for e in logpart.split() if e.startswith("0.7.")]
        if len(set(closes)) != len(closes):
            return ("closed-twice", "a channel was closed twice: %s" % closes)
        close_tick = {c: i + 1 for i, c in enumerate(closes)}
        res = {}
        for x in rw:
            if "=" in x and x.startswith("T"):
                k, v = x.split("=", 1)
                res[k] = v
        for t, ops in enumerate(threads, start=1):
            base = None
            for i, (kind, val) in enumerate(ops):
                key = "T%d.%d" % (t, i)
                if kind in "na":
                    d = val
                    base = val
                else:
                    d = sel_interval(step, base, val)
                if key not in res:
                    return ("missing-result", "no result for %s" % key)
                v = res[key]
                if out_of_range(step, n, d):
                    if v != "P":
                        return ("range-no-panic", "%s: interval %d outside [0,%d) did not panic: %s" % (key, d, step * n, v))
                    break  # the thread ends with the panic
                if v == "P":
                    return ("range-panic", "%s: interval %d inside [0,%d) panicked" % (key, d, step * n))
                f = v.split(",")
                inv_cls = int(f[0][1:].split("/")[0])
                ret_cls, ret_adv = [int(z) for z in f[1][1:].split("/")]
                k = offset(step, d)
                fs = f[3][1:]
                if fs == "never":
                    return ("never-fired", "%s (interval %d, offset %d) was not released by any of the following 2n+4 ticks" % (key, d, k))
                fire = int(fs)
                if f[2] not in ("c-", "c?") and close_tick.get(f[2]) not in (None, fire):
                    return ("inconsistent", "%s: channel %s closed by tick %s but timer ready at %d" % (key, f[2], close_tick.get(f[2]), fire))
                # ∃ L, ticksCompleted@invoke ≤ L ≤ ticksStarted@return ∧ fire = L + k + 1.  An AfterFunc whose channel
                # was already closed when the request returned is observed at the return.
                lo, hi = inv_cls + k + 1, ret_adv + k + 1
                ok = lo <= fire <= hi
                if not ok and kind == "a" and fire == ret_cls and lo <= fire:
                    ok = True
                if not ok:
                    late = fire > hi
                    return ("fire-tick-late" if late else "fire-tick-early",
                            "%s: interval %d on a %d x %d wheel (offset k=%d): %d ticks were complete at the call, %d started at the "
                            "return, so the timer must be released by a tick in [%d,%d]; it was released by tick %d" % (
                                key, d, step, n, k, inv_cls, ret_adv, lo, hi, fire))
        return None

    def oracle_time(self, w, impl):
        bar = w.index("|")
        step, n = int(w[0]), int(w[1])
        progs = w[bar + 1:]
        obs = dict(x.split("=", 1) for x in impl.split())
        for p in progs:
            f = p.split(",")
            pid, kind, at, d0 = f[0], f[1], int(f[2]), int(f[3])
            resets = []
            for r in f[4:]:
                dl, a = r.split("/")
                resets.append((int(dl), None if a == "-" else int(a)))
            if pid not in obs:
                return ("missing-result", "no observation for program %s" % pid)
            fires = obs[pid].split(",")
            tau, d, exact = at, d0, False
            stage = 0
            while True:
                o = fires[stage] if stage < len(fires) else "<missing>"
                what = "program %s stage %d (request at %d ns for %d ns on a %d ns x %d wheel)" % (pid, stage, tau, d, step, n)
                if out_of_range(step, n, d):
                    if o != "P":
                        return ("range-no-panic", "%s: interval outside [0,%d) did not panic: %s" % (what, step * n, o))
                    break
                if o == "P":
                    return ("range-panic", "%s: panicked although the interval is in range" % what)
                if o == "N" or o == "<missing>":
                    return ("never-fired", "%s: never became ready" % what)
                if "x" in o:
                    return ("not-exactly-once", "%s: AfterFunc callback ran %s times" % (what, o.split("x")[1]))
                fire = int(o)
                D = max(step * (d // step), step)
                t = fire - tau
                # D - s < t <= D ; a request issued exactly at a tick instant may be ordered before that tick (t = D - s)
                tie = tau % step == 0 and tau > 0 and not exact
                if t > D:
                    return ("late", "%s: ready after %d ns > D = %d" % (what, t, D))
                if t < D - step or (t == D - step and not tie):
                    return ("early", "%s: ready after %d ns, not later than D - step = %d" % (what, t, D - step))
                if stage >= len(resets):
                    break
                dl, a = resets[stage]
                tau, d, exact = fire + dl, sel_interval(step, d0, a), dl == 0
                stage += 1
        return None

    def oracle_huge(self, w, impl):
        n, step = int(w[0]), int(w[1])
        ops = parse_ops(w[3])
        obs = dict(x.split("=", 1) for x in impl.split())
        base = None
        for i, (kind, val) in enumerate(ops):
            if kind in "na":
                d = base = val
            else:
                d = sel_interval(step, base, val)
            v = obs.get(str(i))
            if v is None:
                return ("missing-result", "no result for op %d" % i)
            if out_of_range(step, n, d):
                if v != "P":
                    return ("range-no-panic", "op %d: interval %d outside [0,%d) did not panic: %s" % (i, d, step * n, v))
                break
            if v == "P":
                return ("range-panic", "op %d: interval %d inside [0,%d) panicked" % (i, d, step * n))
            L, f = v.split(",")
            L = int(L[1:])
            k = offset(step, d)
            if f == "fnever":
                return ("never-fired", "op %d (interval %d = %d steps on a %d-bucket wheel) not released within n+2 ticks" % (i, d, d // step, n))
            fire = int(f[1:])
            # sequential request: L ticks complete at the call and at the return, so the releasing tick is L+k+1 exactly
            if fire != L + k + 1:
                return ("fire-tick-late" if fire > L + k + 1 else "fire-tick-early",
                        "op %d: interval %d (%d steps of %d) on a %d-bucket wheel requested after %d ticks must be released by tick %d; "
                        "it was released by tick %d (%d ticks %s)" % (i, d, d // step, step, n, L, L + k + 1, fire, abs(fire - L - k - 1),
                                                                      "late" if fire > L + k + 1 else "early"))
        return None

    def oracle_pure(self, w, impl):
        step, n, base = int(w[0]), int(w[1]), int(w[2])
        arg = None if w[3] == "-" else int(w[3])
        obs = dict(x.split("=", 1) for x in impl.split())

        def expect(d):
            return "P" if out_of_range(step, n, d) else "k%d" % offset(step, d)
        e1 = expect(base)
        if obs.get("new") != e1:
            return ("range" if "P" in (e1, obs.get("new")) else "index", "NewTimer(%d) on %d x %d: expected %s, got %s" % (base, step, n, e1, obs.get("new")))
        if e1 == "P":
            return None
        e2 = expect(sel_interval(step, base, arg))
        if obs.get("reset") != e2:
            return ("range" if "P" in (e2, obs.get("reset")) else "index", "Reset(%s) of a %d timer on %d x %d: expected %s, got %s" % (arg, base, step, n, e2, obs.get("reset")))
        return None

    # ------------------------------------------------------------------ non-triviality
    def extra(self, ctx):
        from .c01 import translator_extra
        translator_extra(self, ctx, gen_file="AstLoomWheel.lean", notes=("fetchWheelDataNote", "onTickerNote"),
                         what="loom.Wheel.fetchWheelData/onTicker", skip=lambda script, impl: not script.startswith("race "))

    def nontrivial(self, script, impl):
        w = script.split(None, 1)[0]
        if w == "race":
            # a ticker access falls between two consecutive events of one requester (invocation / its accesses),
            # i.e. a request really overlaps the tick
            ticks_seen = 0
            last = {}
            for e in impl.split(" | ")[0].split():
                f = e.split(".")
                if f[0] == "0":
                    ticks_seen += 1
                elif f[0] != "/":
                    if f[1] != "start" and f[0] in last and last[f[0]] < ticks_seen:
                        return True
                    last[f[0]] = ticks_seen
            return False
        if w == "time":
            return any(c.isdigit() for c in impl.split("=", 1)[-1])
        if w == "ctor":
            return impl == "ok"
        if w == "huge":
            return ",f" in impl
        return "k" in impl


SPEC = C03()
