"""C20, large populations (script lines with kind=big, produced by harness/cmd/c20/big.go).

The line describes the call compactly:   ws <seed> <m> n=<n> kind=big cls=.. wb=<base> hv=<i:c,..|-> scale=<tok> ud=<digest> r=..
  w_i = c_i * scale;  c_i = hv[i] if listed, else  uni:C -> C,  rnd:S:LO:HI -> LO + (uint32((i+1)*2654435761 + S*40503) >> 16) % (HI-LO+1)
  the n uniform draws u_i are those of rand.Seed(seed); rand.Float64() x n. They are regenerated here by an independent
  implementation of Go's seeded generator (c20_gorand.py) and checked against the harness's digest ud= = sum (i+1)*bits(u_i) mod 2^64.
This module regenerates the weights from the description and judges the implementation's result against the
PROPERTY: the result must be the m indices with the largest keys u_i^(1/w_i), i.e. the largest
K_i = log c_i - log(-log u_i) (the common factor `scale` does not change the order). Keys within 1e-9 of the m-th
largest are left undecided (either way is accepted); validity (count, range, distinct) was checked by the caller.
The r= field (input of the Lean model) is NOT used here.
"""
import heapq
import math
import struct

from . import c20_gorand

SCALES = {"1", "0.1", "1e-3", "1e6", "1e-9", "1e-30", "1e-300", "1e18", "1e300", "d1", "d3", "d1000"}
MARGIN = 1e-9


def big_cs(n, wb, hv):
    p = wb.split(":")
    if p[0] == "uni" and len(p) == 2:
        cs = [int(p[1])] * n
    elif p[0] == "rnd" and len(p) == 4:
        s, lo, hi = int(p[1]), int(p[2]), int(p[3])
        span = hi - lo + 1
        off = s * 40503
        cs = [lo + ((((i + 1) * 2654435761 + off) & 0xFFFFFFFF) >> 16) % span for i in range(n)]
    else:
        return None
    heavy = {}
    if hv not in ("-", ""):
        for t in hv.split(","):
            i, c = t.split(":")
            heavy[int(i)] = int(c)
            cs[int(i)] = int(c)
    if any(c <= 0 for c in set(cs)):
        return None
    return cs, heavy


def describe(seed, m, n, f, heavy):
    hs = ", ".join("c[%d]=%d" % (i, c) for i, c in sorted(heavy.items())[:20])
    base = f.get("wb", "")
    return ("rand.Seed(%s); WeightedSampling(%d, %d, w) with w[i] = c_i*%s, c_i from %s%s"
            % (seed, m, n, f.get("scale", "1"), base, (" except " + hs) if hs else ""))


def oracle_big(w, f, impl, res):
    """w: the words of the ws call; f: its fields; res: the returned indices (already valid: m distinct indices in [0,n))"""
    m, n = int(w[2]), int(f["n"])
    if f.get("scale") not in SCALES:
        return None
    g = big_cs(n, f.get("wb", ""), f.get("hv", "-"))
    if g is None:
        return None
    cs, heavy = g
    if m == n:
        return None  # m distinct indices out of [0,n) with m = n: every index is selected
    us = c20_gorand.floats(int(w[1]), n)
    bits = struct.unpack(">%dQ" % n, struct.pack(">%dd" % n, *us))
    if "%016x" % (sum((i + 1) * b for i, b in enumerate(bits)) & c20_gorand.M64) != f.get("ud"):
        return ("harness-stream", "checklib/c20_gorand.py does not reproduce the uniform draws of rand.Seed(%s) that the harness recorded (digest %s): "
                "math/rand of this toolchain differs from the transcribed generator" % (w[1], f.get("ud")))
    logc = {c: math.log(c) for c in set(cs)}
    log = math.log
    got = set(res)
    # (1) a claim that does not depend on WHICH draw goes with which index: when there are at most m heavy items and a heavy
    #     item with the smallest of the n draws still has a larger key than a light item with the largest draw, every heavy
    #     index is among the m largest keys however the draws are consumed
    if heavy and len(heavy) <= m and len(heavy) < n and 0 < min(us) and max(us) < 1:
        light_c = int(f["wb"].split(":")[-1])  # uni:C -> C, rnd:S:LO:HI -> HI: the largest weight factor of a non-heavy item
        if min(heavy.values()) > light_c:
            worst_heavy = log(min(heavy.values())) - log(-log(min(us)))
            best_light = log(light_c) - log(-log(max(us)))
            lost = sorted(i for i in heavy if i not in got)
            if worst_heavy > best_light + 1.0 and lost:
                return ("dominating-index-not-selected",
                        "%s: indices %s carry dominating weights (any of the %d uniform draws gives them a larger key than any draw gives "
                        "an item of weight <= %d*scale) and there are only %d <= sampleNum such items, so they must be selected whatever "
                        "the order in which the draws are consumed, but they are not in the result %s%s%s"
                        % (describe(w[1], m, n, f, heavy), lost[:16], n, light_c, len(heavy), sorted(res)[:16], " .." if len(res) > 16 else "",
                           " [%s are among the LAST 16 indices of the population]" % [i for i in lost if i >= n - 16][:16]
                           if any(i >= n - 16 for i in lost) else ""))
    # (2) the exact claim for the replayed stream (draw i belongs to index i)
    try:
        K = [logc[c] - log(-log(u)) for c, u in zip(cs, us)]
    except ValueError:
        return None  # u = 0 or 1: outside the property's domain
    if m <= 2000:
        thr = heapq.nlargest(m, K)[-1]
    else:
        thr = sorted(K)[n - m]
    hi, lo = thr + MARGIN, thr - MARGIN
    missing = [i for i in range(n) if K[i] > hi and i not in got]
    wrong = [i for i in res if K[i] < lo]
    if not missing and not wrong:
        return None
    tail = [i for i in missing if i >= n - 16]
    msg = "%s: " % describe(w[1], m, n, f, heavy)
    if missing:
        msg += ("indices %s%s have keys u_i^(1/w_i) clearly among the %d largest and must be selected, but are not in the result"
                % (missing[:8], " (.. %d in all)" % len(missing) if len(missing) > 8 else "", m))
        if tail:
            msg += " [%s among the LAST 16 indices of the population]" % tail[:8]
    if wrong:
        msg += "%sreturned indices %s%s have keys clearly below the %d-th largest" % (
            "; " if missing else "", sorted(wrong)[:8], " (.. %d in all)" % len(wrong) if len(wrong) > 8 else "", m)
    msg += "; result %s%s" % (sorted(res)[:12], " .." if len(res) > 12 else "")
    return ("not-top-m", msg)
