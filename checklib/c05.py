"""C05: cachex never serves a result older than 2x expiry and refreshes stale ones once; the sweep is invisible."""
from .runner import Spec
from .c04 import Scenario, judge_pure, monitor_coverage, CACHE_ANCHORS, CACHE_TRUSTED

# the constants of the PROPERTY TEXT (not read from the source): stale after E, gone after 2E
STALE = 1
GONE = 2


def c05_oracle(sc):
    calls = sorted((c for c in sc.calls.values() if c["call_t"] is not None), key=lambda c: (c["call_t"], c["cid"]))
    # (1) nothing older than 2E (at the instant of the call) is ever handed out
    for c in calls:
        if c["ret_t"] is None:
            continue
        if c["kind"] == "get2" and isinstance(c["ret"], tuple) and c["ret"] != ("nil", "nil"):
            t, pair = c["call_t"], c["ret"]
        elif c["kind"] == "fget" and isinstance(c["ret"], tuple):
            ld = sc.calls[c["of"]]
            t, pair = ld["call_t"], c["ret"]   # the future was chosen at the instant of the Load
        else:
            continue
        cands = [r for r in sc.results(c["key"]) if r["pair"] == pair and r["u"] is not None]
        if not cands:
            continue  # C04's business (result from nowhere)
        if not any(r["u"] >= t or t - r["u"] < GONE * r["E"] for r in cands):
            r = max(cands, key=lambda r: r["u"])
            return ("rotted-served", "c%d (%s key %s, call instant %d) got %s which was completed at %d: age %d >= 2*%d"
                    % (c["cid"], c["kind"], c["key"], t, pair, r["u"], t - r["u"], r["E"]))
    keys = {c["key"] for c in calls if c["key"] is not None}
    for key in sorted(keys):
        if sc.tainted(key):
            continue
        for c in calls:
            if c["key"] != key or c["ret_t"] is None:
                continue
            t = c["call_t"]
            if sc.tie_at(key, t):
                continue
            cur = sc.current(key, t)
            definite, maybe = sc.inflight(key, t, c["cid"])
            age = None if cur is None else t - cur["u"]
            # (2) a result younger than 2E is still served: Get2 must not answer (nil, nil) immediately
            if c["kind"] == "get2" and c["ret"] == ("nil", "nil") and c["ret_t"] == t and cur is not None \
                    and cur["pair"] != ("nil", "nil") and age < GONE * cur["E"]:
                return ("live-result-not-served", "Get2 c%d key %s at %d returned (nil,nil) although %s completed at %d is only %d old (2E = %d)"
                        % (c["cid"], key, t, cur["pair"], cur["u"], age, GONE * cur["E"]))
            # (6) a load in flight is awaited: Get2 must not answer (nil, nil) at once while a load of the key (not displaced
            #     by Set) is definitely running and no (nil,nil) result exists that it could legitimately hand out
            if c["kind"] == "get2" and c["ret"] == ("nil", "nil") and c["ret_t"] == t and definite \
                    and not any(r["pair"] == ("nil", "nil") for r in sc.results(key)) \
                    and not any(l["call_t"] is not None and l["pair"] == ("nil", "nil") for l in sc.loads(key)):
                return ("inflight-not-awaited", "Get2 c%d key %s at %d returned (nil,nil) at once although a load of that key is in flight"
                        % (c["cid"], key, t))
            if c["kind"] != "load":
                continue
            started = sc.inv_of_load(c["cid"]) is not None
            # (3) fresh => no new load
            if started and cur is not None and age < STALE * cur["E"]:
                return ("fresh-reloaded", "Load c%d key %s at %d started a loader although %s completed at %d is fresh (age %d < E = %d)"
                        % (c["cid"], key, t, cur["pair"], cur["u"], age, cur["E"]))
            # (4) stale (or gone, or never loaded) and no load in flight => this Load starts exactly the one refresh
            if not started and not definite and not maybe and (cur is None or age >= STALE * cur["E"]):
                # another Load of the key at the same instant may have been the one that refreshed
                if any(o["cid"] != c["cid"] and o["call_t"] == t for o in sc.loads(key)):
                    continue
                what = "nothing was loaded yet" if cur is None else "%s completed at %d is stale (age %d >= E = %d)" % (cur["pair"], cur["u"], age, cur["E"])
                return ("no-refresh", "Load c%d key %s at %d started no loader although %s and no load is in flight" % (c["cid"], key, t, what))
            # (5) stale but younger than 2E: the caller gets the stale result immediately
            if cur is not None and STALE * cur["E"] <= age < GONE * cur["E"] and not definite and not maybe:
                for f in sc.calls.values():
                    if f["kind"] == "fget" and f["of"] == c["cid"] and f["ret_t"] is not None and f["call_t"] == c["ret_t"]:
                        if f["ret_t"] != f["call_t"] or f["ret"] != cur["pair"]:
                            return ("stale-not-served-immediately", "Load c%d key %s at %d: %s (age %d, E = %d) should be served at once, Future.Get2 returned %s at %d"
                                    % (c["cid"], key, t, cur["pair"], age, cur["E"], f["ret"], f["ret_t"]))
    return None


class C05(Spec):
    id = "C05"
    anchors = CACHE_ANCHORS
    harness = "c05"
    tags = "faketime"
    driver = "drv_cache"
    monitor = True
    # faketime + many Ps can live-lock inside the Go runtime's GC; the harness itself runs scenarios with 1 P (4 in marked phases)
    harness_env = {"GOMAXPROCS": "2"}
    shrink_sep = " ; "
    rule = ("one case = one timed scenario on a fresh cache under the Go fake clock; exhaustive boundary table "
            "(result kind value/error/Set x call offset 0,1,E-1,E,E+1,2E-1,2E,2E+1,5E x Load/Get2 x refresh duration) plus random "
            "stories with call instants biased to u+E, u+2E +-1 ns, completion instants and sweep ticks (multiples of 4*En). "
            "Compared (monitor mode): all events with virtual times, future identities, pairs. non-trivial = some call is issued "
            "at age >= E of an earlier result Round-2 classes: 128..1000 entries of ONE shard rotted at a sweep tick plus stale / fresh / in-flight entries of the same shard queried right after it; loads in flight across many ticks. Round-3/4: error-result chains, calls tied with the sweep tick, colliding string keys.")
    trusted_base = CACHE_TRUSTED
    assumptions = ["loaders are functions of the scenario script (duration, result)"]

    def oracle(self, script, impl):
        handled, v = judge_pure(script, impl)
        if handled:
            return None
        if impl.startswith("bad-script") or not script.startswith("cfg"):
            return None
        if impl.startswith("panic"):
            return ("panic", "the cache panicked: " + impl[:200])
        sc = Scenario(script, impl)
        if not sc.ok:
            return None
        return c05_oracle(sc)

    def extra(self, ctx):
        monitor_coverage(ctx)

    def nontrivial(self, script, impl):
        if not script.startswith("cfg") or not impl.startswith("S="):
            return False
        try:
            sc = Scenario(script, impl)
        except Exception:
            return False
        if not sc.ok:
            return False
        for c in sc.calls.values():
            if c["call_t"] is None or c["key"] is None:
                continue
            cur = sc.current(c["key"], c["call_t"])
            if cur is not None and c["call_t"] - cur["u"] >= cur["E"]:
                return True
        return False


SPEC = C05()
