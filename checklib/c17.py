import hashlib
import os
import subprocess

from .runner import Spec

M64 = (1 << 64) - 1


def s64(x):
    x &= M64
    return x - (1 << 64) if x >> 63 else x


def parse_case(script):
    parts = script.split(" | ")
    if len(parts) != 3:
        return None
    head = parts[0].split()
    progs = [p.split() for p in parts[1].split(" / ")]
    return head, progs, parts[2].split()


def parse_tok(tok):
    """'<tid>.<site>:<word>[=<ret>]' -> (tid, site, word, ret) ; other tokens -> None"""
    if "." not in tok or ":" not in tok:
        return None
    a, rest = tok.split(":", 1)
    t, site = a.split(".", 1)
    if not t.isdigit():
        return None
    ret = None
    if "=" in rest:
        rest, ret = rest.split("=", 1)
    try:
        return int(t), int(site), int(rest), ret
    except ValueError:
        return None


class C17(Spec):
    id = "C17"
    anchors = ["loom.Mutex.TryLock", "loom.Mutex.Count", "loom.Flag.AddFlag", "loom.Flag.RemoveFlag",
               "loom.Flag.HasFlag", "loom.AddIf64"]
    harness = "c17"
    tags = "verif"
    driver = "drv_atomics"
    rule = ("one case = one scenario under the controlled scheduler: 2-4 goroutines running programs over TryLock/Unlock "
            "(also against real sync.Mutex Lock/Unlock traffic and constructed state words), AddFlag/RemoveFlag/HasFlag, "
            "AddIf64(old+delta<=limit), with a schedule that picks the goroutine for every single atomic access; or one "
            "Count() call on a constructed mutex state. compared: per step the hook site, the shared word after the step and "
            "every return value. distinct by script line; non-trivial = the schedule produces contention (a failed CAS, a "
            "refused TryLock, real Lock/Unlock traffic) or it is a Count case")
    trusted_base = ["transcription of go1.23 sync.Mutex Lock/Unlock steps on the state word (Got.Model.Atomics.stepM, environment "
                    "actions); the toolchain's sync/mutex.go hash is recorded in the evidence",
                    "harness/csched cooperative scheduler; verifYield hook placement (sites 8-14) in /repo/loom",
                    "Go sync/atomic operations are sequentially consistent single steps",
                    "translator tie (AddFlag, RemoveFlag, HasFlag, AddIf64, TryLock, Count): tools/srcfacts/minigo_atomic.go (go/ast + go/types "
                    "-> AtomicIR programs, regenerated every run into Got/Generated/AstLoomAtomics.lean; AddIf64's `addr == nil` guard "
                    "is not translated; named constants are replaced by their go/types values) and the AtomicIR semantics' reading of "
                    "the Go constructs (Got/Model/AtomicIR.lean); the generated LTSs are replayed on every schedule of the "
                    "correspondence (driver mode `ast`; for mx lines the TryLock threads are generated, the sync.Mutex traffic stays the "
                    "hand-written transcription) and must print what the real code printed (ast_interpreter_mismatches); "
                    "`return f(<atomic access>)` is read as `tmp := <access>; return f(tmp)`"]
    assumptions = ["Unlock is only called by the goroutine that holds the mutex",
                   "waiter count below 2^28 (no overflow of the int32 state word)",
                   "the AddIf64 predicate is a pure function of the loaded value"]
    harness_timeout = {"quick": 600, "thorough": 3000}

    # ------------------------------------------------------------------ L3 oracle (independent of the Lean model)
    def oracle(self, script, impl):
        if impl.startswith("panic") or impl.startswith("<") or impl == "bad-op":
            return ("panic", "harness/real code panicked or did not answer: " + impl[:200])
        if "stuck" in impl or "blocked" in impl:
            return ("hang", "a goroutine neither reached a yield point nor returned: " + impl[:200])
        w = script.split()
        if w[0] == "cnt":
            kv = dict(x.split("=") for x in impl.split())
            word, c = int(kv["w"]), int(kv["c"])
            if w[1] == "real":
                exp = int(w[2]) + int(w[3])
                if c != exp:
                    return ("count-wrong", "Count() = %d for a mutex with %s holder(s) given and %s goroutine(s) calling Lock "
                            "(holder + waiters = %d, state word %d)" % (c, w[2], w[3], exp, word))
            else:
                exp = (word >> 3) + (word & 1)
                if c != exp:
                    return ("count-wrong", "Count() = %d for state word %d: waiters %d + locked bit %d" % (c, word, word >> 3, word & 1))
            return None
        pc = parse_case(script)
        if pc is None:
            return ("malformed", "unparsable script")
        head, progs, _ = pc
        toks = impl.split()
        kind = head[0]
        if kind == "mx":
            prev = int(head[1])
            holders = set()
            for tok in toks:
                if tok.startswith("occ="):
                    if int(tok[4:]) > 1:
                        return ("mutual-exclusion", "%s goroutines were inside the critical section at the same time" % tok[4:])
                    continue
                if tok.startswith("L:") or tok.startswith("R:"):
                    if tok[2:] != "-":
                        prev = int(tok[2:])
                    continue
                p = parse_tok(tok)
                if p is None:
                    continue
                t, site, word, ret = p
                if site in (8, 10) and ret == "1":
                    if prev & 7 != 0:
                        return ("trylock-barged", "TryLock returned true from state word %d (locked/woken/starving bits %d set)" % (prev, prev & 7))
                    if word != prev | 1:
                        return ("trylock-word", "successful TryLock changed the word %d -> %d" % (prev, word))
                    holders.add(t)
                    if len(holders) > 1:
                        return ("mutual-exclusion", "threads %s hold the mutex through TryLock at the same time" % sorted(holders))
                if site == 100 and ret == "u":
                    holders.discard(t)
                    if prev >> 3 == 0 and word != prev - 1:
                        return ("unlock-word", "Unlock of a TryLock-held mutex without waiters changed the word %d -> %d" % (prev, word))
                    if prev & 1 == 0:
                        return ("unlock-word", "TryLock holder found the mutex unlocked (word %d)" % prev)
                prev = word
            return None
        if kind == "fl":
            init = int(head[1]) & M64
            val = init
            idx = [0] * len(progs)
            allor = init
            adds_only = all(op[0] != "R" for p in progs for op in p)
            prev = init
            for tok in toks:
                if tok.startswith("end="):
                    end = int(tok[4:]) & M64
                    if end != val:
                        return ("flag-lost-update", "final flag value %d != sequential fold of the calls in CAS order %d" % (s64(end), s64(val)))
                    if any(i != len(p) for i, p in zip(idx, progs)):
                        return ("flag-incomplete", "not every call completed")
                    if adds_only and end != allor:
                        return ("flag-lost-update", "adds only: final value %d != OR of all flags %d" % (s64(end), s64(allor)))
                    continue
                p = parse_tok(tok)
                if p is None:
                    continue
                t, site, word, ret = p
                word &= M64
                if ret is not None:
                    op = progs[t][idx[t]]
                    f = int(op[1:]) & M64
                    idx[t] += 1
                    if op[0] == "A":
                        val |= f
                        allor |= f
                    elif op[0] == "R":
                        val &= ~f & M64
                    else:
                        if (ret == "1") != (prev & f != 0):
                            return ("hasflag-wrong", "HasFlag(%d) = %s on value %d" % (s64(f), ret, s64(prev)))
                    if word != val:
                        return ("flag-lost-update", "after %s by thread %d the flag is %d, sequential fold in CAS order gives %d" % (op, t, s64(word), s64(val)))
                elif word != prev:
                    return ("flag-spurious-write", "value changed %d -> %d in a step that completed no call" % (s64(prev), s64(word)))
                prev = word
            return None
        if kind == "ai":
            init, limit = int(head[1]), int(head[2])
            bound = max(init, limit)
            idx = [0] * len(progs)
            prev = init
            total = init
            for tok in toks:
                if tok.startswith("end="):
                    end = int(tok[4:])
                    if end != total:
                        return ("addif-sum", "final value %d != initial + sum of the deltas of the calls that returned true = %d" % (end, total))
                    continue
                p = parse_tok(tok)
                if p is None:
                    continue
                t, site, word, ret = p
                if word > bound:
                    return ("addif-limit", "counter = %d above the limit %d (initial %d)" % (word, limit, init))
                if ret is not None:
                    d = int(progs[t][idx[t]][1:])
                    idx[t] += 1
                    if ret == "1":
                        if prev + d > limit:
                            return ("addif-predicate", "AddIf64 added %d to %d although the predicate old+delta<=%d is false for it" % (d, prev, limit))
                        if word != prev + d:
                            return ("addif-sum", "successful AddIf64(%d) changed the value %d -> %d" % (d, prev, word))
                        total += d
                    else:
                        if word != prev:
                            return ("addif-sum", "AddIf64 returned false but changed the value %d -> %d" % (prev, word))
                        if prev + d <= limit:
                            return ("addif-predicate", "AddIf64(%d) returned false on value %d although old+delta<=%d holds" % (d, prev, limit))
                elif word != prev:
                    return ("addif-sum", "value changed %d -> %d in a step that completed no call" % (prev, word))
                prev = word
            return None
        return None

    def nontrivial(self, script, impl):
        if script.startswith("cnt"):
            return True
        for tok in impl.split():
            if tok.startswith("L:") or tok.startswith("R:"):
                return True
            p = parse_tok(tok)
            if p is None:
                continue
            _, site, _, ret = p
            if site in (12, 14) and ret is None:
                return True   # failed CAS
            if site in (9, 10) and ret == "0":
                return True   # refused / lost TryLock
        return False

    def extra(self, ctx):
        from .c01 import translator_extra
        translator_extra(self, ctx, gen_file="AstLoomAtomics.lean", notes=("addFlagNote", "removeFlagNote", "addIf64Note", "tryLockNote", "countNote", "hasFlagNote"),
                         what="loom.Flag.AddFlag/RemoveFlag/HasFlag, loom.AddIf64, loom.Mutex.TryLock/Count",
                         skip=lambda script, impl: not script.split(" ", 1)[0] in ("fl", "ai", "mx", "cnt"))
        # record the hash of the toolchain's sync/mutex.go (the transcribed environment)
        try:
            root = subprocess.run(["go", "env", "GOROOT"], capture_output=True, text=True,
                                  env=dict(os.environ, GOTOOLCHAIN="local")).stdout.strip()
            src = open(os.path.join(root, "src", "sync", "mutex.go"), "rb").read()
            h = hashlib.sha256(src).hexdigest()[:16]
            ver = subprocess.run(["go", "version"], capture_output=True, text=True,
                                 env=dict(os.environ, GOTOOLCHAIN="local")).stdout.strip()
            ctx["coverage"]["sync_mutex_go"] = {"toolchain": ver, "sha256_16": h, "transcribed_from": EXPECTED_MUTEX_HASH,
                                                "changed_assumption": h != EXPECTED_MUTEX_HASH}
        except Exception as e:  # informational only
            ctx["coverage"]["sync_mutex_go"] = {"error": str(e)}


EXPECTED_MUTEX_HASH = "507443584e79a362"  # go1.23.5

SPEC = C17()
