"""C07 — ants: every accepted task completes once with a result matching its attempts.
Shared with C08: script/observation parsing (`parse_script`, `parse_obs`) and the Spec base `AntsSpec`."""
from .runner import Spec

DAY = 24 * 3600 * 10**9


def fold_task_opts(opts):
    """createTaskOptions as documented: options applied left to right; WithTimeout/WithRetry ignore values <= 0"""
    T, R, discard, cb = 365 * DAY, 1, True, False
    for kind, val in opts:
        if kind == "t":
            if val > 0:
                T = val
        elif kind == "r":
            if val > 0:
                R = val
        elif kind == "d":
            discard = val != 0
        elif kind == "e":
            cb = val != 0
    return T, R, discard, cb


def parse_script(script):
    head, _, body = script.partition(" | ")
    hw = head.split()
    sc = {"n": 1, "parks": [], "tasks": [], "old": "old" in hw, "basecancel": None, "customctx": False}
    popts = []
    i = 0
    while i < len(hw):
        w = hw[i]
        if w == "park":
            s, o, u = hw[i + 1].split(":")
            sc["parks"].append((int(s), int(o), int(u)))
            i += 2
        elif w == "n":
            popts.append(("s", int(hw[i + 1])))
            i += 2
        elif w == "popts":
            popts += [(f[0], int(f[1:])) for f in hw[i + 1].split(",")]
            i += 2
        elif w == "basecancel":
            sc["basecancel"] = int(hw[i + 1])
            i += 2
        else:
            i += 1
    for kind, val in popts:       # createPoolOptions: WithSize ignores <= 0, WithContextBuilder ignores nil
        if kind == "s" and val > 0:
            sc["n"] = val
        if kind == "c" and val != 0:
            sc["customctx"] = True
    if not sc["customctx"]:
        sc["basecancel"] = None
    for ts in body.split(" ; "):
        w = ts.split()
        if not w:
            continue
        if len(w) == 4:
            opts = [] if w[2] == "-" else [(f[0], int(f[1:])) for f in w[2].split(",")]
            behtok = w[3]
        else:
            opts = [("t", int(w[2])), ("r", int(w[3])), ("d", int(w[4] != "0"))] + ([("e", 1)] if w[5] != "0" else [])
            behtok = w[6]
        behs = []
        for b in behtok.split(","):
            d, h, v, e = b.split(":")
            behs.append({"dur": int(d), "hon": h != "0", "v": int(v), "e": int(e)})
        T, R, discard, cb = fold_task_opts(opts)
        sc["tasks"].append({"g": int(w[0]), "time": int(w[1]), "opts": opts, "discard": discard, "cb": cb,
                            "behs": behs, "teff": T, "reff": R})
    return sc


def parse_pair(s):
    v, _, e = s.partition(":")
    return (v, e)


def parse_obs(impl):
    """returns (tasks, max) or None if the line is not an observation"""
    if " # max=" not in impl:
        return None
    body, _, mx = impl.rpartition(" # max=")
    body, _, _ = body.partition(" # att=")     # the submitted-closures counter is read by parse_att
    tasks = []
    for ts in body.split(" ; "):
        o = {"kind": "unsent", "invs": [], "onerr": [], "get": None, "get2": None, "err": None, "ret": None, "len": None}
        for w in ts.split():
            if w in ("acc", "dis", "blocked", "unsent"):
                o["kind"] = w
            elif w.startswith("len="):
                o["len"] = int(w[4:])
            elif w.startswith("ret="):
                o["ret"] = int(w[4:])
            elif w.startswith("inv=["):
                inner = w[5:-1]
                for x in (inner.split("|") if inner else []):
                    f = x.split(":")
                    if f[2] == "-":
                        o["invs"].append({"begin": int(f[0]), "start": int(f[1]), "end": None, "pair": None})
                    else:
                        o["invs"].append({"begin": int(f[0]), "start": int(f[1]), "end": int(f[2]), "pair": (f[3], f[4])})
            elif w.startswith("onerr=["):
                inner = w[7:-1]
                for x in (inner.split(",") if inner else []):
                    e, _, t = x.partition("@")
                    o["onerr"].append((e, int(t)))
            elif w.startswith("get2="):
                o["get2"] = None if w[5:] == "-" else parse_pair(w[5:])
            elif w.startswith("get="):
                if w[4:] != "-":
                    p, _, t = w[4:].partition("@")
                    o["get"] = (parse_pair(p), int(t))
            elif w.startswith("err="):
                o["err"] = None if w[4:] == "-" else w[4:]
        tasks.append(o)
    return tasks, int(mx)


def parse_att(impl):
    """number of closures handed to sendInnerCallback (passages of hook site 3: one per runTaskOnce), or None"""
    if " # att=" not in impl:
        return None
    return int(impl.rpartition(" # att=")[2].split()[0])


class AntsSpec(Spec):
    anchors = ["ants.*"]
    harness = "c07"
    tags = "verif faketime"
    driver = "drv_ants"
    driver_args = []
    monitor = True
    shrink_sep = " ; "
    harness_timeout = {"quick": 300, "thorough": 1500}
    # one P: with several Ps the Go runtime's GC can livelock under faketime (forEachP / Gosched spin while the
    # fake clock waits for idleness); interleavings at one instant are covered by the monitor, not by the scheduler
    harness_env = {"GOMAXPROCS": "1"}
    trusted_base = [
        "Go runtime faketime clock (virtual time advances only when every goroutine is blocked)",
        "Got.Model.Ants: one transition per channel/atomic operation; Go channel, select, WaitGroup, context.WithTimeout "
        "semantics as encoded there (modelled, not verified)",
        "drv_ants monitor: exhaustive exploration of the model's interleavings per scenario with a partial-order reduction "
        "(cross-checked against the unreduced exploration on sampled scenarios) and inner-worker symmetry",
    ]

    # synchronisation skeleton of the anchored functions: the calls / channel receives that the model's transitions
    # transcribe one by one (hook calls and pure helpers are ignored). A different skeleton means the model no longer
    # describes the code even if no sampled schedule shows a difference (e.g. a dropped `<-doneChan` is invisible
    # without a yield point between the CAS and the publication).
    SKELETON = {
        "ants.taskCallback.runTaskOnce": (4, ["context.WithTimeout", "cancel", "my.pool.sendInnerCallback", "close", "my.handler",
                                              "ctx1.Done", "atomic.CompareAndSwapInt32", "ctx1.Done",
                                              "atomic.CompareAndSwapInt32"]),
        "ants.taskCallback.run": (0, ["my.wg.Done", "my.runTaskOnce", "onError"]),
        "ants.taskCallback.Get2": (0, ["my.wg.Wait"]),
        "ants.taskCallback.Err": (0, ["my.wg.Wait"]),
        "ants.poolImpl.Send": (1, ["createTaskOptions", "len", "cap", "onError", "newTaskDiscard", "newTaskCallback"]),
        "ants.poolImpl.sendInnerCallback": (1, []),
        "ants.poolImpl.goDispatchTask": (2, ["task.run"]),
        "ants.poolImpl.goDispatchInnerCallback": (2, ["callback"]),
    }
    IGNORED_CALLS = {"verifYield", "make", "panic", "loom.DumpIfPanic"}

    def extra(self, ctx):
        ex = ctx.get("ex")
        if ex and "model" in ex:
            ctx["coverage"]["monitor_overflow_lines"] = sum(1 for m in ex["model"] if m.startswith("ok overflow"))
            ctx["coverage"]["monitor_unchecked_lines"] = sum(1 for m in ex["model"] if m.startswith("ok unchecked"))
            ctx["coverage"]["monitor_por_miss_lines"] = sum(1 for m in ex["model"] if m.startswith("ok por-miss"))
            ctx["coverage"]["stress_timeouts"] = sum(1 for m in ex.get("impl", []) if m.startswith("stress timeout"))
        funcs = (ctx.get("facts") or {}).get("funcs", {})
        if not any(k.startswith("ants.") for k in funcs):
            return
        bad = []
        for fn, (recvs, calls) in self.SKELETON.items():
            f = funcs.get(fn)
            if f is None:
                bad.append("%s is missing" % fn)
                continue
            got_recv = sum(1 for x in f.get("sig", []) if x == "u<-")
            got_calls = [c for c in f.get("calls", []) if c not in self.IGNORED_CALLS]
            if got_recv != recvs or got_calls != calls:
                bad.append("%s: %d channel receives/sends-in-select and calls %s, the model transcribes %d and %s" % (
                    fn, got_recv, got_calls, recvs, calls))
        ctx["coverage"]["sync_skeleton_ok"] = not bad
        if bad:
            ctx["broken"].append({"layer": "L2", "what": "synchronisation skeleton changed: " + "; ".join(bad)})

    def crashed(self, impl):
        if impl.startswith("panic") or impl.startswith("<") or impl.startswith("bad-script"):
            return ("crash-or-hang", "the harness did not produce an observation: " + impl[:200])
        return None


class C07(AntsSpec):
    id = "C07"
    rule = ("one case = one virtual-time scenario (pool size, tasks with options and scripted per-invocation handler "
            "behaviour, optional hook parks); compared: complete per-task observation (Send outcome, every handler "
            "invocation with begin/start/end/pair, onError calls, Get2 pair and instant, second Get2, Err) against the set "
            "of outcomes of the Lean model; non-trivial = some task needed >= 2 attempts, timed out, or was discarded")
    assumptions = ["handlers do not panic", "the pool is not finalized while tasks are in flight (closeChan never closed)",
                   "sends are issued at pairwise distinct scripted instants"]

    def oracle(self, script, impl):
        c = self.crashed(impl)
        if c:
            return c
        if script.startswith("stress "):
            return None   # real-scheduler stress line: judged by C08 only
        sc = parse_script(script)
        po = parse_obs(impl)
        if po is None:
            return ("malformed", "unexpected harness output: " + impl[:200])
        obs, _ = po
        if len(obs) != len(sc["tasks"]):
            return ("malformed", "task count differs")
        park1 = any(p[0] == 1 for p in sc["parks"])
        r = self.begin_check(sc, obs)
        if r:
            return r
        for k, (t, o) in enumerate(zip(sc["tasks"], obs)):
            r = self.judge(k, t, o, park1, sc["basecancel"])
            if r:
                return r
        return self.quiescent_check(obs, parse_att(impl))

    @staticmethod
    def quiescent_check(obs, att):
        """C07_quiescent_invocations on the implementation's own trace: once the pool has nothing left to do (every Send
        returned, every accepted task's Get2 unblocked, every started handler returned — the observable content of
        `Quiescent`, cf. C07_quiescent_shape) each attempt that was begun (each runTaskOnce, counted at hook site 3 by the
        dispatcher) has had exactly one handler invocation."""
        if att is None:
            return None
        quiescent = all(o["kind"] == "dis" or (o["kind"] == "acc" and o["get"] is not None and
                                                all(i["end"] is not None for i in o["invs"])) for o in obs)
        if not quiescent:
            return None
        inv = sum(len(o["invs"]) for o in obs)
        if inv != att:
            return ("attempt-without-invocation" if inv < att else "invocation-without-attempt",
                    "at quiescence (all tasks finished, all handlers returned) %d attempts were begun (runTaskOnce calls) "
                    "but the handlers were invoked %d times" % (att, inv))
        return None

    @staticmethod
    def begin_check(sc, obs):
        """T is measured from the attempt's start. The harness learns an attempt's begin from the deadline of the ctx the
        handler receives (begin = deadline - T); this begin must be an instant at which a dispatcher was free to run the
        task: strictly inside the interval (first handler start, Done) of another task a dispatcher is certainly inside
        that task's run() (handler starts are observed directly, so the interval does not depend on any ctx deadline), and
        there are only N dispatchers. Otherwise the deadline is earlier than T after the attempt's real start (e.g. time spent in the
        pending queue was charged to the timeout)."""
        n = sc["n"]
        spans = []
        for j, o in enumerate(obs):
            if o["kind"] == "acc" and o["invs"] and o["get"] is not None:
                spans.append((j, min(i["start"] for i in o["invs"]), o["get"][1]))
        for k, o in enumerate(obs):
            if o["kind"] != "acc":
                continue
            for iv in o["invs"]:
                b = iv["begin"]
                busy = [j for (j, lo, hi) in spans if j != k and lo < b < hi]
                if len(busy) >= n:
                    return ("deadline-earlier-than-T-after-attempt-start",
                            "task %d: its handler (started %d, returned %s at %s) got a ctx deadline %d = T after instant %d, but at "
                            "that instant all %d dispatchers were inside run() of tasks %s, so the attempt started later and had "
                            "less than T" % (k, iv["start"], iv["pair"], iv["end"], b + sc["tasks"][k]["teff"], b, n, busy[:n]))
        return None

    def judge(self, k, t, o, park1, basecancel=None):
        tag = "task %d: " % k
        if o["kind"] in ("unsent", "blocked"):
            return ("send-never-returned", tag + "Send did not return within the scenario horizon")
        if o["kind"] == "dis":
            if o["invs"]:
                return ("discarded-task-ran", tag + "handler of a rejected task was invoked")
            if o["get"] is None or o["get"][0] != ("0", "DISC") or o["get2"] != ("0", "DISC") or o["err"] != "DISC":
                return ("discard-error-missing", tag + "rejected task does not report the discard error through Get2/Err")
            want = [("DISC", o["ret"])] if t["cb"] else []
            if o["onerr"] != want:
                return ("discard-callback", tag + "onError calls of a rejected task: %s, expected %s" % (o["onerr"], want))
            return None
        # accepted
        if o["get"] is None:
            return ("get2-never-unblocked", tag + "Get2 did not return within the scenario horizon")
        if any(i["end"] is None for i in o["invs"]):
            return ("handler-never-returned", tag + "a handler invocation did not end within the horizon")
        (pair, tdone) = o["get"]
        if o["get2"] != pair or o["err"] != pair[1]:
            return ("result-changed-after-done", tag + "first Get2 returned %s at %d, later Get2 %s, Err %s" % (
                pair, tdone, o["get2"], o["err"]))
        n = len(o["invs"])
        if not (1 <= n <= t["reff"]):
            return ("attempts-out-of-range", tag + "%d handler invocations, retry count %d" % (n, t["reff"]))
        atts = sorted(range(n), key=lambda i: (o["invs"][i]["begin"], i))
        # allowed outcomes per attempt
        chosen = []
        for pos, i in enumerate(atts):
            iv = o["invs"][i]
            dl = iv["begin"] + t["teff"]
            if iv["begin"] > iv["start"]:
                return ("timeout-not-in-effect", tag + "the handler's ctx deadline %d is later than its start %d + the timeout in effect %d" % (
                    dl, iv["start"], t["teff"]))
            if basecancel is not None:   # the attempt's ctx is done when the dispatcher's own ctx is cancelled
                dl = min(dl, max(basecancel, iv["begin"]))
            allowed = []
            if iv["end"] < dl:
                allowed = [iv["pair"]] + ([("0", "DE")] if park1 else [])
            elif iv["end"] == dl:
                # exact tie: either side may decide the attempt (a handler that returned because its ctx was
                # cancelled, E999, can never be the winner)
                allowed = ([iv["pair"]] if iv["pair"] != ("0", "E999") else []) + [("0", "DE")]
            else:
                allowed = [("0", "DE")]
            last = pos == n - 1
            if last:
                if pair not in allowed:
                    return ("wrong-outcome", tag + "Get2 = %s but the last attempt (handler returned %s at %d, deadline %d) allows only %s" % (
                        pair, iv["pair"], iv["end"], dl, allowed))
                if pair[1] != "nil" and n != t["reff"]:
                    return ("gave-up-early", tag + "final error %s after %d of %d attempts" % (pair[1], n, t["reff"]))
                chosen.append(pair)
            else:
                failing = [a for a in allowed if a[1] != "nil"]
                if not failing:
                    return ("retry-after-success", tag + "attempt %d succeeded in time with %s, yet another attempt was made" % (pos + 1, iv["pair"]))
                nxt = o["invs"][atts[pos + 1]]
                if nxt["begin"] < min(iv["end"], dl):
                    return ("attempt-overlap", tag + "attempt %d began at %d before attempt %d was decided (%d)" % (
                        pos + 2, nxt["begin"], pos + 1, min(iv["end"], dl)))
        # onError
        if t["cb"]:
            if pair[1] != "nil":
                if len(o["onerr"]) != 1 or o["onerr"][0][0] != pair[1]:
                    return ("onerror-mismatch", tag + "final error %s, onError calls %s" % (pair[1], o["onerr"]))
                if o["onerr"][0][1] > tdone:
                    return ("onerror-after-done", tag + "onError ran at %d after Get2 unblocked at %d" % (o["onerr"][0][1], tdone))
            elif o["onerr"]:
                return ("onerror-on-success", tag + "task succeeded with %s but onError was called: %s" % (pair, o["onerr"]))
        elif o["onerr"]:
            return ("malformed", tag + "onError recorded without callback")
        return None

    def nontrivial(self, script, impl):
        po = None if script.startswith("stress ") else parse_obs(impl)
        if po is None:
            return False
        return any(o["kind"] == "dis" or len(o["invs"]) >= 2 or (o["get"] and o["get"][0][1] == "DE") for o in po[0])


SPEC = C07()
