"""C18 — data-race freedom. Custom protocol (DESIGN.md §2 C18):
  L1  Lean: discipline soundness + protocol theorems (Got/Props/C18.lean)
  L2  srcfacts access-site table of the current source matched line by line by drv_discipline against the
      site table of the model (Got/Model/DisciplineSites.lean) + trace corpus through the executable monitor
  L3  search only: stress clients against a -race build of the working tree; a race report whose stacks touch
      the repository is the concrete replay.
"""
import glob
import json
import os
import re
import time

from . import common as C
from .runner import Spec


class C18(Spec):
    id = "C18"
    anchors = ["loom.Queue.*", "loom.Wheel.*", "loom.WheelTimer.*", "loom.WaitClose.*", "loom.Flag.*", "loom.AddIf64",
               "loom.Mutex.*", "loom.LaterTimer.*", "cachex.cacheImpl.*", "cachex.Future.*", "ants.taskCallback.*",
               "ants.poolImpl.*", "taskx.Queue.*", "taskx.taskCallback.*"]
    harness = "c18"
    driver = "drv_discipline"
    rule = ("L2: one case = one read/write site of a watched plain field extracted from the current source (field, function, "
            "kind, lock context, preceding synchronising operations), matched against the model's site table; non-trivial = "
            "the site requires a preceding synchronisation or a lock. L3 (search): race-detector stress runs per GOMAXPROCS value")
    trusted_base = ["Go memory model: the listed primitives synchronise as documented; an acquire synchronises with every earlier "
                    "release on the same object for WaitGroup/closed channel/mutex/CAS chains/atomic words with ordered writers",
                    "srcfacts sees every access of the watched fields (no reflection / unsafe aliasing of them)",
                    "Go race detector (search only, not part of the proof)"]
    assumptions = ["taskx tasks are executed (Do) once by the single consumer", "WheelTimer.Reset and LaterTimer are used from their owning goroutine",
                   "a *Wheel / *Queue / Cache / Pool value itself is handed to other goroutines by a synchronising operation"]


SPEC = C18()

TRACE_CORPUS = [
    # (trace, expected verdict of the discipline monitor, what it is)
    ("wr 0; rd 1; rel 0 5", "reject", "old cachex status check: err read without acquire"),
    ("wr 0; rel 0 5; acq 1 5; rd 1", "accept", "publish once through an atomic word"),
    ("rel 0 3; acq 1 3; wr 0; rd 0; rel 0 0; wr 1; acq 7 0; rd 7", "reject", "old ants torn result"),
    ("rel 0 3; acq 1 3; wr 1; rd 9", "reject", "old ants Err() without Wait"),
    ("rel 0 3; acq 1 3; wr 1; rel 1 4; acq 0 4; rd 0; rel 0 0; acq 9 0; rd 9", "accept", "ants: inner wins, dispatcher waits, client after Done"),
    ("acq 1 0; wr 1; rel 1 0; acq 2 0; rd 2; wr 2; rel 2 0", "accept", "mutex guarded"),
    ("acq 1 0; wr 1; rel 1 0; rd 2", "reject", "read outside the mutex"),
]


def parse_race_reports(paths, repo):
    """returns list of dicts {signature, text} for reports that touch the repository"""
    out = []
    for p in paths:
        txt = open(p, errors="replace").read()
        for block in txt.split("=================="):
            if "DATA RACE" not in block:
                continue
            # the two access stacks are the first two paragraphs
            paras = [x for x in block.strip().split("\n\n") if x.strip()]
            acc = paras[:2]
            frames = []
            touches = False
            for a in acc:
                fr = re.findall(r"^\s+(\S+\(\))\n\s+(\S+?):(\d+)", a, re.M)
                top = None
                for fn, path, _ in fr:
                    if path.startswith(repo.rstrip("/") + "/") or "/lixianmin/got/" in fn:
                        touches = True
                        if top is None:
                            top = fn
                frames.append(top or (fr[0][0] if fr else "?"))
            if touches:
                sig = "race:" + "|".join(sorted(frames))
                out.append({"signature": sig, "text": block.strip()[:3000]})
    return out


def run(spec, tier, seed, replay_path=None):
    t0 = time.time()
    pid = spec.id
    C.prepare()
    rundir = C.fresh_dir(os.path.join(C.BUILD, "run", "%s-%d" % (pid, os.getpid())))
    broken, concrete = [], []

    facts = C.run_srcfacts()
    drift = C.facts_drift(facts, spec.anchors)
    l1 = C.lean_obligations(pid, thorough=(tier == "thorough"), exe=spec.driver)
    if not l1["build_ok"]:
        broken.append({"layer": "L1", "what": "lake build Got.Props.C18 failed", "detail": l1["build_log_tail"]})
    else:
        if l1["obligations"] == 0:
            broken.append({"layer": "L1", "what": "no theorem in Got/Props/C18.lean"})
        for t in l1["theorems"]:
            if not t["ok"]:
                broken.append({"layer": "L1", "what": "theorem %s not accepted (axioms %s)" % (t["name"], t["axioms"])})
        if l1.get("forbidden_tokens"):
            broken.append({"layer": "L1", "what": "forbidden constructs: %s" % l1["forbidden_tokens"][:5]})
        if l1.get("leanchecker", {}).get("rc", 0) != 0:
            broken.append({"layer": "L1", "what": "leanchecker rejected Got.Props.C18"})

    # ---- L2: site table
    lines = []
    for a in facts.get("accesses", []):
        lines.append("%s %s %s %s %s %s" % (a["field"], a["func"], a["kind"], "L" if a["locked"] else "-", ",".join(a["after"]) or "-", ",".join(a.get("then", [])) or "-"))
    script = os.path.join(rundir, "script.txt")
    open(script, "w").write("\n".join(lines) + "\n")
    verdicts, rejected, nontrivial = [], [], 0
    tverd = []
    if os.path.exists(C.driver_path(spec.driver)):
        rc, err = C.run_driver(spec.driver, [], script, os.path.join(rundir, "model.txt"))
        verdicts = open(os.path.join(rundir, "model.txt")).read().split("\n")[:-1]
        for ln, v in zip(lines, verdicts):
            if not v.startswith("ok"):
                rejected.append({"site": ln, "verdict": v})
            elif not (v.endswith(" owner") or v.endswith(" atomic") or v.endswith(" unused") or v.endswith("A:write")):
                nontrivial += 1
        if len(verdicts) != len(lines):
            broken.append({"layer": "L2", "what": "drv_discipline answered %d of %d lines" % (len(verdicts), len(lines))})
        if not lines:
            broken.append({"layer": "L2", "what": "srcfacts found no access to the watched fields (extractor or source layout changed)"})
        # expected sites that disappeared are fine; rejected ones are a correspondence break
        if rejected:
            broken.append({"layer": "L2", "what": "access-site table: %d access(es) of plain shared fields do not follow the modelled publication protocols" % len(rejected),
                           "first": rejected[:8]})
        # trace corpus through the executable monitor
        tpath = os.path.join(rundir, "traces.txt")
        open(tpath, "w").write("\n".join(t for t, _, _ in TRACE_CORPUS) + "\n")
        C.run_driver(spec.driver, ["trace"], tpath, os.path.join(rundir, "traces.out"))
        tverd = open(os.path.join(rundir, "traces.out")).read().split("\n")[:-1]
        for (t, exp, what), got in zip(TRACE_CORPUS, tverd):
            if got != exp:
                broken.append({"layer": "L2", "what": "monitor verdict on corpus trace '%s' (%s): %s, expected %s" % (t, what, got, exp)})
    else:
        broken.append({"layer": "L2", "what": "drv_discipline missing (Lean build failed)"})

    # ---- L3: race-detector search
    escalate = bool(broken) or bool(drift["changed_functions"])
    thorough = tier == "thorough" or escalate
    procs = [1, 2, 4, 16] if thorough else [2, 8]
    ms = 1500 if thorough else 350
    rounds = 3 if thorough else 1
    binp, err = C.build_harness(spec.harness, race=True)
    # second binary: same clients + delay injection through the repository's own scheduling-point hooks (-tags verif)
    binh, errh = C.build_harness(spec.harness, tags="verif", race=True)
    runs = 0
    summaries = []
    if binp is None or binh is None:
        broken.append({"layer": "L3", "what": "race harness does not build against the working tree", "detail": (err or errh)[-2000:]})
    else:
        for rnd in range(rounds):
            for p in procs + [-q for q in (procs if thorough else procs[-1:])]:
                env = dict(C.GOENV, GORACE="log_path=%s halt_on_error=0" % os.path.join(rundir, "race"))
                binx = binp
                if p < 0:  # hooked run
                    binx, p = binh, -p
                try:
                    r = C.sh([binx, "-ms", str(ms), "-procs", str(p), "-seed", str(seed * 100 + rnd * 10 + p)], env=env, timeout=900, cwd=rundir)
                    runs += 1
                    summaries.append({"procs": p, "hooked": binx == binh, "out": (r.stdout or "").strip().split("\n")})
                    if r.returncode not in (0, 66):
                        concrete.append({"signature": "stress-crash", "script": "c18 -procs %d" % p, "impl": (r.stderr or "")[-1500:],
                                         "what": "stress client crashed / invariant assertion failed (rc=%d)" % r.returncode})
                except Exception as e:
                    concrete.append({"signature": "stress-hang", "script": "c18 -procs %d" % p, "impl": str(e)[:500],
                                     "what": "stress client did not finish (deadlock or livelock under concurrent use)"})
            reports = parse_race_reports(glob.glob(os.path.join(rundir, "race.*")), C.REPO)
            if reports:
                break
        reports = parse_race_reports(glob.glob(os.path.join(rundir, "race.*")), C.REPO)
        seen = set()
        for rep in reports:
            if rep["signature"] in seen:
                continue
            seen.add(rep["signature"])
            concrete.append({"signature": rep["signature"], "script": "race-detector stress (harness/cmd/c18, -race)", "impl": rep["text"],
                             "what": "data race reported by the Go race detector between accesses in the repository"})

    # ---- classify
    known = [k for k in C.known_findings(pid) if k.get("status") == "known"]
    new_fail = []
    for f in concrete:
        hit = next((k for k in known if k.get("signature") == f["signature"]), None)
        if hit:
            print("KNOWN-FINDING: property=%s %s" % (pid, hit.get("what", f["signature"])))
        else:
            new_fail.append(f)
    violations = 0
    if new_fail:
        path = C.write_replay(pid, "fail-seed%d" % seed, {"property": pid, "kind": "concrete-failing-input", "cases": new_fail[:10],
                                                          "broken": broken[:5], "replay_cmd": "./check C18 --tier thorough"})
        print("VIOLATION property=%s replay=%s" % (pid, path))
        for f in new_fail[:3]:
            print("  %s: %s" % (f["signature"], f["what"]))
        violations = len(new_fail)
    elif broken:
        path = C.write_replay(pid, "broken-seed%d" % seed, {"property": pid, "kind": "obligation-or-correspondence-broken", "broken": broken,
                                                            "searched": {"race_runs": runs, "ms_per_component": ms, "procs": procs},
                                                            "note": "the race-detector search found no racing pair; the property is no longer shown to hold because the named obligation/correspondence does not check"})
        print("VIOLATION property=%s replay=%s no-failing-input-found" % (pid, path))
        for b in broken[:3]:
            print("  broken: [%s] %s" % (b["layer"], b["what"]))
        violations = 1

    cov = {
        "obligations": l1["obligations"], "discharged": l1["discharged"],
        "checker_cmd": "cd /verif/lean && lake build Got.Props.C18 && lake env lean <generated #print axioms file>" + (" && lake env leanchecker Got.Props.C18" if tier == "thorough" else ""),
        "trusted_base": ["Lean 4.33.0 kernel" + (" + leanchecker" if tier == "thorough" else ""),
                         "axioms used: " + ", ".join(sorted({a for t in l1["theorems"] for a in t["axioms"]}) or ["none"]),
                         "tools/srcfacts (go/ast + go/types extractor of access sites)", "drv_discipline (compiled Lean site matcher + monitor)"] + spec.trusted_base,
        "theorems": l1["theorems"],
        "evaluations": len(lines) + len(TRACE_CORPUS) + runs,
        "distinct_nontrivial": nontrivial,
        "rule": spec.rule,
        "samples": [{"site": l, "verdict": v} for l, v in list(zip(lines, verdicts))[:6]] + [{"trace": t, "verdict": g} for (t, _, _), g in list(zip(TRACE_CORPUS, tverd))[:3]],
        "correspondence": {"access_sites": len(lines), "rejected": len(rejected), "corpus_traces": len(TRACE_CORPUS)},
        "search": {"race_runs": runs, "ms_per_component": ms, "procs": procs, "stress_summaries": summaries[:4], "reports": len(concrete)},
        "facts": drift,
        "exhaustive": False,
    }
    C.write_evidence(pid, tier, seed, cov, time.time() - t0, violations, spec.assumptions)
    if not violations:
        print("OK property=%s tier=%s obligations=%d/%d access sites=%d (all matched) race runs=%d, reports=0" % (
            pid, tier, l1["discharged"], l1["obligations"], len(lines), runs))
    return 1 if violations else 0
