"""C06: cachex stays live - Load/Get/Set return and Futures resolve if loaders return."""
from .runner import Spec
from .c04 import Scenario, judge_pure, monitor_coverage, CACHE_ANCHORS, CACHE_TRUSTED


class C06(Spec):
    id = "C06"
    anchors = CACHE_ANCHORS
    harness = "c06"
    tags = "faketime"
    driver = "drv_cache"
    monitor = True
    # faketime + many Ps can live-lock inside the Go runtime's GC; the harness itself runs scenarios with 1 P (4 in marked phases)
    harness_env = {"GOMAXPROCS": "2"}
    shrink_sep = " ; "
    rule = ("one case = one timed scenario on a fresh cache under the Go fake clock. Burst scenarios: per round P long loads keep "
            "every worker inside a loader while a sweep tick becomes due, then J+3 Loads over distinct keys (distinct shards) 1 ns "
            "apart fill the job queue and block in sendJob; 3..40 rounds; afterwards virtual time advances past every loader "
            "duration: every call must have returned and every handed-out Future must be resolved. Plus the shared random/share "
            "scenarios, contract violations (Load with nil loader on a missing / fresh / stale / loading key, Load/Get2/Set with a nil or "
            "unsupported key) recovered by the caller and followed by ordinary traffic on the same key, shard and other shards, "
            "loads in flight across 5..25 sweep ticks, and 257..1000 entries in ONE shard (keys congruent modulo the shard "
            "count) that are live / rotted at a sweep tick with more traffic after it. non-trivial = more Loads outstanding than the "
            "job queue holds at some instant, or more than 128 keys Round-4: dependent loaders - the loader of key A performs Load(B)+Future.Get2 (nested calls are ordinary client invocations of the model issued while the loader runs; `lmid` marks their completion) with B queued behind A while every worker is busy (P >= 2) or already resolved (P = 1); bursts whose Loads are refreshes of stale entries.")
    trusted_base = CACHE_TRUSTED + ["hang detection: a controller goroutine sleeping on the fake clock reports calls that are still blocked "
                                    "after (last call instant + sum of all loader durations + 8*En)",
                                    "live-lock detection: the harness runs as supervisor + child process; a child that makes no progress for 12 s of "
                                    "real time (600 s on a stress line) is killed and the scenario it was executing is reported as `hang … livelock`"]
    assumptions = ["every loader returns after its scripted duration"]

    def oracle(self, script, impl):
        handled, v = judge_pure(script, impl)
        if handled:
            return None
        if impl.startswith("bad-script") or not script.startswith("cfg"):
            return None
        if impl.startswith("panic"):
            return ("panic", "the cache panicked: " + impl[:200])
        sc = Scenario(script, impl)
        if sc.hang is not None and sc.hang.startswith("livelock"):
            head = script.split(" | ")[0]
            return ("hang", "[%s] live-lock: a goroutine of the cache spins for ever (the fake clock is frozen, the scenario made no "
                            "progress for seconds of real time and the harness process was killed by its supervisor): %s"
                    % (head, sc.hang[:200]))
        if sc.hang is not None:
            head = script.split(" | ")[0]
            return ("hang", "[%s] still blocked after virtual time advanced to %d ns (every loader had returned): %s"
                    % (head, sc.end, sc.hang[:300]))
        if not sc.ok:
            return None
        # every call that was issued has returned; every loader that started has ended
        for c in sc.calls.values():
            if c["call_t"] is None or c["ret_t"] is None:
                return ("hang", "call c%d never returned" % c["cid"])
            if c["ret"] == "panic" and c["kind"] != "panic":
                return ("unexpected-panic", "c%d (%s key %s) panicked although it does not violate the contract" % (c["cid"], c["op"], c["key"]))
        for n, inv in sc.invs.items():
            if inv["end"] is None:
                return ("loader-not-finished", "loader invocation #%d did not end inside the scenario (harness horizon too short?)" % n)
        return None

    def extra(self, ctx):
        monitor_coverage(ctx)

    def nontrivial(self, script, impl):
        if not script.startswith("cfg"):
            return False
        head = dict(kv.split("=") for kv in script.split(" | ")[0].split()[1:])
        return script.count(" load ") > int(head["J"]) + int(head["P"]) or script.count(" k=") > 128


SPEC = C06()
