"""Generic decision protocol (DESIGN.md 1.1) for properties whose correspondence is a
line-for-line comparison of harness output (real code) with driver output (Lean model).

A property module provides a `Spec` subclass; `run(spec, tier, seed)` performs
  facts -> L1 (Lean obligations, axiom audit) -> L2 (correspondence) -> L3 (property oracle on the
  implementation's own output) -> deepen search if L1/L2 broke -> report -> evidence.
"""
import json
import os
import random
import time

from . import common as C


class Spec:
    id = "C00"
    anchors = []            # srcfacts function keys (prefix* allowed) the models were written from
    harness = None          # harness/cmd/<name>
    tags = ""               # go build tags
    driver = None           # lean_exe name (drv_<family>)
    driver_args = []        # <driver> <args> < script > model
    monitor = False         # True: the driver reads "script<TAB>impl" lines and answers "ok" / "reject <reason>"
                            # (trace inclusion for nondeterministic models); compare() then accepts iff "ok"
    rule = ""
    trusted_base = []
    assumptions = []
    shrink_sep = None       # e.g. " ; " if a script line is an op sequence "head | op ; op ; ..." that may be shrunk
    harness_timeout = {"quick": 300, "thorough": 2400}
    harness_env = {}

    def oracle(self, script, impl):
        """L3: judge the implementation's observation against the PROPERTY itself (not the model).
        Return None if fine, else (signature, description)."""
        return None

    def nontrivial(self, script, impl):
        return True

    def compare(self, impl, model):
        """L2: does the model's line explain the implementation's line?"""
        if self.monitor:
            return model == "ok" or model.startswith("ok ")
        return impl == model

    def extra(self, ctx):
        """additional phases (e.g. structural facts, race search). May append to ctx['concrete'],
        ctx['broken'] and add keys to ctx['coverage']."""
        return None


def _read_lines(path):
    if not os.path.exists(path):
        return []
    with open(path, errors="replace") as fh:
        return fh.read().split("\n")[:-1]


_BUILT = {}


def execute(spec, outdir, tier, seed, replay=None, corpus=True):
    """run harness + driver; returns dict(script, impl, model, stats, harness_rc, harness_err, driver_rc)"""
    C.fresh_dir(outdir)
    key = (spec.harness, spec.tags)
    if key in _BUILT and os.path.exists(_BUILT[key]):
        binp = _BUILT[key]  # built from the current tree earlier in this very run
    else:
        binp, err = C.build_harness(spec.harness, spec.tags)
        if binp is None:
            return {"build_error": err}
        _BUILT[key] = binp
    args = [binp, "-seed", str(seed), "-tier", tier, "-out", outdir]
    if replay:
        args += ["-replay", replay]
    elif corpus:
        cdir = os.path.join(C.VERIF, "corpus", spec.id)
        if os.path.isdir(cdir):
            args += ["-corpus", cdir]
    env = dict(C.GOENV, **spec.harness_env)
    res = {}
    try:
        p = C.sh(args, env=env, timeout=spec.harness_timeout.get(tier, 3600))
        res["harness_rc"], res["harness_err"] = p.returncode, p.stderr[-4000:]
    except Exception as e:  # timeout
        res["harness_rc"], res["harness_err"] = -9, "timeout: %s" % e
    if res["harness_rc"] != 0:
        # localise: re-run with per-line flushing so that the case being executed is on disk
        env2 = dict(env, HX_SYNC="1")
        try:
            C.sh(args, env=env2, timeout=spec.harness_timeout.get(tier, 3600))
        except Exception:
            pass
    script = _read_lines(os.path.join(outdir, "script.txt"))
    impl = _read_lines(os.path.join(outdir, "impl.txt"))
    model_path = os.path.join(outdir, "model.txt")
    dinput = os.path.join(outdir, "script.txt")
    if spec.monitor:
        dinput = os.path.join(outdir, "monitor_in.txt")
        with open(dinput, "w") as fh:
            for i, s in enumerate(script):
                fh.write(s + "\t" + (impl[i] if i < len(impl) else "<none>") + "\n")
    rc, derr = C.run_driver(spec.driver, spec.driver_args, dinput, model_path)
    res.update(script=script, impl=impl, model=_read_lines(model_path), driver_rc=rc, driver_err=derr[-2000:])
    sp = os.path.join(outdir, "stats.json")
    res["stats"] = json.load(open(sp)) if os.path.exists(sp) else {}
    return res


def analyse(spec, ex):
    """returns (mismatches, failures, nontrivial_count, evaluations)"""
    script, impl, model = ex["script"], ex["impl"], ex["model"]
    mism, fails = [], []
    seen = set()
    nontriv = 0
    n = len(script)
    for i in range(n):
        s = script[i]
        im = impl[i] if i < len(impl) else "<no output: harness died or hung while executing this case>"
        mo = model[i] if i < len(model) else "<no model output>"
        if not spec.compare(im, mo):
            mism.append({"line": i + 1, "script": s, "impl": im, "model": mo})
        o = spec.oracle(s, im)
        if o is not None:
            fails.append({"line": i + 1, "script": s, "impl": im, "model": mo, "signature": o[0], "what": o[1]})
        h = C.line_hash(s)
        if h not in seen:
            seen.add(h)
            if spec.nontrivial(s, im):
                nontriv += 1
    return mism, fails, nontriv, n


def shrink(spec, case, outdir):
    """delta-debug an op-sequence line: keep the oracle failing with the same signature"""
    sep = spec.shrink_sep
    if not sep or " | " not in case["script"]:
        return case
    head, body = case["script"].split(" | ", 1)
    ops = body.split(sep)
    sig = case["signature"]

    def fails(cand_ops):
        line = head + " | " + sep.join(cand_ops)
        path = os.path.join(outdir, "shrink.txt")
        open(path, "w").write(line + "\n")
        ex = execute(spec, os.path.join(outdir, "shrinkrun"), "quick", 1, replay=path)
        if "build_error" in ex or not ex["script"]:
            return None
        _, f, _, _ = analyse(spec, ex)
        for x in f:
            if x["signature"] == sig:
                return x
        return None
    best = case
    chunk = max(1, len(ops) // 2)
    budget = 60
    deadline = time.time() + float(os.environ.get("VERIF_SHRINK_S", "90"))  # shrinking is best effort and time-boxed
    while chunk >= 1 and budget > 0 and time.time() < deadline:
        i = 0
        progressed = False
        while i < len(ops) and budget > 0 and time.time() < deadline:
            cand = ops[:i] + ops[i + chunk:]
            budget -= 1
            r = fails(cand) if cand else None
            if r is not None:
                ops, best, progressed = cand, r, True
            else:
                i += chunk
        if not progressed:
            chunk //= 2
    return best


def run(spec, tier, seed, replay_path=None):
    t0 = time.time()
    pid = spec.id
    rundir = os.path.join(C.BUILD, "run", "%s-%d" % (pid, os.getpid()))  # private to this process: concurrent runs do not clobber each other
    ctx = {"spec": spec, "tier": tier, "seed": seed, "coverage": {}, "concrete": [], "broken": []}

    # ---- replay mode: re-run the recorded cases only
    if replay_path:
        rp = json.load(open(replay_path))
        lines = [c["script"] for c in rp.get("cases", [])]
        if not lines:
            print("replay file has no executable case (it names a broken obligation): %s" % rp.get("broken"))
            print("re-running the full check instead")
        else:
            tmp = os.path.join(C.BUILD, "replay-%s.txt" % pid)
            os.makedirs(C.BUILD, exist_ok=True)
            open(tmp, "w").write("\n".join(lines) + "\n")
            ex = execute(spec, rundir, tier, seed, replay=tmp)
            if "build_error" in ex:
                print("harness does not build:\n" + ex["build_error"])
                return 1
            mism, fails, _, n = analyse(spec, ex)
            for i in range(len(ex["script"])):
                print("case: %s\n  impl : %s\n  model: %s" % (ex["script"][i], ex["impl"][i] if i < len(ex["impl"]) else "-",
                                                            ex["model"][i] if i < len(ex["model"]) else "-"))
            for f in fails:
                print("  property fails: %s" % f["what"])
            if fails or mism:
                print("VIOLATION property=%s replay=%s%s" % (pid, replay_path, "" if fails else " no-failing-input-found"))
                return 1
            print("replay passes: implementation and model agree and the property oracle accepts")
            return 0

    # ---- facts
    C.prepare()
    facts = C.run_srcfacts()
    drift = C.facts_drift(facts, spec.anchors)
    ctx["facts"] = facts
    budget_tier = tier
    drifted = bool(drift["changed_functions"] or drift["changed_constants"])

    # ---- L1
    l1 = C.lean_obligations(pid, thorough=(tier == "thorough"), exe=spec.driver)
    if l1["build_ok"] and l1["obligations"] == 0:
        ctx["broken"].append({"layer": "L1", "what": "Got/Props/%s.lean contains no theorem" % pid})
    if not l1["build_ok"]:
        ctx["broken"].append({"layer": "L1", "what": "lake build Got.Props.%s failed" % pid, "detail": l1["build_log_tail"]})
    else:
        for t in l1["theorems"]:
            if not t["ok"]:
                ctx["broken"].append({"layer": "L1", "what": "theorem %s not accepted (axioms %s)" % (t["name"], t["axioms"])})
        if l1.get("forbidden_tokens"):
            ctx["broken"].append({"layer": "L1", "what": "forbidden constructs in Lean sources: %s" % l1["forbidden_tokens"][:5]})
        if l1.get("leanchecker", {}).get("rc", 0) != 0:
            ctx["broken"].append({"layer": "L1", "what": "leanchecker rejected Got.Props.%s" % pid, "detail": l1["leanchecker"]["tail"]})

    # ---- L2 + L3
    cov = ctx["coverage"]
    ex = None
    if spec.harness and spec.driver and os.path.exists(C.driver_path(spec.driver)):
        ex = execute(spec, rundir, budget_tier, seed)
    elif spec.harness:
        ctx["broken"].append({"layer": "L2", "what": "driver executable missing (Lean build failed)"})
    mism, fails, nontriv, n = [], [], 0, 0
    if ex is not None:
        if "build_error" in ex:
            ctx["broken"].append({"layer": "L2", "what": "harness %s does not build against the working tree" % spec.harness,
                                  "detail": ex["build_error"][-3000:]})
        else:
            mism, fails, nontriv, n = analyse(spec, ex)
            if ex["harness_rc"] != 0:
                last = ex["script"][-1] if ex["script"] else "<none>"
                fails.append({"line": len(ex["script"]), "script": last, "impl": "<harness died/hung rc=%s> %s" % (ex["harness_rc"], ex["harness_err"][-600:]),
                              "model": ex["model"][len(ex["script"]) - 1] if ex["model"] and len(ex["model"]) >= len(ex["script"]) else "-",
                              "signature": "crash-or-hang", "what": "the real code crashed the process or did not return on this case"})
            if ex["driver_rc"] != 0:
                ctx["broken"].append({"layer": "L2", "what": "driver failed rc=%s: %s" % (ex["driver_rc"], ex["driver_err"])})
            if mism and (spec.monitor or getattr(spec, "nondeterministic", False)) and len(mism) <= 25:
                # real executions of concurrent/timed code are not fully determined by the script (goroutine start order
                # at one virtual instant, select choices): a lone line the monitor could not explain must reproduce when
                # the same line is executed again, otherwise it is recorded but not counted as a broken correspondence
                confirmed, flukes = [], []
                for m in mism:
                    if any(f["line"] == m["line"] for f in fails):
                        confirmed.append(m)
                        continue
                    again = False
                    for _ in range(3):
                        path = os.path.join(rundir, "confirm.txt")
                        open(path, "w").write(m["script"] + "\n")
                        ex3 = execute(spec, rundir + "-confirm", "quick", seed, replay=path)
                        if "build_error" in ex3 or not ex3.get("script"):
                            again = True
                            break
                        m3, f3, _, _ = analyse(spec, ex3)
                        if m3 or f3:
                            again = True
                            break
                    (confirmed if again else flukes).append(m)
                cov["irreproducible_mismatches"] = [{"script": x["script"][:300], "model": x["model"][:200]} for x in flukes[:5]]
                cov["irreproducible_mismatch_count"] = len(flukes)
                mism = confirmed
            if mism:
                ctx["broken"].append({"layer": "L2", "what": "correspondence %s: %d of %d lines differ between implementation and model" % (spec.harness, len(mism), n),
                                      "first": mism[:5]})
            ctx["concrete"] += fails
    # anchored source changed and the routine budget found nothing: spend the thorough L2/L3 budget on this run
    if drifted and tier == "quick" and ex is not None and "build_error" not in ex and not ctx["broken"] and not ctx["concrete"]:
        budget_tier = "thorough"
        ex = execute(spec, rundir, "thorough", seed)
        if "build_error" not in ex:
            n0 = n
            mism, fails, nontriv, n = analyse(spec, ex)
            n += 0
            if ex["harness_rc"] != 0:
                last = ex["script"][-1] if ex["script"] else "<none>"
                fails.append({"line": len(ex["script"]), "script": last, "impl": "<harness died/hung rc=%s> %s" % (ex["harness_rc"], ex["harness_err"][-600:]),
                              "model": "-", "signature": "crash-or-hang", "what": "the real code crashed the process or did not return on this case"})
            if mism:
                ctx["broken"].append({"layer": "L2", "what": "correspondence %s: %d of %d lines differ between implementation and model" % (spec.harness, len(mism), n),
                                      "first": mism[:5]})
            ctx["concrete"] += fails
    ctx["ex"] = ex

    # ---- pinned synchronisation skeleton (step-level models only, see checklib/skeletons.py)
    try:
        from . import skeletons
        sk = skeletons.SKELETONS.get(pid)
    except Exception:
        sk = None
    if sk:
        funcs = (facts or {}).get("funcs", {})
        bad = []
        for fn, want in sk.items():
            f = funcs.get(fn)
            if f is None:
                bad.append("%s is missing" % fn)
                continue
            got = {"chan_ops": sum(1 for x in f.get("sig", []) if x in ("u<-", "<-")), "go": f.get("gos", 0),
                   "calls": [c for c in f.get("calls", []) if c not in skeletons.IGNORED]}
            if got != want:
                bad.append("%s: now %s, the model transcribes %s" % (fn, got, want))
        cov["sync_skeleton_ok"] = not bad
        if bad:
            ctx["broken"].append({"layer": "L2", "what": "synchronisation skeleton of the anchored code changed: " + "; ".join(bad)[:1500]})

    # ---- property-specific extra phases
    spec.extra(ctx)

    # ---- deepen the search when something broke but no concrete failing input is known yet
    deepened = 0
    if ctx["broken"] and not ctx["concrete"] and spec.harness and ex is not None and "build_error" not in ex:
        # (a) every mismatching case is a candidate: does the implementation violate the property there? (already judged by oracle)
        # (b) thorough-budget runs over derived seeds
        for k in range(3 if tier == "thorough" else 1):
            ex2 = execute(spec, rundir + "-deep", "thorough", seed * 1000 + k + 1, corpus=False)
            if "build_error" in ex2:
                break
            _, f2, _, n2 = analyse(spec, ex2)
            deepened += n2
            if f2:
                ctx["concrete"] += f2
                break

    # ---- classify concrete failures: known finding or violation
    known = [k for k in C.known_findings(pid) if k.get("status") == "known"]
    new_fail, known_hit = [], {}
    for f in ctx["concrete"]:
        hit = next((k for k in known if k.get("signature") == f["signature"]), None)
        if hit:
            known_hit.setdefault(hit["signature"], (hit, f))
        else:
            new_fail.append(f)
    for sig, (k, f) in known_hit.items():
        print("KNOWN-FINDING: property=%s %s [e.g. %s -> %s]" % (pid, k.get("what", sig), f["script"][:200], f["impl"][:200]))

    violations = 0
    if new_fail:
        first = new_fail[0]
        if spec.shrink_sep:
            try:
                first = shrink(spec, first, rundir)
            except Exception as e:  # shrinking is best effort
                C.log("shrink failed: %s" % e)
        by_sig = {}
        for f in [first] + new_fail:
            by_sig.setdefault(f["signature"], f)
        path = C.write_replay(pid, "fail-seed%d" % seed, {
            "property": pid, "kind": "concrete-failing-input", "harness": spec.harness, "tags": spec.tags,
            "cases": list(by_sig.values())[:10], "total_failing_cases": len(new_fail),
            "broken": ctx["broken"][:5], "replay_cmd": "./check %s --replay <this file>" % pid})
        print("VIOLATION property=%s replay=%s" % (pid, path))
        for f in list(by_sig.values())[:3]:
            print("  failing input: %s\n    observed: %s\n    why: %s" % (f["script"][:300], f["impl"][:300], f["what"]))
        violations = len(new_fail)
    elif ctx["broken"]:
        path = C.write_replay(pid, "broken-seed%d" % seed, {
            "property": pid, "kind": "obligation-or-correspondence-broken", "broken": ctx["broken"],
            "cases": [{"script": m["script"], "impl": m["impl"], "model": m["model"]} for m in mism[:20]],
            "searched": {"routine_cases": n, "deepened_cases": deepened},
            "note": "no input was found on which the implementation violates the property itself; the property is no longer shown to hold because the named theorem/correspondence does not check"})
        print("VIOLATION property=%s replay=%s no-failing-input-found" % (pid, path))
        for b in ctx["broken"][:3]:
            print("  broken: [%s] %s" % (b["layer"], b["what"]))
        violations = 1

    # ---- evidence
    rnd = random.Random(seed)
    samples = []
    if ex is not None and "script" in ex and ex["script"]:
        idx = sorted(set([0, len(ex["script"]) - 1] + [rnd.randrange(len(ex["script"])) for _ in range(4)]))
        for i in idx:
            samples.append({"script": ex["script"][i][:400], "impl": (ex["impl"][i] if i < len(ex["impl"]) else "")[:400],
                            "model": (ex["model"][i] if i < len(ex["model"]) else "")[:400]})
    samples += [{"obligation": t["name"], "axioms": t["axioms"]} for t in l1["theorems"][:3]]
    cov.update({
        "obligations": l1["obligations"], "discharged": l1["discharged"],
        "checker_cmd": "cd /verif/lean && lake build Got.Props.%s && lake env lean <generated #print axioms file>%s" % (
            pid, " && lake env leanchecker Got.Props.%s" % pid if tier == "thorough" else ""),
        "trusted_base": ["Lean 4.33.0 kernel" + (" + leanchecker re-check" if tier == "thorough" else ""),
                         "axioms used: " + ", ".join(sorted({a for t in l1["theorems"] for a in t["axioms"]}) or ["none"]),
                         "Lean compiler (driver executable runs the definitions the theorems are about)",
                         "harness/cmd/%s + generators (sampled correspondence)" % spec.harness if spec.harness else "no harness",
                         "tools/srcfacts (constants and literal tables regenerated from source)"] + spec.trusted_base,
        "theorems": l1["theorems"],
        "lean_wall_s": l1.get("wall_s"),
        "evaluations": n + deepened,
        "distinct_nontrivial": nontriv,
        "rule": spec.rule,
        "samples": samples,
        "correspondence": {"lines": n, "mismatches": len(mism), "budget_tier": budget_tier,
                           "distribution": ex.get("stats", {}) if ex else {}},
        "traces_validated_against_impl": n - len(mism),
        "facts": drift,
        "search": {"oracle_failures": len(ctx["concrete"]), "known_finding_hits": len(known_hit), "deepened_cases": deepened},
        "exhaustive": False,
    })
    if "leanchecker" in l1:
        cov["leanchecker_rc"] = l1["leanchecker"]["rc"]
    C.write_evidence(pid, tier, seed, cov, time.time() - t0, violations, spec.assumptions)
    if os.environ.get("VERIF_KEEP") != "1":
        import shutil
        shutil.rmtree(rundir, ignore_errors=True)
        shutil.rmtree(rundir + "-deep", ignore_errors=True)
        shutil.rmtree(rundir + "-confirm", ignore_errors=True)
    if violations == 0:
        print("OK property=%s tier=%s obligations=%d/%d correspondence=%d lines, 0 mismatches, oracle failures=0%s" % (
            pid, tier, l1["discharged"], l1["obligations"], n, " (known findings: %d)" % len(known_hit) if known_hit else ""))
    return 1 if violations else 0
